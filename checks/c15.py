"""C15 — modules: evaluated once, cycles rejected, reloads never stale.

Proofs: coq/theories/Props/C15.v over the executable model coq/theories/Conc/Modules.v
  (fresh evaluation by fuelled DFS; incremental engine = memo table with revisions as query.rs
  configures salsa; `edit` = add_module with or without a new revision for a first definition).
C: harness/src/bin/c15.rs runs edit / evaluate / load_script histories on one long-lived VM per history
  (child processes, watchdog) and compares every evaluation
    (1) with a fresh VM that is given the latest sources              -> `stale`            (the property)
    (2) with the extracted model, result class and set of bodies run  -> correspondence
    (3) with the per-module evaluation counter since the last edit    -> `evaluated-twice`   (the property)
    (4) cycle errors: the named chain must be a genuine import cycle  -> `cycle-chain-*`     (the property)
  The model is run under three add_module policies: `spec` (a first definition starts a revision iff the
  module was requested before: C15_inc_equals_fresh), `always` (every first definition does:
  C15_inc_equals_fresh_always) and `asis` (src/query.rs:213 as it stands, never:
  C15_inc_equals_fresh_asis_refuted / _partial).  The implementation must follow one of the two proved
  policies on every history; a history that deviates and that the `asis` model reproduces exactly is
  the known add_module defect.
"""
import hashlib
import json
import os

from . import common

KEY_VACANT = "stale:add-module-first-definition-no-new-revision"
KEY_CHAIN = "cycle-chain-incomplete"


def hkey(text):
    return hashlib.sha1(text.encode()).hexdigest()[:10]


def segs(line):
    return [s.strip() for s in line.split(" | ")] if line.strip() else []


def parse_seg(seg):
    """`e1 L=i3/1,2 F=i3/1,2` -> (op, (Lres, Lran), (Fres, Fran))"""
    try:
        op, rest = seg.split(" L=", 1)
        l, f = rest.rsplit(" F=", 1)
        lr, lt = l.rsplit("/", 1)
        fr, ft = f.rsplit("/", 1)
        return op, (lr, lt), (fr, ft)
    except ValueError:
        return seg, ("?", "?"), ("?", "?")


def tie(ctx, tier_override=None, tag="tie", extra=()):
    out_dir = os.path.join(ctx.run_dir, tag)
    os.makedirs(out_dir, exist_ok=True)
    for f in ("impl_out.txt", "violations.json", "stats.json", "model_out.txt", "model_asis_out.txt"):
        try:
            os.remove(os.path.join(out_dir, f))
        except FileNotFoundError:
            pass
    if not ctx.build_harness("c15"):
        return None
    model = ctx.build_model("c15")
    if model is None:
        return None
    saved = ctx.tier
    if tier_override:
        ctx.tier = tier_override
    rc, out = ctx.run_harness("c15", out_dir=out_dir, extra=list(extra), timeout=2400)
    ctx.tier = saved
    if rc != 0:
        ctx.log("harness c15 failed:", out[-500:])
        ctx.harness_crash = out[-1500:]
        return None
    p = lambda n: os.path.join(out_dir, n)
    cases = common.read_lines(p("cases.txt"))
    with open(p("model_in_always.txt"), "w") as f:
        for c in cases:
            f.write("always|%s\n" % c)
    if not ctx.run_model(model, p("model_in.txt"), p("model_out.txt")):
        return None
    if not ctx.run_model(model, p("model_in_asis.txt"), p("model_asis_out.txt")):
        return None
    if not ctx.run_model(model, p("model_in_always.txt"), p("model_always_out.txt")):
        return None
    impl = common.read_lines(p("impl_out.txt"))
    spec = common.read_lines(p("model_out.txt"))
    always = common.read_lines(p("model_always_out.txt"))
    # both policies are proved correct; the implementation is held to the one it follows
    nd = lambda a: sum(1 for i in range(len(impl)) if i >= len(a) or a[i] != impl[i])
    d_spec, d_always = nd(spec), nd(always)
    policy = "always" if d_always < d_spec else "spec"
    res = {
        "dir": out_dir,
        "cases": cases,
        "impl": impl,
        "spec": always if policy == "always" else spec,
        "asis": common.read_lines(p("model_asis_out.txt")),
        "violations": json.load(open(p("violations.json"))),
        "stats": json.load(open(p("stats.json"))),
        "policy": policy,
        "policy_diffs": {"spec(new-if-requested)": d_spec, "always": d_always},
    }
    return res


def reproduces(ctx, text, kind):
    """Does the harness still report a violation of `kind` on this history?"""
    rc, out = common.sh([ctx.harness_bin("c15"), "json=1", "history=" + text], timeout=60)
    if rc == 124:
        return kind == "hang"
    if rc != 0:
        return kind in ("crash", "panic")
    try:
        d = json.loads(out.strip().splitlines()[-1])
    except Exception:
        return False
    return any(v.get("kind") == kind for v in d.get("violations", []))


def minimise(ctx, text, kind, budget=60):
    """Greedy one-op-at-a-time reduction of a failing history (keeps the violation kind)."""
    ops = text.split("|")
    changed = True
    while changed and budget > 0:
        changed = False
        for i in range(len(ops)):
            cand = ops[:i] + ops[i + 1:]
            if not any(o.startswith(("eval", "load")) for o in cand):
                continue
            budget -= 1
            if budget <= 0:
                break
            if reproduces(ctx, "|".join(cand), kind):
                ops = cand
                changed = True
                break
    return "|".join(ops)


def analyse(ctx, res):
    """Decide every disagreement.  Returns (findings, n_model_mismatch, summary)."""
    cases, impl, spec, asis = res["cases"], res["impl"], res["spec"], res["asis"]
    n = len(cases)
    by_hist = {}
    for v in res["violations"]:
        by_hist.setdefault(v.get("history_index", -1), []).append(v)
    findings = []  # (key, what, case, expected, observed, extra)
    explained = []  # histories whose deviation from spec the as-is model reproduces exactly
    mismatch = []  # model / implementation disagreements that are not property violations
    raw_unexplained = []  # property violations the as-is model does not explain: minimised below
    n_diff_spec = 0
    for i in range(n):
        il = impl[i] if i < len(impl) else "<missing>"
        sl = spec[i] if i < len(spec) else "<missing>"
        al = asis[i] if i < len(asis) else "<missing>"
        hv = by_hist.get(i, [])
        kinds = set(v["kind"] for v in hv)
        if il != sl:
            n_diff_spec += 1
        stale = "stale" in kinds
        if il != sl and il == al:
            # exactly the behaviour of add_module without a new revision for a first definition
            explained.append((i, stale))
        elif stale:
            raw_unexplained.append((i, "stale", sl, il, [v for v in hv if v["kind"] == "stale"][:3]))
        elif il != sl and not kinds & {"hang", "crash"}:
            mismatch.append((i, cases[i], sl, il))
        for v in hv:
            k = v["kind"]
            if k == "evaluated-twice":
                if not any(u[0] == i and u[1] == k for u in raw_unexplained):
                    raw_unexplained.append((i, k, sl, il, [v]))
            elif k == "hang":
                raw_unexplained.append((i, k, sl, "<hang>", [v]))
            elif k in ("crash", "panic"):
                # a tokio-spawner VM evaluates the import tasks of one run_expr concurrently on the same
                # Gluon thread (the C14 finding `async VM runs two module bodies on one thread`); key
                # those crashes by that class so that they are recognised, other crashes by history
                kkey = (k + ":async-vm-concurrent-imports") if cases[i].startswith("async|") else (k + ":" + hkey(cases[i]))
                findings.append((kkey, "history `%s`: the VM %s" % (cases[i], "process died" if k == "crash" else "panicked"),
                                 {"history": cases[i]}, sl, il, {"harness": v}))
            elif k == "cycle-chain-wrong":
                findings.append(("cycle-chain-wrong:" + hkey(cases[i]),
                                 "history `%s`: the cyclic-dependency error names `%s`, which is not an import cycle of the sources"
                                 % (cases[i], v.get("chain")), {"history": cases[i]}, "a genuine import cycle (C15_cycle_reported)", v.get("chain"), {"harness": v}))
    # unexplained property violations: shortest first, the first few minimised, one finding per minimal history
    raw_unexplained.sort(key=lambda u: (len(cases[u[0]].split("|")), u[0]))
    label = {"stale": "stale", "evaluated-twice": "evaluated-twice", "hang": "cycle-hang"}
    seen_min = set()
    for n_done, (i, kind, sl, il, hv) in enumerate(raw_unexplained):
        text = cases[i]
        if n_done < 8:
            text = minimise(ctx, text, kind)
        key = label[kind] + ":" + hkey(text)
        if key in seen_min:
            continue
        seen_min.add(key)
        if kind == "stale":
            what = ("history `%s` (minimised from `%s`): the long-lived VM answers differently from a fresh VM given the latest sources "
                    "(implementation: %s; model: %s)" % (text, cases[i], il, sl))
        elif kind == "evaluated-twice":
            what = "history `%s` (minimised from `%s`): a module body ran more than once without an edit in between (%s)" % (text, cases[i], il)
        else:
            what = "history `%s` (minimised from `%s`) did not finish within the watchdog time (hang)" % (text, cases[i])
        findings.append((key, what, {"history": text, "original": cases[i]}, sl, il, {"harness": hv}))
    # the two standing defects are reported once each, on their shortest history
    chain_hist = sorted(((len(cases[v["history_index"]].split("|")), v["history_index"], v) for v in res["violations"] if v["kind"] == "cycle-chain-incomplete"),
                        key=lambda t: (t[0], t[1]))
    if chain_hist:
        _, i, v = chain_hist[0]
        findings.append((KEY_CHAIN,
                         "history `%s`: the CyclicDependency error of the %s VM names `%s`; every named module is on an import cycle but "
                         "members of the cycle are left out, so the chain is not an import chain of the sources (%d histories)"
                         % (cases[i], v.get("vm"), v.get("chain"), len(set(t[1] for t in chain_hist))),
                         {"history": cases[i]}, "a genuine import cycle: each member imports the next (C15_cycle_reported)", v.get("chain"),
                         {"harness": v, "histories": len(set(t[1] for t in chain_hist))}))
    stale_expl = sorted((len(cases[i].split("|")), i) for (i, st) in explained if st)
    if stale_expl:
        _, i = stale_expl[0]
        findings.append((KEY_VACANT,
                         "history `%s`: a module that was imported before it existed is then defined with add_module/load_script; the VM keeps "
                         "answering from the memoised failure (%s) where a fresh VM answers differently; reproduced exactly by the model of "
                         "add_module without a new revision (C15_inc_equals_fresh_asis_refuted), %d stale histories"
                         % (cases[i], impl[i], len(stale_expl)),
                         {"history": cases[i]}, spec[i], impl[i], {"histories": len(stale_expl)}))
    summary = {"histories": n, "reference_policy": res.get("policy"), "lines_differing_per_policy": res.get("policy_diffs"),
               "differ_from_spec_model": n_diff_spec, "explained_by_asis_model": len(explained),
               "stale_explained": len(stale_expl), "model_mismatch": len(mismatch),
               "harness_violation_kinds": sorted(set(v["kind"] for v in res["violations"]))}
    return findings, mismatch, summary


def record(ctx, res, findings, mismatch, summary, first):
    st = res["stats"]
    cov = ctx.coverage
    cov["evaluations"] = cov.get("evaluations", 0) + st["evaluations"]
    cov["distinct_nontrivial"] = cov.get("distinct_nontrivial", 0) + st["distinct_nontrivial"]
    cov["traces_validated_against_impl"] = cov.get("traces_validated_against_impl", 0) + len(res["cases"])
    if first:
        cov["rule"] = st["rule"]
        cov["input_distribution"] = st["hist"]
        cov["exhaustive"] = True
        cov["exhaustive_bound"] = st["exhaustive_bound"]
        cov["histories"] = st["histories"]
        cov["exhaustive_histories"] = st["exhaustive_histories"]
        cov["harness_wall_s"] = st["harness_wall_s"]
        cov["tie_summary"] = summary
        idx = [i for i in (3, 40, len(res["cases"]) // 3, len(res["cases"]) // 2, len(res["cases"]) - 7) if 0 <= i < len(res["cases"])]
        cov["samples"] = [{"history": res["cases"][i], "impl": res["impl"][i], "model": res["spec"][i]} for i in idx]


def run(ctx):
    proved = ctx.coq_prove("C15")
    res = tie(ctx)
    findings, mismatch, summary = ([], [], {})
    if res is not None:
        findings, mismatch, summary = analyse(ctx, res)
        record(ctx, res, findings, mismatch, summary, True)
        ctx.log("tie:", json.dumps(summary))
    ran = res is not None
    stale = [f for f in findings if f[0].startswith("stale:")]
    ctx.obligations.append(common.Obligation(
        "correspondence:module-engine", "correspondence", ran and not mismatch,
        ("%d histories; %d lines differ from the spec model, %d of them reproduced exactly by the as-is model (known add_module defect), "
         "%d unexplained model/implementation disagreements" % (summary.get("histories", 0), summary.get("differ_from_spec_model", 0),
                                                                summary.get("explained_by_asis_model", 0), len(mismatch))) if ran else "could not run"))
    ctx.obligations.append(common.Obligation(
        "property:long-lived-vm-equals-fresh-vm", "correspondence", ran and not stale,
        "%d stale evaluation classes" % len(stale) if ran else "could not run"))
    ctx.obligations.append(common.Obligation(
        "property:evaluated-once-no-hang-genuine-cycle", "correspondence",
        ran and not [f for f in findings if not f[0].startswith("stale:")],
        ", ".join(sorted(set(f[0].split(":")[0] for f in findings if not f[0].startswith("stale:")))) if ran else "could not run"))
    ctx.trusted.append("harness/src/bin/c15.rs: history generators, Gluon text of a module (imports + `tick`), error-message classifier "
                       "(missing / type error by file of the diagnostic / cyclic), watchdog; coq/extract/c15/driver.ml (parsing, sorting of causes)")
    ctx.trusted.append("gluon-salsa (the query engine itself) is not modelled: the model states its observable policy (reuse iff verified in the "
                       "current revision) and the tie checks it through results and the exact set of bodies run")
    ctx.assumptions.append("module texts are abstracted to (imports, Int|String, number); module values are Int sums or Strings; the import! of every "
                           "listed module is expanded even when an earlier one failed (vm/src/macros.rs:478)")
    ctx.assumptions.append("results are compared up to: which cycle is named (any genuine cycle), order and multiplicity of root causes")
    ctx.assumptions.append("sources are (re)defined through CompilationBase::add_module and ThreadExt::load_script, evaluated through run_expr `import! m`; "
                           "file-backed modules and Executable::load_script are not exercised; VM built with VmBuilder::new().build() (no tokio spawner)")
    seen = set()
    per_class = {}
    for (key, what, case, expected, observed, extra) in findings:
        cls = key.split(":")[0]
        if key in seen:
            continue
        seen.add(key)
        per_class[cls] = per_class.get(cls, 0) + 1
        if per_class[cls] > 6:
            continue
        ctx.violation(key, what, case=case, expected=expected, observed=observed, extra=extra)
    broken = [o for o in ctx.obligations if not o.ok and o.kind in ("theorem", "translator", "audit")]
    if mismatch or broken or not ran:
        # a proof or the correspondence is broken: if no failing input of the property is known yet, widen the search
        if ran and ctx.tier != "thorough" and not findings:
            res2 = tie(ctx, tier_override="thorough", tag="search")
            if res2 is not None:
                f2, m2, s2 = analyse(ctx, res2)
                record(ctx, res2, f2, m2, s2, False)
                for (key, what, case, expected, observed, extra) in f2[:6]:
                    ctx.violation(key, what, case=case, expected=expected, observed=observed, extra=extra)
                mismatch = mismatch or m2
        names = [o.name for o in broken]
        if mismatch:
            names.append("correspondence:module-engine")
        if not ran:
            names.append("correspondence:module-engine (could not run: %s)" % str(getattr(ctx, "build_error", getattr(ctx, "harness_crash", "?")))[:300])
        for nm in names[:5]:
            ctx.violation("obligation:" + nm, "obligation no longer checks: " + nm, obligation=nm, no_input=True,
                          extra={"detail": [o.detail for o in broken if o.name == nm],
                                 "model_mismatch_samples": [{"history": c, "model": s, "impl": i} for (_, c, s, i) in mismatch[:8]]})


def replay(ctx, path):
    if not ctx.build_harness("c15"):
        return 2
    rc, out = common.sh([ctx.harness_bin("c15"), "--replay", path], timeout=300)
    print(out)
    return 0
