"""C04 — optimisation never changes what a program does.

Proofs: coq/theories/Props/C04.v (`valid_opt_sound`, `droppable_pure`, non-vacuity examples) over
        the core-IR model coq/theories/Lang/Core.v and the validator Lang/OptValid.v.
V: the extracted `valid_opt` runs on the real core IR before/after `core::optimize::optimize`
   of corpus programs, generated programs, tests/optimize/*.glu and every std module; the pair is
   cross-checked against what the compiler pipeline produces with Settings::optimize off/on.
C: every program runs on two VMs (optimize off/on): value, error class and extern call log must be
   equal up to the permitted arithmetic exception; the extracted `eval_core` must reproduce both
   runs on both IR trees.
"""
import json
import os
import re

from . import common

SHAPE_WHAT = {
    "projection-callee": "a call whose callee is a record field (`r.f x`, `module.f x`)",
    "ident-callee": "a direct call `f x`",
    "lambda-callee": "a call whose callee is a lambda (`(\\x -> ..) y`)",
    "match-callee": "a call whose callee is chosen by `if`/`match`",
    "let-callee": "a call whose callee is a `let` expression",
    "call-callee": "a call whose callee is itself the result of a call through a non-identifier",
    "cast-callee": "a call whose callee carries a type annotation",
    "unmatched-pattern-default": "the `Unmatched pattern` failure of a non-exhaustive match",
}


def shape_of(diag):
    """`reject drop:44:projection-callee` -> ('opt-drops-call', 'projection-callee')"""
    m = re.match(r"reject (drop|drop-field|drop-match):(?:\d+:)?([a-z-]+)$", diag)
    if m:
        return "opt-drops-call", m.group(2)
    m = re.match(r"reject drop-rec-value:([a-z-]+)$", diag)
    if m:
        return "opt-drops-rec-value", m.group(1)
    m = re.match(r"reject (.*)$", diag)
    return "opt-rewrite", (m.group(1) if m else diag).replace(" ", "_")


def tie(ctx, tag="tie", tier=None, extra=()):
    out_dir = os.path.join(ctx.run_dir, tag)
    os.makedirs(out_dir, exist_ok=True)
    for f in ("model_in.txt", "impl_out.txt", "cases.txt", "behav.jsonl", "stats.json", "model_out.txt"):
        try:
            os.remove(os.path.join(out_dir, f))
        except FileNotFoundError:
            pass
    if not ctx.build_harness("c04"):
        return None
    model = ctx.build_model("c04")
    if model is None:
        return None
    saved = ctx.tier
    if tier:
        ctx.tier = tier
    rc, out = ctx.run_harness("c04", out_dir=out_dir, extra=list(extra), timeout=2400)
    ctx.tier = saved
    if rc != 0:
        ctx.log("harness c04 failed:", out[-500:])
        ctx.harness_crash = out[-1500:]
        return None
    if not ctx.run_model(model, os.path.join(out_dir, "model_in.txt"), os.path.join(out_dir, "model_out.txt")):
        return None
    cases = [json.loads(l) for l in common.read_lines(os.path.join(out_dir, "cases.txt"))]
    mo = common.read_lines(os.path.join(out_dir, "model_out.txt"))
    io = common.read_lines(os.path.join(out_dir, "impl_out.txt"))
    stats = json.load(open(os.path.join(out_dir, "stats.json")))
    behav = [json.loads(l) for l in common.read_lines(os.path.join(out_dir, "behav.jsonl")) if l.strip()]
    res = {"cases": cases, "stats": stats, "behav": behav, "rejected": [], "eval_diff": [], "n": len(cases), "diag": {},
           "complete": len(mo) == len(cases) == len(io), "rewrites": {}}
    for i, c in enumerate(cases):
        m = mo[i] if i < len(mo) else "<missing>"
        im = io[i] if i < len(io) else "<missing>"
        if c["kind"] == "V":
            res["diag"][c["name"]] = m
            if m != im:
                res["rejected"].append((c, m))
        elif c["kind"] == "C":
            # which rewrites the accepted pair of a std module uses (evidence)
            mm = re.match(r"counts R1=(\d+) R2=(\d+) R3=(\d+) R4=(\d+)$", m)
            if mm:
                res["rewrites"][c["name"]] = [int(x) for x in mm.groups()]
        elif m != im:
            res["eval_diff"].append((c, m, im))
    return res


def report(ctx, res, seen_keys):
    """Turn behavioural differences into violations (one per rewrite shape); returns the shapes witnessed."""
    witnessed = set()
    by_key = {}
    for b in res["behav"]:
        diag = res["diag"].get(b["shrunk_name"]) or res["diag"].get(b["name"]) or "accept"
        if b.get("kind") == "debug-info":
            kind, shape, diag = "debug-info-changes-behaviour", "emit_debug_info", "n/a"
        else:
            kind, shape = shape_of(diag) if diag != "accept" else ("opt-behaviour-unexplained", "accepted-by-valid_opt")
        key = "%s:%s" % (kind, shape)
        witnessed.add(shape)
        cur = by_key.get(key)
        if cur is None or len(b["shrunk_source"]) < len(cur[0]["shrunk_source"]):
            by_key[key] = (b, shape, diag)
    for key, (b, shape, diag) in sorted(by_key.items()):
        if key in seen_keys:
            continue
        seen_keys.add(key)
        if kind == "debug-info-changes-behaviour":
            what = "Settings::emit_debug_info changes what a program does: %s versus %s" % (b["shrunk_off"], b["shrunk_on"])
        elif kind == "opt-drops-rec-value":
            what = ("optimisation changes behaviour: an unused recursive value binding (`rec let r = { .. }`) is dropped although "
                    "constructing it contains %s; unoptimised run: %s, optimised run: %s"
                    % (SHAPE_WHAT.get(shape, shape), b["shrunk_off"], b["shrunk_on"]))
        else:
            what = ("optimisation changes behaviour: with Settings::optimize on, a binding whose result is unused is dropped "
                    "although it contains %s; unoptimised run: %s, optimised run: %s"
                    % (SHAPE_WHAT.get(shape, shape), b["shrunk_off"], b["shrunk_on"]))
        ctx.violation(key, what, case={"source": b["shrunk_source"]}, expected=b["shrunk_off"], observed=b["shrunk_on"],
                      extra={"valid_opt": diag, "original_case": b["name"], "original_source": b["source"],
                             "rule": "dead_code.rs DepGraph: only Call(Ident ..) marks the enclosing binding as used"})
    return witnessed


def run(ctx):
    proved = ctx.coq_prove("C04")
    res = tie(ctx)
    seen = set()
    if res is None:
        for nm in ("validator:valid_opt-on-real-ir", "correspondence:core-eval", "correspondence:optimize-on-off",
                   "correspondence:pipeline-ir"):
            ctx.obligations.append(common.Obligation(nm, "correspondence", False, "could not run: %s" % (
                getattr(ctx, "build_error", getattr(ctx, "harness_crash", "?"))[:300])))
        ctx.violation("obligation:correspondence:c04-harness", "the C04 tie could not be run", obligation="correspondence:c04",
                      no_input=True, extra={"detail": getattr(ctx, "build_error", getattr(ctx, "harness_crash", "?"))[:1500]})
        return
    st = res["stats"]
    nV = sum(1 for c in res["cases"] if c["kind"] == "V")
    nE = res["n"] - nV
    ctx.obligations.append(common.Obligation(
        "validator:valid_opt-on-real-ir", "correspondence", not res["rejected"] and res["complete"],
        "%d IR pairs (%d changed by the optimiser; %d std modules), %d rejected" % (
            nV, st["ir_pairs_changed_by_optimiser"], st["hist"].get("family:std-module", 0), len(res["rejected"]))))
    ctx.obligations.append(common.Obligation(
        "correspondence:core-eval", "correspondence", not res["eval_diff"] and res["complete"],
        "%d runs (optimize off and on) reproduced by eval_core on the IR, %d disagreements" % (nE, len(res["eval_diff"]))))
    ctx.obligations.append(common.Obligation(
        "correspondence:optimize-on-off", "correspondence", not res["behav"],
        "%d programs run with Settings::optimize off/on x emit_debug_info on/off (4 VMs), %d behavioural differences "
        "(%d permitted arithmetic differences, %d programs with identical outcomes under both debug-info settings)" % (
            st["programs"], len(res["behav"]), st["hist"].get("behaviour:permitted-arith-difference", 0),
            st["hist"].get("debug-info:same-outcome", 0))))
    ctx.obligations.append(common.Obligation(
        "correspondence:pipeline-ir", "correspondence", not st["pipeline_mismatch"],
        "the validated IR pair equals the pipeline's core_expr with Settings::optimize off/on; mismatches: %s" % (
            "; ".join(st["pipeline_mismatch"][:3]) or "none")))

    cov = ctx.coverage
    cov["evaluations"] = st["evaluations"]
    cov["distinct_nontrivial"] = st["distinct_nontrivial"]
    cov["rule"] = st["rule"]
    cov["input_distribution"] = st["hist"]
    cov["traces_validated_against_impl"] = nE
    cov["ir_pairs_validated"] = nV
    cov["ir_nodes"] = st["ir_nodes"]
    cov["std_modules_not_compiled"] = st["skipped"][:10]
    cov["exhaustive"] = False
    # the validator is exercised by real optimisations: rewrites used by the accepted std / tests pairs
    tot = [0, 0, 0, 0]
    for v in res["rewrites"].values():
        tot = [a + b for a, b in zip(tot, v)]
    cov["std_rewrite_histogram"] = {
        "R1_dead_binding": tot[0], "R2_dead_rec_member": tot[1], "R3_unnecessary_allocation": tot[2],
        "R4_dead_record_match": tot[3], "modules": len(res["rewrites"]),
        "modules_using_some_rewrite": sum(1 for v in res["rewrites"].values() if any(v)),
        "top_modules": sorted(((k, v) for k, v in res["rewrites"].items()), key=lambda kv: -sum(kv[1]))[:8],
    }
    cov["rec_value_groups"] = sum(1 for c in res["cases"] if c["kind"] == "V" and "rec let" in c["source"])
    samples = []
    for i in (0, 3, len(res["cases"]) // 2, len(res["cases"]) - 1):
        if 0 <= i < len(res["cases"]):
            c = res["cases"][i]
            samples.append({"kind": c["kind"], "name": c["name"], "source": c["source"][:600]})
    cov["samples"] = samples
    ctx.trusted.append("harness/src/bin/c04.rs: program generator and printer, core-IR serialiser (symbols by identity; record "
                       "field names and variant tags from the node's type), outcome canonicaliser, host function `c04.host.eff`")
    ctx.trusted.append("coq/extract/c04/driver.ml: s-expression reader, value printer, diagnosis of rejections (labels only)")
    ctx.assumptions.append("EStuck (unbound variable, applying a non-function, ...) is what type-correct programs never reach; "
                           "the theorem lets the optimised program do anything once the unoptimised one is stuck")
    ctx.assumptions.append("recursive value bindings (a `rec` member without parameters) are evaluated once when the group is made "
                           "(effects and failures happen there) and unfolded on demand afterwards; a member that is called or "
                           "inspected by a later member while the group is being made must already be initialised, as gluon's "
                           "recursion check demands")
    ctx.assumptions.append("float arithmetic is a parameter of the evaluator (the theorem holds for every interpretation)")
    ctx.assumptions.append("the inliner is compiled out (const INLINE = false, optimize.rs:307); valid_opt rejects its rewrites")

    witnessed = report(ctx, res, seen)

    # validator rejections not yet explained by a behavioural difference of the same shape
    unexplained = {}
    for (c, m) in res["rejected"]:
        kind, shape = shape_of(m)
        if shape not in witnessed:
            unexplained.setdefault((kind, shape), []).append(c["name"])
    broken = [o for o in ctx.obligations if not o.ok and o.kind in ("theorem", "audit")]
    need_search = bool(unexplained) or bool(broken) or bool(res["eval_diff"]) or bool(st["pipeline_mismatch"])
    if need_search and ctx.tier != "thorough":
        # search: the thorough generator around the broken item
        ctx.log("search: widening to the thorough generator")
        res2 = tie(ctx, tag="search", tier="thorough", extra=["only=corpus,gen"])
        if res2 is not None:
            witnessed |= report(ctx, res2, seen)
            for k in list(unexplained):
                if k[1] in witnessed:
                    del unexplained[k]
    # every rejection ends in a behavioural witness of its rewrite or in no-failing-input-found
    acct = {}
    for (c, m) in res["rejected"]:
        kind, shape = shape_of(m)
        a = acct.setdefault("%s:%s" % (kind, shape), {"rejected_pairs": 0, "resolution": None, "examples": []})
        a["rejected_pairs"] += 1
        if len(a["examples"]) < 3:
            a["examples"].append(c["name"])
        a["resolution"] = "behavioural witness reported" if shape in witnessed else "no-failing-input-found"
    cov["rejections_by_rewrite"] = acct
    for (kind, shape), names in sorted(unexplained.items()):
        ctx.violation("obligation:valid_opt:%s:%s" % (kind, shape),
                      "valid_opt rejects the optimiser's output (%s) for %d IR pair(s), e.g. %s; no program with a different "
                      "behaviour was found" % (shape, len(names), ", ".join(names[:5])),
                      obligation="validator:valid_opt-on-real-ir", no_input=True, extra={"pairs": names[:50]})
    if res["eval_diff"] and not res["behav"]:
        c, m, im = res["eval_diff"][0]
        ctx.violation("obligation:correspondence:core-eval",
                      "eval_core and the VM disagree on %d run(s), first: %s model %s vm %s" % (len(res["eval_diff"]), c["name"], m, im),
                      obligation="correspondence:core-eval", no_input=True, extra={"source": c["source"], "model": m, "vm": im})
    if st["pipeline_mismatch"]:
        ctx.violation("obligation:correspondence:pipeline-ir",
                      "the compiler pipeline does not use the IR that was validated: %s" % "; ".join(st["pipeline_mismatch"][:3]),
                      obligation="correspondence:pipeline-ir", no_input=True)
    if broken and not ctx.violations:
        for o in broken[:5]:
            ctx.violation("obligation:" + o.name, "obligation no longer checks: " + o.name, obligation=o.name, no_input=True,
                          extra={"detail": o.detail})


def replay(ctx, path):
    if not ctx.build_harness("c04"):
        return 2
    rc, out = common.sh([ctx.harness_bin("c04"), "--replay", path])
    print(out)
    return rc
