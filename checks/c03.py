"""C03 — type inference is complete and principal on the ML fragment.

Proofs: coq/theories/Props/C03.v (unification sound / most general, algorithm W sound and principal,
        verified instance check used for triage).
C:      extracted `infer_top` (algorithm W with Gluon-style rows, coq/theories/Lang/Infer.v) vs
        `ThreadExt::typecheck_str` (implicit prelude off) on generated closed terms of the ML
        fragment, typable and untypable; the reported type is rendered with Display, re-parsed by the
        harness and compared in canonical form (quantifiers floated out, record fields sorted,
        variables numbered by first occurrence).  The three metamorphic clauses of the property
        (alpha-renaming, annotating with the reported type, adding an unused binding) are applied to
        the implementation.
Triage: every disagreement is classified by the extracted, verified `alpha_eq` / `instance_of`.
"""
import collections
import json
import os
import re

from . import common

# verdicts that contradict the property (completeness / principality of the reported type)
VIOLATING = ("rejects-typable", "not-principal", "more-general", "incomparable")
WHAT = {
    "rejects-typable": "a term typable in HM + rows (the verified algorithm W types it) is rejected",
    "not-principal": "the reported type is a strict instance of the principal type",
    "more-general": "the reported type is strictly more general than the principal type (it is not a type of the term)",
    "incomparable": "the reported type is neither an instance nor a generalisation of the principal type",
}
# Names used in violation keys.  The two standing deviations of gluon (row tails left unrelated,
# record fields generalised in place and compared after floating the quantifiers out) only ever make
# the reported type MORE GENERAL than the principal one; a reported type that is an instance of the
# principal type or incomparable with it is a wrong type whatever the term contains, and gets a key
# of its own so that it can never fall under a known finding about those deviations.
KEY_NAME = {"not-principal": "wrong-type-instance", "incomparable": "wrong-type-incomparable"}
MAX_PER_GROUP = 3


def error_class(raw):
    if "may not be used recursively" in raw:
        return "recursion-check"
    if "Unexpected token" in raw or "Unexpected end" in raw:
        return "parse"
    if "process aborted" in raw:
        return "crash"
    if raw.startswith("panic"):
        return "panic"
    if "Expected the following types to be equal" in raw:
        return "unify"
    if "Undefined" in raw:
        return "undefined"
    return "other"


def tie(ctx, tier_override=None, tag="tie", extra=()):
    """Run the correspondence.  Returns dict(ran, n, disagreements=[...], meta=[...], stats)."""
    out_dir = os.path.join(ctx.run_dir, tag)
    os.makedirs(out_dir, exist_ok=True)
    res = {"ran": False, "n": 0, "dis": [], "meta": [], "stats": {}}
    if not ctx.build_harness("c03"):
        return res
    model = ctx.build_model("c03")
    if model is None:
        return res
    saved = ctx.tier
    if tier_override:
        ctx.tier = tier_override
    rc, out = ctx.run_harness("c03", out_dir=out_dir, extra=list(extra))
    ctx.tier = saved
    if rc != 0:
        ctx.log("harness c03 failed:", out[-500:])
        ctx.harness_crash = out[-1500:]
        return res
    if not ctx.run_model(model, os.path.join(out_dir, "model_in.txt"), os.path.join(out_dir, "model_out.txt")):
        return res
    rd = lambda f: common.read_lines(os.path.join(out_dir, f))
    mi, mo, io, cases, raw, tags = rd("model_in.txt"), rd("model_out.txt"), rd("impl_out.txt"), rd("cases.txt"), rd("impl_raw.txt"), rd("tags.txt")
    stats = json.load(open(os.path.join(out_dir, "stats.json")))
    n = len(mi)
    if not (len(mo) == len(io) == len(cases) == n):
        ctx.log("line counts differ: model_in %d model_out %d impl_out %d cases %d" % (n, len(mo), len(io), len(cases)))
        ctx.harness_crash = "line counts differ"
        return res
    bad = [i for i in range(n) if mo[i] != io[i]]
    # triage by the verified checker: `<term> ;; <impl result>` -> verdict
    verdicts = {}
    if bad:
        tin = os.path.join(out_dir, "triage_in.txt")
        tout = os.path.join(out_dir, "triage_out.txt")
        with open(tin, "w") as f:
            for i in bad:
                im = io[i] if (io[i].startswith("T ") and "?unparsed" not in io[i]) else "REJECT"
                f.write("%s ;; %s\n" % (mi[i], im))
        if not ctx.run_model(model, tin, tout):
            return res
        tv = common.read_lines(tout)
        for i, v in zip(bad, tv):
            verdicts[i] = v
    dis = []
    for i in bad:
        v = verdicts.get(i, "?")
        if io[i].startswith("T ") and "?unparsed" in io[i]:
            v = "unparsed-type"
        elif io[i] in ("CRASH", "PANIC"):
            v = "rejects-typable" if mo[i].startswith("T ") else "crash-on-untypable"
        dis.append({"index": i, "source": cases[i], "term": mi[i], "model": mo[i], "impl": io[i], "raw": raw[i], "tags": tags[i], "verdict": v})
    meta = []
    for line in rd("meta.txt"):
        p = line.split("\t")
        if len(p) >= 7:
            meta.append({"kind": p[0], "tags": p[1], "source": p[2], "result": p[3], "variant_source": p[4], "variant_result": p[5], "variant_raw": p[6]})
    res.update({"ran": True, "n": n, "dis": dis, "meta": meta, "stats": stats, "mo": mo, "cases": cases, "io": io})
    return res


def report(ctx, r):
    """Turn classified disagreements into violations / notes.  Returns number of violating disagreements."""
    groups = collections.OrderedDict()
    notes = collections.Counter()
    note_samples = collections.defaultdict(list)
    nviol = 0
    for d in r["dis"]:
        v = d["verdict"]
        if v in VIOLATING:
            nviol += 1
            cause = d["tags"]
            if v == "rejects-typable":
                cause = error_class(d["raw"]) + "/" + d["tags"]
            groups.setdefault((v, cause), []).append(d)
        elif v in ("accepts-untypable", "crash-on-untypable"):
            notes[v] += 1
            if len(note_samples[v]) < 8:
                note_samples[v].append({"source": d["source"], "impl": d["impl"], "raw": d["raw"][:200]})
        else:
            # agree (cannot happen here), fuel, driver-error, unparsed-type: the machinery cannot decide
            nviol += 1
            groups.setdefault(("undecided-" + v.split()[0], d["tags"]), []).append(d)
    for (v, cause), ds in groups.items():
        ds.sort(key=lambda d: (len(d["source"]), d["source"]))
        for d in ds[:MAX_PER_GROUP]:
            ctx.violation(
                "%s:%s:%s" % (KEY_NAME.get(v, v), cause, d["source"]),
                "`%s`: %s (model: %s; gluon: %s)" % (d["source"], WHAT.get(v, "model and implementation disagree and the triage could not decide (%s)" % v), d["model"], d["impl"] + " [" + d["raw"][:160] + "]"),
                case={"source": d["source"], "term": d["term"]},
                expected=d["model"],
                observed=d["impl"],
                extra={"verdict": v, "cause": cause, "same_group": len(ds), "gluon_output": d["raw"][:400]},
            )
    mgroups = collections.OrderedDict()
    for m in r["meta"]:
        mgroups.setdefault((m["kind"], error_class(m["variant_raw"]) + "/" + m["tags"]), []).append(m)
    for (kind, cause), ms in mgroups.items():
        ms.sort(key=lambda m: (len(m["source"]), m["source"]))
        for m in ms[:MAX_PER_GROUP]:
            what = {
                "meta-alpha": "renaming bound variables changes acceptance or the reported type",
                "meta-annot": "annotating the expression with the type gluon reported for it changes acceptance or the reported type",
                "meta-unused": "adding an unused let binding changes acceptance or the reported type",
            }.get(kind, kind)
            ctx.violation(
                "%s:%s:%s" % (kind, cause, m["source"]),
                "`%s`: %s (before: %s; after: %s)" % (m["source"], what, m["result"], m["variant_result"] + " [" + m["variant_raw"][:160] + "]"),
                case={"source": m["source"], "variant_source": m["variant_source"]},
                expected=m["result"],
                observed=m["variant_result"],
                extra={"same_group": len(ms), "gluon_output": m["variant_raw"][:400]},
            )
    ctx.coverage["disagreement_groups"] = {"%s:%s" % k: len(v) for k, v in groups.items()}
    ctx.coverage["metamorphic_groups"] = {"%s:%s" % k: len(v) for k, v in mgroups.items()}
    ctx.coverage["forwarded_to_C02_C09"] = {"counts": dict(notes), "samples": dict(note_samples),
                                            "meaning": "accepts-untypable: gluon accepts a term the model rejects (soundness matter, not a C03 clause); crash-on-untypable: the type checker aborts the process on an untypable term (C09)"}
    return nviol + len(r["meta"])


def fill_coverage(ctx, r):
    stats = r["stats"]
    ctx.coverage["evaluations"] = ctx.coverage.get("evaluations", 0) + stats["evaluations"]
    ctx.coverage["typechecks_including_metamorphic_variants"] = ctx.coverage.get("typechecks_including_metamorphic_variants", 0) + stats["typechecks"]
    ctx.coverage["distinct_nontrivial"] = ctx.coverage.get("distinct_nontrivial", 0) + stats["distinct_nontrivial"]
    ctx.coverage["rule"] = stats["rule"]
    ctx.coverage["input_distribution"] = stats["hist"]
    ctx.coverage["exhaustive"] = True
    ctx.coverage["exhaustive_bound"] = "all closed terms with <= %d nodes and <= %d nested binders over the alphabet {1, \"s\", variables, lambda, application, let, if, #Int==, pair, {a=e}, {a=e,b=e}, e.a, e.b}: %d terms" % (
        stats["exhaustive_maxsize"], stats["exhaustive_maxdepth"], stats["exhaustive_count"])
    ctx.coverage["traces_validated_against_impl"] = ctx.coverage.get("traces_validated_against_impl", 0) + r["n"]
    ctx.coverage["metamorphic_checks"] = stats["meta_checks"]
    mo, cases, io = r["mo"], r["cases"], r["io"]
    typable = [i for i in range(len(mo)) if mo[i].startswith("T ")]
    picks = [typable[k] for k in (len(typable) // 7, len(typable) // 3, len(typable) // 2, (3 * len(typable)) // 4, len(typable) - 1) if typable]
    rej = [i for i in range(len(mo)) if mo[i] == "REJECT"]
    picks += rej[len(rej) // 2: len(rej) // 2 + 2]
    ctx.coverage["samples"] = [{"source": cases[i], "model": mo[i], "impl": io[i]} for i in picks]
    ctx.coverage["model_typable"] = len(typable)
    ctx.coverage["model_untypable"] = len(rej)


def run(ctx):
    ctx.coq_prove("C03")
    r = tie(ctx)
    nbad = 0
    if r["ran"]:
        fill_coverage(ctx, r)
        nbad = report(ctx, r)
    ctx.obligations.append(common.Obligation(
        "correspondence:infer-vs-typecheck_str", "correspondence", r["ran"] and not r["dis"],
        "%d terms, %d disagreements (%s)" % (r["n"], len(r["dis"]), dict(collections.Counter(d["verdict"] for d in r["dis"])))))
    ctx.obligations.append(common.Obligation(
        "metamorphic:alpha-annot-unused", "correspondence", r["ran"] and not r["meta"],
        "%d variant checks, %d changed acceptance or type" % (r["stats"].get("meta_checks", 0), len(r["meta"]))))
    ctx.trusted.append("harness/src/bin/c03.rs: term generators, Gluon printer, parser/canonicaliser of Display-ed types (floats quantifiers out, sorts record fields); coq/extract/c03/driver.ml: term/type reader and printer")
    ctx.assumptions.append("the declarative system is HM with let-polymorphism for every let (no value restriction, as gluon) and rows: records are rows, tuples are records with fields _0,_1,...; row equality is up to field order, except that the algorithm (like unify_type.rs:497) refuses to unify two closed rows with different field order")
    ctx.assumptions.append("principality/completeness are proved against derivations that use syntactic row equality (no field permutation); soundness against the system with permutation (infer_principal_partial / infer_sound)")
    ctx.assumptions.append("types are compared after floating quantifiers to the top (gluon generalises record fields in place) and sorting record fields; the field order of reported closed record types is not compared")
    ctx.assumptions.append("not in the fragment: implicit arguments, type annotations other than the metamorphic one, declared variants/match, type aliases, kinds, higher-rank types, the implicit prelude")
    broken = [o for o in ctx.obligations if not o.ok and o.kind in ("theorem", "audit")]
    if (broken or not r["ran"]) and not ctx.violations:
        # a proof or the tie machinery is broken and no failing input is known: widen the search
        found = 0
        if r["ran"] and ctx.tier != "thorough":
            r2 = tie(ctx, tier_override="thorough", tag="search")
            if r2["ran"]:
                found = report(ctx, r2)
        if not found:
            names = [o.name for o in broken] or ["correspondence:infer-vs-typecheck_str (could not run: %s)" % str(getattr(ctx, "build_error", getattr(ctx, "harness_crash", "?")))[:300]]
            for nm in names[:5]:
                ctx.violation("obligation:" + nm, "obligation no longer checks: " + nm, obligation=nm, no_input=True,
                              extra={"detail": [o.detail for o in broken if o.name == nm]})


def replay(ctx, path):
    if not ctx.build_harness("c03"):
        return 2
    rc, out = common.sh([ctx.harness_bin("c03"), "--replay", path])
    print(out)
    v = json.load(open(path))
    term = (v.get("case") or {}).get("term")
    if term:
        model = ctx.build_model("c03")
        if model:
            tmp = os.path.join(ctx.run_dir, "replay_in.txt")
            open(tmp, "w").write(term + "\n")
            ctx.run_model(model, tmp, tmp + ".out")
            print("model:", open(tmp + ".out").read().strip())
    return 0
