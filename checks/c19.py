"""C19 — standard library structures, codecs and derived instances obey their models.

T: coq/gen/MapGen.v, coq/gen/ListGen.v regenerated from std/map.glu, std/list.glu with gluon's own
   parser (harness/src/tr/glu_std.rs).
Proofs: coq/theories/Props/C19.v (over the regenerated definitions).
C: one correspondence per family (map, list, array-string, derive, json = std.json.Value level incl.
   floats, re-spelled texts, typed derive(Serialize, Deserialize) round trips): Gluon driver functions
   called on a long-lived VM vs the extracted models, and the implementation vs an independent
   Rust-std oracle (BTreeMap, slice::sort, str, serde_json).  The oracle comparison is what yields
   a concrete failing input when a regenerated model follows an edited source.
"""
import json
import os

from . import common

FAMILIES = ["map", "list", "array-string", "derive", "json"]


def tie(ctx, tier_override=None, tag="tie", extra=()):
    """Run the correspondence.  Returns None when it could not run, else a dict:
    n, fam_counts, model_diffs[(family, case, model, impl, oracle)], oracle_diffs[...]."""
    out_dir = os.path.join(ctx.run_dir, tag)
    os.makedirs(out_dir, exist_ok=True)
    if not ctx.build_harness("c19"):
        return None
    model = ctx.build_model("c19")
    if model is None:
        return None
    saved = ctx.tier
    if tier_override:
        ctx.tier = tier_override
    rc, out = ctx.run_harness("c19", out_dir=out_dir, extra=list(extra))
    ctx.tier = saved
    if rc != 0:
        ctx.log("harness c19 failed:", out[-500:])
        ctx.harness_crash = out[-1500:]
        return None
    if not ctx.run_model(model, os.path.join(out_dir, "model_in.txt"), os.path.join(out_dir, "model_out.txt")):
        return None
    def rd(f):
        # split on "\n" only: str.splitlines() also breaks on form feeds, U+2028 ... inside a line
        with open(os.path.join(out_dir, f), errors="replace") as fh:
            t = fh.read()
        if t.endswith("\n"):
            t = t[:-1]
        return t.split("\n") if t else []
    mo, io, oo, cases, fams = rd("model_out.txt"), rd("impl_out.txt"), rd("oracle_out.txt"), rd("cases.txt"), rd("families.txt")
    n = len(cases)
    res = {"n": n, "model_diffs": [], "oracle_diffs": [], "fam_counts": {}, "out_dir": out_dir, "samples": []}
    if len(fams) != n:
        ctx.log("families.txt has %d lines, cases.txt %d" % (len(fams), n))
        ctx.harness_crash = "families.txt and cases.txt have different numbers of lines"
        return None
    # a shorter output file (a driver that died) loses only the lines after the break: say which
    for name, lst in (("model_out.txt", mo), ("impl_out.txt", io), ("oracle_out.txt", oo)):
        if len(lst) != n:
            k = min(len(lst), n)
            where = "line %d, family %s, case `%s`" % (k + 1, fams[k] if k < n else "?", cases[k][:200] if k < n else "?")
            ctx.log("%s has %d lines for %d cases: first missing/extra at %s" % (name, len(lst), n, where))
            ctx.obligations.append(common.Obligation("output-lines:" + name, "correspondence", False,
                                                     "%d lines for %d cases; first missing at %s" % (len(lst), n, where)))
            ctx.violation("obligation:output-lines:" + name, "%s has %d lines for %d cases; first missing at %s" % (name, len(lst), n, where),
                          obligation="output-lines:" + name, no_input=True)
            del lst[n:]
            lst.extend(["<missing>"] * (n - len(lst)))
    for i in range(n):
        f = fams[i]
        res["fam_counts"][f] = res["fam_counts"].get(f, 0) + 1
        if mo[i] != io[i]:
            res["model_diffs"].append((f, cases[i], mo[i], io[i], oo[i]))
        # "-" = no independent oracle for this case
        if oo[i] != "-" and oo[i] != io[i]:
            res["oracle_diffs"].append((f, cases[i], mo[i], io[i], oo[i]))
    stats = json.load(open(os.path.join(out_dir, "stats.json")))
    res["stats"] = stats
    # failures of the property's own observable on the implementation's answers (no model involved)
    res["property_failures"] = []
    pf = os.path.join(out_dir, "property_failures.txt")
    if os.path.exists(pf):
        for l in open(pf, errors="replace").read().split("\n"):
            p = l.split("\t")
            if len(p) == 4:
                res["property_failures"].append(tuple(p))
    seen = set()
    for i in range(n):
        if fams[i] not in seen and len(cases[i]) > 12:
            seen.add(fams[i])
            res["samples"].append({"family": fams[i], "case": cases[i][:400], "model": mo[i][:400], "impl": io[i][:400]})
    return res


def shrink(ctx, lines):
    """Delta-debug case lines on which implementation and oracle disagree (done by the harness)."""
    path = os.path.join(ctx.run_dir, "shrink_in.txt")
    open(path, "w").write("\n".join(lines) + "\n")
    rc, out = common.sh([ctx.harness_bin("c19"), "--out", os.path.join(ctx.run_dir, "shrink"), "shrink=" + path], timeout=600)
    res = []
    for l in out.splitlines():
        p = l.split("\t")
        if len(p) == 4 and p[0] == "shrunk":
            res.append((p[1], p[2], p[3]))
    return res


def report(ctx, res):
    """Turn disagreements into violations.  Returns the number of concrete failing inputs."""
    found = 0
    # the property evaluated directly on the implementation: one violation per distinct key
    # (the key names the failing input, or the input class of a known finding)
    seen = {}
    for (fam, key, line, what) in res["property_failures"]:
        seen.setdefault(key, []).append((fam, line, what))
    for key, items in list(seen.items())[:12]:
        fam, line, what = min(items, key=lambda t: len(t[1]))
        found += 1
        ctx.violation(key, "std %s: %s (%d such cases)" % (fam, what[:400], len(items)),
                      case={"line": line, "family": fam}, expected="the property holds", observed=what[:400])
    # implementation vs independent oracle: the implementation breaks the mathematical definition
    pf_lines = set(d[2] for d in res["property_failures"])
    od = [d for d in res["oracle_diffs"] if d[1] not in pf_lines]
    if od:
        by_fam = {}
        for d in od:
            by_fam.setdefault(d[0], []).append(d)
        for fam, ds in by_fam.items():
            ds = sorted(ds, key=lambda d: len(d[1]))[:3]
            shrunk = shrink(ctx, [d[1] for d in ds])
            if not shrunk:
                shrunk = [(d[1], d[3], d[4]) for d in ds]
            for (line, impl, oracle) in shrunk[:3]:
                found += 1
                ctx.violation("%s:%s" % (fam, line[:200]),
                              "std %s: `%s` evaluates to %s, the mathematical definition (Rust std oracle) gives %s" % (fam, line[:300], impl[:300], oracle[:300]),
                              case={"line": line, "family": fam}, expected=oracle, observed=impl)
    # model vs implementation where the oracle sides with the model (or there is no oracle):
    # the model has the property (theorems), so the implementation's observable is wrong
    for (fam, line, m, im, o) in res["model_diffs"][:50]:
        if any(line == d[1] for d in od) or line in pf_lines:
            continue
        if o == "-" or o == m:
            found += 1
            if found <= 12:
                ctx.violation("%s:%s" % (fam, line[:200]),
                              "std %s: `%s` evaluates to %s, the model gives %s" % (fam, line[:300], im[:300], m[:300]),
                              case={"line": line, "family": fam}, expected=m, observed=im)
    return found


def run(ctx):
    gen_ok = ctx.gen_coq(["MapGen", "ListGen"])
    proved = ctx.coq_prove("C19") if gen_ok else False
    res = tie(ctx)
    ran = res is not None
    found = 0
    if ran:
        stats = res["stats"]
        ctx.coverage["evaluations"] = stats["evaluations"]
        ctx.coverage["distinct_nontrivial"] = stats["distinct_nontrivial"]
        ctx.coverage["rule"] = stats["rule"]
        ctx.coverage["input_distribution"] = stats["hist"]
        ctx.coverage["per_family"] = res["fam_counts"]
        ctx.coverage["traces_validated_against_impl"] = res["n"]
        ctx.coverage["samples"] = res["samples"]
        ctx.coverage["exhaustive"] = False
    for fam in FAMILIES:
        if not ran:
            ctx.obligations.append(common.Obligation("correspondence:" + fam, "correspondence", False, "could not run"))
            continue
        pf = [d for d in res["property_failures"] if d[0] == fam]
        pf_lines = set(d[2] for d in pf)
        # a case on which the implementation fails the property itself is reported (and keyed) as
        # such; it necessarily differs from the model, which has the property
        md = [d for d in res["model_diffs"] if d[0] == fam and d[1] not in pf_lines]
        od = [d for d in res["oracle_diffs"] if d[0] == fam and d[1] not in pf_lines]
        n = res["fam_counts"].get(fam, 0)
        # the correspondence obligation is about model = implementation (= independent oracle);
        # property failures are reported as violations of their own (known findings are filtered there)
        ok = n > 0 and not md and not od
        ctx.obligations.append(common.Obligation(
            "correspondence:" + fam, "correspondence", ok,
            "%d cases, %d model/implementation disagreements, %d implementation/Rust-std-oracle disagreements, "
            "%d direct property failures on the implementation" % (n, len(md), len(od), len(pf))))
        if ran and n == 0:
            ctx.violation("obligation:correspondence:" + fam, "the harness produced no case of family " + fam,
                          obligation="correspondence:" + fam, no_input=True)
    ctx.trusted.append("translator harness/src/tr/glu_std.rs (gluon_parser AST -> Gallina): name mapping Cons/Nil, Some/None, LT/EQ/GT, True/False; "
                       "`<>` at List resolves to std/list.glu's local semigroup.append; `compare` is the [Ord _] implicit")
    ctx.trusted.append("harness/src/bin/c19/{main,strs,derive,json,jtyped}.rs: generators, Gluon driver functions, value canonicaliser, Rust-std oracles; coq/extract/c19/driver.ml decimal/byte conversions")
    ctx.assumptions.append("`compare` is a total order up to its own equivalence (ord_ok): explicit premise of the map/sort theorems; the tie instantiates it with Int")
    ctx.assumptions.append("JSON floats: the Coq model carries a float as its opaque decimal token (number <-> text conversion not modelled); "
                           "bit-exact float round trips, re-spelled texts and typed (de)serializers are tied by serde_json + the round-trip property evaluated on the implementation")
    ctx.assumptions.append("implicit-argument resolution and the evaluation of the translated functions by the real VM are covered by the correspondence, not by the translator")
    if ran:
        found = report(ctx, res)
        # model and implementation disagree, the independent oracle sides with the implementation:
        # the hand-written part of the model (or the glue) is wrong - a broken tie, not an input
        pf_lines = set(d[2] for d in res["property_failures"])
        model_wrong = [d for d in res["model_diffs"] if d[4] == d[3] and d[4] != "-" and d[1] not in pf_lines]
        for (fam, line, m, im, o) in model_wrong[:3]:
            ctx.violation("obligation:correspondence:" + fam, "model and implementation disagree on `%s` and the Rust-std oracle sides with the implementation: the model is wrong" % line[:200],
                          obligation="correspondence:" + fam, no_input=True, extra={"case": line, "model": m, "impl": im})
            found += 1
    broken = [o for o in ctx.obligations if not o.ok and o.kind in ("theorem", "translator", "audit")]
    known = common.load_known(ctx.prop)
    fresh = lambda: [v for v in ctx.violations if common.match_known(known, v) is None]
    if any(o.name.startswith("C19_map_") for o in broken):
        map_law_search(ctx)
    if (broken or not ran) and not fresh():
        # search: widen to the thorough generator; the oracle comparison yields the failing input
        if ran and ctx.tier != "thorough":
            res2 = tie(ctx, tier_override="thorough", tag="search")
            if res2 is not None:
                report(ctx, res2)
        if not fresh():
            names = [o.name for o in broken] or ["correspondence (could not run: %s)" % getattr(ctx, "build_error", getattr(ctx, "harness_crash", "?"))[:300]]
            for nm in names[:5]:
                ctx.violation("obligation:" + nm, "obligation no longer checks: " + nm, obligation=nm, no_input=True,
                              extra={"detail": [o.detail for o in broken if o.name == nm]})


def map_law_search(ctx):
    """A C19_map_* theorem no longer checks: search the REGENERATED model (coq/gen/MapGen.v, i.e. what
    std/map.glu says now) for a concrete failing input of the append / map laws (Lib/MapSearch.v:
    all pairs of maps built from <= 3 insertions over keys 1..3).  The witness is a Gluon program."""
    import re
    with common.Lock("coq"):
        rc, out = common.sh(["timeout", "600", os.path.join(common.COQ, "mk.sh"), "-j8", "theories/Lib/MapSearch.vo"])
    if rc != 0:
        return
    src = os.path.join(ctx.run_dir, "mapsearch.v")
    open(src, "w").write("From Coq Require Import ZArith List.\nImport ListNotations.\nOpen Scope Z_scope.\nFrom GV Require Import Lib.MapSearch.\nEval vm_compute in append_cex.\nEval vm_compute in fmap_cex.\n")
    rc, out = common.sh(["timeout", "300", "coqc", "-noglob", "-Q", os.path.join(common.COQ, "theories"), "GV",
                         "-Q", os.path.join(common.COQ, "gen"), "GVgen", src], cwd=ctx.run_dir)
    if rc != 0:
        return
    parts = re.split(r"^\s*=\s", out, flags=re.M)[1:]
    if len(parts) != 2:
        return
    def nums(t):
        t = t.split(": option")[0]
        return [int(x) for x in re.findall(r"-?\d+", t.replace("%Z", ""))] if "Some" in t else None
    def take_list(ns, i):
        n = ns[i]; i += 1
        xs = [(ns[i + 2 * j], ns[i + 2 * j + 1]) for j in range(n)]
        return xs, i + 2 * n
    def opt(tag, v):
        return "Some %d" % v if tag == 1 else "None"
    def glu_map(xs):
        e = "map.empty"
        for (k, v) in xs:
            e = "(map.insert %d %d %s)" % (k, v, e)
        return e
    a = nums(parts[0])
    if a:
        l, i = take_list(a, 0)
        r, i = take_list(a, i)
        x, gt, gv, et, ev = a[i:i + 5]
        prog = "let map = import! std.map\nmap.find %d (map.append %s %s)" % (x, glu_map(l), glu_map(r))
        ctx.violation("map:append-is-not-the-right-biased-union",
                      "std.map append: find %d (append l r) = %s, the right-biased union gives %s (l = inserts %s, r = inserts %s)" % (x, opt(gt, gv), opt(et, ev), l, r),
                      case={"gluon_program": prog, "l_inserts": l, "r_inserts": r, "key": x},
                      expected=opt(et, ev), observed=opt(gt, gv), obligation="C19_map_find_append",
                      extra={"found_by": "Lib/MapSearch.v append_cex evaluated on the regenerated MapGen.v (std/map.glu as it is now)"})
    b = nums(parts[1])
    if b:
        l, i = take_list(b, 0)
        x, gt, gv, et, ev = b[i:i + 5]
        prog = "let map = import! std.map\nlet { map = fmap } = map.functor\nmap.find %d (fmap (\\v -> v + 100) %s)" % (x, glu_map(l))
        ctx.violation("map:fmap-changes-more-than-values",
                      "std.map map: find %d (map (+100) m) = %s, expected %s (m = inserts %s)" % (x, opt(gt, gv), opt(et, ev), l),
                      case={"gluon_program": prog, "inserts": l, "key": x},
                      expected=opt(et, ev), observed=opt(gt, gv), obligation="C19_map_find_fmap",
                      extra={"found_by": "Lib/MapSearch.v fmap_cex evaluated on the regenerated MapGen.v"})


def replay(ctx, path):
    if not ctx.build_harness("c19"):
        return 2
    rc, out = common.sh([ctx.harness_bin("c19"), "--out", os.path.join(ctx.run_dir, "replay"), "--replay", path])
    print(out)
    return 0
