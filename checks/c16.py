"""C16 — compilation and evaluation are deterministic.

Proofs: coq/theories/Props/C16.v over Lang/Rename.v (+ Lang/Syntax.v, Lang/Eval.v of C01):
  evaluation commutes with every injective renaming of variables (so no result depends on
  which symbols / interning order / unique ids were chosen); grouping match equations through a
  hash table read out by the insertion-order vector is independent of the table's iteration
  order (and iterating the table is not); the first-occurrence canonicaliser of type variables
  forgets the names and is idempotent.
C (observational, the main tie): harness/src/bin/c16.rs evaluates every generated input (well-typed
  MiniGluon programs, ill-typed mutants, std programs with the prelude, polymorphic results, corpus)
  under 14 histories, each in its own process: same VM in 3 processes, after 5 / 50 unrelated
  programs, permuted / reversed order, fresh VM per input, child thread / other OS thread, twice in
  a row, one VM with the prelude setting toggled.  (value, type text, emit_string text, Display
  text) must be byte-identical for the same (name, source, settings).  A difference is reproduced
  and minimised to a pair of histories and keyed `nondeterministic-<component>:<class>`.
C (model): extracted `run` on the well-typed first-order inputs (and on an injectively renamed copy),
  extracted `ctor_alt_keys`/`lit_alt_keys` (group_by_key) against the order of the alternatives the
  real match compiler emits.
"""
import json
import os

from . import common


def tie(ctx, extra=(), tag="tie"):
    """Runs the harness and the model; returns a dict or None when it could not run."""
    out_dir = os.path.join(ctx.run_dir, tag)
    os.makedirs(out_dir, exist_ok=True)
    for f in os.listdir(out_dir):
        p = os.path.join(out_dir, f)
        if os.path.isfile(p):
            os.remove(p)
    if not ctx.build_harness("c16"):
        return None
    model = ctx.build_model("c16")
    if model is None:
        ctx.build_error = "extraction of coq/extract/c16 failed"
        return None
    rc, out = ctx.run_harness("c16", extra=list(extra), out_dir=out_dir, timeout=2400)
    if rc != 0:
        ctx.log("harness c16 failed:", out[-500:])
        ctx.harness_crash = out[-1500:]
        return None
    ctx.log(out.strip().splitlines()[-1] if out.strip() else "c16: no output")
    if not ctx.run_model(model, os.path.join(out_dir, "model_in.txt"), os.path.join(out_dir, "model_out.txt")):
        ctx.harness_crash = "model driver failed"
        return None
    n, diffs = common.diff_lines(os.path.join(out_dir, "model_out.txt"), os.path.join(out_dir, "impl_out.txt"), limit=200)
    cases = common.read_lines(os.path.join(out_dir, "cases.txt"))
    model_in = common.read_lines(os.path.join(out_dir, "model_in.txt"))
    model_out = common.read_lines(os.path.join(out_dir, "model_out.txt"))
    det = json.load(open(os.path.join(out_dir, "determinism.json")))
    stats = json.load(open(os.path.join(out_dir, "stats.json")))
    prog_diffs, group_diffs = [], []
    for (i, m, im) in diffs:
        kind = model_in[i].split(" ", 1)[0] if i < len(model_in) else "?"
        rec = {"source": cases[i] if i < len(cases) else "?", "model_in": model_in[i][:2000] if i < len(model_in) else "?", "model": m, "impl": im}
        (group_diffs if kind == "group" else prog_diffs).append(rec)
    rename_mismatch = [l for l in model_out if "rename-mismatch" in l or "group-mismatch" in l]
    return {"n_model": n, "prog_diffs": prog_diffs, "group_diffs": group_diffs, "det": det, "stats": stats,
            "rename_mismatch": rename_mismatch, "out_dir": out_dir}


def report_findings(ctx, det):
    """Every minimised nondeterminism finding is a concrete failing input."""
    for f in det.get("findings", []):
        inp = f.get("input", {})
        if "rendered twice" in str(f.get("component")):
            what = "%s differs (%s): %s" % (f.get("component"), f.get("class"), f.get("note"))
        else:
            what = ("the %s of the same (source, settings) differs between two histories (%s): %s"
                    % (f.get("component"), f.get("class"), f.get("note")))
        ctx.violation(
            f["key"], what,
            case={"input": inp, "history_a": f.get("history_a"), "history_b": f.get("history_b"),
                  "reference_history": f.get("reference_history"), "deviating_history": f.get("deviating_history"),
                  "group": f.get("group_case")},
            expected=f.get("text_a"), observed=f.get("text_b"),
            extra={"headline": f.get("headline"), "class_totals": det.get("class_totals")})


def run(ctx):
    proved = ctx.coq_prove("C16")
    res = tie(ctx)
    ran = res is not None
    det = res["det"] if ran else {}
    findings = det.get("findings", []) if ran else []
    failed_jobs = det.get("failed_jobs", []) if ran else []
    incomplete = det.get("inputs_with_incomplete_histories", 0) if ran else 0

    known = common.load_known(ctx.prop)
    unknown = [f for f in findings if common.match_known(known, {"key": f["key"]}) is None]
    known_keys = sorted(set(f["key"] for f in findings if f not in unknown))
    # the histories agree, except on the classes of difference listed as open known findings
    ok_det = ran and not unknown and not failed_jobs and incomplete == 0
    ctx.obligations.append(common.Obligation(
        "correspondence:determinism-histories", "correspondence", ok_det,
        ("%d inputs x %d histories (each history in its own process) = %d observations; %d differing (input, component) pairs; "
         "%d child processes failed; %d inputs with incomplete histories"
         % (det.get("inputs", 0), len(det.get("histories", [])), det.get("observations", 0), det.get("differing", 0),
            len(failed_jobs), incomplete)
         + ("; all differences are of known classes: %s" % ", ".join(known_keys) if known_keys and not unknown else "")
         + ("; %d inputs excluded because the implementation dies or hangs on them even alone on a fresh VM" % len(det.get("excluded_inputs", []))))
        if ran else "could not run"))
    ok_prog = ran and not res["prog_diffs"] and not res["rename_mismatch"]
    ctx.obligations.append(common.Obligation(
        "correspondence:reference-evaluator", "correspondence", ok_prog,
        ("%d well-typed first-order programs predicted by the extracted evaluator (original and injectively renamed copy); %d disagreements, %d rename mismatches"
         % (res["stats"].get("model_programs", 0), len(res["prog_diffs"]), len(res["rename_mismatch"]))) if ran else "could not run"))
    ok_group = ran and not res["group_diffs"]
    ctx.obligations.append(common.Obligation(
        "correspondence:match-grouping-order", "correspondence", ok_group,
        ("%d generated matches: order of the alternatives of the real core match vs extracted group_by_key; %d disagreements"
         % (res["stats"].get("group_cases", 0), len(res["group_diffs"]))) if ran else "could not run"))

    if ran:
        st = res["stats"]
        ctx.coverage["evaluations"] = st["evaluations"]
        ctx.coverage["distinct_nontrivial"] = st["distinct_nontrivial"]
        ctx.coverage["rule"] = st["rule"]
        ctx.coverage["input_distribution"] = st["hist"]
        ctx.coverage["samples"] = st.get("samples", [])
        ctx.coverage["traces_validated_against_impl"] = res["n_model"]
        ctx.coverage["exhaustive"] = False
        ctx.coverage["histories"] = det.get("histories")
        ctx.coverage["observations"] = det.get("observations")
        ctx.coverage["reproduction_probes"] = det.get("probes")
        ctx.coverage["difference_classes"] = det.get("class_totals")
        ctx.coverage["excluded_inputs"] = [
            {"source": e.get("source"), "kind": e.get("kind"), "reason": e.get("reason"), "group": e.get("group")}
            for e in det.get("excluded_inputs", [])[:20]]
        ctx.coverage["excluded_inputs_total"] = len(det.get("excluded_inputs", []))
        report_findings(ctx, det)
        for d in res["group_diffs"][:5]:
            # the order is deterministic (the harness compiles every case twice; a varying order is
            # reported as a finding above) but it is not the first-occurrence order of the model
            ctx.violation("obligation:correspondence:match-grouping-order",
                          "the alternatives of a compiled match are not in the first-occurrence order of the grouping model",
                          case=d, expected=d["model"], observed=d["impl"],
                          obligation="correspondence:match-grouping-order", no_input=True)
            break

    ctx.trusted.append("harness/src/bin/c16.rs: input generator and mutator, history drivers, observation rendering (value canonicaliser of gvh::mg), "
                       "difference classifier, delta debugger; gvh::mg generator/printer (C01)")
    ctx.trusted.append("coq/extract/c16/driver.ml: s-expression reader (copied from coq/extract/c01), key parsing, the fixed renaming x -> 3x+7")
    ctx.assumptions.append("observational property: the theorems are about the MiniGluon reference semantics, the grouping model and the canonicaliser; "
                           "the real type checker, symbol interner, salsa database and diagnostics renderer are observed, not modelled")
    ctx.assumptions.append("histories are finite samples: 14 kinds of history per input; history dependence that needs other kinds of earlier work "
                           "(user modules importing each other, macros, serialization) is not exercised here (C15 covers module reloads)")
    ctx.assumptions.append("inputs that trigger known compiler panics of other properties (mg features multi_record_alts, update_reorder) are switched off")

    broken = [o for o in ctx.obligations if not o.ok]
    if broken and not ctx.violations:
        # search: widen around the broken item with a larger sample before giving up
        found = False
        if ran and ctx.tier != "thorough" and any(o.kind in ("theorem", "audit") or o.name.startswith("correspondence:reference") for o in broken):
            res2 = tie(ctx, extra=["n=1500", "std=60"], tag="search")
            if res2 is not None:
                report_findings(ctx, res2["det"])
                found = bool(res2["det"].get("findings"))
        if not found:
            for o in broken[:5]:
                detail = o.detail
                if not ran:
                    detail = "could not run: %s" % str(getattr(ctx, "build_error", getattr(ctx, "harness_crash", "?")))[:400]
                extra = {"detail": detail}
                if ran and o.name == "correspondence:reference-evaluator":
                    extra["disagreements"] = res["prog_diffs"][:5]
                    extra["rename_mismatch"] = res["rename_mismatch"][:5]
                if ran and o.name == "correspondence:determinism-histories":
                    extra["failed_jobs"] = failed_jobs[:5]
                ctx.violation("obligation:" + o.name, "obligation no longer checks: " + o.name, obligation=o.name, no_input=True, extra=extra)


def replay(ctx, path):
    if not ctx.build_harness("c16"):
        return 2
    rc, out = common.sh([ctx.harness_bin("c16"), "--replay", path], timeout=900)
    print(out)
    return 0 if rc == 0 else 2
