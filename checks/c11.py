"""C11 — marshalling between Rust and Gluon is lossless and type-faithful.

Proofs: coq/theories/Props/C11.v over the executable model coq/theories/Lib/Marshal.v
(push/get of every Pushable/Getable instance incl. the gluon_codegen derives, gluon_ty, shape_ok,
sig_ok, the serde bridge ser/de).
C: harness/src/bin/c11 drives the REAL instances over a family of ~60 concrete Rust types (depth <= 3)
with boundary and random values; the extracted model is run on the same (type code, value) pairs.

Per (type, value) the harness reports the routes
  push   raw VM representation of the pushed value            (== model push, exact text)
  get    Getable::from_value of the pushed value              (== model get;  theorem: = value)
  root   Pushable::marshal -> RootedValue -> from_value, drop (== model get)
  id     FunctionRef<fn(T) -> T>::call of `\\x -> x`           (== model get)
  rb     a Gluon function taking the value apart and rebuilding it (match / field access / array
         indexing / map traversal; == model get: Gluon observed the corresponding value)
  wrap   `\\x -> Some x` read back as Option<T>                (== Some (model get))
  ser    representation produced by api::ser::Ser            (== model ser, exact text)
  depush api::de::De of the pushed value     deser  De of the Ser value     serrb  rebuild of the Ser value
and per (requested type W, stored type T, value): Thread::get_global::<W> and
get_global::<FunctionRef<fn(W) -> W>> must be refused exactly when the model's sig_ok is false, and
an accepted request must read what the model's get reads.

Verdict.  A route whose observable differs from the model's prediction is a failing input
(`marshal:<type>:<route>`): by C11_get_push / C11_push_shape / C11_sig_* the model's answer is the
original value / a value of the corresponding Gluon type / a refusal.  The serde bridge is modelled
exactly for `ser`; for De the model only speaks on the class of types where De follows the Gluon
type (de_class) and Ser is type-faithful (ser_class); outside these classes the property itself is
evaluated (the value must come back equal to the original) and a failure is reported under the
key of its cause (`marshal:serde:<route>:<cause>`), the cause being read off the type.
Values outside `wf` (f32 signalling NaNs: quietened by the f32<->f64 conversion, refuted in Coq and
excluded) are only compared with the model.
"""
import json
import os
import re

from . import common

CORE = ["push", "get", "root", "id", "rb", "wrap"]
SERDE = ["ser", "depush", "deser", "serrb"]


def fields(line):
    d = {}
    for f in line.split("\t"):
        if "=" in f:
            k, v = f.split("=", 1)
            d[k] = v
    return d


# ---- cause classification for the serde bridge (first offending type constructor) -------------

def toks(s):
    return re.findall(r"\(|\)|[^\s()]+", s)


def parse(ts, i=0):
    if ts[i] == "(":
        items = []
        i += 1
        while ts[i] != ")":
            x, i = parse(ts, i)
            items.append(x)
        return items, i + 1
    return ts[i], i + 1


def ser_cause(t):
    """Why `Ser` is not type-faithful on this type (None = faithful); mirrors Marshal.ser_class."""
    if isinstance(t, str):
        return {"u8": "u8-as-int", "char": "char-as-string", "ordering": "no-instance"}.get(t)
    h = t[0]
    if h == "option":
        return "option-some-unwrapped"
    if h == "result":
        return "result-tags-swapped"
    if h == "vec":
        return "seq-as-data"
    if h == "map":
        return "map-drops-keys"
    if h == "tuple":
        return "tuple-as-data"
    if h == "struct":
        kind, fs = t[2], t[3:]
        if kind == "tuple" and len(fs) == 1:
            return ser_cause(fs[0][1])
        if kind == "tuple":
            return "tuple-as-data"
        if kind == "unit":
            return None
        for f in fs:
            c = ser_cause(f[1])
            if c:
                return c
        return None
    if h == "enum":
        for v in t[2:]:
            for f in v[2:]:
                c = ser_cause(f[1])
                if c:
                    return c
        return None
    return "?"


def de_cause(t):
    """Why `De` does not read values of this type (None = supported); mirrors Marshal.de_class."""
    if isinstance(t, str):
        return {"unit": "unit", "ordering": "no-instance"}.get(t)
    h = t[0]
    if h in ("option", "vec"):
        return de_cause(t[1])
    if h == "result":
        return "result"
    if h == "map":
        return "map-stack-overflow"
    if h == "tuple":
        return "tuple"
    if h == "struct":
        kind, fs = t[2], t[3:]
        if kind == "tuple" and len(fs) == 1:
            return de_cause(fs[0][1])
        if kind == "tuple":
            return "tuple"
        if kind == "unit":
            return None
        for f in fs:
            c = de_cause(f[1])
            if c:
                return c
        return None
    if h == "enum":
        for v in t[2:]:
            for f in v[2:]:
                c = de_cause(f[1])
                if c:
                    return c
        return None
    return "?"


def tie(ctx, tier_override=None, tag="tie"):
    """Runs harness + model; returns (ran, stats, findings) where findings is a list of dicts."""
    out_dir = os.path.join(ctx.run_dir, tag)
    os.makedirs(out_dir, exist_ok=True)
    if not ctx.build_harness("c11"):
        return False, {}, []
    model = ctx.build_model("c11")
    if model is None:
        return False, {}, []
    saved = ctx.tier
    if tier_override:
        ctx.tier = tier_override
    rc, out = ctx.run_harness("c11", out_dir=out_dir, extra=["jobs=%d" % max(2, min(12, (os.cpu_count() or 4)))])
    ctx.tier = saved
    if rc != 0:
        ctx.log("harness c11 failed:", out[-500:])
        ctx.harness_crash = out[-1500:]
        return False, {}, []
    if not ctx.run_model(model, os.path.join(out_dir, "model_in.txt"), os.path.join(out_dir, "model_out.txt")):
        return False, {}, []
    mi = common.read_lines(os.path.join(out_dir, "model_in.txt"))
    mo = common.read_lines(os.path.join(out_dir, "model_out.txt"))
    io = common.read_lines(os.path.join(out_dir, "impl_out.txt"))
    cs = common.read_lines(os.path.join(out_dir, "cases.txt"))
    stats = json.load(open(os.path.join(out_dir, "stats.json")))
    stats["lines"] = len(mi)
    if not (len(mi) == len(mo) == len(io) == len(cs)):
        ctx.log("line counts differ: in=%d model=%d impl=%d cases=%d" % (len(mi), len(mo), len(io), len(cs)))
        return False, stats, []
    findings = []
    seen = set()
    excluded = 0
    compared = 0
    samples = []

    def add(key, what, case, expected, observed):
        if key in seen:
            return
        seen.add(key)
        findings.append({"key": key, "what": what, "case": case, "expected": expected, "observed": observed})

    for k in range(len(mi)):
        parts = mi[k].split("\t")
        m = fields(mo[k])
        im = fields(io[k])
        c = cs[k].split("\t")
        if mo[k].startswith(("driver-error", "bad-input")):
            add("obligation:model-driver", "model driver could not read case: %s" % mo[k][:100], {"line": mi[k][:300]}, None, mo[k][:200])
            continue
        if parts[0] in ("V", "C"):
            tcode, val = parts[1], parts[2]
            tname, tidx, caseno = c[2], int(c[1]), c[3]
            notes = c[5] if len(c) > 5 else ""
            case = {"type": tname, "type_index": tidx, "tcode": tcode, "value": val, "notes": notes[:600]}
            wf = m.get("wf") == "1"
            if not wf:
                excluded += 1
            if m.get("shape") != "1" and wf:
                add("obligation:push_shape:" + tname, "model: pushed value does not have the Gluon type (theorem/model mismatch)", case, "1", m.get("shape"))
            for r in CORE:
                compared += 1
                if im.get(r) != m.get(r):
                    what = {
                        "push": "the representation pushed for a %s differs from the modelled Pushable instance",
                        "get": "a %s pushed and read back with Getable is not the original value",
                        "root": "a %s marshalled into a RootedValue, read back and released fails or differs",
                        "id": "a %s passed through the Gluon identity function does not come back equal",
                        "rb": "Gluon code taking a %s apart and rebuilding it does not observe the corresponding value",
                        "wrap": "a %s wrapped by Gluon code in Some does not come back as Some(original)",
                    }[r] % tname
                    add("marshal:%s:%s" % (tname, r), what, case, m.get(r), im.get(r))
            if parts[0] == "V":
                t, _ = parse(toks(tcode))
                sc, dc = ser_cause(t), de_cause(t)
                compared += 1
                if im.get("ser") != m.get("ser"):
                    add("marshal:%s:ser" % tname, "the value built by api::ser::Ser for a %s differs from the modelled serializer" % tname,
                        case, m.get("ser"), im.get("ser"))
                # Ser must give Gluon a value of the Gluon type of T
                if wf and m.get("sershape") == "0":
                    add("marshal:serde:ser:%s" % (sc or "unclassified:" + tname),
                        "api::ser::Ser pushes a value that does not have the Gluon type of the Rust type (%s)" % (sc or "?"),
                        case, "a value of shape gluon_ty(T) (= the Pushable representation %s)" % m.get("push", "")[:200], im.get("ser", "")[:300])
                for r, cause in (("depush", dc), ("deser", dc or sc), ("serrb", sc)):
                    compared += 1
                    obs = im.get(r)
                    if obs == "SKIPPED":
                        continue
                    if m.get(r) != "UNSUP":
                        if obs != m.get(r):
                            add("marshal:%s:%s" % (tname, r), "serde bridge route %s on a %s differs from the model on the supported class" % (r, tname),
                                case, m.get(r), obs)
                    elif wf and obs != val:
                        add("marshal:serde:%s:%s" % (r, cause or "unclassified:" + tname),
                            {"depush": "api::de::De cannot read a pushed %s back (%s)",
                             "deser": "De(Ser(x)) does not return x for a %s (%s)",
                             "serrb": "Gluon code handed Ser(x) for a %s does not observe x (%s)"}[r] % (tname, cause),
                            case, val, obs)
            if len(samples) < 6 and k % 997 == 3:
                samples.append({"type": tname, "value": val[:200], "model": mo[k][:300]})
        elif parts[0] == "D":
            compared += 1
            if im.get("define") != m.get("define"):
                case = {"type": c[2], "type_index": int(c[1]), "tcode": parts[1], "value": parts[2]}
                add("marshal:%s:define-global" % c[2],
                    "storing a %s in a global (ExternModule::new marshals it into a rooted value) fails or leaves the VM unusable" % c[2],
                    case, m.get("define"), im.get("define"))
        elif parts[0] == "R":
            compared += 1
            if im.get("reget") != m.get("reget"):
                case = {"type": c[2], "type_index": int(c[1]), "tcode": parts[1], "value": parts[2]}
                add("marshal:%s:getglobal-after-load" % c[2],
                    "a global holding a %s is no longer returned at its own Rust type once another script has been loaded" % c[2],
                    case, m.get("reget"), im.get("reget"))
        elif parts[0] == "G":
            tw, tt, val = parts[1], parts[2], parts[3]
            case = {"requested": c[4] if len(c) > 4 else tw, "stored": c[2], "type_index": int(c[1]), "tcode_requested": tw, "tcode": tt, "value": val}
            compared += 2
            for f in ("sig", "fsig"):
                if im.get(f) != m.get(f):
                    api = "getglobal" if f == "sig" else "getfunction"
                    if m.get(f) == "0" and im.get(f) == "1":
                        # the dangerous direction: a value is handed out at a type it does not have
                        key = "marshal:%s:%s-accepted:%s" % (case["stored"], api, case["requested"])
                        what = "a request for a %s at the Rust type %s is answered instead of refused with a type error" % (case["stored"], case["requested"])
                    elif m.get(f) == "1" and im.get(f) == "0":
                        key = "marshal:%s:%s-refused:%s" % (case["stored"], api, case["requested"])
                        what = "a request for a %s at the Rust type %s (same Gluon type) is refused with a type error" % (case["stored"], case["requested"])
                    else:
                        key = "marshal:%s:%s-failed:%s" % (case["stored"], api, case["requested"])
                        what = "a request for a %s at the Rust type %s neither returns nor is refused with a type error (%s)" % (case["stored"], case["requested"], im.get(f))
                    add(key, what, case, m.get(f), im.get(f))
            if m.get("sig") == "1" and im.get("sig") == "1" and im.get("x") != m.get("x"):
                add("marshal:%s:getglobal-value:%s" % (case["stored"], case["requested"]),
                    "an accepted request reads a different value than the modelled Getable instance", case, m.get("x"), im.get("x"))
    stats["compared"] = compared
    stats["excluded_not_wf"] = excluded
    stats["samples"] = samples
    return True, stats, findings


def run(ctx):
    proved = ctx.coq_prove("C11")
    ran, stats, findings = tie(ctx)
    genuine = [f for f in findings if not f["key"].startswith("obligation:")]
    broken_model = [f for f in findings if f["key"].startswith("obligation:")]
    ctx.obligations.append(common.Obligation(
        "correspondence:marshal-push-get-ser-sig", "correspondence", ran and not broken_model and not stats.get("incomplete_types"),
        "%d lines, %d route comparisons, %d distinct failing keys, incomplete types: %s" % (
            stats.get("lines", 0), stats.get("compared", 0), len(genuine), stats.get("incomplete_types"))))
    if ran:
        ctx.coverage["evaluations"] = stats["evaluations"]
        ctx.coverage["distinct_nontrivial"] = stats["distinct_nontrivial"]
        ctx.coverage["rule"] = stats["rule"]
        ctx.coverage["input_distribution"] = stats["hist"]
        ctx.coverage["traces_validated_against_impl"] = stats["compared"]
        ctx.coverage["samples"] = stats["samples"]
        ctx.coverage["family"] = stats["family"]
        ctx.coverage["excluded_values_not_wf"] = stats["excluded_not_wf"]
        ctx.coverage["host_process_aborts_observed"] = len(stats.get("crashes", []))
        ctx.coverage["exhaustive"] = False
    ctx.trusted.append("harness/src/bin/c11: value generators, Val <-> concrete Rust type conversions (fam.rs), the ValueRef walker, "
                       "the generated Gluon rebuild functions; coq/extract/c11/driver.ml parsing/printing (record names sorted for printing)")
    ctx.assumptions.append("usize/isize are 64 bit; `as` between f32 and f64 behaves as IEEE 754 convertFormat (x86-64 cvtss2sd/cvtsd2ss)")
    ctx.assumptions.append("strings are byte lists in the model (UTF-8 validity of Rust strings is not modelled); map shape does not include the search-tree order")
    ctx.assumptions.append("check_signature is modelled on the monomorphic family only (equality of alias-expanded types); polymorphic globals are out of scope")
    for f in findings[:60]:
        if f["key"].startswith("obligation:"):
            ctx.violation(f["key"], f["what"], case=f["case"], expected=f["expected"], observed=f["observed"], obligation=f["key"][11:], no_input=True)
        else:
            ctx.violation(f["key"], f["what"], case=f["case"], expected=f["expected"], observed=f["observed"])
    if ran and stats.get("incomplete_types"):
        ctx.violation("obligation:harness-incomplete", "harness children did not finish for: %s" % stats["incomplete_types"],
                      obligation="correspondence:marshal-push-get-ser-sig", no_input=True, extra={"crashes": stats.get("crashes", [])[:10]})
    broken = [o for o in ctx.obligations if not o.ok and o.kind in ("theorem", "audit")]
    if (broken or not ran) and not genuine:
        found = []
        if ran and ctx.tier != "thorough":
            ran2, stats2, found = tie(ctx, tier_override="thorough", tag="search")
            for f in [x for x in found if not x["key"].startswith("obligation:")][:40]:
                ctx.violation(f["key"], f["what"], case=f["case"], expected=f["expected"], observed=f["observed"])
        if not [x for x in found if not x["key"].startswith("obligation:")]:
            names = [o.name for o in broken] or ["correspondence:marshal (could not run: %s)" % str(getattr(ctx, "build_error", getattr(ctx, "harness_crash", "?")))[:300]]
            for nm in names[:5]:
                ctx.violation("obligation:" + nm, "obligation no longer checks: " + nm, obligation=nm, no_input=True,
                              extra={"detail": [o.detail for o in broken if o.name == nm]})


def replay(ctx, path):
    if not ctx.build_harness("c11"):
        return 2
    rc, out = common.sh([ctx.harness_bin("c11"), "--replay", path], timeout=900)
    print(out)
    return 0
