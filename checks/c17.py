"""C17 — channels, references and lazy values keep their sequential contracts.

Proofs: coq/theories/Props/C17.v over the executable model coq/theories/Conc/Cells.v
        (`step : mode -> state -> op -> state * list event`), for ALL operation sequences.
C:      every operation sequence (corpus, exhaustive families, random up to length 34) is compiled
        to a Gluon program and run on the real VM (harness/src/bin/c17.rs); its log is compared
        with the extracted model in two modes:
          fixed     the model the C17 theorems are about in full (a failed thunk stores the failure:
                    every later force from any thread is an error).  impl == fixed is what the
                    check demands.
          faithful  vm/src/lazy.rs as it is on the unchanged tree (a failed thunk leaves
                    `Blackhole(owner)`); proved to hang for forces from another thread
                    (C17_lazy_failure_other_thread_refuted).  Used to classify a disagreement:
                    impl == faithful != fixed is exactly that defect.
"""
import json
import os

from . import common

KEY_DEFECT = "lazy:failed-thunk-leaves-blackhole:cross-thread-force-never-returns"


def tie(ctx, tier_override=None, tag="tie", extra=()):
    """Run the correspondence; returns (ran, n_cases, rows) with rows = [(case, fixed, faithful, impl)] of
    the cases where the implementation differs from the fixed-mode model."""
    out_dir = os.path.join(ctx.run_dir, tag)
    os.makedirs(out_dir, exist_ok=True)
    if not ctx.build_harness("c17"):
        return False, 0, []
    model = ctx.build_model("c17")
    if model is None:
        return False, 0, []
    saved = ctx.tier
    if tier_override:
        ctx.tier = tier_override
    rc, out = ctx.run_harness("c17", out_dir=out_dir, extra=list(extra))
    ctx.tier = saved
    if rc != 0:
        ctx.log("harness c17 failed:", out[-500:])
        ctx.harness_crash = out[-1500:]
        return False, 0, []
    fixed_in = os.path.join(out_dir, "model_in.txt")
    faith_in = os.path.join(out_dir, "model_in_faithful.txt")
    with open(fixed_in) as fi, open(faith_in, "w") as fo:
        for line in fi:
            assert line.startswith("fixed "), line
            fo.write("faithful " + line[len("fixed "):])
    fixed_out = os.path.join(out_dir, "model_out.txt")
    faith_out = os.path.join(out_dir, "model_out_faithful.txt")
    if not ctx.run_model(model, fixed_in, fixed_out) or not ctx.run_model(model, faith_in, faith_out):
        return False, 0, []
    impl = common.read_lines(os.path.join(out_dir, "impl_out.txt"))
    fx = common.read_lines(fixed_out)
    fa = common.read_lines(faith_out)
    cases = common.read_lines(os.path.join(out_dir, "cases.txt"))
    n = max(len(impl), len(fx), len(fa), len(cases))
    get = lambda xs, i: xs[i] if i < len(xs) else "<missing>"
    rows = []
    agree_faithful = 0
    for i in range(n):
        if get(impl, i) == get(fa, i):
            agree_faithful += 1
        if get(impl, i) != get(fx, i):
            rows.append((get(cases, i), get(fx, i), get(fa, i), get(impl, i)))
    stats = json.load(open(os.path.join(out_dir, "stats.json")))
    cov = ctx.coverage
    cov["evaluations"] = cov.get("evaluations", 0) + stats["evaluations"]
    cov["distinct_nontrivial"] = cov.get("distinct_nontrivial", 0) + stats["distinct_nontrivial"]
    cov["rule"] = stats["rule"]
    cov["input_distribution"] = stats["hist"]
    cov["exhaustive"] = True
    b = stats["exhaustive_bounds"]
    cov["exhaustive_bound"] = (
        "every well-scoped operation sequence prefix ++ w with 1 <= |w| <= max_len over the family's alphabet whose last "
        "operation is not an allocation (allocations are numbered in creation order; values are the position of the "
        "operation): " + "; ".join("%s: prefix [%s], max_len %d, %d sequences (%s)" % (k, v["prefix"], v["max_len"], v["cases"], v["alphabet"]) for k, v in sorted(b.items()))
    )
    cov["traces_validated_against_impl"] = cov.get("traces_validated_against_impl", 0) + n
    cov["cases_agreeing_with_faithful_model"] = cov.get("cases_agreeing_with_faithful_model", 0) + agree_faithful
    cov["cases_agreeing_with_fixed_model"] = cov.get("cases_agreeing_with_fixed_model", 0) + (n - len(rows))
    cov["hangs_confirmed_with_blocking_run_expr"] = stats.get("hangs_confirmed_with_blocking_run_expr", 0)
    cov["programs_per_second"] = round(stats.get("programs_per_second", 0), 1)
    cov["samples"] = [
        {"ops": cases[i], "model_fixed": fx[i], "model_faithful": fa[i], "impl": impl[i]}
        for i in (0, 10, len(cases) // 3, len(cases) // 2, len(cases) - 1)
        if i < len(cases) and i < len(fx) and i < len(fa) and i < len(impl)
    ]
    return True, n, rows


def report(ctx, rows):
    """Turn disagreements with the fixed-mode model into violations."""
    defect = [r for r in rows if r[3] == r[2]]           # impl behaves like the faithful model of lazy.rs
    other = [r for r in rows if r[3] != r[2]]
    if defect:
        defect.sort(key=lambda r: (len(r[0].split()), len(r[0]), r[0]))
        main_hang = [r for r in defect if r[3] == "HANG"]
        blocked = [r for r in defect if r[3] != "HANG"]
        examples = (main_hang[:1] + blocked[:1]) or defect[:1]
        case, fx, fa, im = examples[0]
        # By C17_lazy_failure_errors_everywhere the fixed-mode model reports an error for every force after a
        # failed evaluation; the implementation does not return from that force (main thread: the
        # program hangs; coroutine: it stays pending for ever), exactly as the faithful model
        # predicts (C17_lazy_failure_other_thread_refuted).
        ctx.violation(
            KEY_DEFECT,
            "force of a lazy value whose thunk failed (or depends on itself) never returns when it is issued by "
            "another thread than the one that evaluated the thunk: vm/src/lazy.rs leaves the cell `Blackhole(owner)` "
            "after a failed evaluation; %d of the explored sequences show it (%d hang the whole program, %d leave a "
            "coroutine pending for ever), shortest: `%s`" % (len(defect), len(main_hang), len(blocked), case),
            case={"ops": case},
            expected=fx,
            observed=im,
            extra={"faithful_model": fa, "more_examples": [{"ops": r[0], "expected": r[1], "observed": r[3]} for r in examples[1:] + defect[1:6]],
                   "count": len(defect)},
        )
    for (case, fx, fa, im) in other[:10]:
        ctx.violation(
            "cells:" + case,
            "operation sequence `%s` is observed as `%s`; the sequential contracts of channel/reference/lazy/coroutine give `%s`" % (case, im, fx),
            case={"ops": case},
            expected=fx,
            observed=im,
            extra={"faithful_model": fa},
        )
    return len(defect), len(other)


def run(ctx):
    proved = ctx.coq_prove("C17")
    ran, n, rows = tie(ctx)
    nd = no = 0
    if ran:
        nd, no = report(ctx, rows)
    ctx.obligations.append(common.Obligation(
        "correspondence:cells-vs-fixed-model", "correspondence", ran and not rows,
        "%d sequences, %d disagree with the model the theorems hold for in full (%d of them are the lazy.rs "
        "Blackhole-after-failure behaviour predicted by the faithful model, %d unexplained)" % (n, len(rows), nd, no)))
    ctx.obligations.append(common.Obligation(
        "correspondence:cells-vs-faithful-or-fixed-model", "correspondence", ran and no == 0,
        "%d sequences, %d match neither the model of lazy.rs as it is nor the fixed one" % (n, no)))
    ctx.trusted.append("harness/src/bin/c17.rs: sequence generators, the Gluon printer (helper module c17lib: log, catch around force/resume, "
                       "pure-typed std.st.reference.prim counter inside thunks, `knot` for self-dependent thunks), hang detection "
                       "(Pending without wake-up on a single OS thread; a sample is confirmed with blocking run_expr + watchdog), "
                       "worker watchdog; coq/extract/c17/driver.ml (parser, token printer)")
    ctx.assumptions.append("values are Int (deep cloning between thread heaps is the identity on them); coroutine bodies and thunk "
                           "bodies are the scripts of Cells.v (no yield inside a thunk, no spawn/resume inside a coroutine); forces and "
                           "resumes are wrapped in std.io.catch so an error is an observation and not the end of the program")
    ctx.assumptions.append("error messages are not compared (force error = any error); OS threads / spawn_on / join are not exercised: "
                           "all interleavings are those of coroutines driven by resume/yield on one OS thread")
    broken = [o for o in ctx.obligations if not o.ok and o.kind in ("theorem", "audit")]
    if (broken or not ran) and not rows:
        found = []
        if ran and ctx.tier != "thorough":
            # search: widen to longer random sequences and the next exhaustive depth of the lazy families
            ran2, n2, found = tie(ctx, tier_override="quick", tag="search",
                                  extra=["random=20000", "len_lazy_threads=6", "len_lazy_seq=7", "len_threads=5"])
            if ran2:
                report(ctx, found)
        if not found:
            names = [o.name for o in broken] or ["correspondence:cells (could not run: %s)" % getattr(ctx, "build_error", getattr(ctx, "harness_crash", "?"))[:300]]
            for nm in names[:5]:
                ctx.violation("obligation:" + nm, "obligation no longer checks: " + nm, obligation=nm, no_input=True,
                              extra={"detail": [o.detail for o in broken if o.name == nm]})


def replay(ctx, path):
    if not ctx.build_harness("c17"):
        return 2
    rc, out = common.sh([ctx.harness_bin("c17"), "--replay", path], timeout=300)
    print(out)
    return 0
