"""C20 — editor queries are total and agree with the typechecker.

T: coq/gen/SpanGen.v regenerated from base/src/pos.rs (contains, contains_pos, containment,
   containment_exclusive).
Proofs: coq/theories/Props/C20.v over coq/theories/Front/Spans.v (the position search of
   completion/src/lib.rs on an abstract span tree, scope_at).
C: harness/src/bin/c20.rs runs the real front end on generated programs (complete / truncated after
   every token / one token deleted) and calls every editor query at EVERY byte offset under
   catch_unwind; the typed AST is exported as a span tree and the extracted model
   (coq/extract/c20) answers the same positions:
     - search result (status, matched node, innermost enclosing node) must be equal,
     - the type `find` reports at a node that carries a checker annotation must be that annotation,
     - every suggested name must be in scope_at (or a field of the record being projected),
     - no query may panic.
"""
import json
import os

from . import common

BINDER_SORT = {"1": "let", "2": "rec-let", "3": "let-arg", "4": "lambda-arg", "5": "match-alt", "6": "type", "7": "constructor", "8": "do"}


def fields(line):
    d = {}
    for part in line.split():
        if "=" in part:
            k, v = part.split("=", 1)
            d[k] = v
    return d


def unesc(s):
    out = []
    i = 0
    while i < len(s):
        if s[i] == "\\" and i + 1 < len(s):
            out.append({"n": "\n", "r": "\r", "\\": "\\"}.get(s[i + 1], s[i + 1]))
            i += 2
        else:
            out.append(s[i])
            i += 1
    return "".join(out)


def compare(out_dir):
    """Stream model_out / impl_out / cases.  Returns a dict of tallies and example lists."""
    res = {
        "lines": 0, "positions": 0, "opaque": 0, "same": 0, "trees": 0, "wf": 0, "plain": 0,
        "find_diffs": [], "n_find_diffs": 0,
        "type_bad": [], "n_type_bad": 0,
        "scope_bad": {}, "n_scope_bad": 0,
        "protocol_errors": [],
        "samples": [],
        "wf_by_status": {},
    }
    cur = None  # current T case line
    with open(os.path.join(out_dir, "model_out.txt"), errors="replace") as fm, \
            open(os.path.join(out_dir, "impl_out.txt"), errors="replace") as fi, \
            open(os.path.join(out_dir, "cases.txt"), errors="replace") as fc:
        for m, im, cs in zip(fm, fi, fc):
            m, im, cs = m.rstrip("\n"), im.rstrip("\n"), cs.rstrip("\n")
            res["lines"] += 1
            if im.startswith("T "):
                cur = cs
                res["trees"] += 1
                if not m.startswith(im + " "):
                    res["protocol_errors"].append((cs[:200], m, im))
                    continue
                f = fields(m)
                res["wf"] += f.get("wf") == "1"
                res["plain"] += f.get("plain") == "1"
                stt = fields(cs.split(" src=", 1)[0]).get("status", "?")
                k = "%s:%s" % (stt, "well-nested" if f.get("wf") == "1" else "not-well-nested")
                res["wf_by_status"][k] = res["wf_by_status"].get(k, 0) + 1
                continue
            res["positions"] += 1
            if m == "opaque":
                res["opaque"] += 1
                continue
            if m == im:
                res["same"] += 1
                if res["same"] in (10, 1000, 50000, 400000):
                    res["samples"].append({"program": prog_of(cur), "position": cs, "model": m, "impl": im})
                continue
            mf, imf = fields(m), fields(im)
            src = prog_of(cur)
            qf = fields(cs)
            case = {"program": src["src"], "variant": src["variant"], "hash": src["hash"], "offset": int(qf.get("offset", "-1")), "query": cs}
            if any(mf.get(k) != imf.get(k) for k in ("r", "m", "e")):
                res["n_find_diffs"] += 1
                if len(res["find_diffs"]) < 50:
                    res["find_diffs"].append((case, m, im))
                continue
            if mf.get("ty") != "ok":
                res["n_type_bad"] += 1
                if len(res["type_bad"]) < 50:
                    res["type_bad"].append((case, m, im))
            sc = mf.get("sc", "ok")
            if sc != "ok":
                res["n_scope_bad"] += 1
                for item in sc.split(":", 1)[1].split(","):
                    nm, cls = item.split("/")
                    if cls == "unbound":
                        key = "unbound"
                    else:
                        key = "%s:%s" % (BINDER_SORT.get(cls[:-1], cls[:-1]), "before" if cls[-1] == "b" else "after")
                    e = res["scope_bad"].setdefault(key, {"count": 0, "case": None, "model": None})
                    e["count"] += 1
                    if e["case"] is None or len(case["program"]) < len(e["case"]["program"]):
                        e["case"] = dict(case, name_id=nm)
                        e["model"] = m
    return res


def prog_of(tline):
    # T <vid> prog=<pid> variant=<v> hash=<h> src=<escaped>
    head, src = tline.split(" src=", 1)
    f = fields(head)
    return {"src": unesc(src), "variant": f.get("variant", "?"), "hash": f.get("hash", "?"), "pid": f.get("prog", "?")}


def tie(ctx, tier_override=None, tag="tie"):
    out_dir = os.path.join(ctx.run_dir, tag)
    os.makedirs(out_dir, exist_ok=True)
    if not ctx.build_harness("c20"):
        return None
    model = ctx.build_model("c20")
    if model is None:
        return None
    saved = ctx.tier
    if tier_override:
        ctx.tier = tier_override
    rc, out = ctx.run_harness("c20", out_dir=out_dir)
    ctx.tier = saved
    if rc != 0:
        ctx.log("harness c20 failed:", out[-500:])
        ctx.harness_crash = out[-1500:]
        return None
    if not ctx.run_model(model, os.path.join(out_dir, "model_in.txt"), os.path.join(out_dir, "model_out.txt")):
        return None
    res = compare(out_dir)
    res["stats"] = json.load(open(os.path.join(out_dir, "stats.json")))
    res["panics"] = [json.loads(l) for l in common.read_lines(os.path.join(out_dir, "panics.jsonl")) if l.strip()]
    res["direct"] = [json.loads(l) for l in common.read_lines(os.path.join(out_dir, "direct.jsonl")) if l.strip()]
    ab = os.path.join(out_dir, "aborts.jsonl")
    res["aborts"] = [json.loads(l) for l in common.read_lines(ab) if l.strip()] if os.path.exists(ab) else []
    return res


def report(ctx, res):
    """Turn the findings of one tie run into violations.  Returns the number of concrete ones."""
    n = 0
    # 1. panics: one per (query, panic location), smallest program
    for p in res["panics"]:
        n += 1
        ctx.violation(
            "completion-panic:%s@%s:%s:%d" % (p["function"], p["location"], p["hash"], p["offset"]),
            "gluon_completion::%s panics at %s (%s) at byte offset %d of a %s program; %d positions hit this site"
            % (p["function"], p["location"], p["message"], p["offset"], p["variant"].split(":")[0], p["count"]),
            case={"program": p["program"], "offset": p["offset"], "function": p["function"], "variant": p["variant"]},
            expected="the query returns", observed="panic at %s: %s" % (p["location"], p["message"]))
    # 1b. a query that takes the whole process down (stack overflow, non-unwinding panic) or hangs:
    #     found by the parent process, pinned to a query and an offset by a probe run
    for a in res["aborts"]:
        if a.get("phase") != "query":
            continue  # the parser / checker died on this text: C09's subject, counted in the coverage
        n += 1
        ctx.violation(
            "completion-abort:%s:%s:%s" % (a.get("function"), a.get("hash"), a.get("offset")),
            "gluon_completion::%s does not return at byte offset %s (%s): %s"
            % (a.get("function"), a.get("offset"), a.get("how"), (a.get("probe_stderr") or a.get("stderr") or "").strip()[-200:]),
            case={"program": a.get("program"), "offset": a.get("offset"), "function": a.get("function"), "variant": a.get("variant")},
            expected="the query returns", observed="%s; %s" % (a.get("how"), (a.get("stderr") or "").strip()[-300:]))
    # 2. the type reported at an identifier is not the checker's (direct oracle over the AST's own identifiers)
    seen_classes = set()
    for d in sorted(res["direct"], key=lambda d: len(d["program"])):
        cls = (d["status"], d["where"], d["selected"])
        if cls in seen_classes or len(seen_classes) >= 12:
            continue
        seen_classes.add(cls)
        n += 1
        ctx.violation(
            "ident-type:%s:%s:%s:%s:%d" % (d["status"], d["where"], d["selected"], d["hash"], d["offset"]),
            "in a %s program find reports `%s` (the type of a %s node) %s identifier `%s` whose checker type is `%s`"
            % (d["status"], d["reported"], d["selected"], "at the first byte of" if d["where"] == "at-start" else "inside", d["ident"], d["checker_type"]),
            case={"program": d["program"], "offset": d["offset"], "variant": d["variant"]},
            expected=d["checker_type"], observed=d["reported"])
    # 3. same node selected as the model, but another type than the annotation of that node
    for (case, m, im) in res["type_bad"][:10]:
        n += 1
        ctx.violation(
            "type-at-node:%s:%d" % (case["hash"], case["offset"]),
            "find selects the node the model selects but reports a type that is not the checker's annotation of it (%s)" % m,
            case=case, expected=m, observed=case["query"])
    # 4. suggestions that are not in scope, one per class (sort of the nearest binder of the name, side)
    for key, e in sorted(res["scope_bad"].items()):
        n += 1
        ctx.violation(
            "suggest-out-of-scope:" + key,
            "suggest offers a name that is not in scope at the cursor: nearest binding is a %s whose scope lies %s the position (%d positions)"
            % (key.split(":")[0], "after" if key.endswith("before") else "before" if key.endswith("after") else "nowhere near", e["count"]),
            case=e["case"], expected="every suggested name is in scope_at(position) or a field of the projected record", observed=e["model"])
    # 5. search disagreements: by find_leaf_found / find_hit_contains the model's answer is the leaf
    #    at the cursor; an implementation that answers differently reports another node
    for (case, m, im) in res["find_diffs"][:10]:
        n += 1
        ctx.violation(
            "find-node:%s:%d" % (case["hash"], case["offset"]),
            "the position search selects %s where the walk of completion/src/lib.rs over the exported tree selects %s" % (im, m),
            case=case, expected=m, observed=im)
    return n


def run(ctx):
    gen_ok = ctx.gen_coq(["SpanGen"])
    if gen_ok:
        ctx.coq_prove("C20")
    res = tie(ctx)
    ran = res is not None
    if ran:
        st = res["stats"]
        ok = not res["find_diffs"] and not res["protocol_errors"]
        ctx.obligations.append(common.Obligation(
            "correspondence:find-position-search", "correspondence", ok,
            "%d positions compared with the model (%d more inside unmodelled type syntax), %d disagreements" % (res["positions"] - res["opaque"], res["opaque"], res["n_find_diffs"])))
        q_aborts = [a for a in res["aborts"] if a.get("phase") == "query"]
        ctx.obligations.append(common.Obligation(
            "monitor:no-panic", "correspondence", not res["panics"] and not q_aborts and not st.get("chunks_without_result"),
            "%d queries at %d positions; %d (query, location) panic sites; %d process aborts/hangs inside a query; %d chunks without result"
            % (st["evaluations"], st["positions"], len(res["panics"]), len(q_aborts), st.get("chunks_without_result", 0))))
        ctx.coverage["front_end_aborts_not_attributed_to_C20"] = [
            {"phase": a.get("phase"), "how": a.get("how"), "program": a.get("program")} for a in res["aborts"] if a.get("phase") != "query"][:10]
        ctx.obligations.append(common.Obligation(
            "monitor:type-at-identifier", "correspondence", not res["direct"] and not res["type_bad"],
            "%d identifier positions checked directly; %d differ; %d labelled nodes with another type" % (st["ident_positions"], len(res["direct"]), res["n_type_bad"])))
        ctx.obligations.append(common.Obligation(
            "monitor:suggestions-in-scope", "correspondence", not res["scope_bad"],
            "%d positions with an out-of-scope suggestion, classes: %s" % (res["n_scope_bad"], ", ".join("%s x%d" % (k, v["count"]) for k, v in sorted(res["scope_bad"].items())))))
        ctx.coverage["evaluations"] = st["evaluations"]
        ctx.coverage["distinct_nontrivial"] = st["distinct_nontrivial"]
        ctx.coverage["rule"] = st["rule"]
        ctx.coverage["positions"] = st["positions"]
        ctx.coverage["program_variants"] = st["variants"]
        ctx.coverage["programs"] = st["programs"]
        ctx.coverage["input_distribution"] = st["hist"]
        ctx.coverage["traces_validated_against_impl"] = res["positions"] - res["opaque"]
        ctx.coverage["trees_exported"] = res["trees"]
        ctx.coverage["trees_well_nested"] = res["wf"]
        ctx.coverage["trees_fully_modelled"] = res["plain"]
        ctx.coverage["trees_by_front_end_status_and_nesting"] = res["wf_by_status"]
        ctx.coverage["positions_in_unmodelled_type_syntax"] = res["opaque"]
        ctx.coverage["front_end_panics_not_attributed_to_C20"] = st["front_end_panics"]
        ctx.coverage["exhaustive"] = False
        ctx.coverage["per_program_enumeration"] = "programs are sampled; for each program ALL variants (complete, truncated after each token, each single token deleted) and for each variant EVERY byte offset 0..=len are enumerated"
        ctx.coverage["samples"] = res["samples"]
        for pe in res["protocol_errors"][:3]:
            ctx.log("protocol error:", pe)
        report(ctx, res)
    ctx.trusted.append("translator harness/src/tr/span.rs (syn): the four Span methods of base/src/pos.rs")
    ctx.trusted.append("harness/src/bin/c20.rs: program generator, front-end driver (parse_partial + rename + metadata + reparse_infix + Typecheck with a Bool-only environment), "
                       "span-tree exporter mirroring the children FindVisitor selects over, binder scopes computed from the language's scoping rules and the token stream, panic hook")
    ctx.trusted.append("coq/extract/c20/driver.ml: number conversion and printing only")
    ctx.assumptions.append("type syntax (type declarations, annotations) is not modelled below its root: positions inside it are checked for panics and scope only")
    ctx.assumptions.append("a binder's scope extends over the whitespace up to the next token; arguments are in scope from the first argument on")
    ctx.assumptions.append("macro-expanded code (VisitUnExpanded), implicit arguments and module-import suggestions are not exercised (no prelude, no imports)")
    ctx.assumptions.append("panics of the parser/checker on truncated programs are C09's subject and only counted here")
    broken = [o for o in ctx.obligations if not o.ok and o.kind in ("theorem", "translator", "audit")]
    concrete = [v for v in ctx.violations if not v["no_input"]]
    if (broken or not ran) and not concrete:
        found = 0
        if ran and ctx.tier != "thorough":
            res2 = tie(ctx, tier_override="thorough", tag="search")
            if res2 is not None:
                found = report(ctx, res2)
        if not found:
            names = [o.name for o in broken] or ["correspondence:find-position-search (could not run: %s)" % getattr(ctx, "build_error", getattr(ctx, "harness_crash", "?"))[:300]]
            for nm in names[:5]:
                ctx.violation("obligation:" + nm, "obligation no longer checks: " + nm, obligation=nm, no_input=True,
                              extra={"detail": [o.detail for o in broken if o.name == nm]})


def replay(ctx, path):
    if not ctx.build_harness("c20"):
        return 2
    out_dir = os.path.join(ctx.run_dir, "replay")
    os.makedirs(out_dir, exist_ok=True)
    rc, out = common.sh([ctx.harness_bin("c20"), "--out", out_dir, "--replay", path])
    print(out)
    model = ctx.build_model("c20")
    if model is not None and os.path.exists(os.path.join(out_dir, "model_in.txt")):
        if ctx.run_model(model, os.path.join(out_dir, "model_in.txt"), os.path.join(out_dir, "model_out.txt")):
            print("model_out:")
            print(open(os.path.join(out_dir, "model_out.txt")).read())
    return 0
