"""Shared machinery of ./check: regenerate, prove, build, tie, report.

Every property module (checks/cXX.py) defines `run(ctx)` and uses the helpers below.  The
driver never writes KNOWN_FINDINGS.txt; evidence/<id>.json is rewritten on every run.
"""
import fcntl
import hashlib
import json
import os
import re
import subprocess
import sys
import time

VERIF = os.path.dirname(os.path.dirname(os.path.abspath(__file__)))
REPO = os.environ.get("GLUON_REPO", "/repo")
CACHE = os.path.join(VERIF, ".cache")
COQ = os.path.join(VERIF, "coq")
HARNESS = os.path.join(VERIF, "harness")
TARGET = os.path.join(CACHE, "target")

ENV = dict(os.environ)
ENV.update({"CARGO_NET_OFFLINE": "true", "GLUON_REPO": REPO})

# Axioms that may appear under Print Assumptions: only ones declared by the Coq standard
# library (named in DESIGN.md section 8).  Anything else fails the obligation.
AXIOM_ALLOW = {
    "functional_extensionality_dep",
    "FunctionalExtensionality.functional_extensionality_dep",
    "proof_irrelevance",
    "ProofIrrelevance.proof_irrelevance",
    "Classical_Prop.classic",
    "classic",
    "Eqdep.Eq_rect_eq.eq_rect_eq",
    "eq_rect_eq",
    "JMeq_eq",
    "JMeq.JMeq_eq",
}

FORBIDDEN = re.compile(
    r"\b(Admitted|admit|Axiom|Axioms|Parameter|Parameters|Conjecture|Admit Obligations|Unset Guard Checking|"
    r"Unset Positivity Checking|Unset Universe Checking|bypass_check|Abort All)\b|type-in-type|impredicative-set"
)


class Lock:
    def __init__(self, name):
        os.makedirs(CACHE, exist_ok=True)
        self.path = os.path.join(CACHE, name + ".lock")

    def __enter__(self):
        self.f = open(self.path, "w")
        fcntl.flock(self.f, fcntl.LOCK_EX)
        return self

    def __exit__(self, *a):
        fcntl.flock(self.f, fcntl.LOCK_UN)
        self.f.close()


def sh(cmd, cwd=None, timeout=None, env=None, stdin=None):
    """Run a command, return (rc, combined output)."""
    try:
        p = subprocess.run(
            cmd,
            cwd=cwd,
            env=env or ENV,
            stdout=subprocess.PIPE,
            stderr=subprocess.STDOUT,
            timeout=timeout,
            shell=isinstance(cmd, str),
            stdin=stdin,
        )
        return p.returncode, p.stdout.decode("utf-8", "replace")
    except subprocess.TimeoutExpired as e:
        out = (e.stdout or b"").decode("utf-8", "replace")
        return 124, out + "\n[timeout]"


class Obligation:
    def __init__(self, name, kind, ok, detail=""):
        self.name, self.kind, self.ok, self.detail = name, kind, ok, detail

    def to_json(self):
        return {"name": self.name, "kind": self.kind, "ok": self.ok, "detail": self.detail[:2000]}


class Ctx:
    def __init__(self, prop, tier, seed, replay=None):
        self.prop = prop
        self.tier = tier
        self.seed = seed
        self.replay = replay
        self.t0 = time.time()
        self.obligations = []  # proof obligations + translator items + correspondences
        self.violations = []  # dicts {key, what, replay, no_input}
        self.known = []  # lines printed as KNOWN-FINDING
        self.coverage = {}
        self.trusted = []
        self.assumptions = []
        self.run_dir = os.path.join(CACHE, "run", prop.lower() + "-" + tier)
        os.makedirs(self.run_dir, exist_ok=True)
        self.log_lines = []

    # ---- logging ----
    def log(self, *a):
        s = " ".join(str(x) for x in a)
        self.log_lines.append(s)
        print("[%s %6.1fs] %s" % (self.prop, time.time() - self.t0, s), flush=True)

    # ---- translators ----
    def gen_coq(self, items):
        """Regenerate coq/gen/<item>.v from /repo.  A source shape the translator does not
        recognise is a broken obligation `translator:<item>`."""
        ok = self.build_harness("gencoq")
        if not ok:
            for it in items:
                self.obligations.append(Obligation("translator:" + it, "translator", False, "harness build failed"))
            return False
        rc, out = sh([os.path.join(TARGET, "debug", "gencoq"), os.path.join(COQ, "gen")] + list(items))
        allok = True
        seen = set()
        for line in out.splitlines():
            parts = line.split(" ", 2)
            if len(parts) >= 2 and parts[0] in ("ok", "fail"):
                seen.add(parts[1])
                good = parts[0] == "ok"
                allok = allok and good
                self.obligations.append(
                    Obligation("translator:" + parts[1], "translator", good, parts[2] if len(parts) > 2 else "")
                )
        for it in items:
            if it not in seen:
                allok = False
                self.obligations.append(Obligation("translator:" + it, "translator", False, "no output: " + out[-500:]))
        self.log("gen-coq", "ok" if allok else "FAILED", out.strip().replace("\n", " ; ")[:300])
        return allok

    # ---- Coq ----
    def coq_prove(self, props_file, timeout=1500):
        """Build theories/Props/<props_file>.vo (full .vo build) and check Print Assumptions of
        every pinned theorem.  Returns True when every obligation is discharged."""
        rel = "theories/Props/%s.vo" % props_file
        src = os.path.join(COQ, "theories", "Props", props_file + ".v")
        text = open(src).read()
        pinned = re.findall(r"^\s*(?:Theorem|Lemma|Corollary)\s+([A-Za-z0-9_']+)", text, re.M)
        printed = re.findall(r"^\s*Print Assumptions\s+([A-Za-z0-9_'.]+)\s*\.", text, re.M)
        with Lock("coq"):
            try:
                os.remove(os.path.join(COQ, rel))
            except FileNotFoundError:
                pass
            rc, out = sh(["./mk.sh", "-j16", "-O", rel], cwd=COQ, timeout=timeout)
        open(os.path.join(self.run_dir, "coq.log"), "w").write(out)
        self.coverage["checker_cmd"] = "cd coq && ./mk.sh -j16 -O %s   (coq_makefile + make, full .vo build, coqc 8.16.1)" % rel
        if rc != 0:
            # which file failed?
            m = re.search(r'File "\./([^"]+)", line (\d+)', out)
            where = "%s:%s" % (m.group(1), m.group(2)) if m else "?"
            err = out[-1500:]
            self.log("coq build FAILED at", where)
            for name in pinned:
                self.obligations.append(Obligation(name, "theorem", False, "build failed at %s: %s" % (where, err[-400:])))
            self.coq_failed_at = where
            return False
        # parse Print Assumptions output, in file order
        blocks = []
        cur = None
        for line in out.splitlines():
            if line.startswith("Closed under the global context"):
                blocks.append([])
                cur = None
            elif line.startswith("Axioms:"):
                cur = []
                blocks.append(cur)
            elif cur is not None:
                m = re.match(r"^([A-Za-z0-9_'.]+)\s*:", line)
                if m:
                    cur.append(m.group(1))
                elif not line.startswith(" ") and line.strip():
                    cur = None
        allok = True
        if len(blocks) != len(printed) or set(printed) != set(pinned):
            allok = False
            self.obligations.append(
                Obligation(
                    "print-assumptions:" + props_file,
                    "audit",
                    False,
                    "pinned=%d printed=%d blocks=%d (every pinned theorem must be followed by Print Assumptions)"
                    % (len(pinned), len(printed), len(blocks)),
                )
            )
        axioms_seen = set()
        for name, axs in zip(printed, blocks):
            bad = [a for a in axs if a not in AXIOM_ALLOW and a.split(".")[-1] not in AXIOM_ALLOW]
            axioms_seen.update(axs)
            good = not bad
            allok = allok and good
            self.obligations.append(
                Obligation(name, "theorem", good, ("axioms: " + ", ".join(axs)) if axs else "closed under the global context")
            )
        # forbidden constructs anywhere in the development
        hits = forbidden_scan()
        good = not hits
        allok = allok and good
        self.obligations.append(Obligation("no-admitted-no-axiom-scan", "audit", good, "; ".join(hits[:10])))
        self.trusted.append("Coq 8.16.1 kernel (coqc), vm_compute for closed boolean sweeps and witnesses; no native_compute")
        self.trusted.append(
            "Print Assumptions of every pinned theorem: "
            + (", ".join(sorted(axioms_seen)) if axioms_seen else "closed under the global context (no axioms)")
        )
        self.log("coq: %d pinned theorems, all discharged=%s" % (len(printed), allok))
        return allok

    # ---- Rust harness ----
    def build_harness(self, binname, release=False, timeout=3000):
        lock = os.path.join(HARNESS, "Cargo.lock")
        # Cargo.lock must be the repository's (no network to resolve anything else)
        if not os.path.exists(lock):
            sh(["cp", os.path.join(REPO, "Cargo.lock"), lock])
        cmd = ["cargo", "build", "--offline", "--bin", binname] + (["--release"] if release else [])
        rc, out = sh(cmd, cwd=HARNESS, timeout=timeout)
        if rc != 0:
            open(os.path.join(self.run_dir, "cargo-%s.log" % binname), "w").write(out)
            errs = [l for l in out.splitlines() if l.startswith("error")]
            self.log("cargo build %s FAILED: %s" % (binname, " | ".join(errs[:5])))
            self.build_error = "\n".join(errs[:20]) or out[-1000:]
            return False
        return True

    def harness_bin(self, binname, release=False):
        return os.path.join(TARGET, "release" if release else "debug", binname)

    def run_harness(self, binname, extra=(), timeout=3000, out_dir=None, release=False):
        out_dir = out_dir or self.run_dir
        cmd = [self.harness_bin(binname, release), "--tier", self.tier, "--seed", str(self.seed), "--out", out_dir] + list(extra)
        rc, out = sh(cmd, timeout=timeout)
        open(os.path.join(out_dir, "harness.log"), "w").write(out)
        return rc, out

    # ---- extracted model ----
    def build_model(self, mid):
        """Extract coq/extract/<mid>/Extract.v and compile it with driver.ml -> .cache/extract/<mid>/model"""
        d = os.path.join(CACHE, "extract", mid)
        os.makedirs(d, exist_ok=True)
        src = os.path.join(COQ, "extract", mid)
        with Lock("coq"):
            rc, out = sh(
                ["coqc", "-Q", os.path.join(COQ, "theories"), "GV", "-Q", os.path.join(COQ, "gen"), "GVgen",
                 os.path.join(src, "Extract.v"), "-o", os.path.join(d, "Extract.vo")],
                cwd=d, timeout=600)
            if rc != 0:
                self.log("extraction FAILED:", out[-600:])
                return None
            mls = [f for f in os.listdir(src) if f.endswith(".ml")]
            for f in mls:
                sh(["cp", os.path.join(src, f), d])
            order = [f for f in ["sexp.ml", "driver.ml"] if f in mls]
            rc, out = sh(["ocamlfind", "ocamlopt", "-O2", "-w", "-a", "model.mli", "model.ml"] + order + ["-o", "model"], cwd=d, timeout=600)
            if rc != 0:
                self.log("ocaml build FAILED:", out[-600:])
                return None
        self.trusted.append(
            "extraction: Require Extraction ExtrOcamlBasic only (bool/option/unit/list/prod/sumbool/sumor mapped to OCaml; "
            "nat/positive/N/Z stay inductive), no Extract Constant; OCaml 4.13.1; hand-written driver coq/extract/%s/driver.ml" % mid
        )
        return os.path.join(d, "model")

    def run_model(self, model, infile, outfile, timeout=3000):
        with open(infile, "rb") as fi, open(outfile, "wb") as fo:
            p = subprocess.run([model], stdin=fi, stdout=fo, stderr=subprocess.PIPE, timeout=timeout)
        if p.returncode != 0:
            self.log("model driver failed:", p.stderr.decode()[-500:])
        return p.returncode == 0

    # ---- reporting ----
    def violation(self, key, what, case=None, expected=None, observed=None, obligation=None, no_input=False, extra=None):
        """Record a violation; known-findings filtering happens in finish()."""
        self.violations.append(
            {"key": key, "what": what, "case": case, "expected": expected, "observed": observed,
             "obligation": obligation, "no_input": no_input, "extra": extra or {}}
        )

    def finish(self, level="proof"):
        # A broken proof obligation, translator or audit is always a violation (even when the
        # property module did not turn it into one): the property is no longer shown to hold.
        for o in self.obligations:
            if not o.ok and o.kind in ("theorem", "translator", "audit"):
                if not any((v.get("obligation") == o.name) or (v["key"] == "obligation:" + o.name) for v in self.violations):
                    self.violation("obligation:" + o.name, "obligation no longer checks: %s (%s)" % (o.name, o.detail[:300]),
                                   obligation=o.name, no_input=True, extra={"detail": o.detail})
        known = load_known(self.prop)
        exit_code = 0
        out_lines = []
        reported = 0
        for v in self.violations:
            k = match_known(known, v)
            if k is not None:
                line = "KNOWN-FINDING: property=%s %s" % (self.prop, k.get("what", v["what"]))
                if line not in out_lines:
                    out_lines.append(line)
                continue
            reported += 1
            h = hashlib.sha1((v["key"] + json.dumps(v["case"], sort_keys=True, default=str)).encode()).hexdigest()[:10]
            tag = (v["obligation"] or "input") if v["no_input"] else h
            tag = re.sub(r"[^A-Za-z0-9_.-]", "_", tag)[:60]
            path = os.path.join(VERIF, "replays", "%s-%s.json" % (self.prop, tag))
            os.makedirs(os.path.dirname(path), exist_ok=True)
            json.dump(
                {
                    "property": self.prop,
                    "kind": "no-failing-input-found" if v["no_input"] else "failing-input",
                    "seed": self.seed,
                    "tier": self.tier,
                    "key": v["key"],
                    "what": v["what"],
                    "case": v["case"],
                    "expected": v["expected"],
                    "observed": v["observed"],
                    "obligation": v["obligation"],
                    "extra": v["extra"],
                },
                open(path, "w"),
                indent=1,
                default=str,
            )
            if reported <= 20:
                out_lines.append(
                    "VIOLATION property=%s replay=%s%s" % (self.prop, path, " no-failing-input-found" if v["no_input"] else "")
                )
            exit_code = 1
        # every open known finding of this property is listed on each run (it is a standing defect)
        # An empirical obligation (correspondence / monitor / validator run) that fails ONLY on inputs
        # listed as open known findings is reported as holding "except for the known findings": it is
        # counted as discharged and named in `obligations_excepting_known_findings`.  Theorems,
        # translators and audits are never treated this way.
        excepting = []
        if exit_code == 0 and any(l.startswith("KNOWN-FINDING") for l in out_lines):
            for o in self.obligations:
                if not o.ok and o.kind not in ("theorem", "translator", "audit"):
                    o.ok = True
                    o.detail = "[holds except for the listed known findings] " + o.detail
                    excepting.append(o.name)
        n_obl = len(self.obligations)
        n_ok = sum(1 for o in self.obligations if o.ok)
        cov = dict(self.coverage)
        cov.setdefault("evaluations", 0)
        cov.setdefault("distinct_nontrivial", 0)
        cov.setdefault("rule", "")
        cov.setdefault("samples", [])
        cov["obligations"] = n_obl
        cov["discharged"] = n_ok
        cov.setdefault("checker_cmd", "n/a")
        cov["trusted_base"] = self.trusted
        cov["obligation_list"] = [o.to_json() for o in self.obligations]
        cov["obligations_excepting_known_findings"] = excepting
        ev = {
            "property_id": self.prop,
            "tier": self.tier,
            "seed": self.seed,
            "level": level,
            "coverage": cov,
            "assumptions": self.assumptions,
            "wall_s": round(time.time() - self.t0, 2),
            "violations": reported,
            "known_findings_reported": [l for l in out_lines if l.startswith("KNOWN-FINDING")],
        }
        os.makedirs(os.path.join(VERIF, "evidence"), exist_ok=True)
        json.dump(ev, open(os.path.join(VERIF, "evidence", self.prop + ".json"), "w"), indent=1, default=str)
        for l in out_lines:
            print(l, flush=True)
        self.log("done: obligations %d/%d, evaluations %s, violations %d, exit %d" % (n_ok, n_obl, cov.get("evaluations"), reported, exit_code))
        return exit_code


def forbidden_scan():
    hits = []
    for root in ("theories", "gen", "extract"):
        for dp, _, fs in os.walk(os.path.join(COQ, root)):
            for f in fs:
                if not f.endswith(".v"):
                    continue
                p = os.path.join(dp, f)
                text = strip_comments(open(p, encoding="utf-8", errors="replace").read())
                for i, line in enumerate(text.splitlines(), 1):
                    if FORBIDDEN.search(line):
                        hits.append("%s:%d: %s" % (os.path.relpath(p, COQ), i, line.strip()[:80]))
                # Variable/Hypothesis outside a section
                depth = 0
                for i, line in enumerate(text.splitlines(), 1):
                    if re.match(r"^\s*Section\s", line):
                        depth += 1
                    elif re.match(r"^\s*End\s", line) and depth > 0:
                        depth -= 1
                    elif depth == 0 and re.match(r"^\s*(Variable|Variables|Hypothesis|Hypotheses|Context)\b", line):
                        hits.append("%s:%d: section-less %s" % (os.path.relpath(p, COQ), i, line.strip()[:60]))
    return hits


def strip_comments(text):
    out = []
    depth = 0
    i = 0
    n = len(text)
    while i < n:
        if text.startswith("(*", i):
            depth += 1
            i += 2
        elif text.startswith("*)", i) and depth > 0:
            depth -= 1
            i += 2
        else:
            if depth == 0:
                out.append(text[i])
            elif text[i] == "\n":
                out.append("\n")
            i += 1
    return "".join(out)


def load_known(prop):
    path = os.path.join(VERIF, "KNOWN_FINDINGS.txt")
    res = []
    if os.path.exists(path):
        for line in open(path):
            line = line.strip()
            if not line or line.startswith("#"):
                continue
            try:
                d = json.loads(line)
            except Exception:
                continue
            if d.get("property") == prop and d.get("status") == "open":
                res.append(d)
    return res


def match_known(known, v):
    """A violation matches an open finding when its key equals the finding's key (exact) or the
    finding's key_regex fully matches it.  Keys identify the specific failing input/call site."""
    for k in known:
        if k.get("key") and k["key"] == v["key"]:
            return k
        if k.get("key_regex") and re.fullmatch(k["key_regex"], v["key"]):
            return k
    return None


def diff_lines(a_path, b_path, limit=50):
    """Line-by-line comparison of model and implementation outputs.  Returns (n_lines, [(index, a, b)])."""
    diffs = []
    n = 0
    la = read_lines(a_path)
    lb = read_lines(b_path)
    n = max(len(la), len(lb))
    for i in range(n):
        x = la[i] if i < len(la) else "<missing>"
        y = lb[i] if i < len(lb) else "<missing>"
        if x != y:
            diffs.append((i, x, y))
            if len(diffs) >= limit:
                break
    return n, diffs


def read_lines(path):
    """Lines separated by "\n" only (str.splitlines would also split on form feed, U+0085, U+2028 ...)."""
    with open(path, errors="replace", newline="") as f:
        t = f.read()
    ls = t.split("\n")
    if ls and ls[-1] == "":
        ls.pop()
    return [l[:-1] if l.endswith("\r") else l for l in ls]
