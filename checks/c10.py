"""C10 — the formatter preserves meaning and comments and is idempotent.

Proofs: coq/theories/Props/C10.v (validator soundness, comment scanner theorems, width independence
        of the token sequence of a Wadler-style renderer).
V: the REAL formatter (ThreadExt::format_expr) is run on generated programs in several styles with
   comments in every token gap, CRLF, missing final newline, and on every .glu file of the
   repository as is and under whitespace perturbation; on every (source, output) pair the extracted
   `fmt_check` decides comments/literals; the harness decides same-AST, fixed point, no panic.
C: the extracted scanner of FmtCheck.v against the real tokenizer (comments/literals of every
   source and output), and the extracted CommentIter model against the real
   `gluon_base::source::CommentIter` on all token gaps, windows and synthetic gaps.
"""
import hashlib
import json
import os
import subprocess

from . import common

EXPECTED = ("format(src) parses to the same syntax tree (positions ignored), has the same comments in the same order "
            "and the same literal texts, format(format(src)) = format(src), and nothing panics")


CAP = 400


def _run_model(ctx, model, infile, outfile, args=()):
    with open(infile, "rb") as fi, open(outfile, "wb") as fo:
        p = subprocess.run([model] + list(args), stdin=fi, stdout=fo, stderr=subprocess.PIPE, timeout=3000)
    if p.returncode != 0:
        ctx.log("model driver failed:", p.stderr.decode()[-500:])
    return p.returncode == 0


def tie(ctx, tier_override=None, tag="tie"):
    """Runs harness and model.  Returns dict with the parsed results, or None when it could not run."""
    out_dir = os.path.join(ctx.run_dir, tag)
    os.makedirs(out_dir, exist_ok=True)
    if not ctx.build_harness("c10"):
        return None
    model = ctx.build_model("c10")
    if model is None:
        return None
    saved = ctx.tier
    if tier_override:
        ctx.tier = tier_override
    rc, out = ctx.run_harness("c10", out_dir=out_dir)
    ctx.tier = saved
    if rc != 0:
        ctx.log("harness c10 failed:", out[-500:])
        ctx.harness_crash = out[-1500:]
        return None
    mi = os.path.join(out_dir, "model_in.txt")
    if not _run_model(ctx, model, mi, os.path.join(out_dir, "model_out.txt")):
        return None
    # the guarded variant of the scanner model only matters for the scanner lines
    scan_in = os.path.join(out_dir, "model_in_scan.txt")
    scan_idx = []
    with open(mi) as fi, open(scan_in, "w") as fo:
        for i, line in enumerate(fi):
            if not line.startswith("chk "):
                fo.write(line)
                scan_idx.append(i)
    if not _run_model(ctx, model, scan_in, os.path.join(out_dir, "model_out_guard.txt"), ["guard"]):
        return None
    impl = common.read_lines(os.path.join(out_dir, "impl_out.txt"))
    m0 = common.read_lines(os.path.join(out_dir, "model_out.txt"))
    m1 = list(m0)
    for i, line in zip(scan_idx, common.read_lines(os.path.join(out_dir, "model_out_guard.txt"))):
        m1[i] = line
    cases = [json.loads(l) for l in common.read_lines(os.path.join(out_dir, "cases.txt"))]
    stats = json.load(open(os.path.join(out_dir, "stats.json")))
    failures = [json.loads(l) for l in common.read_lines(os.path.join(out_dir, "failures.jsonl"))]
    res = {"stats": stats, "failures": failures, "n_lines": len(impl), "lexer_diffs": [], "verdict_false": [],
           "scan_diffs": {False: [], True: []}, "n_chk": 0, "n_scan": 0, "out_dir": out_dir}
    if not (len(impl) == len(m0) == len(m1) == len(cases)):
        res["length_mismatch"] = (len(impl), len(m0), len(m1), len(cases))
        return res
    for i, (im, a, b) in enumerate(zip(impl, m0, m1)):
        if im.startswith("chk "):
            res["n_chk"] += 1
            # fields after the verdict: the scanners' observables
            if a.split(" ", 2)[2:] != im.split(" ", 2)[2:]:
                res["lexer_diffs"].append((i, a, im))
            elif a.split(" ")[1] != im.split(" ")[1]:
                res["lexer_diffs"].append((i, a, im))
            if a.split(" ")[1] != "true":
                res["verdict_false"].append(cases[i].get("case"))
        else:
            res["n_scan"] += 1
            if a != im:
                res["scan_diffs"][False].append((i, a, im))
            if b != im:
                res["scan_diffs"][True].append((i, b, im))
    res["cases"] = cases
    return res


def _violations_from(ctx, res):
    """One violation per key: the smallest shrunk example, with the number of inputs that hit it."""
    by_key = {}
    for f in res["failures"]:
        if f["cat"] in ("fmt-refused", "machinery"):
            continue
        k = f["key"]
        text = f.get("shrunk") or f.get("source") or ""
        cur = by_key.get(k)
        if cur is None:
            by_key[k] = {"f": f, "text": text, "n": 1}
        else:
            cur["n"] += 1
            if text and (not cur["text"] or len(text) < len(cur["text"])):
                cur["f"], cur["text"] = f, text
    out = []
    per_cat = {}
    # smallest examples first; at most CAP reported per category (all keys are in evidence coverage.failures_by_key)
    for k in sorted(by_key, key=lambda k: (len(by_key[k]["text"]) or 10**9, k)):
        e = by_key[k]
        f = e["f"]
        per_cat[f["cat"]] = per_cat.get(f["cat"], 0) + 1
        if per_cat[f["cat"]] > CAP:
            continue
        out.append({
            "key": k,
            "what": "%s [%s] (%d inputs of this run; example from %s %s)" % (f["what"], f["detail"][:300], e["n"], f["family"], f["name"]),
            "case": {"source": e["text"], "family": f["family"], "name": f["name"],
                     "sha1": hashlib.sha1(e["text"].encode()).hexdigest()[:12]},
            "observed": f["detail"],
        })
    # verdicts of the verified checker that the harness-side mirror did not name
    named = set(f["case"] for f in res["failures"] if f["cat"] in ("fmt-comment-lost", "fmt-comment-added", "fmt-comment-moved", "fmt-literal-changed", "fmt-output-unparseable"))
    for c in res["verdict_false"]:
        if c not in named:
            out.append({"key": "fmt-check-failed:case-%s" % c, "what": "extracted fmt_check rejects the formatter output of case %s" % c,
                        "case": {"source": None, "case_index": c}, "observed": "fmt_check = false"})
    return out


def run(ctx):
    proved = ctx.coq_prove("C10")
    res = tie(ctx)
    ran = res is not None and "length_mismatch" not in res
    viols = []
    if ran:
        st = res["stats"]
        ctx.coverage["evaluations"] = st["evaluations"]
        ctx.coverage["distinct_nontrivial"] = st["distinct_nontrivial"]
        ctx.coverage["rule"] = st["rule"]
        ctx.coverage["input_distribution"] = st["hist"]
        ctx.coverage["exhaustive"] = False
        ctx.coverage["traces_validated_against_impl"] = res["n_lines"]
        ctx.coverage["generator"] = {k: st[k] for k in ("cases_total", "generated_programs", "generated_texts_parsing",
                                                          "generated_base_unparseable", "variants_unparseable", "repo_files",
                                                          "scanner_inputs")}
        ctx.coverage["failures_by_key"] = st["failures_by_key"]
        ctx.coverage["samples"] = st.get("samples", [])
        # --- correspondence: FmtCheck scanner vs real tokenizer
        ld = res["lexer_diffs"]
        ctx.obligations.append(common.Obligation(
            "correspondence:fmtcheck-scanner-vs-tokenizer", "correspondence", not ld,
            "%d (source, output) pairs; comments and literals of both sides by the extracted scanner and by the real token stream; %d disagreements%s"
            % (res["n_chk"], len(ld), (": " + json.dumps(ld[0])[:400]) if ld else "")))
        # --- correspondence: CommentIter model vs real scanner; the guard variant is determined here
        d0, d1 = res["scan_diffs"][False], res["scan_diffs"][True]
        if not d0:
            variant = "as-is (no end-of-file guard): `//` comment without final newline panics"
        elif not d1:
            variant = "guarded (end-of-file repair applied)"
        else:
            variant = None
        ctx.coverage["comment_iter_variant"] = variant
        best = d0 if len(d0) <= len(d1) else d1
        ctx.obligations.append(common.Obligation(
            "correspondence:comment-iter", "correspondence", variant is not None,
            "%d scanner inputs (token gaps, windows, prefixes/suffixes, synthetic), forward and backward; matches variant: %s%s"
            % (res["n_scan"], variant, "" if variant else "; closest variant disagrees on %d, e.g. %s" % (len(best), json.dumps(best[0])[:400]))))
        # --- the generator must keep producing inputs, and the formatter must not refuse wholesale
        refused = sum(1 for f in res["failures"] if f["cat"] == "fmt-refused")
        ok_gen = st["evaluations"] >= 200 and refused * 5 <= st["evaluations"] and st["generated_texts_parsing"] * 2 >= st["generated_programs"]
        ctx.obligations.append(common.Obligation(
            "audit:inputs", "audit", ok_gen,
            "%d evaluated cases, %d refused by the formatter, %d of %d generated base texts parse"
            % (st["evaluations"], refused, st["generated_texts_parsing"], st["generated_texts_parsing"] + st["generated_base_unparseable"])))
        mach = [f for f in res["failures"] if f["cat"] == "machinery"]
        if mach:
            ctx.obligations.append(common.Obligation("audit:source-tokens", "audit", False, json.dumps(mach[0])[:400]))
        viols = _violations_from(ctx, res)
        # the known defect follows from the model variant even if no formatter case happened to hit it
        if variant is not None and variant.startswith("as-is") and not any(v["key"] == "fmt-panic:comment-at-eof" for v in viols):
            viols.append({"key": "fmt-panic:comment-at-eof",
                          "what": "CommentIter::next follows the unguarded model: a `//` comment that ends the text without a newline panics (C10_comment_iter_no_panic_refuted)",
                          "case": {"source": "x // c"}, "observed": "panic"})
    else:
        detail = "could not run: %s" % (getattr(ctx, "build_error", None) or getattr(ctx, "harness_crash", None) or (res or {}).get("length_mismatch"))
        ctx.obligations.append(common.Obligation("correspondence:fmtcheck-scanner-vs-tokenizer", "correspondence", False, str(detail)[:600]))
        ctx.obligations.append(common.Obligation("correspondence:comment-iter", "correspondence", False, str(detail)[:600]))

    ctx.trusted.append("harness/src/bin/c10: program generator and printer, comment/whitespace perturbations, AST canonicaliser "
                       "(derived Debug of the parser's tree with ByteIndex positions, `implicit?N` counters and trailing blanks of doc comment lines erased), "
                       "failure naming (token kinds around the first divergence), delta-debugging shrinker")
    ctx.trusted.append("gluon_parser::verif::tokens hook (token spans; `#Op` spans corrected from the token text)")
    ctx.assumptions.append("a comment counts as preserved when its text is unchanged up to trailing blanks of each of its lines (the formatter trims every output line)")
    ctx.assumptions.append("documentation comments (`///`, `/** */`) are tokens of the syntax tree: they are covered by the tree comparison, not by fmt_check")
    ctx.assumptions.append("char::is_whitespace is modelled for ASCII only (multi-byte blanks cannot occur between tokens of a program that lexes)")
    ctx.assumptions.append("the document construction (format/src/pretty_print.rs, base/src/types/pretty_print.rs) is not modelled; "
                           "C10_render_tokens_width_independent is about the Wadler-style renderer of Front/Doc.v, not about the `pretty` crate")

    for v in viols:
        ctx.violation(v["key"], v["what"], case=v["case"], expected=EXPECTED, observed=v.get("observed"))

    broken = [o for o in ctx.obligations if not o.ok]
    if broken:
        known = common.load_known(ctx.prop)
        new = [v for v in ctx.violations if common.match_known(known, v) is None]
        if not new and ran and ctx.tier != "thorough":
            # search: widen to the thorough generator
            res2 = tie(ctx, tier_override="thorough", tag="search")
            if res2 is not None and "length_mismatch" not in res2:
                for v in _violations_from(ctx, res2):
                    if common.match_known(known, v) is None and not any(x["key"] == v["key"] for x in ctx.violations):
                        ctx.violation(v["key"], v["what"], case=v["case"], expected=EXPECTED, observed=v.get("observed"))
                        new.append(v)
        if not new:
            for o in broken[:5]:
                ctx.violation("obligation:" + o.name, "obligation no longer checks: " + o.name, obligation=o.name, no_input=True,
                              extra={"detail": o.detail})


def replay(ctx, path):
    if not ctx.build_harness("c10"):
        return 2
    rc, out = common.sh([ctx.harness_bin("c10"), "--replay", path], timeout=600)
    print(out)
    return 0
