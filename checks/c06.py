"""C06 — scripts cannot crash the host; errors are values and the VM stays usable.

T: coq/gen/PrimTableGen.v regenerated from vm/src/primitives.rs (+ module registrations of src/lib.rs,
   the extern "C" wrapper shape of vm/src/api/mac.rs, the `as` casts of vm/src/api/mod.rs).
Proofs: coq/theories/Props/C06.v (no primitive outside known_bad can panic, for all arguments; known_bad
   is exact; guard lemmas; coverage of the regenerated table).
C: harness/src/bin/c06.rs — isolated runner: every exported primitive x boundary/random argument tuples in
   child processes, compared with the extracted `prim_eval`; single programs (every kind of result value /
   front-end failure); histories of failing and succeeding evaluations on one VM against fresh VMs, heap
   reclaim, stack reuse; OS-touching modules monitored.
"""
import json
import os
import re

from . import common


# ---- comparison of a model line with an implementation line (`_` = any one value) ----

def _tokens(s):
    return re.findall(r"[()\[\]]|[^\s()\[\]]+", s)


def _skip_value(toks, i):
    if i >= len(toks):
        return None
    if toks[i] in ("(", "["):
        depth = 0
        while i < len(toks):
            if toks[i] in ("(", "["):
                depth += 1
            elif toks[i] in (")", "]"):
                depth -= 1
                if depth == 0:
                    return i + 1
            i += 1
        return None
    if toks[i] in (")", "]"):
        return None
    return i + 1


def lines_agree(model, impl):
    if model == impl:
        return True
    if "_" not in model:
        return False
    a, b = _tokens(model), _tokens(impl)
    i = j = 0
    while i < len(a):
        if a[i] == "_":
            j = _skip_value(b, j)
            if j is None:
                return False
            i += 1
        else:
            if j >= len(b) or a[i] != b[j]:
                return False
            i += 1
            j += 1
    return j == len(b)


BAD_CLASSES_OK = ("ret", "err")


def impl_class(line):
    return line.split(" ")[0] if line else "missing"


def is_value_or_error(cls):
    return cls == "ret" or cls.startswith("err")


def run_tie(ctx, tag="tie", tier=None):
    out_dir = os.path.join(ctx.run_dir, tag)
    os.makedirs(out_dir, exist_ok=True)
    if not ctx.build_harness("c06"):
        return None
    model = ctx.build_model("c06")
    if model is None:
        return None
    saved = ctx.tier
    if tier:
        ctx.tier = tier
    rc, out = ctx.run_harness("c06", out_dir=out_dir, timeout=3000)
    ctx.tier = saved
    if rc != 0:
        ctx.log("harness c06 failed:", out[-600:])
        ctx.harness_crash = out[-1500:]
        return None
    if not ctx.run_model(model, os.path.join(out_dir, "model_in.txt"), os.path.join(out_dir, "model_out.txt")):
        return None
    meta_in = os.path.join(out_dir, "meta_in.txt")
    open(meta_in, "w").write("known_bad\n")
    if not ctx.run_model(model, meta_in, os.path.join(out_dir, "meta_out.txt")):
        return None
    return out_dir


def run(ctx):
    gen_ok = ctx.gen_coq(["PrimTableGen", "StackResetGen"])
    if gen_ok:
        ctx.coq_prove("C06")
    out_dir = run_tie(ctx)
    ctx.trusted.append("translator harness/src/tr/primtable.rs (syn): record!/primitive! tables, module registrations in src/lib.rs, "
                       "guard conditions of local callees, shape of the extern \"C\" wrapper (api/mac.rs) and of the integer casts (api/mod.rs)")
    ctx.trusted.append("harness/src/bin/c06.rs: argument generators, Gluon source printer, value canonicaliser, isolated runner "
                       "(B/R markers, exit status); coq/extract/c06/driver.ml: decimal/hex <-> inductive Z / string conversion")
    ctx.assumptions.append("Rust std operations are modelled from their documented behaviour (incl. panics) and validated against the real "
                           "binary by the correspondence; the harness profile has overflow-checks on (debug semantics of <<, >>, abs, pow)")
    ctx.assumptions.append("float primitives are modelled as total with opaque values (class compared only); char predicates that need Unicode tables are exact on ASCII only")
    ctx.assumptions.append("little-endian host (from_be/to_be = swap_bytes)")
    if out_dir is None:
        ctx.obligations.append(common.Obligation("correspondence:prims", "correspondence", False, "could not run"))
        broken = [o for o in ctx.obligations if not o.ok]
        for o in broken[:5]:
            ctx.violation("obligation:" + o.name, "obligation no longer checks: " + o.name, obligation=o.name, no_input=True,
                          extra={"detail": o.detail, "crash": getattr(ctx, "harness_crash", getattr(ctx, "build_error", ""))[:600]})
        return

    mo = common.read_lines(os.path.join(out_dir, "model_out.txt"))
    io = common.read_lines(os.path.join(out_dir, "impl_out.txt"))
    cases = common.read_lines(os.path.join(out_dir, "cases.txt"))
    detail = common.read_lines(os.path.join(out_dir, "detail.txt"))
    mi = common.read_lines(os.path.join(out_dir, "model_in.txt"))
    stats = json.load(open(os.path.join(out_dir, "stats.json")))
    meta = common.read_lines(os.path.join(out_dir, "meta_out.txt"))
    known_bad = set(meta[0].split()[1:]) if meta and meta[0].startswith("known_bad") else set()

    n = max(len(mo), len(io))
    aborts = {}      # key -> (first case dict, count)
    disagreements = []
    sig_diffs = []
    witnessed = set()
    for i in range(n):
        m = mo[i] if i < len(mo) else "<missing>"
        im = io[i] if i < len(io) else "<missing>"
        c = cases[i] if i < len(cases) else "?"
        d = detail[i] if i < len(detail) else ""
        if c.startswith("sig "):
            if m != im:
                sig_diffs.append((c, m, im))
            continue
        prim, _, src = c.partition("\t")
        cls = impl_class(im)
        if not is_value_or_error(cls):
            # the observable of the property itself: the call took the host down (or panicked / hung)
            if cls == "panic" and "Rooted value has already been dropped" in d:
                key = "host:nan-result:panic"
                what = "a program whose result is a NaN float panics the host in RootedValue::drop (Value::obj_eq compares floats with ==)"
            else:
                key = "prim:%s:%s" % (prim, cls)
                what = "%s %s the embedding process (%s)" % (prim, {"abort": "aborts", "hang": "hangs", "panic": "panics in"}.get(cls, cls + " in"), d or "no message")
            if key not in aborts:
                aborts[key] = [{"source": src, "prelude": False, "model_line": mi[i] if i < len(mi) else ""}, 0, what, m, im + ("  " + d if d else "")]
            aborts[key][1] += 1
            if m == "abort":
                witnessed.add(prim)
            if m == "abort" or (cls == "panic" and key.startswith("host:")):
                continue
        if m == "mon":
            continue
        if not lines_agree(m, im):
            disagreements.append((c, m, im, d))

    for key, (case, count, what, m, im) in sorted(aborts.items()):
        ctx.violation(key, what + " [%d argument tuples in this run]" % count, case=case,
                      expected="a value or an error value (model: %s)" % m, observed=im)

    # model/implementation disagreements that are not aborts: a broken correspondence (model or code changed)
    corr_ok = not disagreements and not sig_diffs
    ctx.obligations.append(common.Obligation(
        "correspondence:prims", "correspondence", corr_ok,
        "%d cases, %d disagreements, %d signature differences; first: %s" % (n, len(disagreements), len(sig_diffs), (disagreements[:1] or sig_diffs[:1]))))

    # every member of the model's known_bad must have been seen aborting (model says abort AND the child died)
    kb = set(k.replace(".prim.", ".") for k in known_bad)
    not_seen = sorted(kb - witnessed)
    ctx.obligations.append(common.Obligation("correspondence:known-bad-witnessed", "correspondence", not not_seen,
                                             "known_bad (model, %d members) = %s; not observed aborting: %s" % (len(kb), sorted(kb), not_seen)))

    # single programs
    prog_fail = []
    for line in common.read_lines(os.path.join(out_dir, "prog_out.txt")):
        f = line.split("\t")
        if len(f) >= 5 and f[0] == "FAIL":
            prog_fail.append(f)
    seen = set()
    for f in prog_fail:
        label, want, cls, src = f[1], f[2], f[3], f[4]
        det = f[5] if len(f) > 5 else ""
        key = "program:%s:%s" % (label, cls)
        if key in seen:
            continue
        seen.add(key)
        if "Rooted value has already been dropped" in det:
            key = "host:nan-result:panic"
            if key in aborts or key in seen:
                continue
            seen.add(key)
        ctx.violation(key, "program `%s` should give %s but the host sees `%s` (%s)" % (src[:80], {"ret": "a value", "err": "an error value"}.get(want, "a value or an error value"), cls, det),
                      case={"source": src, "prelude": False}, expected=want, observed=cls + " " + det)

    # OS-touching modules and user-facing sample (monitor: no abort / panic / hang)
    seen = set()
    for line in common.read_lines(os.path.join(out_dir, "os_out.txt")):
        f = line.split("\t")
        if len(f) < 3:
            continue
        label, cls, src = f[0], f[1], f[2]
        det = f[3] if len(f) > 3 else ""
        if is_value_or_error(cls):
            continue
        key = "prim:%s:%s" % (label, cls) if label.count(".") == 2 and label.split(".")[1] in ("int", "byte", "char", "string", "array") else "os:%s:%s" % (label, cls)
        if key in seen or key in aborts:
            continue
        seen.add(key)
        ctx.violation(key, "`%s` %s the host (%s)" % (src[:100], cls, det), case={"source": src, "prelude": True},
                      expected="a value or an error value", observed=cls + " " + det)

    # histories
    hist_fail = []
    hlines = common.read_lines(os.path.join(out_dir, "hist_out.txt"))
    for line in hlines:
        f = line.split("\t")
        if not f[0].startswith("ok"):
            hist_fail.append(f)
    seen = set()
    for f in hist_fail:
        verdict = f[0]
        kind = "other"
        for k in ("stack-reuse", "reclaim", "frames", "probe", "history step", "hang", "abort", "panic"):
            if k in verdict:
                kind = k.replace(" ", "-")
                break
        key = "history:" + kind
        if key in seen:
            continue
        seen.add(key)
        progs = f[2].split(" ;; ") if len(f) > 2 and f[2] else []
        ctx.violation(key, "one VM, interleaved failing and succeeding evaluations: " + verdict[:300],
                      case={"history": f[1] if len(f) > 1 else "", "programs": progs}, expected="same results as fresh VMs; probe ok; heap back to baseline; no frames left",
                      observed=verdict)
    ctx.obligations.append(common.Obligation("monitor:histories", "correspondence", not hist_fail, "%d histories, %d failed" % (len(hlines), len(hist_fail))))
    # Lib/StackReset.v against the implementation: the flag read from vm/src/thread.rs says whether the values
    # of a failed run are removed; the model then predicts growth (C06_repeated_failures_grow) or none
    # (C06_repeated_failures_fixed); the `S <n>` histories observe which one happens.
    try:
        gen = open(os.path.join(common.COQ, "gen", "StackResetGen.v")).read()
        truncates = "top_level_truncates_values : bool := true" in gen
        s_lines = [l for l in hlines if "\tS " in l]
        s_ok = bool(s_lines) and all(l.startswith("ok") for l in s_lines)
        ctx.obligations.append(common.Obligation(
            "correspondence:stack-reset", "correspondence", truncates == s_ok,
            "model (flag from thread.rs): values of a failed run are %s; observed over %d stack-reuse histories: %s"
            % ("removed" if truncates else "left on the stack", len(s_lines), "no growth" if s_ok else "growth until StackOverflow")))
    except OSError:
        pass

    # coverage / evidence
    ctx.coverage["evaluations"] = stats["evaluations"]
    ctx.coverage["distinct_nontrivial"] = stats["distinct_nontrivial"]
    ctx.coverage["rule"] = stats["rule"]
    ctx.coverage["input_distribution"] = stats["hist"]
    ctx.coverage["traces_validated_against_impl"] = n
    ctx.coverage["primitives_in_table"] = stats["primitives_in_table"]
    ctx.coverage["primitives_driven"] = stats["primitives_driven"]
    ctx.coverage["uncovered_primitives"] = stats["uncovered"]
    ctx.coverage["aborting_today"] = stats["aborting"]
    ctx.coverage["known_bad_model"] = sorted(kb)
    ctx.coverage["histories"] = stats["histories"]
    ctx.coverage["exhaustive"] = False
    picks = [i for i in (len(cases) // 7, len(cases) // 3, len(cases) // 2, (2 * len(cases)) // 3, len(cases) - 1) if 0 <= i < len(cases)]
    ctx.coverage["samples"] = [{"case": cases[i], "model": mo[i] if i < len(mo) else "", "impl": io[i] if i < len(io) else ""} for i in picks]

    # broken proof / translator / correspondence without a concrete failing input
    broken = [o for o in ctx.obligations if not o.ok]
    if broken and not ctx.violations:
        found = False
        if ctx.tier != "thorough" and any(o.kind in ("theorem", "translator", "audit") for o in broken):
            # search: widen to the thorough generator before giving up
            od = run_tie(ctx, tag="search", tier="thorough")
            if od is not None:
                io2 = common.read_lines(os.path.join(od, "impl_out.txt"))
                cs2 = common.read_lines(os.path.join(od, "cases.txt"))
                seen2 = set()
                for i, im in enumerate(io2):
                    c = cs2[i] if i < len(cs2) else "?"
                    if c.startswith("sig "):
                        continue
                    cls = impl_class(im)
                    if not is_value_or_error(cls):
                        prim, _, src = c.partition("\t")
                        key = "prim:%s:%s" % (prim, cls)
                        if key not in seen2:
                            seen2.add(key)
                            found = True
                            ctx.violation(key, "%s %s the embedding process" % (prim, cls), case={"source": src, "prelude": False},
                                          expected="a value or an error value", observed=im)
        if not found:
            for o in broken[:6]:
                ctx.violation("obligation:" + o.name, "obligation no longer checks: " + o.name, obligation=o.name, no_input=True,
                              extra={"detail": o.detail[:1500]})
    elif broken:
        # violations exist; still name the broken correspondences that are NOT explained by an abort
        for o in broken:
            if o.name == "correspondence:prims" or o.kind in ("theorem", "translator", "audit"):
                ctx.violation("obligation:" + o.name, "obligation no longer checks: " + o.name, obligation=o.name, no_input=True,
                              extra={"detail": o.detail[:1500]})


def replay(ctx, path):
    if not ctx.build_harness("c06"):
        return 2
    rc, out = common.sh([ctx.harness_bin("c06"), "--replay", path], timeout=600)
    print(out)
    return 0
