"""C01 — evaluation matches the strict reference semantics of the language.

Proofs : coq/theories/Props/C01.v  (reference semantics `eval` of Lang/Eval.v is a function of the
         program: fuel monotonicity; first-match semantics of `match`; short-circuit operators;
         effect log only grows; record-update order).
Permitted difference (property C04): with the optimiser ON an unused built-in arithmetic operation
         may be skipped, so its overflow / division by zero does not occur.  harness c01.rs
         `permitted_arith_skip` decides it: the reference outcome is Arith, the unoptimised run of the
         same program matches the reference exactly, and the checked-arithmetic node N at which the
         reference fails (located by marker failures placed at / right after each candidate node) (or an
         enclosing failure-free, effect-free expression) has an unused result: both P[N:=0] and P[N:=1]
         evaluate to the implementation's outcome, directly or after further permitted skips (depth 3).  Such a case is
         compared against P[N:=0] and counted as `permitted_arith_skips`.
Tie C2 : three-way comparison.  Every case is also compiled with gluon's own pipeline
         (`Compileable::compile`, same settings as the run) and the REAL bytecode is executed by the
         extracted model VM (coq/theories/VM/Machine.v, coq/extract/c01vm): its outcome must equal the
         real VM's (else `eval:interp:…`) — and an eval-vs-real disagreement is localised: model VM = real
         VM -> `eval:bytecode:…` (front end / translation / compiler), model VM = eval -> `eval:interp:…`.
Tie C  : the extracted `eval` (coq/extract/c01) against gluon's `ThreadExt::run_expr` on
         corpus + all well-typed programs up to a small size + type-directed random programs with
         interaction combinators, each printed in two concrete-syntax styles and run with the
         optimiser on (gluon's default) and off.  Canonical outcomes are compared line by line.
"""
import collections
import json
import os
import re

from . import common


def _split_log(s):
    i = s.rfind("(log")
    return (s[:i].strip(), s[i:]) if i >= 0 else (s, "")


def _log_items(l):
    return l.strip("()").split()[1:]


def classify(case, expected, observed, shrunk=None, opt_only=False):
    """Key of a disagreement: identifies the failing feature, not the random program."""
    opt_only = bool(shrunk.get("optimizer_only")) if shrunk else opt_only
    ev, el = _split_log(expected)
    ov, ol = _split_log(observed)
    constructs = "+".join((shrunk or {}).get("constructs", [])) or "?"
    if "hostpanic" in observed:
        m = re.search(r"hostpanic: (.*?)(?: \(log|$)", observed)
        words = re.sub(r"[^A-Za-z0-9 ]+", " ", m.group(1) if m else "").split()[:3]
        return "host-panic:" + "_".join(words)
    if "(err other parse" in observed:
        return "printer-or-parser:" + constructs
    origin = "optimizer" if opt_only else "core"
    if expected.startswith("(err") and _log_items(ol)[: len(_log_items(el))] == _log_items(el) and opt_only:
        # the reference semantics fails here, the optimised program carried on
        return "optimizer:lost-failure:" + expected.split()[1].rstrip(")")
    if ev == ov and el != ol:
        if "record-update" in constructs:
            return origin + ":effect-order:record-update"
        return origin + ":effect-order:" + constructs
    return origin + ":outcome:" + constructs


def norm(s):
    """untyped view used for the model VM: unit / empty record is `(data 0)`"""
    return s.replace("(rcd)", "(data 0)")


def vm_executed(v):
    return not (v.startswith("(skip") or v == "(fuel)" or v.startswith("(err malformed") or v.startswith("(err model"))


def localise(t, i, m, im):
    """where does an eval-vs-real disagreement arise?  `bytecode`: the model VM on the real bytecode
    agrees with the real VM (front end / core translation / compiler produced code that does not
    implement the reference semantics); `interp`: the model VM agrees with the reference (the
    real interpreter executes correct bytecode wrongly); `` when the model VM did not run it."""
    vo = t.get("vo")
    if not vo or i >= len(vo) or not vm_executed(vo[i]):
        return ""
    if norm(vo[i]) == norm(im):
        return "bytecode:"
    if norm(vo[i]) == norm(m):
        return "interp:"
    return "bytecode+interp:"


def tie(ctx, tag="tie", extra=()):
    out_dir = os.path.join(ctx.run_dir, tag)
    os.makedirs(out_dir, exist_ok=True)
    if not ctx.build_harness("c01"):
        return None
    model = ctx.build_model("c01")
    if model is None:
        return None
    vmmodel = ctx.build_model("c01vm")
    rc, out = ctx.run_harness("c01", out_dir=out_dir,
                              extra=["model=" + model] + (["vmmodel=" + vmmodel] if vmmodel else []) + list(extra))
    if rc != 0:
        ctx.log("harness c01 failed:", out[-500:])
        ctx.harness_crash = out[-1500:]
        return None
    if not ctx.run_model(model, os.path.join(out_dir, "model_in.txt"), os.path.join(out_dir, "model_out.txt")):
        return None
    vo = None
    if vmmodel and ctx.run_model(vmmodel, os.path.join(out_dir, "vm_in.txt"), os.path.join(out_dir, "vm_out.txt")):
        vo = common.read_lines(os.path.join(out_dir, "vm_out.txt"))
    vm_shrunk = {}
    for line in common.read_lines(os.path.join(out_dir, "vm_diffs.jsonl")) if os.path.exists(os.path.join(out_dir, "vm_diffs.jsonl")) else []:
        try:
            d = json.loads(line)
            vm_shrunk[d["index"]] = d
        except Exception:
            pass
    mo = common.read_lines(os.path.join(out_dir, "model_out.txt"))
    io = common.read_lines(os.path.join(out_dir, "impl_out.txt"))
    cases = common.read_lines(os.path.join(out_dir, "cases.txt"))
    sexps = common.read_lines(os.path.join(out_dir, "model_in.txt"))
    for i in range(1, len(sexps)):  # "=" repeats the previous program
        if sexps[i] == "=":
            sexps[i] = sexps[i - 1]
    classes = {}
    for line in common.read_lines(os.path.join(out_dir, "diff_classes.jsonl")):
        try:
            d = json.loads(line)
            classes[d["index"]] = d["class"]
        except Exception:
            pass
    stats = json.load(open(os.path.join(out_dir, "stats.json")))
    shrunk = {}
    for line in common.read_lines(os.path.join(out_dir, "shrunk.jsonl")):
        try:
            d = json.loads(line)
            shrunk[d["index"]] = d
        except Exception:
            pass
    return {"mo": mo, "io": io, "cases": cases, "sexps": sexps, "stats": stats, "shrunk": shrunk, "classes": classes, "dir": out_dir,
            "vo": vo, "vm_shrunk": vm_shrunk}


def case_of(t, i):
    """cases.txt line i, with the s-expression (line i of model_in.txt) and a source text"""
    c = json.loads(t["cases"][i]) if i < len(t["cases"]) else {}
    c["sexp"] = t["sexps"][i] if i < len(t["sexps"]) else None
    c.setdefault("source", "(source not stored for large programs; see sexp, or ./check C01 --replay <this file>)")
    return c


def run(ctx):
    proved = ctx.coq_prove("C01")
    t = tie(ctx)
    diffs = []
    n = 0
    if t is not None:
        mo, io, cases, stats = t["mo"], t["io"], t["cases"], t["stats"]
        n = max(len(mo), len(io))
        fuel = stuck = malformed = 0
        compared = 0
        outcome_hist = collections.Counter()
        for i in range(n):
            m = mo[i] if i < len(mo) else "<missing>"
            im = io[i] if i < len(io) else "<missing>"
            if m == "(fuel)":
                fuel += 1
                continue
            compared += 1
            outcome_hist[m.split()[0].strip("(") + ":" + (m.split()[1].rstrip(")") if m.startswith("(err") else "")] += 1
            if m.startswith("(stuck"):
                stuck += 1
            if m.startswith("(err malformed") or m.startswith("(err model"):
                malformed += 1
            if m != im:
                diffs.append((i, m, im))
        cov = ctx.coverage
        cov["evaluations"] = stats["evaluations"]
        cov["distinct_nontrivial"] = stats["distinct_nontrivial"]
        cov["rule"] = stats["rule"]
        cov["traces_validated_against_impl"] = compared
        # optimised runs in which an unused checked-arithmetic operation was skipped (the one
        # difference property C04 permits): compared against the reference outcome of the program
        # with exactly those operations replaced by a literal; the unoptimised twin matched exactly
        cov["permitted_arith_skips"] = stats.get("permitted_arith_skips", 0)
        cov["exhaustive"] = True
        cov["exhaustive_bound"] = (
            "all well-typed closed programs with at most %d AST nodes over the alphabet of mg::generate::enumerate "
            "(Int 0/1, <= 2 variables, #Int+ #Int/ #Int<, &&, if, let, lambda/application at Int -> Int, record {a,b} "
            "construction/projection/update, variant T with a two-alternative match, eff): %d programs"
            % (stats["exhaustive_max_size"], stats["exhaustive_programs"])
        )
        dist = dict(stats["hist"])
        dist["model-outcome"] = dict(outcome_hist)
        dist["model-out-of-fuel (not compared)"] = fuel
        dist["rejected-by-gluon-typechecker (outside the property's domain)"] = stats["rejected_by_typechecker"]
        cov["input_distribution"] = dist
        samples = []
        for i in (3, len(cases) // 3, len(cases) // 2, (2 * len(cases)) // 3, len(cases) - 1):
            if 0 <= i < len(cases):
                c = case_of(t, i)
                samples.append({"family": c["family"], "style": c["style"], "optimize": c["optimize"],
                                "source": c["source"][:600], "model": mo[i][:300], "impl": io[i][:300]})
        cov["samples"] = samples
        ok_machinery = stuck == 0 and malformed == 0 and len(mo) == len(io)
        if not ok_machinery:
            ctx.obligations.append(common.Obligation(
                "model-total-on-well-typed", "correspondence", False,
                "%d stuck, %d malformed, %d/%d lines: the generator produced an ill-typed program or the driver is out of date"
                % (stuck, malformed, len(mo), len(io))))
        rej = stats["rejected_by_typechecker"]
        progs = max(1, stats["programs"])
        ctx.obligations.append(common.Obligation(
            "generator-programs-accepted-by-gluon", "audit", rej <= 0.03 * 4 * progs,
            "%d of %d (program, style, optimise) runs refused by gluon's type checker" % (rej, rej + stats["evaluations"])))
    ran = t is not None
    ctx.obligations.append(common.Obligation(
        "correspondence:eval-vs-run_expr", "correspondence", ran and not diffs,
        "%d cases compared, %d disagreements" % (n, len(diffs))))
    # ---- three-way comparison: model VM (VM/Machine.v) on the REAL bytecode vs real VM vs eval ----
    vm_divs = []
    vm_ran = False
    if t is not None and t.get("vo") is not None:
        vo, io, mo = t["vo"], t["io"], t["mo"]
        vm_ran = len(vo) == len(io)
        executed = skipped = sampled_out = stuck = 0
        for i in range(min(len(vo), len(io))):
            v = vo[i]
            if v == "(skip not-sampled)":
                sampled_out += 1
                continue
            if not vm_executed(v):
                skipped += 1
                continue
            executed += 1
            if v.startswith("(stuck"):
                stuck += 1
            if norm(v) != norm(io[i]):
                vm_divs.append(i)
        considered = executed + skipped
        frac = (executed / considered) if considered else 0.0
        ctx.coverage["model_vm"] = {
            "cases_with_bytecode_executed_by_model_vm": executed,
            "skipped_unsupported_or_uncompilable": skipped,
            "not_sampled (thorough tier: random programs beyond the first 15000)": sampled_out,
            "executed_fraction": round(frac, 4),
            "disagreements_with_real_vm": len(vm_divs),
        }
        ctx.coverage["traces_validated_against_impl"] = ctx.coverage.get("traces_validated_against_impl", 0) + executed
        ctx.obligations.append(common.Obligation(
            "correspondence:model-vm-on-real-bytecode", "correspondence", vm_ran and not vm_divs and frac >= 0.90,
            "%d cases: model VM outcome on the real bytecode = real VM outcome (= eval unless reported above); "
            "%d skipped, %.1f%% executed, %d disagreements" % (executed, skipped, 100 * frac, len(vm_divs))))
        seen_keys = set()
        for i in vm_divs:
            if localise(t, i, mo[i], io[i]) and norm(mo[i]) != norm(io[i]):
                continue  # already reported as an eval disagreement, with its localisation
            d = t["vm_shrunk"].get(i, {})
            sh = d.get("shrunk")
            c = case_of(t, i)
            cons = "+".join((sh or {}).get("constructs", [])) or "?"
            key = "eval:interp:model-vm-vs-real:" + (vo[i].split()[0].strip("(") + "-vs-" + io[i].split()[0].strip("(")) + ":" + cons
            if key in seen_keys:
                continue
            seen_keys.add(key)
            ctx.violation(
                key,
                "the real VM and the model VM (vm/src/thread.rs semantics, VM/Machine.v) disagree on the same real bytecode: "
                "model VM %s, real VM %s" % ((sh or {}).get("vm", vo[i])[:160], (sh or {}).get("impl", io[i])[:160]),
                case={"source": (sh or c).get("source"), "sexp": (sh or c).get("sexp"), "style": c.get("style"),
                      "optimize": c.get("optimize"), "bytecode": (sh or {}).get("bytecode")},
                expected=(sh or {}).get("vm", vo[i]), observed=(sh or {}).get("impl", io[i]))
    elif t is not None:
        ctx.obligations.append(common.Obligation("correspondence:model-vm-on-real-bytecode", "correspondence", False,
                                                 "the model VM (coq/extract/c01vm) could not be built or run"))
    ctx.trusted.append("harness/src/mg/bytecode.rs (serialises gluon's CompiledModule for the model VM), coq/extract/c01vm/driver.ml "
                       "(function-table flattening, extern -> built-in mapping, printing)")
    ctx.trusted.append("harness/src/mg: generator (well-typedness of generated programs is re-checked by gluon's own type checker), "
                       "Gluon printer (two styles), value reader mg::value::canon_typed (field names from the static type), "
                       "error classifier mg::run::classify; coq/extract/c01/driver.ml + sexp.ml (reader, name interning, printing)")
    ctx.trusted.append("the effect primitive mg.prim.eff (Rust extern function appending to a thread-local log)")
    ctx.assumptions.append("programs are MiniGluon programs run without the implicit prelude; implicit-argument dispatch, "
                           "do-blocks over user monads, recursive values, floats and the prelude's operators are not in the compared stream")
    ctx.assumptions.append("no theorem of compiler correctness: vm/src/compiler.rs and vm/src/thread.rs are tied by outcome only")

    if t is not None and diffs:
        by_key = collections.OrderedDict()
        parsed = {i: case_of(t, i) for (i, _, _) in diffs}
        # a disagreement with the optimiser on whose twin (same program, same style, optimiser
        # off) agrees with the model is attributed to the optimiser
        off_diffs = set((c.get("sexp"), c.get("style")) for c in parsed.values() if c.get("optimize") is False)
        # the harness shrinks at most two disagreements of each provisional class; the others of the
        # class are represented by the smallest shrunk member
        rep = {}
        for s0 in t["shrunk"].values():
            k0 = s0.get("class")
            if k0 is not None and (k0 not in rep or s0["size"] < rep[k0]["size"]):
                rep[k0] = s0
        for (i, m, im) in diffs:
            c = parsed[i]
            s = t["shrunk"].get(i) or rep.get(t["classes"].get(i))
            only = bool(c.get("optimize")) and (c.get("sexp"), c.get("style")) not in off_diffs
            key = localise(t, i, m, im) + classify(c, s["expected"] if s else m, s["observed"] if s else im, s, only)
            e = by_key.setdefault(key, {"count": 0, "first": None, "shrunk": None})
            e["count"] += 1
            if e["first"] is None:
                e["first"] = (i, c, m, im)
            if s is not None and (e["shrunk"] is None or s["size"] < e["shrunk"]["size"]):
                e["shrunk"] = s
        for key, e in by_key.items():
            i, c, m, im = e["first"]
            s = e["shrunk"]
            if s is not None:
                case = {"source": s["source"], "sexp": s["sexp"], "style": s["style"], "optimize": s["optimize"],
                        "shrink_steps": s["shrink_steps"], "occurrences": e["count"]}
                exp, obs = s["expected"], s["observed"]
            else:
                case = {"source": c.get("source"), "sexp": c.get("sexp"), "style": c.get("style"),
                        "optimize": c.get("optimize"), "occurrences": e["count"]}
                exp, obs = m, im
            ctx.violation(
                "eval:" + key,
                "a well-typed program evaluates to %s but the strict reference semantics assigns %s (%d occurrences, class %s)"
                % (obs[:160], exp[:160], e["count"], key),
                case=case, expected=exp, observed=obs)
    broken = [o for o in ctx.obligations if not o.ok and o.kind in ("theorem", "audit")]
    if (broken or not ran) and not diffs:
        found = False
        if ran and ctx.tier != "thorough":
            # search: widen the generator (more and larger random programs)
            t2 = tie(ctx, tag="search", extra=["random=20000", "enum_size=6"])
            if t2 is not None:
                for i in range(min(len(t2["mo"]), len(t2["io"]))):
                    m, im = t2["mo"][i], t2["io"][i]
                    if m != "(fuel)" and m != im:
                        c = case_of(t2, i)
                        s = t2["shrunk"].get(i)
                        key = classify(c, m, im, s)
                        ctx.violation("eval:" + key, "evaluation differs from the reference semantics (found while widening the search)",
                                      case={"source": (s or c)["source"], "sexp": (s or c)["sexp"], "style": c["style"], "optimize": c["optimize"]},
                                      expected=(s or {}).get("expected", m), observed=(s or {}).get("observed", im))
                        found = True
                        break
        if not found:
            names = [o.name for o in broken] or [
                "correspondence:eval-vs-run_expr (could not run: %s)" % str(getattr(ctx, "build_error", getattr(ctx, "harness_crash", "?")))[:300]]
            for nm in names[:5]:
                ctx.violation("obligation:" + nm, "obligation no longer checks: " + nm, obligation=nm, no_input=True,
                              extra={"detail": [o.detail for o in broken if o.name == nm]})


def replay(ctx, path):
    if not ctx.build_harness("c01"):
        return 2
    model = ctx.build_model("c01")
    cmd = [ctx.harness_bin("c01"), "--replay", path] + (["model=" + model] if model else [])
    rc, out = common.sh(cmd)
    print(out)
    return 0
