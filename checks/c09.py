"""C09 — the front end is total: any text yields a result or renderable errors.

Proofs: coq/theories/Props/C09.v over the byte-level tokenizer model coq/theories/Front/Lexer.v
        (port of parser/src/token.rs + str_suffix.rs with explicit Panic / Fuel outcomes).
C:      extracted `lex` / `unescape` vs `gluon_parser::verif::tokens` and the grammar's
        `StringLiteral::unescape` on corpus + generated inputs (<= 4 KiB), run in a child process.
        The model is parametrised by four booleans (which of the tokenizer fixes the tree has:
        C09-lexer-non-ascii, C09-int-literal-span, C08-builtin-operator-span,
        C09-unescape-invalid-escape); the check determines which variant the implementation
        follows.  With fx=1 the positive theorems (no panic / spans on boundaries for every valid
        UTF-8 input) apply; with fx=0 the refutation theorems apply and the implementation is
        observed to panic on the same inputs.
Monitor (no model): parse_partial_expr / typecheck_str under catch_unwind in a child with an 8 MiB
        stack and a 10 s watchdog; every reported error span must lie in its file on character
        boundaries; emit_string must succeed; nesting sweep.
"""
import json
import os
import subprocess

from . import common

NAME = "c09"


def run_model_parallel(ctx, model, infile, outfile, shards=8):
    lines = common.read_lines(infile)
    if not lines:
        open(outfile, "w").close()
        return True
    per = (len(lines) + shards - 1) // shards
    procs = []
    for k in range(shards):
        chunk = lines[k * per:(k + 1) * per]
        if not chunk:
            continue
        pin = "%s.%d" % (infile, k)
        pout = "%s.%d" % (outfile, k)
        with open(pin, "w") as f:
            f.write("\n".join(chunk) + "\n")
        fi = open(pin, "rb")
        fo = open(pout, "wb")
        procs.append((subprocess.Popen([model], stdin=fi, stdout=fo, stderr=subprocess.PIPE), fi, fo, pin, pout))
    ok = True
    with open(outfile, "w") as out:
        for (p, fi, fo, pin, pout) in procs:
            try:
                _, err = p.communicate(timeout=3000)
            except subprocess.TimeoutExpired:
                p.kill()
                err = b"timeout"
            fi.close()
            fo.close()
            if p.returncode != 0:
                ctx.log("model driver failed:", err.decode(errors="replace")[-300:])
                ok = False
            out.write(open(pout).read())
            os.remove(pin)
            os.remove(pout)
    return ok


def spans_of(line):
    """[(kind 'T'|'E', a, b, rest)] of an `ok` line (token section and side-error section)."""
    res = []
    if not line.startswith("ok"):
        return res
    for w in line.split(" ")[1:]:
        if w[:2] in ("T:", "E:"):
            parts = w.split(":", 3)
            try:
                res.append((parts[0], int(parts[1]), int(parts[2]), parts[3] if len(parts) > 3 else ""))
            except ValueError:
                pass
    return res


def is_boundary(data, i):
    return i == 0 or i == len(data) or (i < len(data) and (data[i] & 0xC0) != 0x80)


def span_problems(line, data):
    """The property's own observable on the implementation's answer: spans in bounds, on char
    boundaries, token spans ordered and non-overlapping."""
    probs = []
    last_end = 0
    in_tokens = True
    for w in line.split(" ")[1:]:
        if w == "##":
            in_tokens = False
            continue
        if w[:2] not in ("T:", "E:"):
            continue
        p = w.split(":", 3)
        try:
            a, b = int(p[1]), int(p[2])
        except ValueError:
            continue
        what = p[3] if len(p) > 3 else ""
        if not (0 <= a <= b <= len(data)):
            probs.append(("lexer-span-out-of-bounds", "%s span %d..%d, input length %d" % (what[:30], a, b, len(data))))
        elif not (is_boundary(data, a) and is_boundary(data, b)):
            probs.append(("lexer-error-span-not-on-char-boundary" if w[0] == "E" else "lexer-token-span-not-on-char-boundary",
                          "%s span %d..%d" % (what[:30], a, b)))
        if in_tokens and w[0] == "T":
            if a < last_end:
                probs.append(("lexer-token-spans-overlap", "%s starts at %d before the previous token's end %d" % (what[:30], a, last_end)))
            last_end = max(last_end, b)
    return probs


def tie(ctx, tier_override=None, tag="tie"):
    out_dir = os.path.join(ctx.run_dir, tag)
    os.makedirs(out_dir, exist_ok=True)
    if not ctx.build_harness(NAME):
        return None
    model = ctx.build_model(NAME)
    if model is None:
        return None
    saved = ctx.tier
    if tier_override:
        ctx.tier = tier_override
    rc, out = ctx.run_harness(NAME, out_dir=out_dir, timeout=3300)
    ctx.tier = saved
    if rc != 0:
        ctx.log("harness c09 failed:", out[-500:])
        ctx.harness_crash = out[-1500:]
        return None
    p = lambda n: os.path.join(out_dir, n)
    # which variant of the model does the tree follow?  (fx, sp, ob, un) = lexer-non-ascii /
    # int-literal-span / builtin-operator-span / unescape-invalid-escape fix applied or not
    lines = common.read_lines(p("model_in.txt"))
    first = [(1, 1, 1, 1), (1, 1, 0, 1), (0, 0, 0, 0), (0, 0, 1, 0)]
    order = first + [(a, b, c, d) for a in (0, 1) for b in (0, 1) for c in (0, 1) for d in (0, 1) if (a, b, c, d) not in first]
    results = {}
    best = None
    for v in order:
        tag_v = "%d%d%d%d" % v
        with open(p("model_in_%s.txt" % tag_v), "w") as f:
            for l in lines:
                f.write("fx=%d;sp=%d;ob=%d;un=%d;%s\n" % (v[0], v[1], v[2], v[3], l))
        if not run_model_parallel(ctx, model, p("model_in_%s.txt" % tag_v), p("model_out_%s.txt" % tag_v)):
            return None
        n, d = common.diff_lines(p("model_out_%s.txt" % tag_v), p("impl_out.txt"), limit=200)
        results[v] = (n, d)
        os.remove(p("model_in_%s.txt" % tag_v))
        if best is None or len(d) < len(results[best][1]):
            best = v
        if not d:
            break
    return {
        "dir": out_dir,
        "n": results[best][0],
        "variant": best,
        "diffs": results[best][1],
        "tried": {"%d%d%d%d" % v: len(r[1]) for v, r in results.items()},
        "cases": common.read_lines(p("cases.txt")),
        "impl": common.read_lines(p("impl_out.txt")),
        "model": common.read_lines(p("model_out_%d%d%d%d.txt" % best)),
        "stats": json.load(open(p("stats.json"))),
        "monitor": json.load(open(p("monitor.json"))),
    }


def case_of(t, i):
    fam, _, hx = t["cases"][i].partition(" ")
    data = bytes.fromhex(hx)
    return {"hex": hx, "text": data.decode("utf-8", "replace")[:400], "family": fam, "index": i}


def evaluate(ctx, t):
    """Turn the tie/monitor results into obligations and violations.  Returns number of concrete violations."""
    nviol = 0
    variant = t["variant"]
    diffs = t["diffs"]
    names = ("lexer-non-ascii", "int-literal-span", "builtin-operator-span", "unescape-invalid-escape")
    applied = [n for n, b in zip(names, variant) if b]
    ctx.coverage["tree_variant"] = (
        "model variant fx=%d sp=%d ob=%d un=%d (%s): %d/%d disagreements; variants tried (disagreements, capped at 200): %s" % (
            variant[0], variant[1], variant[2], variant[3],
            "tree as found" if not applied else "tree with fixes: " + ", ".join(applied),
            len(diffs), t["n"], json.dumps(t["tried"])))
    ctx.log("lexer tie:", ctx.coverage["tree_variant"])
    ctx.obligations.append(common.Obligation(
        "correspondence:lexer", "correspondence", not diffs,
        "%d inputs, model variant fx/sp/ob/un=%d%d%d%d, %d disagreements" % (t["n"], variant[0], variant[1], variant[2], variant[3], len(diffs))))
    seen = set()

    def viol(key, what, case, expected=None, observed=None, extra=None):
        nonlocal nviol
        if key in seen:
            return
        seen.add(key)
        nviol += 1
        ctx.violation(key, what, case=case, expected=expected, observed=observed, extra=extra)

    # (a) disagreements: decide each
    undecided = []
    for (i, m, im) in diffs[:50]:
        data = bytes.fromhex(t["cases"][i].partition(" ")[2])
        if not im.startswith("ok"):
            # panic / abort / hang of the implementation where the model answers: handled below from monitor.json
            continue
        probs = span_problems(im, data)
        if probs:
            for (k, d) in probs[:2]:
                viol(k, "tokenizer reports a span that is not inside the input on character boundaries: " + d, case_of(t, i), expected=m[:600], observed=im[:600])
        elif ":panic:" in im and ":panic:" not in m:
            pass  # unescape panic, reported below
        else:
            undecided.append((i, m, im))
    # (b) the implementation's answers themselves (also where model and implementation agree)
    for i, im in enumerate(t["impl"]):
        if im.startswith("ok"):
            if len(seen) < 30 and ("E:" in im):
                data = bytes.fromhex(t["cases"][i].partition(" ")[2])
                for (k, d) in span_problems(im, data)[:1]:
                    viol(k, "tokenizer reports a span that is not inside the input on character boundaries: " + d, case_of(t, i), observed=im[:600])
    mon = t["monitor"]
    for v in mon["lexer_panics"]:
        key = v["key"]
        c = {"hex": v["minimal_hex"], "text": v["minimal"], "found_in": {"family": v.get("family"), "index": v.get("index"), "hex": v.get("hex", "")[:8192]}}
        if key.startswith("lexer-panic"):
            viol(key, "the tokenizer panics (%s) on %r" % (v["site"], v["minimal"]), c,
                 expected="a token stream with UnexpectedChar errors (model fx=1); the model variant matching the tree predicts this panic",
                 observed="panic:" + v["site"])
        else:
            viol(key, "the tokenizer child died on this input: " + v["site"], c, observed=v["site"])
    for v in mon.get("unescape_panics", []):
        viol(v["key"].replace("unescape-panic:", "unescape-panic:"), "StringLiteral::unescape panics while parsing a string literal whose escape error the tokenizer had already reported",
             {"hex": v["hex"], "text": v["text"], "family": v.get("family"), "index": v.get("index")}, observed=v["site"])
    # (c) monitor
    for v in mon["monitor_violations"]:
        viol(v["key"], "front end (%s): %s" % (v["key"].split(":")[0], v["detail"]),
             {"hex": v["hex"], "text": v["text"], "prelude": v.get("prelude"), "index": v.get("index")}, observed=v["detail"])
    for v in mon["nesting_violations"]:
        viol(v["key"], "nesting depth %s of %s crashes the front end: %s" % (v["depth"], v["nest_kind"], v["result"]),
             {"nest_kind": v["nest_kind"], "depth": v["depth"]}, observed=v["result"])
    ctx.obligations.append(common.Obligation(
        "monitor:frontend-total", "correspondence",
        not mon["monitor_violations"] and not mon["nesting_violations"] and not mon["lexer_panics"] and not mon.get("unescape_panics"),
        "monitor keys: %s; nesting: %s" % (json.dumps(mon["monitor_counts"]), json.dumps({k: v["largest_depth_ok"] for k, v in mon["nesting"].items()}))))
    return nviol, undecided


def fill_coverage(ctx, t):
    st = t["stats"]
    cov = ctx.coverage
    cov["evaluations"] = cov.get("evaluations", 0) + st["evaluations"]
    cov["distinct_nontrivial"] = cov.get("distinct_nontrivial", 0) + st["distinct_nontrivial"]
    cov["rule"] = st["rule"]
    cov["input_distribution"] = st["hist"]
    cov["traces_validated_against_impl"] = cov.get("traces_validated_against_impl", 0) + t["n"]
    cov["lexer_cases"] = st["lexer_cases"]
    cov["monitor_cases"] = st["monitor_cases"]
    cov["monitor_with_prelude"] = st["monitor_with_prelude"]
    cov["reported_errors_checked"] = st["reported_errors_checked"]
    cov["nesting"] = {k: {"largest_depth_ok": v["largest_depth_ok"], "first_failure": v["first_failure"]} for k, v in t["monitor"]["nesting"].items()}
    cov["wall_harness"] = st["wall"]
    cov["exhaustive"] = False
    idx = [i for i in (0, 13, 200, len(t["cases"]) // 2, len(t["cases"]) - 1) if i < len(t["cases"])]
    cov["samples"] = [{"case": case_of(t, i)["text"][:160], "family": case_of(t, i)["family"], "impl": t["impl"][i][:300]} for i in idx]


def run(ctx):
    proved = ctx.coq_prove("C09")
    t = tie(ctx)
    ctx.trusted.append("harness/src/bin/c09.rs: input generators, canonicaliser of the Debug rendering of tokens/errors (hook gluon_parser::verif::tokens), "
                       "child runner (8 MiB stack thread, 10 s watchdog), span/boundary checks of reported errors; coq/extract/c09/driver.ml (hex/decimal conversion)")
    ctx.trusted.append("checks/c09.py span_problems: in-bounds / char-boundary / ordering test of the implementation's token and error spans")
    ctx.assumptions.append("positions are byte offsets < 2^32 (BytePos is u32); lines/columns are not modelled")
    ctx.assumptions.append("f64 value of float literals not modelled (kind + span compared); LALRPOP grammar, layout, macro expansion, renaming and type checking are observed (monitor), not modelled")
    ctx.assumptions.append("termination and panic-freedom of the stages after the tokenizer are observed on the generated inputs only")
    if t is None:
        nm = "correspondence:lexer (could not run: %s)" % getattr(ctx, "build_error", getattr(ctx, "harness_crash", "?"))[:300]
        ctx.obligations.append(common.Obligation("correspondence:lexer", "correspondence", False, "could not run"))
        ctx.violation("obligation:" + nm, "obligation no longer checks: " + nm, obligation=nm, no_input=True)
        return
    fill_coverage(ctx, t)
    nviol, undecided = evaluate(ctx, t)
    broken = [o for o in ctx.obligations if not o.ok and o.kind in ("theorem", "audit")]
    if (undecided or broken) and nviol == 0:
        # search: widen to the thorough generator
        found = 0
        if ctx.tier != "thorough":
            t2 = tie(ctx, tier_override="thorough", tag="search")
            if t2 is not None:
                found, undecided2 = evaluate(ctx, t2)
                undecided = undecided or undecided2
        if not found:
            for (i, m, im) in undecided[:3]:
                # model and implementation disagree, the property's observables hold on the implementation's answer
                ctx.violation("obligation:correspondence:lexer", "model and tokenizer disagree (no property failure found on the input): model %s / impl %s" % (m[:300], im[:300]),
                              case=case_of(t, i), expected=m[:1000], observed=im[:1000], obligation="correspondence:lexer", no_input=True)
            for o in broken[:5]:
                ctx.violation("obligation:" + o.name, "obligation no longer checks: " + o.name, obligation=o.name, no_input=True, extra={"detail": o.detail})
    elif undecided:
        for (i, m, im) in undecided[:3]:
            ctx.violation("obligation:correspondence:lexer", "model and tokenizer disagree: model %s / impl %s" % (m[:300], im[:300]),
                          case=case_of(t, i), expected=m[:1000], observed=im[:1000], obligation="correspondence:lexer", no_input=True)


def replay(ctx, path):
    if not ctx.build_harness(NAME):
        return 2
    rc, out = common.sh([ctx.harness_bin(NAME), "--replay", path], timeout=300)
    print(out)
    bad = any(w in out for w in ("panic", "abort", "hang", "stack-overflow", "not-on-char-boundary", "out-of-bounds"))
    return 1 if bad else 0
