"""C02 — type soundness: programs the checker accepts never go wrong.

Proofs: coq/theories/Props/C02.v over Lang/Types.v + Lang/TypesProofs.v (fuel-indexed big-step
safety of MiniGluon: `has_type` ⇒ never Stuck ∧ `check_shape`; `check_shape` decides `shaped`;
`check_raw ∘ erase` accepts whatever `check_shape` accepts).
C: harness/src/bin/c02 runs every program the REAL checker accepts (constructed, AST/token mutants,
   multi-module incl. IO modules) under all 2^5 compiler settings in child processes; its monitor
   looks for internal failures (panic/ICE, VM shape complaints, aborts); the extracted `check_raw`
   decides (reported type, returned value) pairs (`shape` lines) and the extracted reference
   semantics + `check_shape` re-check every constructed program (`run` lines).
"""
import json
import os
import re

from . import common


def _key_for_shape(case):
    prog = case.get("program", {})
    tags = prog.get("tags", [])
    for t in tags:
        if t.startswith("key:"):
            return "shape-mismatch:" + t[4:]
    fam = prog.get("family", "")
    if fam == "rank-n-mutant":
        return "shape-mismatch:wrong-rank-mutant-accepted"
    if fam == "rank-n":
        return "shape-mismatch:rank-n"
    if "io-alias" in tags:
        return "shape-mismatch:io-alias:" + ("run_io" if "run_io=1" in case.get("settings", "") else "no-run_io")
    if "plain-alias" in tags:
        return "shape-mismatch:plain-alias"
    if case.get("annotated_record_order") or "permuted-record-fields" in tags:
        return "shape-mismatch:permuted-record-fields"
    if "imports-io-module" in tags and "run_io=1" in case.get("settings", "") and "IO" in str(case.get("type", "")):
        return "shape-mismatch:imported-io-module:run_io"
    if case.get("multi_record_alts") or "multi-record-alts" in tags or (not prog.get("modules") and _src_multi_record_alts(prog)):
        return "shape-mismatch:pattern-translator:multi-record-alts"
    h = common.hashlib.sha1((prog.get("main", "") + case.get("value", "")).encode()).hexdigest()[:8]
    return "shape-mismatch:" + h


def _src_multi_record_alts(prog):
    run = 0
    for l in prog.get("main", "").splitlines():
        t = l.lstrip()
        if t.startswith("| "):
            if "{" in t.split("->")[0]:
                run += 1
                if run >= 2:
                    return True
        if "match " in t:
            run = 0
    return False


def tie(ctx, extra=(), tag="tie"):
    out_dir = os.path.join(ctx.run_dir, tag)
    os.makedirs(out_dir, exist_ok=True)
    for f in ("model_in.txt", "impl_out.txt", "cases.txt", "failures.jsonl", "stats.json", "model_out.txt"):
        try:
            os.remove(os.path.join(out_dir, f))
        except FileNotFoundError:
            pass
    if not ctx.build_harness("c02"):
        return None
    model = ctx.build_model("c02")
    if model is None:
        return None
    rc, out = ctx.run_harness("c02", out_dir=out_dir, extra=list(extra), timeout=3400)
    if rc != 0 or not os.path.exists(os.path.join(out_dir, "stats.json")):
        ctx.log("harness c02 failed:", out[-800:])
        ctx.harness_crash = out[-1500:]
        return None
    if not ctx.run_model(model, os.path.join(out_dir, "model_in.txt"), os.path.join(out_dir, "model_out.txt")):
        return None
    n, diffs = common.diff_lines(os.path.join(out_dir, "model_out.txt"), os.path.join(out_dir, "impl_out.txt"), limit=100000)
    cases = common.read_lines(os.path.join(out_dir, "cases.txt"))
    stats = json.load(open(os.path.join(out_dir, "stats.json")))
    failures = [json.loads(l) for l in common.read_lines(os.path.join(out_dir, "failures.jsonl")) if l.strip()]
    return {"n": n, "diffs": diffs, "cases": cases, "stats": stats, "failures": failures}


def report(ctx, res):
    """Turns monitor failures and model disagreements into violations (one per key)."""
    stats = res["stats"]
    # 1. failures found by the harness-side monitor
    for f in res["failures"]:
        prog = f.get("shrunk") or f["program"]
        ctx.violation(
            f["key"],
            "%s [%d accepted program(s), %d of the settings of this one; first: %s]"
            % (f["what"], f["n_programs_with_this_key"], f["n_failing_settings"], f["settings"]),
            case={"main": prog["main"], "modules": prog.get("modules", []), "tags": prog.get("tags", []),
                  "bits": f["bits"], "settings": f["settings"], "original": f["program"] if f.get("shrunk") else None},
            expected="a value of the reported type, or the program's own error / unmatched pattern / arithmetic overflow",
            observed=f["observed"],
        )
    # 2. disagreements with the extracted checks
    seen = {}
    for (i, m, im) in res["diffs"]:
        case = json.loads(res["cases"][i]) if i < len(res["cases"]) else {}
        prog = case.get("program", {})
        if case.get("kind") == "shape":
            key = _key_for_shape(case)
            what = ("the value returned by an accepted program does not have the shape of the type the checker reported: "
                    "type `%s`, value %s" % (case.get("type"), case.get("value", "")[:300]))
            expected, observed = "check_raw = true (shape ok)", m
        elif case.get("kind") == "run":
            # the reference semantics got Stuck on / mis-shaped a constructed program: the generator
            # or the model is off — a broken tie, not (yet) a failing input of gluon
            key = "obligation:correspondence:constructed-programs-typable:" + m.replace(" ", "-")
            what = "the extracted reference semantics says `%s` for a program the generator constructed as well typed" % m
            expected, observed = "run ok", m
        else:
            key = "obligation:correspondence:malformed-line"
            what = "model driver could not read line %d: %s" % (i, m)
            expected, observed = im, m
        if key in seen:
            seen[key] += 1
            continue
        seen[key] = 1
        ctx.violation(key, what,
                      case={"main": prog.get("main", ""), "modules": prog.get("modules", []), "tags": prog.get("tags", []),
                            "bits": case.get("bits"), "settings": case.get("settings"), "type": case.get("type"), "value": case.get("value")},
                      expected=expected, observed=observed,
                      no_input=key.startswith("obligation:"), obligation=key[11:] if key.startswith("obligation:") else None)
    return seen


def run(ctx):
    proved = ctx.coq_prove("C02")
    extra = []
    res = tie(ctx, extra)
    ran = res is not None
    n_shape_bad = 0
    n_run_bad = 0
    if ran:
        stats = res["stats"]
        for (i, m, im) in res["diffs"]:
            if m.startswith("shape"):
                n_shape_bad += 1
            else:
                n_run_bad += 1
        hist = stats["hist"]
        ctx.coverage["evaluations"] = stats["evaluations"]
        ctx.coverage["distinct_nontrivial"] = stats["distinct_nontrivial"]
        ctx.coverage["rule"] = stats["rule"]
        ctx.coverage["input_distribution"] = hist
        ctx.coverage["traces_validated_against_impl"] = res["n"]
        n_all = stats.get("programs_run_under_all_settings", 0)
        n_8 = stats.get("programs_run_under_8_settings", 0)
        ctx.coverage["exhaustive"] = n_8 == 0
        ctx.coverage["exhaustive_bound"] = ("the settings space (2^5 = 32 combinations of implicit_prelude, optimize, emit_debug_info, run_io, full_metadata) "
                                            "is enumerated completely for %d accepted programs; %d more run under 8 settings each "
                                            "(base, its complement, 6 random)" % (n_all, n_8))
        ctx.coverage["samples"] = stats.get("samples", [])[:6]
        ctx.coverage["candidates"] = stats["candidates"]
        ctx.coverage["accepted_by_checker"] = stats["accepted"]
        ctx.coverage["checker_verdict_by_family"] = {k[6:]: v for k, v in hist.items() if k.startswith("check:")}
        ctx.coverage["template_families"] = {k[7:]: v for k, v in hist.items() if k.startswith("family:")}
        ctx.coverage["inconclusive_runs"] = {k[13:]: v for k, v in hist.items() if k.startswith("inconclusive:")}
        ctx.coverage["shape_checks_by_extracted_check_raw"] = stats["shape_lines"]
        ctx.coverage["types_with_opaque_parts"] = stats["types_with_opaque_parts"]
        ctx.coverage["constructed_rejected_by_checker"] = len(stats.get("constructed_rejected_by_checker", []))
        ctx.coverage["checker_panics_not_c02"] = stats.get("checker_panics_not_c02", [])[:5]
        ctx.coverage["optimize_only_divergences_c04"] = stats.get("optimize_only_divergences", {})
        ctx.coverage["child_crashes"] = stats.get("child_crashes", 0)
        ctx.coverage["mean_run_us"] = stats.get("mean_run_us")
    n_fail = len(res["failures"]) if ran else 0
    ctx.obligations.append(common.Obligation(
        "correspondence:no-internal-failure", "correspondence", ran and n_fail == 0,
        ("%d accepted programs x %d settings = %d runs, %d failing keys: %s"
         % (res["stats"]["accepted"], res["stats"]["settings"], res["stats"]["evaluations"], n_fail,
            ", ".join(f["key"] for f in res["failures"][:8]))) if ran else "could not run"))
    ctx.obligations.append(common.Obligation(
        "correspondence:value-has-reported-shape", "correspondence", ran and n_shape_bad == 0,
        ("%d (type, value) pairs decided by the extracted check_raw, %d rejected" % (res["stats"]["shape_lines"], n_shape_bad)) if ran else "could not run"))
    ctx.obligations.append(common.Obligation(
        "correspondence:constructed-programs-typable", "correspondence", ran and n_run_bad == 0,
        ("%d constructed programs run by the extracted reference semantics, %d Stuck / mis-shaped"
         % (res["n"] - res["stats"]["shape_lines"], n_run_bad)) if ran else "could not run"))
    ctx.trusted.append("harness/src/bin/c02: server.rs (VM set-up per setting, error classification), ty.rs (ArcType -> model ty: "
                       "alias expansion, IO a as a function), main.rs (monitor, allowed run-time errors), mutate.rs, modules.rs; "
                       "harness/src/mg (generator, printer, value::canon); coq/extract/c02/driver.ml (s-expression reader, name interning)")
    ctx.assumptions.append("the real checker (9 kLoC) is not modelled: its soundness is established on the explored accepted programs only; "
                           "the theorem is about the model's has_type and makes the oracle (check_shape / check_raw, Stuck) trustworthy")
    ctx.assumptions.append("mutants are filtered by the checker under the base setting (prelude off, optimize on, debug info on, run_io off); "
                           "a mutant accepted only under another setting is not explored")
    ctx.assumptions.append("types outside the modelled class (userdata, open rows, effects, GADT constructors) are translated to `opaque`, on which the shape check is vacuous; "
                           "IO a is checked to be a function (the VM calls it with the world token)")
    ctx.assumptions.append("outcome differences that depend only on `optimize` are C04's observable (optimisation preserves behaviour); they are recorded in "
                           "coverage.optimize_only_divergences_c04 and not counted as C02 violations")
    if ran:
        report(ctx, res)
    broken = [o for o in ctx.obligations if not o.ok and o.kind in ("theorem", "audit")]
    if broken or not ran:
        # no concrete failing input can come from a broken proof alone: widen the search once
        found = bool(ctx.violations)
        if ran and not found and ctx.tier != "thorough":
            res2 = tie(ctx, ["constructed=4000", "mutants=9000", "modules=400"], tag="search")
            if res2 is not None:
                report(ctx, res2)
                found = bool(ctx.violations)
        if not found:
            names = [o.name for o in broken] or ["correspondence (could not run: %s)" % str(getattr(ctx, "build_error", getattr(ctx, "harness_crash", "?")))[:300]]
            for nm in names[:5]:
                ctx.violation("obligation:" + nm, "obligation no longer checks: " + nm, obligation=nm, no_input=True,
                              extra={"detail": [o.detail for o in broken if o.name == nm]})


def replay(ctx, path):
    if not ctx.build_harness("c02"):
        return 2
    rc, out = common.sh([ctx.harness_bin("c02"), "--replay", path], timeout=600)
    print(out)
    # decide the shape lines with the extracted check
    model = ctx.build_model("c02")
    if model is not None:
        lines = [l.split("shape line: ", 1)[1] for l in out.splitlines() if "shape line: " in l]
        if lines:
            uniq = sorted(set(lines))
            p = common.subprocess.run([model], input=("\n".join(uniq) + "\n").encode(), stdout=common.subprocess.PIPE)
            for l, r in zip(uniq, p.stdout.decode().splitlines()):
                print("%s  <=  %s" % (r, l[:200]))
    return 0
