"""C08 — parsing follows the documented grammar, layout and fixity rules.

T: coq/gen/OpTableGen.v regenerated from parser/src/infix.rs (const OPS + lookup rule).
Proofs: coq/theories/Props/C08.v (infix re-association model; span and layout validators).
Ties:
  correspondence:infix-reparse   extracted `reparse_named` vs parse + rename + metadata + reparse_infix of the
                                 real pipeline on exhaustive and random operator chains (harness c08)
  correspondence:roundtrip       generated ASTs printed in four concrete styles, parsed by the real parser
                                 (+ metadata + reparse_infix) and rendered canonically, against the canonical
                                 rendering of the generated AST (harness c08rt)
  validator:spans                extracted `spans_ok` (proved sound) on every parsed tree of the round trip and
                                 on every .glu file of the repository
  validator:layout               extracted `layout_ok` (proved sound) on the real raw / layout token streams of
                                 every generated source and of every .glu file
  correspondence:layout-model    extracted `layout` (Gallina port of parser/src/layout.rs over the tables regenerated
                                 into coq/gen/LayoutTablesGen.v) against gluon_parser::verif::layout_tokens on the
                                 same token streams, token by token
"""
import json
import os
import re

from . import common


def tie(ctx, tier_override=None, tag="tie"):
    """Run the infix correspondence; returns (ran, n_cases, diffs)."""
    out_dir = os.path.join(ctx.run_dir, tag)
    os.makedirs(out_dir, exist_ok=True)
    if not ctx.build_harness("c08"):
        return False, 0, []
    model = ctx.build_model("c08")
    if model is None:
        return False, 0, []
    saved = ctx.tier
    if tier_override:
        ctx.tier = tier_override
    rc, out = ctx.run_harness("c08", out_dir=out_dir)
    ctx.tier = saved
    if rc != 0:
        ctx.log("harness c08 failed:", out[-500:])
        ctx.harness_crash = out[-1500:]
        return False, 0, []
    if not ctx.run_model(model, os.path.join(out_dir, "model_in.txt"), os.path.join(out_dir, "model_out.txt")):
        return False, 0, []
    n, diffs = common.diff_lines(os.path.join(out_dir, "model_out.txt"), os.path.join(out_dir, "impl_out.txt"))
    cases = common.read_lines(os.path.join(out_dir, "cases.txt"))
    stats = json.load(open(os.path.join(out_dir, "stats.json")))
    ctx.coverage["evaluations"] = ctx.coverage.get("evaluations", 0) + stats["evaluations"]
    ctx.coverage["distinct_nontrivial"] = ctx.coverage.get("distinct_nontrivial", 0) + stats["distinct_nontrivial"]
    ctx.coverage["rule"] = stats["rule"]
    ctx.coverage["input_distribution"] = stats["hist"]
    ctx.coverage["exhaustive"] = True
    ctx.coverage["exhaustive_bound"] = "all operator chains of length <= %d over the 9-operator user table (every precedence relation x fixity pair)" % stats["exhaustive_user_maxlen"]
    ctx.coverage["traces_validated_against_impl"] = ctx.coverage.get("traces_validated_against_impl", 0) + n
    mo = common.read_lines(os.path.join(out_dir, "model_out.txt"))
    ctx.coverage["samples"] = [
        {"source": cases[i], "model": mo[i]} for i in (5, 100, len(cases) // 2, len(cases) - 1) if i < len(cases)
    ]
    ctx.coverage.setdefault("ties", {})["infix-reparse"] = {
        "cases": n, "disagreements": len(diffs), "distinct_nontrivial": stats["distinct_nontrivial"],
        "exhaustive_user_maxlen": stats["exhaustive_user_maxlen"], "input_distribution": stats["hist"]}
    res = [(cases[i] if i < len(cases) else "?", m, im) for (i, m, im) in diffs]
    return True, n, res


# ---------------------------------------------------------------------------------------------------
# round trip + validators (harness c08rt, model coq/extract/c08rt)

def _span_key(line, case):
    # `fail <why> <lo> <hi> <leaf>`: name the class of node that is wrong
    parts = line.split()
    why = parts[1] if len(parts) > 1 else "?"
    leaf = parts[4] if len(parts) > 4 else "-"
    cls = "node"
    if leaf.startswith("i:"):
        try:
            name = bytes.fromhex(leaf[2:]).decode("utf-8", "replace")
        except ValueError:
            name = "?"
        if name.startswith("#"):
            cls = "builtin-operator"  # `#Int+` and friends
        elif name[:1].isalpha() or name[:1] == "_":
            cls = "identifier"
        else:
            cls = "operator"
    elif leaf.startswith("n:"):
        cls = "int-literal"
    elif leaf.startswith("b:"):
        cls = "byte-literal"
    elif leaf in ("s", "c", "f"):
        cls = {"s": "string-literal", "c": "char-literal", "f": "float-literal"}[leaf]
    return "spans:%s:%s" % (why, cls)


def _case_of(caseline):
    parts = caseline.split("\t")
    if parts and parts[0] == "gen" and len(parts) >= 3:
        return {"kind": "generated", "style": parts[1], "source": json.loads(parts[2])}
    if parts and parts[0] == "file" and len(parts) >= 2:
        return {"kind": "file", "path": parts[1]}
    return {"kind": "?", "raw": caseline[:500]}


def rt(ctx, tier_override=None, tag="rt", extra=()):
    """Round trip + span validator + layout validator.  Returns dict or None when it could not run."""
    out_dir = os.path.join(ctx.run_dir, tag)
    os.makedirs(out_dir, exist_ok=True)
    if not ctx.build_harness("c08rt"):
        return None
    model = ctx.build_model("c08rt")
    if model is None:
        return None
    saved = ctx.tier
    if tier_override:
        ctx.tier = tier_override
    rc, out = ctx.run_harness("c08rt", out_dir=out_dir, extra=list(extra))
    ctx.tier = saved
    if rc != 0:
        ctx.log("harness c08rt failed:", out[-500:])
        ctx.harness_crash = out[-1500:]
        return None
    stats = json.load(open(os.path.join(out_dir, "stats.json")))
    res = {"stats": stats, "out_dir": out_dir}
    # 1. round trip: the two canonical trees of every case are compared by the extracted, verified comparator
    # ast_eqb (coq/theories/Front/AstEq.v, theorem ast_eqb_eq); the textual comparison is only used to
    # cross-check the glue (s-expression reader of the driver)
    exp_l = common.read_lines(os.path.join(out_dir, "rt_expected.txt"))
    imp_l = common.read_lines(os.path.join(out_dir, "rt_impl.txt"))
    with open(os.path.join(out_dir, "rt_eq_in.txt"), "w") as f:
        for a, b in zip(exp_l, imp_l):
            f.write("E %s\t%s\n" % (a.replace("\t", " "), b.replace("\t", " ")))
    eq_ok = ctx.run_model(model, os.path.join(out_dir, "rt_eq_in.txt"), os.path.join(out_dir, "rt_eq_out.txt"))
    verdicts = common.read_lines(os.path.join(out_dir, "rt_eq_out.txt")) if eq_ok else []
    n = max(len(exp_l), len(imp_l))
    if eq_ok and len(verdicts) == len(exp_l) == len(imp_l):
        diffs = [(i, exp_l[i], imp_l[i]) for i, v in enumerate(verdicts) if v != "eq"]
        res["rt_comparator"] = "ast_eqb"
        textual = sum(1 for a, b in zip(exp_l, imp_l) if a != b)
        res["rt_comparator_agrees_with_text"] = (textual == len(diffs))
    else:
        _, diffs = common.diff_lines(os.path.join(out_dir, "rt_expected.txt"), os.path.join(out_dir, "rt_impl.txt"), limit=100000)
        res["rt_comparator"] = "text (extracted comparator could not run)"
        res["rt_comparator_agrees_with_text"] = False
    fails = [json.loads(l) for l in common.read_lines(os.path.join(out_dir, "rt_fail.jsonl")) if l.strip()]
    res["rt_n"], res["rt_diffs"], res["rt_fails"] = n, diffs, fails
    # 2. + 3. validators
    # 4. layout model vs real layout output
    mo = os.path.join(out_dir, "laym_out.txt")
    ok = ctx.run_model(model, os.path.join(out_dir, "laym_in.txt"), mo)
    if ok:
        nm, md = common.diff_lines(mo, os.path.join(out_dir, "laym_expected.txt"), limit=1000)
    else:
        nm, md = 0, []
    # 4b. how many of these streams satisfy the premise of C08_layout_model_balanced_partial (clean_run), and the
    # conclusion (the model's output reads as a balanced bracket word); `clean unbalanced` would contradict the theorem
    cin = os.path.join(out_dir, "layc_in.txt")
    with open(os.path.join(out_dir, "laym_in.txt")) as fi, open(cin, "w") as fo:
        for line in fi:
            fo.write("C" + line[1:])
    res["clean_counts"] = {}
    if ctx.run_model(model, cin, os.path.join(out_dir, "layc_out.txt")):
        for l in common.read_lines(os.path.join(out_dir, "layc_out.txt")):
            res["clean_counts"][l] = res["clean_counts"].get(l, 0) + 1
    mc = common.read_lines(os.path.join(out_dir, "laym_cases.txt"))
    res["laym_ran"], res["laym_n"] = ok and nm == len(mc), nm
    res["laym_diffs"] = [(i, a, b, mc[i] if i < len(mc) else "?") for (i, a, b) in md]
    for name, inp, cases in (("span", "span_in.txt", "span_cases.txt"), ("lay", "lay_in.txt", "lay_cases.txt")):
        outp = os.path.join(out_dir, name + "_out.txt")
        ok = ctx.run_model(model, os.path.join(out_dir, inp), outp)
        lines = common.read_lines(outp) if ok else []
        cl = common.read_lines(os.path.join(out_dir, cases))
        bad = [(i, l, cl[i] if i < len(cl) else "?") for i, l in enumerate(lines) if l != "ok"]
        res[name + "_ran"] = ok and len(lines) == len(cl)
        res[name + "_n"] = len(lines)
        res[name + "_bad"] = bad
    return res


def report_rt(ctx, res, record=True):
    """Turn the result of rt() into obligations / coverage / violations.  Returns number of failing inputs."""
    stats = res["stats"]
    nviol = 0
    # ---- round trip
    n, diffs, fails = res["rt_n"], res["rt_diffs"], res["rt_fails"]
    if record:
        ctx.obligations.append(common.Obligation(
            "correspondence:roundtrip", "correspondence", n > 0 and not diffs and res.get("rt_comparator") == "ast_eqb" and res.get("rt_comparator_agrees_with_text"),
            "%d (program, style) cases: EXHAUSTIVE family %d programs / %d cases (%d disagreements), %d random programs (size <= %d), %d corpus cases; 4 styles; %d disagreements in total"
            % (n, stats.get("exhaustive_programs", 0), stats.get("exhaustive_cases", 0), stats.get("exhaustive_mismatch", 0),
               stats["programs"], stats["max_size"], stats.get("corpus_cases", 0), len(diffs))))
        if stats.get("exhaustive_programs", 0):
            ctx.coverage["exhaustive"] = True
            ctx.coverage["exhaustive_bound"] = (ctx.coverage.get("exhaustive_bound", "") + "; round trip: " + stats["exhaustive_bound"]).lstrip("; ")
        ctx.coverage["evaluations"] = ctx.coverage.get("evaluations", 0) + stats["evaluations"]
        ctx.coverage["distinct_nontrivial"] = ctx.coverage.get("distinct_nontrivial", 0) + stats["distinct_nontrivial"]
        ctx.coverage["traces_validated_against_impl"] = ctx.coverage.get("traces_validated_against_impl", 0) + n + res["span_n"] + res["lay_n"]
        ctx.coverage.setdefault("ties", {})["roundtrip"] = {
            "cases": n, "programs": stats["programs"], "max_size": stats["max_size"], "disagreements": len(diffs),
            "comparator": res.get("rt_comparator"), "comparator_agrees_with_textual_comparison": res.get("rt_comparator_agrees_with_text"),
            "exhaustive": {"programs": stats.get("exhaustive_programs", 0), "cases": stats.get("exhaustive_cases", 0),
                           "disagreements": stats.get("exhaustive_mismatch", 0), "bound": stats.get("exhaustive_bound", "")},
            "distinct_nontrivial": stats["distinct_nontrivial"], "rule": stats["rule"], "input_distribution": stats["hist"]}
        cases = common.read_lines(os.path.join(res["out_dir"], "rt_cases.txt"))
        exp = common.read_lines(os.path.join(res["out_dir"], "rt_expected.txt"))
        samples = []
        for i in (7, len(cases) // 3 + 1, len(cases) // 2 + 2, len(cases) - 1):
            if 0 <= i < len(cases):
                st, con, src = cases[i].split("\t", 2)
                samples.append({"style": st, "construct": con, "source": json.loads(src), "tree": exp[i][:600]})
        ctx.coverage["samples"] = ctx.coverage.get("samples", []) + samples
    seen = set()
    for f in fails:
        if f["key"] in seen:
            continue
        seen.add(f["key"])
        nviol += 1
        ctx.violation(
            f["key"],
            "a program printed in style %s does not parse back to its tree (minimised: %s)" % (f["style"], f["key"].split(":", 2)[2]),
            case={"source": f["source"], "original_source": f.get("original_source")},
            expected=f["expected"], observed=f["observed"])
    if stats.get("rt_mismatch_not_minimised", 0) > 0:
        nviol += 1
        ctx.violation("roundtrip:unclassified-failures",
                      "%d further round trip failures were not minimised (shrink budget exhausted)" % stats["rt_mismatch_not_minimised"],
                      case={"count": stats["rt_mismatch_not_minimised"]}, expected="0", observed=str(stats["rt_mismatch_not_minimised"]))
    if diffs and not fails:
        # harness did not shrink (should not happen): report the raw case
        i, e, o = diffs[0]
        nviol += 1
        ctx.violation("roundtrip:case-%d" % i, "round trip disagreement", case={"index": i}, expected=e, observed=o)
    # ---- spans
    bad = res["span_bad"]
    if record:
        ctx.obligations.append(common.Obligation(
            "validator:spans", "correspondence", res["span_ran"] and not bad,
            "spans_ok on %d parsed trees (%d nodes, %d identifier/integer leaves; %d of %d .glu files parsed), %d rejected"
            % (res["span_n"], stats["span_nodes"], stats["span_leaves_checked"], stats["glu_files_parsed"], stats["glu_files"], len(bad))))
        ctx.coverage["ties"]["spans"] = {
            "trees": res["span_n"], "nodes": stats["span_nodes"], "leaves_with_text_check": stats["span_leaves_checked"],
            "glu_files": stats["glu_files"], "glu_files_parsed": stats["glu_files_parsed"], "rejected": len(bad)}
    seen = set()
    for (i, line, cl) in bad:
        key = _span_key(line, cl)
        if key in seen:
            continue
        seen.add(key)
        nviol += 1
        n_same = sum(1 for (_, l2, c2) in bad if _span_key(l2, c2) == key)
        ctx.violation(key, "span checker rejects a tree of the real parser: %s (%d trees rejected for this reason)" % (line, n_same),
                      case=_case_of(cl), expected="ok", observed=line)
        if len(seen) >= 10:
            break
    # ---- layout
    bad = res["lay_bad"]
    if record:
        ctx.obligations.append(common.Obligation(
            "validator:layout", "correspondence", res["lay_ran"] and not bad,
            "layout_ok on %d (raw, layout) token stream pairs (%d clean runs with balance/position checks, %d virtual block tokens in generated sources), %d rejected"
            % (res["lay_n"], stats["layout_streams_clean"], stats["layout_virtual_tokens_generated"], len(bad))))
        ctx.coverage["ties"]["layout"] = {
            "streams": res["lay_n"], "clean": stats["layout_streams_clean"],
            "virtual_block_tokens_generated": stats["layout_virtual_tokens_generated"], "rejected": len(bad)}
    seen = set()
    for (i, line, cl) in bad:
        c = _case_of(cl)
        what = line.split()[1] if len(line.split()) > 1 else line
        key = "layout:%s:%s" % (what, c.get("path", c.get("style", "?")))
        if key in seen:
            continue
        seen.add(key)
        nviol += 1
        ctx.violation(key, "layout checker rejects the real layout output: " + line, case=c, expected="ok", observed=line)
        if len(seen) >= 10:
            break
    # ---- layout model (a disagreement is a broken tie, not by itself a failing input: the caller widens the
    # search and reports `obligation:correspondence:layout-model` when the property's own observables hold)
    if record:
        md = res["laym_diffs"]
        ctx.obligations.append(common.Obligation(
            "correspondence:layout-model", "correspondence", res["laym_ran"] and not md,
            "model of layout.rs vs gluon_parser layout on %d token streams, %d disagreements%s"
            % (res["laym_n"], len(md), ("; first: %s" % json.dumps(_case_of(md[0][3]))[:300]) if md else "")))
        cc = res.get("clean_counts", {})
        ctx.coverage["ties"]["layout-model"] = {
            "streams": res["laym_n"], "disagreements": len(md),
            "clean_run_and_balanced": cc.get("clean balanced", 0), "unclean_runs": sum(v for k, v in cc.items() if k.startswith("unclean")),
            "clean_but_unbalanced (would contradict C08_layout_model_balanced_partial)": cc.get("clean unbalanced", 0),
            "counts": cc}
        ctx.obligations.append(common.Obligation(
            "consistency:layout-model-balanced", "correspondence", bool(cc) and cc.get("clean unbalanced", 0) == 0 and cc.get("clean not-ok", 0) + cc.get("clean balanced", 0) > 0,
            "premise clean_run holds on %d of %d real token streams (all of them balanced, as proved); %d streams are not clean"
            % (cc.get("clean balanced", 0) + cc.get("clean not-ok", 0), sum(cc.values()), sum(v for k, v in cc.items() if k.startswith("unclean")))))
        ctx.coverage["traces_validated_against_impl"] = ctx.coverage.get("traces_validated_against_impl", 0) + res["laym_n"]
    return nviol


def run(ctx):
    gen_ok = ctx.gen_coq(["OpTableGen", "LayoutTablesGen"])
    proved = ctx.coq_prove("C08") if gen_ok else False
    ran, n, diffs = tie(ctx)
    ctx.obligations.append(common.Obligation("correspondence:infix-reparse", "correspondence", ran and not diffs,
                                             "%d cases, %d disagreements" % (n, len(diffs))))
    ctx.trusted.append("translator harness/src/tr/optable.rs (syn): const OPS and the shape of OpTable::get")
    ctx.trusted.append("harness/src/bin/c08.rs: chain generator, Gluon printer, AST/err canonicaliser; coq/extract/c08/driver.ml operand substitution")
    ctx.trusted.append("harness/src/bin/c08rt/: AST generator, the four-style printer, canonical renderers of the generated and of the "
                       "parsed tree, span tree exporter (children in source order, leaf classes), token kind numbering; "
                       "coq/extract/c08rt/driver.ml (text <-> extracted data types)")
    ctx.assumptions.append("the LALRPOP grammar is not modelled: the right-nested Infix spine the model starts from is the one the real parser produced")
    ctx.assumptions.append("operator names are ASCII (is_alphanumeric modelled for ASCII only)")
    ctx.assumptions.append("round trip: decided on the implementation for the generated programs (not proved); the parser is "
                           "parse_partial_root_expr + metadata + reparse_infix, without macro expansion and renaming")
    ctx.assumptions.append("layout: the validator checks the real layout output (token preservation, balance, positions); the "
                           "Gallina port of layout.rs is tied to the implementation by differential execution on the same "
                           "token streams (its tables are regenerated from the source); line/column of a token are computed "
                           "by the harness from the byte offset (Location::shift), tokenizer errors are not modelled")
    for (src, m, im) in diffs[:10]:
        # By C08_reparse_unique_grouping the model's tree is the only well-bracketed tree of the
        # chain, so a different answer of the implementation is a wrong grouping / wrong error.
        ctx.violation("infix:" + src, "operator chain `%s` is grouped as %s, the fixity rules dictate %s" % (src, im, m),
                      case={"source": src}, expected=m, observed=im)

    res = rt(ctx)
    rt_viol = 0
    if res is None:
        for nm in ("correspondence:roundtrip", "validator:spans", "validator:layout", "correspondence:layout-model", "consistency:layout-model-balanced"):
            ctx.obligations.append(common.Obligation(nm, "correspondence", False, "could not run: %s" % getattr(ctx, "build_error", getattr(ctx, "harness_crash", "?"))[:300]))
    else:
        rt_viol = report_rt(ctx, res)

    broken = [o for o in ctx.obligations if not o.ok and (o.kind in ("theorem", "translator", "audit") or o.name == "correspondence:layout-model")]
    could_not_run = (not ran) or res is None
    if (broken or could_not_run) and not diffs and not rt_viol:
        # search: widen to the thorough generators
        found = []
        nfound = 0
        if ran and ctx.tier != "thorough":
            ran2, n2, found = tie(ctx, tier_override="thorough", tag="search")
            for (src, m, im) in found[:10]:
                ctx.violation("infix:" + src, "operator chain `%s` is grouped as %s, the fixity rules dictate %s" % (src, im, m),
                              case={"source": src}, expected=m, observed=im)
        if res is not None and ctx.tier != "thorough":
            res2 = rt(ctx, tier_override="thorough", tag="search-rt")
            if res2 is not None:
                nfound = report_rt(ctx, res2, record=False)
        if not found and not nfound:
            names = [o.name for o in broken]
            if could_not_run:
                names.append("correspondence:%s (could not run: %s)" % ("infix-reparse" if not ran else "roundtrip",
                                                                      getattr(ctx, "build_error", getattr(ctx, "harness_crash", "?"))[:300]))
            for nm in names[:5]:
                ctx.violation("obligation:" + nm, "obligation no longer checks: " + nm, obligation=nm, no_input=True,
                              extra={"detail": [o.detail for o in broken if o.name == nm]})


def replay(ctx, path):
    v = json.load(open(path))
    key = v.get("key", "")
    if re.match(r"^(roundtrip|spans|layout):", key):
        if not ctx.build_harness("c08rt"):
            return 2
        case = v.get("case") or {}
        if key.startswith("roundtrip:"):
            rc, out = common.sh([ctx.harness_bin("c08rt"), "--replay", path, "--out", ctx.run_dir])
            print(out)
            return 0
        # validators: re-run the harness on this one source (as the only file of a scratch tree) and the
        # extracted checkers on what it exports
        model = ctx.build_model("c08rt")
        if model is None:
            return 2
        d = os.path.join(ctx.run_dir, "replay")
        tree = os.path.join(d, "tree")
        os.makedirs(tree, exist_ok=True)
        for f in os.listdir(tree):
            os.remove(os.path.join(tree, f))
        if case.get("kind") == "file":
            src = open(case["path"], errors="replace").read()
        else:
            src = case.get("source", "")
        open(os.path.join(tree, "case.glu"), "w").write(src)
        env = dict(common.ENV)
        env["GLUON_REPO"] = tree
        rc, out = common.sh([ctx.harness_bin("c08rt"), "--tier", "quick", "--seed", str(ctx.seed), "--out", d, "n=0"], env=env)
        for name in ("span", "lay"):
            ctx.run_model(model, os.path.join(d, name + "_in.txt"), os.path.join(d, name + "_out.txt"))
            for l, c in zip(common.read_lines(os.path.join(d, name + "_out.txt")), common.read_lines(os.path.join(d, name + "_cases.txt"))):
                if c.endswith("case.glu"):
                    print("%s validator on the replayed source: %s" % (name, l))
        print("expected: ok    recorded: %s" % v.get("observed"))
        return 0
    if not ctx.build_harness("c08"):
        return 2
    rc, out = common.sh([ctx.harness_bin("c08"), "--replay", path, "--out", ctx.run_dir])
    print(out)
    return 0
