"""C08 — parsing follows grammar, layout and fixity rules (infix re-association part).

T: coq/gen/OpTableGen.v regenerated from parser/src/infix.rs (const OPS + lookup rule).
Proofs: coq/theories/Props/C08.v.
C: extracted `reparse_named` vs parse + rename + metadata + reparse_infix of the real
   pipeline on exhaustive and random operator chains.
"""
import json
import os

from . import common


def tie(ctx, tier_override=None, tag="tie"):
    """Run the correspondence; returns (ran, n_cases, diffs)."""
    out_dir = os.path.join(ctx.run_dir, tag)
    os.makedirs(out_dir, exist_ok=True)
    if not ctx.build_harness("c08"):
        return False, 0, []
    model = ctx.build_model("c08")
    if model is None:
        return False, 0, []
    saved = ctx.tier
    if tier_override:
        ctx.tier = tier_override
    rc, out = ctx.run_harness("c08", out_dir=out_dir)
    ctx.tier = saved
    if rc != 0:
        ctx.log("harness c08 failed:", out[-500:])
        ctx.harness_crash = out[-1500:]
        return False, 0, []
    if not ctx.run_model(model, os.path.join(out_dir, "model_in.txt"), os.path.join(out_dir, "model_out.txt")):
        return False, 0, []
    n, diffs = common.diff_lines(os.path.join(out_dir, "model_out.txt"), os.path.join(out_dir, "impl_out.txt"))
    cases = common.read_lines(os.path.join(out_dir, "cases.txt"))
    stats = json.load(open(os.path.join(out_dir, "stats.json")))
    ctx.coverage["evaluations"] = ctx.coverage.get("evaluations", 0) + stats["evaluations"]
    ctx.coverage["distinct_nontrivial"] = ctx.coverage.get("distinct_nontrivial", 0) + stats["distinct_nontrivial"]
    ctx.coverage["rule"] = stats["rule"]
    ctx.coverage["input_distribution"] = stats["hist"]
    ctx.coverage["exhaustive"] = True
    ctx.coverage["exhaustive_bound"] = "all operator chains of length <= %d over the 9-operator user table (every precedence relation x fixity pair)" % stats["exhaustive_user_maxlen"]
    ctx.coverage["traces_validated_against_impl"] = ctx.coverage.get("traces_validated_against_impl", 0) + n
    mo = common.read_lines(os.path.join(out_dir, "model_out.txt"))
    ctx.coverage["samples"] = [
        {"source": cases[i], "model": mo[i]} for i in (5, 100, len(cases) // 2, len(cases) - 1) if i < len(cases)
    ]
    res = [(cases[i] if i < len(cases) else "?", m, im) for (i, m, im) in diffs]
    return True, n, res


def run(ctx):
    gen_ok = ctx.gen_coq(["OpTableGen"])
    proved = ctx.coq_prove("C08") if gen_ok else False
    ran, n, diffs = tie(ctx)
    ctx.obligations.append(common.Obligation("correspondence:infix-reparse", "correspondence", ran and not diffs,
                                             "%d cases, %d disagreements" % (n, len(diffs))))
    ctx.trusted.append("translator harness/src/tr/optable.rs (syn): const OPS and the shape of OpTable::get")
    ctx.trusted.append("harness/src/bin/c08.rs: chain generator, Gluon printer, AST/err canonicaliser; coq/extract/c08/driver.ml operand substitution")
    ctx.assumptions.append("the LALRPOP grammar is not modelled: the right-nested Infix spine the model starts from is the one the real parser produced")
    ctx.assumptions.append("operator names are ASCII (is_alphanumeric modelled for ASCII only)")
    for (src, m, im) in diffs[:10]:
        # By C08_reparse_unique_grouping the model's tree is the only well-bracketed tree of the
        # chain, so a different answer of the implementation is a wrong grouping / wrong error.
        ctx.violation("infix:" + src, "operator chain `%s` is grouped as %s, the fixity rules dictate %s" % (src, im, m),
                      case={"source": src}, expected=m, observed=im)
    broken = [o for o in ctx.obligations if not o.ok and o.kind in ("theorem", "translator", "audit")]
    if (broken or not ran) and not diffs:
        # search: widen to the thorough generator
        found = []
        if ran and ctx.tier != "thorough":
            ran2, n2, found = tie(ctx, tier_override="thorough", tag="search")
            for (src, m, im) in found[:10]:
                ctx.violation("infix:" + src, "operator chain `%s` is grouped as %s, the fixity rules dictate %s" % (src, im, m),
                              case={"source": src}, expected=m, observed=im)
        if not found:
            names = [o.name for o in broken] or ["correspondence:infix-reparse (could not run: %s)" % getattr(ctx, "build_error", getattr(ctx, "harness_crash", "?"))[:300]]
            for nm in names[:5]:
                ctx.violation("obligation:" + nm, "obligation no longer checks: " + nm, obligation=nm, no_input=True,
                              extra={"detail": [o.detail for o in broken if o.name == nm]})


def replay(ctx, path):
    if not ctx.build_harness("c08"):
        return 2
    rc, out = common.sh([ctx.harness_bin("c08"), "--replay", path])
    print(out)
    return 0
