"""C18 — printed types read back as the same type.

T: coq/gen/PrecGen.v regenerated from base/src/types/mod.rs (`enum Prec` order, `Prec::enclose`).
Proofs: coq/theories/Props/C18.v (parse_print for the printer's normal form, at the three
   precedences; type-declaration bodies; refutation for variants below the root; the printed
   parentheses are needed).
C: harness/src/bin/c18.rs
   (1) tokens of the real printer (Display and TypeFormatter::width(w), w in 20..200) = the
       extracted model's `print PTop t`;
   (2) the property itself on the implementation: every rendering is parsed by the real parser
       inside `let _ : <type> = ()` / `type T = <type>` and compared with the original;
   (3) extracted `parse_type` / `parse_top` = the real parser on printed and one-token-mutated
       token strings;
   plus `gluon_vm::api::typ::make_source` output through the real parser.
"""
import json
import os

from . import common

# Shapes outside the normal form of TypeSyntaxProofs.v on which the property fails on the
# unchanged tree (see the report / KNOWN_FINDINGS proposals).  They are still reported: each
# failing type is a violation with a key `type-roundtrip:<class>:<canonical type>`.
REPORT_PER_CLASS = 3


def tie(ctx, tier_override=None, tag="tie"):
    """Run the correspondence.  Returns (ran, n_cases, diffs, roundtrip_failures, stats)."""
    out_dir = os.path.join(ctx.run_dir, tag)
    os.makedirs(out_dir, exist_ok=True)
    if not ctx.build_harness("c18"):
        return False, 0, [], [], {}
    model = ctx.build_model("c18")
    if model is None:
        return False, 0, [], [], {}
    saved = ctx.tier
    if tier_override:
        ctx.tier = tier_override
    rc, out = ctx.run_harness("c18", out_dir=out_dir, extra=["corpus=" + os.path.join(common.VERIF, "corpus", "C18")])
    ctx.tier = saved
    if rc != 0:
        ctx.log("harness c18 failed:", out[-500:])
        ctx.harness_crash = out[-1500:]
        return False, 0, [], [], {}
    if not ctx.run_model(model, os.path.join(out_dir, "model_in.txt"), os.path.join(out_dir, "model_out.txt")):
        return False, 0, [], [], {}
    n, diffs = common.diff_lines(os.path.join(out_dir, "model_out.txt"), os.path.join(out_dir, "impl_out.txt"))
    cases = common.read_lines(os.path.join(out_dir, "cases.txt"))
    stats = json.load(open(os.path.join(out_dir, "stats.json")))
    fails = [json.loads(l) for l in common.read_lines(os.path.join(out_dir, "roundtrip.jsonl")) if l.strip()]
    res = [(cases[i] if i < len(cases) else "?", m, im) for (i, m, im) in diffs]
    return True, n, res, fails, stats


def record_coverage(ctx, n, stats):
    cov = ctx.coverage
    cov["evaluations"] = cov.get("evaluations", 0) + stats["evaluations"]
    cov["distinct_nontrivial"] = cov.get("distinct_nontrivial", 0) + stats["distinct_nontrivial"]
    cov["rule"] = stats["rule"]
    cov["input_distribution"] = stats["hist"]
    cov["exhaustive"] = True
    cov["exhaustive_bound"] = (
        "all variant-free normal-form types with <= %d nodes (%d types) and all root variants with <= %d nodes (%d) over "
        "the alphabet {Int, a, F, (), x, (+), Test, st, r, A, B}; each at Display and widths %s"
        % (stats["exhaustive_maxsize"], stats["exhaustive_types"], stats["exhaustive_variant_maxsize"], stats["exhaustive_variants"], stats["widths"])
    )
    cov["random"] = "%d random types of <= %d nodes (long names, every constructor)" % (stats["random_types"], stats["random_maxsize"])
    cov["traces_validated_against_impl"] = cov.get("traces_validated_against_impl", 0) + n
    cov["samples"] = stats.get("samples", [])[:6]
    cov["roundtrip_failures"] = stats["roundtrip_failures"]


def report_roundtrip(ctx, fails):
    """Each type whose rendering does not read back as an equivalent type is a violation."""
    by_class = {}
    for f in fails:
        by_class.setdefault(f["class"], []).append(f)
    reported = 0
    for cls in sorted(by_class):
        rows = by_class[cls]
        # one violation per type (the smallest ones first), not per width
        seen = {}
        for r in rows:
            seen.setdefault(r["key"], []).append(r)
        keys = sorted(seen, key=lambda k: (len(k), k))
        limit = None if cls in ("plain", "make_source") else REPORT_PER_CLASS
        for k in keys[: (limit or 10)]:
            r = seen[k][0]
            widths = sorted({x["width"] for x in seen[k]})
            ctx.violation(
                k,
                "the rendering of the type %s does not read back as the same type: %s" % (r["canonical"], r["observed"]),
                case={"type": r["type"], "width": r["width"], "ctx": r["ctx"], "printed": r["printed"]},
                expected=r["canonical"],
                observed=r["observed"],
                extra={"class": cls, "widths_failing": widths, "types_failing_in_class": len(keys), "family": r["family"]},
            )
            reported += 1
    return reported


def run(ctx):
    gen_ok = ctx.gen_coq(["PrecGen"])
    proved = ctx.coq_prove("C18") if gen_ok else False
    ran, n, diffs, fails, stats = tie(ctx)
    if ran:
        record_coverage(ctx, n, stats)
    tok_diffs = [d for d in diffs if d[0].startswith("print ")]
    parse_diffs = [d for d in diffs if not d[0].startswith("print ")]
    ctx.obligations.append(common.Obligation("correspondence:type-printer", "correspondence", ran and not tok_diffs,
                                             "%d cases, %d token disagreements between the real printer and `print`" % (n, len(tok_diffs))))
    ctx.obligations.append(common.Obligation("correspondence:type-parser", "correspondence", ran and not parse_diffs,
                                             "%d parser disagreements between the real parser and `parse_type`/`parse_top`" % len(parse_diffs)))
    ctx.obligations.append(common.Obligation(
        "roundtrip:implementation", "correspondence",
        ran and not [f for f in fails if f["class"] in ("plain", "make_source")],
        "the property evaluated on the implementation: %s failing (type, width, context) triples, by class %s"
        % (len(fails), json.dumps({c: sum(1 for f in fails if f["class"] == c) for c in sorted({f["class"] for f in fails})}))))
    ctx.trusted.append("translator harness/src/tr/prec.rs (syn): `enum Prec` variant order under derive(PartialOrd), the comparison and the two branches of `Prec::enclose`")
    ctx.trusted.append("harness/src/bin/c18.rs: type generator, Ty -> ArcType construction, canonical form of ArcType/AstType "
                       "(spans, kinds, metadata dropped; Builtin/Ident/Generic/Alias identified by spelling), re-implemented type-level tokenizer, "
                       "`let _ : T = ()` / `type T = ...` embedding with continuation lines indented; coq/extract/c18/driver.ml (text <-> inductive types)")
    ctx.assumptions.append("the pretty-printing combinators (`pretty` crate: group/nest/line) only insert white space: the model keeps the token sequence, "
                           "the harness checks the real tokens at widths 20,40,80,120,200 and Display")
    ctx.assumptions.append("the LALRPOP tables are not modelled: `parse_type`/`parse_top` are a hand-written recursive-descent reading of the Type* rules, "
                           "tied to the generated parser by the correspondence on printed and mutated token strings")
    ctx.assumptions.append("equivalence of types = equality after dropping spans/kinds/metadata, flattening nested applications and reading `(->) a b` as `a -> b`; "
                           "type variables (`Type::Variable`, printed as numbers) and skolems are outside the quantifier")

    reported = report_roundtrip(ctx, fails) if ran else 0
    plain_fail = [f for f in fails if f["class"] in ("plain", "make_source")]

    def describe(d):
        src, m, im = d
        return {"case": src, "model": m, "implementation": im}

    broken = [o for o in ctx.obligations if not o.ok and o.kind in ("theorem", "translator", "audit")]
    need_search = (broken or not ran or diffs) and not plain_fail
    if need_search:
        # a proof, the translator or a correspondence broke without a failing input of the
        # property in the normal form: widen to the thorough generator
        found = []
        if ran and ctx.tier != "thorough":
            ran2, n2, diffs2, fails2, stats2 = tie(ctx, tier_override="thorough", tag="search")
            found = [f for f in fails2 if f["class"] in ("plain", "make_source")] if ran2 else []
            if found:
                report_roundtrip(ctx, found)
        if not found:
            names = [o.name for o in broken]
            if diffs and tok_diffs:
                names.append("correspondence:type-printer")
            if diffs and parse_diffs:
                names.append("correspondence:type-parser")
            if not ran:
                names.append("correspondence:type-printer (could not run: %s)" % str(getattr(ctx, "build_error", getattr(ctx, "harness_crash", "?")))[:300])
            for nm in names[:6]:
                ctx.violation("obligation:" + nm, "obligation no longer checks: " + nm, obligation=nm, no_input=True,
                              extra={"detail": [o.detail for o in broken if o.name == nm],
                                     "disagreements": [describe(d) for d in (tok_diffs if "printer" in nm else parse_diffs)[:5]]})


def replay(ctx, path):
    if not ctx.build_harness("c18"):
        return 2
    rc, out = common.sh([ctx.harness_bin("c18"), "--replay", path])
    print(out)
    return 0
