"""C12 — precompiled bytecode behaves like the source it came from.

T: coq/gen/InstrGen.v + coq/gen/InstrCodecGen.v regenerated from vm/src/types.rs (`enum Instruction`:
   variants in declaration order = serde variant index, wire type of every field).
Proofs: coq/theories/Props/C12.v over VM/Codec.v (byte-level model of bincode's fixed-width and varint
   encodings of instructions and of the CompiledFunction skeleton): decode . encode = id, every strict
   prefix of an encoding is a decoding error, encodings are prefix-free/injective, unknown variant index
   is an error; the decoder (like the real loader) accepts dangling string/function/jump references
   (`_refuted` witness = known finding load-crash:corrupt:instr-index:*), the checked decoder does not.
   C12_load_behaves_model_vm: decoding an encoding and running it on C01's model VM (VM/Machine.v, skeleton
   embedded by VM/LoadModel.v) = running the encoded function.
C: harness/src/bin/c12.rs
   (2) the property itself on generated programs and corpus/std modules: compile_to_bytecode to JSON,
       bincode-varint, bincode-fixed; load_bytecode / Precompiled::run_expr into the same and a fresh VM;
       canonical outcome (value, error class, effect log) must equal the source's;
   (3) the extracted model's enc_fn bytes must equal what bincode writes for the same skeleton, and those
       bytes must occur in order inside the real serialisation of the module; every real skeleton must pass
       the model's range check (wf_fnb) and reference check (refs_ok);
   (5) the REAL module bytes (bincode fixed + varint slices; JSON skeleton) are decoded by the extracted codec and
       run on the extracted model VM (coq/extract/c12vm): outcome = source run = real precompiled run (three-way);
   (4) truncations and single-field corruptions loaded in child processes: Err or clean runtime error,
       never panic/abort/hang.
"""
import hashlib
import json
import os

from . import common


def tie(ctx, tier_override=None, tag="tie", extra=()):
    """Run the harness and the model.  Returns (ran, n_skeletons, skeleton diffs, findings)."""
    out_dir = os.path.join(ctx.run_dir, tag)
    os.makedirs(out_dir, exist_ok=True)
    for f in ("model_in.txt", "impl_out.txt", "cases.txt", "findings.jsonl", "stats.json", "model_out.txt",
              "vm_in.txt", "vm_expect.txt", "vm_cases.txt", "vm_out.txt"):
        try:
            os.remove(os.path.join(out_dir, f))
        except FileNotFoundError:
            pass
    if not ctx.build_harness("c12"):
        return False, 0, [], []
    model = ctx.build_model("c12")
    if model is None:
        return False, 0, [], []
    saved = ctx.tier
    if tier_override:
        ctx.tier = tier_override
    rc, out = ctx.run_harness("c12", out_dir=out_dir, extra=list(extra), timeout=2400 if ctx.tier == "thorough" else 900)
    ctx.tier = saved
    if rc != 0 or not os.path.exists(os.path.join(out_dir, "stats.json")):
        ctx.log("harness c12 failed (rc=%s):" % rc, out[-600:])
        ctx.harness_crash = out[-1500:]
        return False, 0, [], []
    for line in out.splitlines():
        if line.startswith("c12:"):
            ctx.log(line)
    if not ctx.run_model(model, os.path.join(out_dir, "model_in.txt"), os.path.join(out_dir, "model_out.txt")):
        return False, 0, [], []
    n, diffs = common.diff_lines(os.path.join(out_dir, "model_out.txt"), os.path.join(out_dir, "impl_out.txt"))
    cases = common.read_lines(os.path.join(out_dir, "cases.txt"))
    stats = json.load(open(os.path.join(out_dir, "stats.json")))
    findings = [json.loads(l) for l in open(os.path.join(out_dir, "findings.jsonl")) if l.strip()]
    cov = ctx.coverage
    cov["evaluations"] = cov.get("evaluations", 0) + stats["evaluations"]
    cov["distinct_nontrivial"] = cov.get("distinct_nontrivial", 0) + stats["distinct_nontrivial"]
    cov["rule"] = stats["rule"]
    cov["input_distribution"] = stats["hist"]
    cov["programs"] = cov.get("programs", 0) + stats["programs"]
    cov["loads_compared_with_source"] = cov.get("loads_compared_with_source", 0) + stats["loads_compared"]
    cov["robustness_loads_in_child_processes"] = cov.get("robustness_loads_in_child_processes", 0) + stats["robustness_loads"]
    cov["robustness_samples"] = stats.get("robust_samples", {})
    cov["traces_validated_against_impl"] = cov.get("traces_validated_against_impl", 0) + n
    mo = common.read_lines(os.path.join(out_dir, "model_out.txt"))
    cov["samples"] = stats.get("samples", []) + [
        {"source": cases[i][:600], "model": mo[i][:300]} for i in (0, len(cases) // 2) if i < len(cases) and i < len(mo)
    ]
    res = [(cases[i] if i < len(cases) else "?", m, im) for (i, m, im) in diffs]
    ctx.last_out_dir = out_dir
    return True, n, res, findings


def untype(s):
    """untyped view of a canonical value: `(rcd (l v)...)` -> `(data 0 v...)` (the real value of a module without
    a static MiniGluon type is rendered without field names)"""
    toks = s.replace("(", " ( ").replace(")", " ) ").split()
    pos = [0]

    def parse():
        t = toks[pos[0]]
        pos[0] += 1
        if t != "(":
            return t
        items = []
        while toks[pos[0]] != ")":
            items.append(parse())
        pos[0] += 1
        return items

    def conv(x):
        if isinstance(x, list):
            if x and x[0] == "rcd":
                return ["data", "0"] + [conv(f[1]) if isinstance(f, list) and len(f) == 2 else conv(f) for f in x[1:]]
            return [conv(y) for y in x]
        return x

    def show(x):
        return "(" + " ".join(show(y) for y in x) + ")" if isinstance(x, list) else x

    try:
        return show(conv(parse()))
    except Exception:
        return s


def vm_norm(s, typed):
    s = s.replace("(rcd)", "(data 0)")
    return s if typed else untype(s)


def vm_tie(ctx, out_dir):
    """(5) the REAL serialised module (bincode fixed + varint slices, JSON skeleton) decoded by the extracted codec and
    run on the extracted model VM (coq/extract/c12vm) vs the source run vs the real precompiled run."""
    vin = os.path.join(out_dir, "vm_in.txt")
    if not os.path.exists(vin):
        return False, []
    model = ctx.build_model("c12vm")
    if model is None:
        return False, []
    vout = os.path.join(out_dir, "vm_out.txt")
    if not ctx.run_model(model, vin, vout, timeout=1500):
        return False, []
    vo = common.read_lines(vout)
    ex = common.read_lines(os.path.join(out_dir, "vm_expect.txt"))
    cs = common.read_lines(os.path.join(out_dir, "vm_cases.txt"))
    executed = agree = unsupported_instr = fuel = unmodelled_globals = 0
    divs = []
    for i, v in enumerate(vo):
        if i >= len(ex) or i >= len(cs):
            break
        src, _, pre = ex[i].partition("\t")
        fam, typed, globs, source = (cs[i].split("\t", 3) + ["", "", "", ""])[:4]
        typed = typed == "typed"
        source = source.replace("\\n", "\n")
        # --- is the module inside what the model VM models?  Decided before any outcome is compared. ---
        if globs != "globals-modelled":
            unmodelled_globals += 1      # refers to a global the model VM has no built-ins for (prelude / std modules)
            continue
        if v.startswith("(skip"):
            unsupported_instr += 1       # float arithmetic, polymorphic variants
            continue
        if "(unknown)" in v or v.startswith("(stuck 6"):
            unmodelled_globals += 1      # used a field of a modelled global that has no model built-in
            continue
        if v == "(fuel)" or v.startswith("(err model"):
            fuel += 1
            continue
        if "shape-mismatch" in src:
            continue
        executed += 1
        if v.startswith("(bad"):
            slug = "-".join(v[5:].replace(")", "").split()[:6])
            divs.append(("precompiled:model-vm:decode:" + slug, v, src, pre, source))
            continue
        a, b, c = vm_norm(v, typed), vm_norm(src, typed), vm_norm(pre, typed)

        def cls(x):
            return "stuck" if x.startswith("(stuck") else " ".join(x.split()[:2]).strip("(") if x.startswith("(err") else "val"

        def first_difference(x, y):
            if cls(x) != cls(y):
                return "stuck" if cls(x) == "stuck" else "outcome-class"
            if x.split("(log")[0] != y.split("(log")[0]:
                return "value"
            return "effect-log"

        if a == b == c:
            agree += 1
        elif b != c:
            # source and real precompiled run differ: that is `precompiled-differs` (reported by the harness); say on
            # which side the model VM is
            side = "agrees-with-source" if a == b else "agrees-with-precompiled" if a == c else "third-outcome"
            divs.append(("precompiled:model-vm:real-vm-differs:" + side, v, src, pre, source))
        else:
            divs.append(("precompiled:model-vm:outcome:" + first_difference(a, b), v, src, pre, source))
    total = len(vo)
    ctx.coverage["model_vm_on_decoded_real_modules"] = {
        "modules": total,
        "executed_by_model_vm": executed,
        "three_way_agreement (model VM on decoded module = source run = real precompiled run)": agree,
        "not_executed:unsupported_instruction (float arithmetic, poly variants)": unsupported_instr,
        "not_executed:refers_to_a_global_or_extern_without_model_builtin (prelude/std modules)": unmodelled_globals,
        "not_executed:out_of_fuel": fuel,
        "executed_fraction": round(executed / total, 4) if total else 0.0,
        "divergences": len(divs),
    }
    ctx.coverage["traces_validated_against_impl"] = ctx.coverage.get("traces_validated_against_impl", 0) + executed
    ctx.coverage["evaluations"] = ctx.coverage.get("evaluations", 0) + total
    return True, divs


def report(ctx, diffs, findings):
    for f in findings:
        ctx.violation(f["key"], "%s  [%d occurrence(s) in this run]" % (f["what"], f.get("count", 1)),
                      case=f["case"], expected=f["expected"], observed=f["observed"][:2000])
    for (src, m, im) in diffs[:10]:
        # By C12_de_ser_fn / C12_enc_injective the model's bytes are the unique encoding of the skeleton
        # in the modelled format: different real bytes mean the real serialisation of instructions is
        # not the format the theorems are about (or uses an instruction shape the table does not have).
        key = "skeleton-encoding:" + ("unmodelled" if ("unmodelled" in im or "unmodelled" in m) else
                                      "not-embedded" if "not-embedded" in im else "bytes-differ")
        ctx.violation(key, "the serialised function skeleton of a real module is not what the codec model produces",
                      case={"check": "roundtrip", "source": src.replace("\\n", "\n"), "format": "bincode-fixed", "api": "run_expr", "vm": "fresh"},
                      expected=m[:2000], observed=im[:2000])


def run(ctx):
    gen_ok = ctx.gen_coq(["InstrGen", "InstrCodecGen"])
    proved = ctx.coq_prove("C12") if gen_ok else False
    ran, n, diffs, findings = tie(ctx)
    ctx.obligations.append(common.Obligation(
        "correspondence:skeleton-bytes", "correspondence", ran and not diffs,
        "%d module skeletons: model enc_fn (fixed + varint) vs bincode bytes, embedded in the real module serialisation; %d disagreements" % (n, len(diffs))))
    bad_rt = [f for f in findings if not f["key"].startswith("load-crash:")]
    bad_rb = [f for f in findings if f["key"].startswith("load-crash:")]
    ctx.obligations.append(common.Obligation(
        "correspondence:precompiled-equals-source", "correspondence", ran and not bad_rt,
        "%s loads compared with the source run; %d distinct failing keys" % (ctx.coverage.get("loads_compared_with_source", 0), len(bad_rt))))
    ctx.obligations.append(common.Obligation(
        "correspondence:load-robustness", "correspondence", ran and not bad_rb,
        "%s truncated/corrupted loads in child processes; %d distinct failing keys" % (ctx.coverage.get("robustness_loads_in_child_processes", 0), len(bad_rb))))
    vm_ran, vm_divs = vm_tie(ctx, ctx.last_out_dir) if ran else (False, [])
    mv = ctx.coverage.get("model_vm_on_decoded_real_modules", {})
    ctx.obligations.append(common.Obligation(
        "correspondence:model-vm-runs-decoded-real-module", "correspondence",
        vm_ran and not vm_divs and mv.get("executed_fraction", 0) >= 0.85,
        "%s real modules decoded by the extracted codec; %s executed on the model VM (%.1f%%), %s agree three-way with the source "
        "run and the real precompiled run; %d divergences"
        % (mv.get("modules", 0), mv.get("executed_by_model_vm", 0), 100 * mv.get("executed_fraction", 0),
           mv.get("three_way_agreement (model VM on decoded module = source run = real precompiled run)", 0), len(vm_divs))))
    seen_keys = set()
    for (key, v, src, pre, source) in vm_divs:
        if key in seen_keys or len(seen_keys) >= 10:
            continue
        seen_keys.add(key)
        # C12_load_behaves_model_vm: running the decoded skeleton is running the encoded function, so a different
        # outcome means the real loader/VM does something else with these bytes than the model VM does.
        ctx.violation(key, "the real serialised module, decoded by the model codec and run on the model VM, does not behave like "
                      "the source run / the real precompiled run",
                      case={"check": "roundtrip", "source": source, "format": "bincode-fixed", "api": "run_expr", "vm": "fresh", "prelude": False},
                      expected="source: %s | real precompiled: %s" % (src[:900], pre[:900]), observed="model VM: " + v[:1500])
    if ran and not vm_ran:
        ctx.violation("obligation:correspondence:model-vm-runs-decoded-real-module", "the model-VM tie could not be run (coq/extract/c12vm)",
                      obligation="correspondence:model-vm-runs-decoded-real-module", no_input=True)
    ctx.trusted.append("C01's model VM coq/theories/VM/Machine.v (interpreter for real bytecode, tied to the real VM by ./check C01) and "
                       "coq/extract/c12vm/driver.ml (extern table, record-name and globals side tables, printing)")
    ctx.trusted.append("translators harness/src/tr/instr.rs + instr_codec.rs (syn): enum Instruction variants, field types, serde attributes")
    ctx.trusted.append("harness/src/bin/c12.rs: program generator gvh::mg, printers, outcome canonicaliser, JSON skeleton reader, "
                       "corruption generators, child-process runner with watchdog; coq/extract/c12/driver.ml (name lookup, number parsing)")
    ctx.trusted.append("serde / serde_json / bincode 2 internals are not modelled: bincode's bytes for (u32, Vec<Instruction>, Vec<String>) are compared with the model on every run")
    ctx.assumptions.append("only the skeleton (args, max_stack_size, instructions, inner functions, strings) is modelled; symbols, types, "
                           "records and debug info (shared-node tables) are covered by the behavioural round trip only")
    ctx.assumptions.append("`wf_fnb`: fields within the ranges of their Rust types and sequence lengths below 2^64 (checked by the model on every real skeleton)")
    report(ctx, diffs, findings)
    broken = [o for o in ctx.obligations if not o.ok and o.kind in ("theorem", "translator", "audit")]
    if (broken or not ran) and not diffs and not findings:
        found = False
        if ran and ctx.tier != "thorough":
            # search: widen to the thorough generator (more programs, every operand corruption)
            ran2, n2, diffs2, findings2 = tie(ctx, tier_override="thorough", tag="search", extra=["programs=3000"])
            if diffs2 or findings2:
                found = True
                report(ctx, diffs2, findings2)
        if not found:
            names = [o.name for o in broken] or [
                "correspondence:c12 (could not run: %s)" % str(getattr(ctx, "build_error", getattr(ctx, "harness_crash", "?")))[:300]]
            for nm in names[:5]:
                ctx.violation("obligation:" + nm, "obligation no longer checks: " + nm, obligation=nm, no_input=True,
                              extra={"detail": [o.detail for o in broken if o.name == nm]})


def replay(ctx, path):
    if not ctx.build_harness("c12"):
        return 2
    rc, out = common.sh([ctx.harness_bin("c12"), "--replay", path], timeout=300)
    print(out)
    return 0
