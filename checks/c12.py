"""C12 — precompiled bytecode behaves like the source it came from.

T: coq/gen/InstrGen.v + coq/gen/InstrCodecGen.v regenerated from vm/src/types.rs (`enum Instruction`:
   variants in declaration order = serde variant index, wire type of every field).
Proofs: coq/theories/Props/C12.v over VM/Codec.v (byte-level model of bincode's fixed-width and varint
   encodings of instructions and of the CompiledFunction skeleton): decode . encode = id, every strict
   prefix of an encoding is a decoding error, encodings are prefix-free/injective, unknown variant index
   is an error; the decoder (like the real loader) accepts dangling string/function/jump references
   (`_refuted` witness = known finding load-crash:corrupt:instr-index:*), the checked decoder does not.
C: harness/src/bin/c12.rs
   (2) the property itself on generated programs and corpus/std modules: compile_to_bytecode to JSON,
       bincode-varint, bincode-fixed; load_bytecode / Precompiled::run_expr into the same and a fresh VM;
       canonical outcome (value, error class, effect log) must equal the source's;
   (3) the extracted model's enc_fn bytes must equal what bincode writes for the same skeleton, and those
       bytes must occur in order inside the real serialisation of the module; every real skeleton must pass
       the model's range check (wf_fnb) and reference check (refs_ok);
   (4) truncations and single-field corruptions loaded in child processes: Err or clean runtime error,
       never panic/abort/hang.
"""
import json
import os

from . import common


def tie(ctx, tier_override=None, tag="tie", extra=()):
    """Run the harness and the model.  Returns (ran, n_skeletons, skeleton diffs, findings)."""
    out_dir = os.path.join(ctx.run_dir, tag)
    os.makedirs(out_dir, exist_ok=True)
    for f in ("model_in.txt", "impl_out.txt", "cases.txt", "findings.jsonl", "stats.json", "model_out.txt"):
        try:
            os.remove(os.path.join(out_dir, f))
        except FileNotFoundError:
            pass
    if not ctx.build_harness("c12"):
        return False, 0, [], []
    model = ctx.build_model("c12")
    if model is None:
        return False, 0, [], []
    saved = ctx.tier
    if tier_override:
        ctx.tier = tier_override
    rc, out = ctx.run_harness("c12", out_dir=out_dir, extra=list(extra), timeout=2400 if ctx.tier == "thorough" else 900)
    ctx.tier = saved
    if rc != 0 or not os.path.exists(os.path.join(out_dir, "stats.json")):
        ctx.log("harness c12 failed (rc=%s):" % rc, out[-600:])
        ctx.harness_crash = out[-1500:]
        return False, 0, [], []
    for line in out.splitlines():
        if line.startswith("c12:"):
            ctx.log(line)
    if not ctx.run_model(model, os.path.join(out_dir, "model_in.txt"), os.path.join(out_dir, "model_out.txt")):
        return False, 0, [], []
    n, diffs = common.diff_lines(os.path.join(out_dir, "model_out.txt"), os.path.join(out_dir, "impl_out.txt"))
    cases = common.read_lines(os.path.join(out_dir, "cases.txt"))
    stats = json.load(open(os.path.join(out_dir, "stats.json")))
    findings = [json.loads(l) for l in open(os.path.join(out_dir, "findings.jsonl")) if l.strip()]
    cov = ctx.coverage
    cov["evaluations"] = cov.get("evaluations", 0) + stats["evaluations"]
    cov["distinct_nontrivial"] = cov.get("distinct_nontrivial", 0) + stats["distinct_nontrivial"]
    cov["rule"] = stats["rule"]
    cov["input_distribution"] = stats["hist"]
    cov["programs"] = cov.get("programs", 0) + stats["programs"]
    cov["loads_compared_with_source"] = cov.get("loads_compared_with_source", 0) + stats["loads_compared"]
    cov["robustness_loads_in_child_processes"] = cov.get("robustness_loads_in_child_processes", 0) + stats["robustness_loads"]
    cov["robustness_samples"] = stats.get("robust_samples", {})
    cov["traces_validated_against_impl"] = cov.get("traces_validated_against_impl", 0) + n
    mo = common.read_lines(os.path.join(out_dir, "model_out.txt"))
    cov["samples"] = stats.get("samples", []) + [
        {"source": cases[i][:600], "model": mo[i][:300]} for i in (0, len(cases) // 2) if i < len(cases) and i < len(mo)
    ]
    res = [(cases[i] if i < len(cases) else "?", m, im) for (i, m, im) in diffs]
    return True, n, res, findings


def report(ctx, diffs, findings):
    for f in findings:
        ctx.violation(f["key"], "%s  [%d occurrence(s) in this run]" % (f["what"], f.get("count", 1)),
                      case=f["case"], expected=f["expected"], observed=f["observed"][:2000])
    for (src, m, im) in diffs[:10]:
        # By C12_de_ser_fn / C12_enc_injective the model's bytes are the unique encoding of the skeleton
        # in the modelled format: different real bytes mean the real serialisation of instructions is
        # not the format the theorems are about (or uses an instruction shape the table does not have).
        key = "skeleton-encoding:" + ("unmodelled" if ("unmodelled" in im or "unmodelled" in m) else
                                      "not-embedded" if "not-embedded" in im else "bytes-differ")
        ctx.violation(key, "the serialised function skeleton of a real module is not what the codec model produces",
                      case={"check": "roundtrip", "source": src.replace("\\n", "\n"), "format": "bincode-fixed", "api": "run_expr", "vm": "fresh"},
                      expected=m[:2000], observed=im[:2000])


def run(ctx):
    gen_ok = ctx.gen_coq(["InstrGen", "InstrCodecGen"])
    proved = ctx.coq_prove("C12") if gen_ok else False
    ran, n, diffs, findings = tie(ctx)
    ctx.obligations.append(common.Obligation(
        "correspondence:skeleton-bytes", "correspondence", ran and not diffs,
        "%d module skeletons: model enc_fn (fixed + varint) vs bincode bytes, embedded in the real module serialisation; %d disagreements" % (n, len(diffs))))
    bad_rt = [f for f in findings if not f["key"].startswith("load-crash:")]
    bad_rb = [f for f in findings if f["key"].startswith("load-crash:")]
    ctx.obligations.append(common.Obligation(
        "correspondence:precompiled-equals-source", "correspondence", ran and not bad_rt,
        "%s loads compared with the source run; %d distinct failing keys" % (ctx.coverage.get("loads_compared_with_source", 0), len(bad_rt))))
    ctx.obligations.append(common.Obligation(
        "correspondence:load-robustness", "correspondence", ran and not bad_rb,
        "%s truncated/corrupted loads in child processes; %d distinct failing keys" % (ctx.coverage.get("robustness_loads_in_child_processes", 0), len(bad_rb))))
    ctx.trusted.append("translators harness/src/tr/instr.rs + instr_codec.rs (syn): enum Instruction variants, field types, serde attributes")
    ctx.trusted.append("harness/src/bin/c12.rs: program generator gvh::mg, printers, outcome canonicaliser, JSON skeleton reader, "
                       "corruption generators, child-process runner with watchdog; coq/extract/c12/driver.ml (name lookup, number parsing)")
    ctx.trusted.append("serde / serde_json / bincode 2 internals are not modelled: bincode's bytes for (u32, Vec<Instruction>, Vec<String>) are compared with the model on every run")
    ctx.assumptions.append("only the skeleton (args, max_stack_size, instructions, inner functions, strings) is modelled; symbols, types, "
                           "records and debug info (shared-node tables) are covered by the behavioural round trip only")
    ctx.assumptions.append("`wf_fnb`: fields within the ranges of their Rust types and sequence lengths below 2^64 (checked by the model on every real skeleton)")
    report(ctx, diffs, findings)
    broken = [o for o in ctx.obligations if not o.ok and o.kind in ("theorem", "translator", "audit")]
    if (broken or not ran) and not diffs and not findings:
        found = False
        if ran and ctx.tier != "thorough":
            # search: widen to the thorough generator (more programs, every operand corruption)
            ran2, n2, diffs2, findings2 = tie(ctx, tier_override="thorough", tag="search", extra=["programs=3000"])
            if diffs2 or findings2:
                found = True
                report(ctx, diffs2, findings2)
        if not found:
            names = [o.name for o in broken] or [
                "correspondence:c12 (could not run: %s)" % str(getattr(ctx, "build_error", getattr(ctx, "harness_crash", "?")))[:300]]
            for nm in names[:5]:
                ctx.violation("obligation:" + nm, "obligation no longer checks: " + nm, obligation=nm, no_input=True,
                              extra={"detail": [o.detail for o in broken if o.name == nm]})


def replay(ctx, path):
    if not ctx.build_harness("c12"):
        return 2
    rc, out = common.sh([ctx.harness_bin("c12"), "--replay", path], timeout=300)
    print(out)
    return 0
