"""C07 — resource limits are enforced and tail calls run in constant stack.

T: coq/gen/InstrGen.v  (vm/src/types.rs: enum Instruction, fn adjust)
   coq/gen/AllocGen.v  (vm/src/gc.rs: limit test / counter updates / collection trigger)
Proofs: coq/theories/Props/C07.v (VM/StackBound*, VM/TailCall*, Heap/Account*).
V: the extracted, proved-sound `verify_fn` runs on every function of every module the harness
   compiles (all of /repo/std + generated programs); every function must verify.
C: (a) random alloc/drop/collect sequences on a real `gluon_vm::gc::Gc` against the extracted
   Account model; (b) generated recursion-/allocation-heavy programs under a sweep of stack and
   memory limits, judged against the generator's closed form and the property's own observables
   (value | StackOverflow | OutOfMemory; allocated_memory() <= limit; 10^6 tail iterations under
   64 slots; deep non-tail recursion in a child process; interrupts); (c) every syntactic tail
   position (26 shapes: `||`/`&&` right operands, if branches, match alternatives, let/rec-let
   bodies, closures, partial and over-application, mutual recursion, combinations) as a loop of
   >= 2*10^5 iterations under 64- and 1000-slot stacks; (d) a static scan of all real bytecode:
   a Call whose result is only returned must be a TailCall.
"""
import json
import os

from . import common

KEY_HEADER = "memory-limit-exceeded-by-header"


def tie(ctx, tier_override=None, tag="tie"):
    out_dir = os.path.join(ctx.run_dir, tag)
    os.makedirs(out_dir, exist_ok=True)
    res = {"ran": False, "diffs": [], "runtime": [], "stats": {}, "n": 0}
    if not ctx.build_harness("c07"):
        return res
    model = ctx.build_model("c07")
    if model is None:
        return res
    saved = ctx.tier
    if tier_override:
        ctx.tier = tier_override
    rc, out = ctx.run_harness("c07", out_dir=out_dir, timeout=3000)
    ctx.tier = saved
    if rc != 0:
        ctx.log("harness c07 failed:", out[-500:])
        ctx.harness_crash = out[-1500:]
        return res
    if not ctx.run_model(model, os.path.join(out_dir, "model_in.txt"), os.path.join(out_dir, "model_out.txt")):
        return res
    n, diffs = common.diff_lines(os.path.join(out_dir, "model_out.txt"), os.path.join(out_dir, "impl_out.txt"), limit=200)
    cases = common.read_lines(os.path.join(out_dir, "cases.txt"))
    model_in = common.read_lines(os.path.join(out_dir, "model_in.txt"))
    stats = json.load(open(os.path.join(out_dir, "stats.json")))
    runtime = [json.loads(l) for l in common.read_lines(os.path.join(out_dir, "runtime.jsonl")) if l.strip()]
    res.update(ran=True, n=n, stats=stats, runtime=runtime,
               diffs=[(i, cases[i] if i < len(cases) else "?", model_in[i] if i < len(model_in) else "?", m, im) for (i, m, im) in diffs],
               model_out=common.read_lines(os.path.join(out_dir, "model_out.txt")))
    cov = ctx.coverage
    cov["evaluations"] = cov.get("evaluations", 0) + stats["evaluations"]
    cov["distinct_nontrivial"] = cov.get("distinct_nontrivial", 0) + stats["distinct_nontrivial"]
    cov["rule"] = stats["rule"]
    cov["input_distribution"] = stats["hist"]
    cov["traces_validated_against_impl"] = cov.get("traces_validated_against_impl", 0) + n
    cov["exhaustive"] = False
    cov["functions_verified"] = stats["functions_verified_input"]
    cov["std_modules_compiled"] = stats["std_modules_compiled"]
    cov["std_modules_skipped"] = stats["std_modules_skipped"]
    cov["instructions_verified"] = stats["instructions"]
    cov["header_bytes"] = stats["header_bytes"]
    cov["accounting_sequences"] = stats["acct_sequences"]
    cov["runtime_evaluations"] = stats["runtime_evaluations"]
    cov["tail_runs"] = stats["tail_runs"]
    cov["tail_shape_runs"] = stats.get("tail_shape_runs", [])
    cov["static_tail_calls"] = stats.get("static_tail_calls")
    cov["static_call_in_tail_position"] = stats.get("static_call_in_tail_position", [])
    cov["deep_runs"] = stats["deep_runs"]
    cov["interrupt_worst_latency_us"] = stats["interrupt_worst_latency_us"]
    cov["samples"] = (
        [{"function": s} for s in stats.get("fn_samples", [])[:3]]
        + stats.get("runtime_samples", [])[:4]
        + stats.get("interrupt_samples", [])[:2]
    )
    return res


def report(ctx, res):
    """Turn the tie's findings into violations.  Returns the number of concrete findings."""
    found = 0
    slack_model = None
    for (i, case, line_in, m, im) in res["diffs"]:
        if m.startswith("slack "):
            continue
        found += 1
        if line_in.startswith("fn "):
            fid = line_in.split()[1]
            # The verifier is proved sound, not complete: a rejection is a function whose frame
            # discipline could not be established.  (Decided by reading the bytecode: see report.)
            ctx.violation("verify-fn-reject:" + fid,
                          "the stack-bound verifier rejects the compiled function %s: %s" % (fid, m),
                          case={"model_line": line_in, "function": case}, expected=im, observed=m)
        elif line_in.startswith("acct "):
            ctx.violation("accounting:" + common.hashlib.sha1(line_in.encode()).hexdigest()[:10],
                          "Gc accounting differs from the model generated from gc.rs on an alloc/drop/collect sequence",
                          case={"model_line": line_in}, expected=m, observed=im)
        else:
            ctx.violation("tie:" + str(i), "model and implementation disagree", case={"model_line": line_in}, expected=m, observed=im)
    # static tail-position scan of the real bytecode: on the unchanged tree NO function of std or of
    # the generated programs has a plain Call whose result is only slid/jumped to Return
    # (emit_call(tail_position), compiler.rs:317), so such a Call is a tail position that lost its
    # TailCall: one frame per iteration stays on the value stack.
    for item in (res.get("stats") or {}).get("static_call_in_tail_position", [])[:10]:
        found += 1
        ctx.violation("static-tail-position:" + item.split(" ")[0],
                      "compiled function has a plain Call in tail position (its result is only returned): %s — a call in tail position must be a TailCall to run in constant stack" % item,
                      case={"function_and_pc": item}, expected="TailCall", observed=item)
    # the model's own statement of the limit arithmetic
    mo = res.get("model_out") or []
    if mo and mo[0].startswith("slack "):
        slack_model = int(mo[0].split()[1])
        ctx.coverage["slack_bytes_model"] = slack_model
    header_obs = [r for r in res["runtime"] if r["key"] == KEY_HEADER]
    other = [r for r in res["runtime"] if r["key"] != KEY_HEADER]
    for r in other:
        found += 1
        ctx.violation(r["key"], r["what"], case=r["case"], expected=r["expected"], observed=r["observed"])
    if header_obs:
        found += 1
        r = header_obs[0]
        ctx.violation(KEY_HEADER,
                      r["what"] + " — Gc::alloc_owned tests `allocated + size` but adds `size + header` "
                      "(model: slack = %s bytes; C07_account_le_limit_refuted gives the one-allocation witness %s)"
                      % (slack_model, mo[0] if mo else "?"),
                      case=r["case"], expected=r["expected"], observed=r["observed"],
                      extra={"more_observations": header_obs[1:4], "model_slack_line": mo[0] if mo else None})
    elif slack_model:
        # the generated arithmetic has slack but no evaluation showed it: still the witness run of
        # the refutation theorem, replayed on a real Gc by the harness (impl_out line 1)
        found += 1
        ctx.violation(KEY_HEADER,
                      "the limit arithmetic generated from gc.rs lets allocated_memory exceed the limit by %d bytes (%s)" % (slack_model, mo[0]),
                      case={"model_line": "slack %s" % ctx.coverage.get("header_bytes")}, expected="slack 0", observed=mo[0])
    return found


def run(ctx):
    gen_ok = ctx.gen_coq(["InstrGen", "AllocGen"])
    proved = ctx.coq_prove("C07") if gen_ok else False
    res = tie(ctx)
    ran = res["ran"]
    st = res["stats"]
    fn_diffs = [d for d in res["diffs"] if d[2].startswith("fn ")]
    acct_diffs = [d for d in res["diffs"] if d[2].startswith("acct ")]
    annot = st.get("annotation_failures", []) if ran else []
    ctx.obligations.append(common.Obligation(
        "validator:verify_fn-on-all-compiled-functions", "correspondence", ran and not fn_diffs and not annot,
        "%s functions (%s instructions, %s Splits) from %s std modules + generated programs; %d rejected; annotation failures: %s"
        % (st.get("functions_verified_input"), st.get("instructions"), st.get("splits"), st.get("std_modules_compiled"), len(fn_diffs), annot[:3])))
    ctx.obligations.append(common.Obligation(
        "correspondence:gc-accounting", "correspondence", ran and not acct_diffs,
        "%s op sequences (%s ops) on a real Gc vs. Account model; %d disagreements" % (st.get("acct_sequences"), st.get("acct_ops"), len(acct_diffs))))
    static_bad = st.get("static_call_in_tail_position", []) if ran else []
    ctx.obligations.append(common.Obligation(
        "validator:tail-position-calls-are-TailCall", "correspondence", ran and not static_bad,
        "%s TailCall instructions in %s functions; plain Call in tail position: %s" % (st.get("static_tail_calls"), st.get("functions_verified_input"), static_bad[:4])))
    rt_fail = [r for r in res["runtime"]]
    ctx.obligations.append(common.Obligation(
        "observation:limits-tailcalls-interrupts", "correspondence", ran and not rt_fail,
        "%s evaluations; failing observation keys: %s" % (st.get("runtime_evaluations"), sorted(set(r["key"] for r in rt_fail))[:6])))
    if ran and (st.get("generated_compile_errors") or annot):
        # machinery problem (generator emits something the front end refuses / annotation heuristic)
        ctx.obligations.append(common.Obligation("harness:generated-programs-compile", "audit", not st.get("generated_compile_errors"),
                                                 "; ".join(st.get("generated_compile_errors", [])[:3])))

    ctx.trusted.append("translators harness/src/tr/instr.rs, alloc.rs (syn): enum Instruction + fn adjust; the accounting statements of gc.rs")
    ctx.trusted.append("VM/StackBound.v `classify`/`step`: what each instruction pops and pushes, read from vm/src/thread.rs execute_ (hand-written model; the generated `adjust` is proved consistent with it)")
    ctx.trusted.append("harness/src/bin/c07.rs: bytecode dump, Split annotation (constructor arity from CompileValue.core_expr, record arity from the closing Slide), program generator with closed-form results, limit sweep, child-process and interrupt runners; coq/extract/c07/driver.ml")
    ctx.assumptions.append("every Split yields as many fields as the compiler assumed (annotation); a different count is a type error (C02), the model has no transition for it")
    ctx.assumptions.append("frames of extern (Rust) functions have max_stack_size 0 and are not verified; the transient growth inside do_call (inserted partial-application / excess arguments) is bounded by the argument count, not by max_stack_size")
    ctx.assumptions.append("limit <= usize::MAX and limit + header does not wrap; usize is 64 bit; header = GcHeader::value_offset() measured at run time (%s bytes)" % st.get("header_bytes"))
    ctx.assumptions.append("alloc_ignore_limit (used only to box the message of a failing primitive, api/mod.rs:493,533) is outside the limit claim; set_memory_limit below the current usage is outside it as well")
    ctx.assumptions.append("native (Rust) stack use of the interpreter and of the compiler passes is observed in a child process only")

    found = report(ctx, res) if ran else 0
    broken = [o for o in ctx.obligations if not o.ok and o.kind in ("theorem", "translator", "audit")]
    if (broken or not ran) and not found:
        more = 0
        if ran and ctx.tier != "thorough":
            res2 = tie(ctx, tier_override="thorough", tag="search")
            if res2["ran"]:
                more = report(ctx, res2)
        if not more:
            names = [o.name for o in broken] or ["correspondence:c07 (could not run: %s)" % str(getattr(ctx, "build_error", getattr(ctx, "harness_crash", "?")))[:300]]
            for nm in names[:5]:
                ctx.violation("obligation:" + nm, "obligation no longer checks: " + nm, obligation=nm, no_input=True,
                              extra={"detail": [o.detail for o in broken if o.name == nm]})


def replay(ctx, path):
    if not ctx.build_harness("c07"):
        return 2
    rc, out = common.sh([ctx.harness_bin("c07"), "--replay", path], timeout=900)
    print(out)
    v = json.load(open(path))
    line = (v.get("case") or {}).get("model_line")
    if line and not line.startswith("slack"):
        model = ctx.build_model("c07")
        if model:
            import subprocess
            p = subprocess.run([model], input=(line + "\n").encode(), stdout=subprocess.PIPE, timeout=300)
            print("model: " + p.stdout.decode().strip())
    return 0
