#!/usr/bin/env python3
"""Regenerates the C10 lines of KNOWN_FINDINGS.txt from a multi-seed sweep.

usage: python3 checks/c10_known_findings.py SWEEP_DIR [--write]

SWEEP_DIR holds one sub-directory per harness run (`c10 --tier T --seed S --out DIR`), each with a
stats.json.  The union of the failure keys of all runs is written as one JSON line per defect
class; `key_regex` is an explicit alternation of the exact keys seen (never a wildcard), so a key
that is not in the list - a comment lost in a gap that is handled today, a new way of changing
the tree - is still reported.  Without --write the lines are printed; with --write the C10 lines
of KNOWN_FINDINGS.txt are replaced (other lines are left alone).
"""
import glob
import json
import os
import re
import sys

VERIF = os.path.dirname(os.path.dirname(os.path.abspath(__file__)))

PLACEMENT = {
    "own-line": "on a line of its own",
    "trailing": "after code at the end of a line",
    "leading": "before code on the same line",
    "inline": "between code on one line",
}

# classes that are single keys with a known cause
SINGLE = {
    "fmt-output-unparseable:out@Identifier..Equals":
        "`rec type A = | X type B = | Y in e` written on one line is printed as `| Xtype B =`: line breaks between the bindings of a group are copied from the source",
    "fmt-output-unparseable:at-IntLiteral..Identifier":
        "a block comment that starts with `/*/` is cut after three bytes (CommentIter uses find(\"*/\") from offset 0, the tokenizer skips the opening `*`): the rest of the comment is printed as code",
    "fmt-output-unparseable:out@Identifier..Identifier":
        "a `type` declaration whose parameter list does not fit on one line is broken at column 0 (`type LongName first_parameter\\nsecond_parameter ...`), which ends the declaration for the layout algorithm",
    "fmt-ast-changed:Forall->Function@Forall":
        "an explicit `forall` in front of a function type (`type Fn = forall a . a -> a`, record fields, annotations) is not printed",
    "fmt-ast-changed:Type->Hole@LParen":
        "`type App (f : Type -> Type) (a : Type) = ..`: a kind annotation that is exactly `Type` is not printed (pretty_print.rs prints kinds other than Type/Hole only)",
    "fmt-ast-changed:App->Function@LParen":
        "`(->) a Bool` (the function type constructor applied prefix) is printed as `a -> Bool`, which parses to a Function node instead of an application",
    "fmt-ast-changed:Ident@Operator":
        "an operator chain whose operators have no fixity declaration (`a + b * c - d` without `#[infix]`) and that is too long for one line is printed with the operators rotated: reparse_infix reports UndefinedFixity but format_expr formats the half re-associated tree",
    "fmt-not-idempotent:Identifier..Operator":
        "same input: each further pass rotates the operators of the undeclared-fixity chain again",
}


def alt(xs):
    return "(" + "|".join(re.escape(x) for x in sorted(xs)) + ")"


def normalise(k):
    """Sweeps made before the tree-change keys were shortened: `X@at-Prev..Tok` -> `X@Tok`."""
    if k.startswith("fmt-ast-changed:") and "@at-" in k:
        head, at = k.split("@at-", 1)
        return head + "@" + at.split("..")[-1]
    return k


def load_union(sweep_dir):
    union = {}
    runs = 0
    for st in sorted(glob.glob(os.path.join(sweep_dir, "*", "stats.json"))):
        try:
            d = json.load(open(st))
        except Exception:
            continue
        runs += 1
        for k, n in d["failures_by_key"].items():
            if k.startswith("fmt-refused") or k.startswith("machinery"):
                continue
            k = normalise(k)
            union[k] = union.get(k, 0) + n
    return union, runs


def unescape_alternatives(regex):
    """Inverse of `re.escape(prefix) + ":" + alt(suffixes)`: the exact keys a line of ours lists."""
    def unesc(x):
        return re.sub(r"\\(.)", r"\1", x)
    i = regex.index(":(")
    prefix = unesc(regex[:i])
    body = regex[i + 2:-1]
    # alternatives are separated by unescaped `|`
    alts, cur, k = [], "", 0
    while k < len(body):
        if body[k] == "\\" and k + 1 < len(body):
            cur += body[k:k + 2]
            k += 2
        elif body[k] == "|":
            alts.append(cur)
            cur = ""
            k += 1
        else:
            cur += body[k]
            k += 1
    alts.append(cur)
    return [prefix + ":" + unesc(a) for a in alts]


def existing_keys():
    """Keys already listed for C10 in KNOWN_FINDINGS.txt (they were observed failing by earlier sweeps)."""
    keys = []
    path = os.path.join(VERIF, "KNOWN_FINDINGS.txt")
    for line in open(path):
        s = line.strip()
        if not s.startswith("{"):
            continue
        try:
            d = json.loads(s)
        except Exception:
            continue
        if d.get("property") != "C10":
            continue
        if d.get("key"):
            keys.append(d["key"])
        elif d.get("key_regex"):
            keys.extend(unescape_alternatives(d["key_regex"]))
    return keys


def lines_for(union):
    out = []
    rest = dict(union)
    for k, what in SINGLE.items():
        if k in rest:
            rest.pop(k)
            out.append({"property": "C10", "status": "open", "key": k, "what": what})
    groups = {}
    for k in rest:
        parts = k.split(":")
        cat = parts[0]
        if cat in ("fmt-comment-lost", "fmt-comment-added", "fmt-comment-moved") and len(parts) >= 4:
            groups.setdefault((cat, parts[1], parts[2]), []).append(":".join(parts[3:]))
        else:
            groups.setdefault((cat,), []).append(":".join(parts[1:]))
    for g in sorted(groups):
        suffixes = groups[g]
        prefix = ":".join(g)
        if g[0] == "fmt-comment-lost":
            what = ("a %s comment %s is dropped when it sits between these token kinds (the printer only looks for comments in some gaps; "
                    "backward scanning, source.rs:401, additionally loses own-line `//` comments indented by fewer than 3 blanks)"
                    % (g[1], PLACEMENT.get(g[2], g[2])))
        elif g[0] == "fmt-comment-added":
            what = "the formatted text has an extra %s comment %s between these token kinds (a comment is printed twice, e.g. next to the `=` of a record field or before a comma)" % (g[1], PLACEMENT.get(g[2], g[2]))
        elif g[0] == "fmt-comment-moved":
            what = "comments are re-ordered: a %s comment %s between these token kinds appears where another one was" % (g[1], PLACEMENT.get(g[2], g[2]))
        elif g[0] == "fmt-not-idempotent":
            what = "formatting is not a fixed point: the second pass changes the text at these token kinds (blank lines after `in` or before a closing delimiter, comments in type signatures, tuples and arguments broken over lines)"
        elif g[0] == "fmt-output-unparseable":
            what = ("the formatted text does not parse: first source token that is missing (at-..) or place of the parse error in the output (out@..); "
                    "a comment or line break after `type T =`, `do`, `(` moves the following token out of its block")
        elif g[0] == "fmt-ast-changed":
            what = ("the formatted text parses to a different tree; key = constructors at which the trees start to differ @ first source token the output lacks "
                    "(`////` lines re-rendered as documentation comments, `/** doc */` block documentation comments printed twice, comments inside type annotations)")
        elif g[0] == "fmt-literal-changed":
            what = "a literal differs in the formatted text (consequence of the one-line `rec type` gluing)"
        else:
            what = "formatter defect of class %s" % g[0]
        out.append({"property": "C10", "status": "open", "key_regex": re.escape(prefix) + ":" + alt(suffixes),
                    "what": "%s [%d keys]" % (what, len(suffixes))})
    return out


def main():
    sweep = sys.argv[1]
    union, runs = load_union(sweep)
    if "--merge-existing" in sys.argv:
        # keep what earlier sweeps found; `--drop PREFIX` leaves out a class whose key format changed
        drops = [sys.argv[i + 1] for i, a in enumerate(sys.argv) if a == "--drop" and i + 1 < len(sys.argv)]
        for k in existing_keys():
            if not any(k.startswith(d) for d in drops):
                union.setdefault(k, 0)
    lines = lines_for(union)
    # self-check: every key is matched by exactly the line built for it
    for k in union:
        hits = [l for l in lines if l.get("key") == k or (l.get("key_regex") and re.fullmatch(l["key_regex"], k))]
        assert len(hits) == 1, (k, len(hits))
    text = "".join(json.dumps(l) + "\n" for l in lines)
    sys.stderr.write("%d runs, %d keys, %d lines\n" % (runs, len(union), len(lines)))
    for l in lines:
        n = 1 if "key" in l else l["key_regex"].count("|") + 1
        sys.stderr.write("  %5d  %s\n" % (n, l.get("key") or l["key_regex"].split(":(")[0]))
    if "--write" in sys.argv:
        path = os.path.join(VERIF, "KNOWN_FINDINGS.txt")
        keep = []
        for line in open(path):
            s = line.strip()
            is_c10 = False
            if s.startswith("{"):
                try:
                    is_c10 = json.loads(s).get("property") == "C10"
                except Exception:
                    pass
            if not is_c10:
                keep.append(line)
        body = "".join(keep)
        if not body.endswith("\n"):
            body += "\n"
        open(path, "w").write(body + text)
    else:
        sys.stdout.write(text)


if __name__ == "__main__":
    main()
