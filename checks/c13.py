"""C13 — heaps are isolated: values crossing threads are complete independent copies.

T: coq/gen/GenerationGen.v (vm/src/gc.rs `impl Generation`, Gc::mark, Gc::new_child_gc, Cloner shortcut,
   can_share_values_with) and coq/gen/ClonerGen.v (vm/src/value.rs `impl Cloner`: visited map, per-field
   treatment, array element table) are regenerated from the source.
Proofs: coq/theories/Props/C13.v over Heap/Clone.v (which is defined from the generated files).
C: the extracted `transfer` (deep clone + route) is run on the REAL source graphs dumped by hook
   `verif::graph` and its prediction — per object copied or shared, owner heap, shape — compared with
   the graph actually received; the harness additionally evaluates the property itself on every
   transfer (ownership, isomorphism, survival of the sender's collection / drop with quarantine).
"""
import json
import os

from . import common


def tie(ctx, tier_override=None, tag="tie"):
    out_dir = os.path.join(ctx.run_dir, tag)
    os.makedirs(out_dir, exist_ok=True)
    if not ctx.build_harness("c13"):
        return False, 0, [], []
    model = ctx.build_model("c13")
    if model is None:
        return False, 0, [], []
    saved = ctx.tier
    if tier_override:
        ctx.tier = tier_override
    rc, out = ctx.run_harness("c13", out_dir=out_dir, timeout=3400 if ctx.tier == "thorough" else 900)
    ctx.tier = saved
    if rc != 0 or not os.path.exists(os.path.join(out_dir, "stats.json")):
        ctx.log("harness c13 failed:", out[-500:])
        ctx.harness_crash = out[-1500:]
        return False, 0, [], []
    if not ctx.run_model(model, os.path.join(out_dir, "model_in.txt"), os.path.join(out_dir, "model_out.txt")):
        return False, 0, [], []
    n, diffs = common.diff_lines(os.path.join(out_dir, "model_out.txt"), os.path.join(out_dir, "impl_out.txt"))
    cases = common.read_lines(os.path.join(out_dir, "cases.txt"))
    stats = json.load(open(os.path.join(out_dir, "stats.json")))
    ctx.coverage["evaluations"] = ctx.coverage.get("evaluations", 0) + stats["evaluations"]
    ctx.coverage["distinct_nontrivial"] = ctx.coverage.get("distinct_nontrivial", 0) + stats["distinct_nontrivial"]
    ctx.coverage["rule"] = stats["rule"]
    ctx.coverage["input_distribution"] = stats["hist"]
    ctx.coverage["traces_validated_against_impl"] = ctx.coverage.get("traces_validated_against_impl", 0) + n
    ctx.coverage["property_violations_observed"] = stats.get("violations_observed", 0)
    mo = common.read_lines(os.path.join(out_dir, "model_out.txt"))
    samples = []
    for i in (7, len(cases) // 3, len(cases) // 2, len(cases) - 3):
        if 0 <= i < len(cases) and i < len(mo):
            try:
                c = json.loads(cases[i])
                samples.append({"value": c.get("kind"), "from": c.get("s"), "to": c.get("t"), "route": c.get("route"),
                                "source": c.get("src", "")[-160:], "model": mo[i][:300]})
            except Exception:
                pass
    ctx.coverage["samples"] = samples
    viol = []
    vp = os.path.join(out_dir, "violations.jsonl")
    if os.path.exists(vp):
        for line in open(vp):
            line = line.strip()
            if line:
                try:
                    viol.append(json.loads(line))
                except Exception:
                    pass
    res = []
    for (i, m, im) in diffs:
        try:
            c = json.loads(cases[i]) if i < len(cases) else {}
        except Exception:
            c = {"raw": cases[i]}
        res.append((c, m, im))
    return True, n, res, viol


def report(ctx, diffs, viol):
    for v in viol[:200]:
        ctx.violation(v["key"], v["what"], case=v.get("case"), expected=v.get("expected"), observed=v.get("observed"))
    for (c, m, im) in diffs[:10]:
        # Model and implementation disagree on what a transfer produces.  The theorems say the model's
        # result is an isomorphic copy owned by the receiver; the harness evaluates exactly those
        # observables on the implementation's result (violations above).  A disagreement that is not
        # accompanied by such a violation means the model no longer describes the Cloner.
        key = "c13:model-disagrees:%s:%s" % (c.get("route", "?").split(":")[0], (c.get("kind") or "?").split("-")[0])
        ctx.violation(key, "the clone model and the implementation disagree on the result of a transfer "
                      "(value `%s`, %s -> %s via %s)" % (c.get("kind"), c.get("s"), c.get("t"), c.get("route")),
                      case=c, expected=m, observed=im)


def run(ctx):
    gen_ok = ctx.gen_coq(["GenerationGen", "ClonerGen"])
    proved = ctx.coq_prove("C13") if gen_ok else False
    ran, n, diffs, viol = tie(ctx)
    ctx.obligations.append(common.Obligation("correspondence:deep-clone", "correspondence", ran and not diffs,
                                             "%d transfers, %d disagreements between extracted model and implementation" % (n, len(diffs))))
    ctx.trusted.append("translators harness/src/tr/generation.rs, cloner.rs (syn): shapes of impl Generation, Gc::mark, Cloner")
    ctx.trusted.append("hooks: verif::graph (value graph with owners), verif_walk, quarantine/is_freed, owner_of, verif_gc_id")
    ctx.trusted.append("harness/src/bin/c13.rs: forest builder, value generators (Gluon source), graph renderers, ownership/shape/survival checks; coq/extract/c13/driver.ml rendering")
    ctx.assumptions.append("the model's objects are the graph the hook dumps: TypeInfo field-name strings and BytecodeFunction internals are not fields of the model object (the harness checks their owners separately)")
    ctx.assumptions.append("threads run one at a time (no concurrent mutation while a value is cloned); OS threads / locks are C14's")
    ctx.assumptions.append("generations are i32 in the implementation and Z in the model (the assert in Generation::next is not modelled)")
    report(ctx, diffs, viol)
    broken = [o for o in ctx.obligations if not o.ok and o.kind in ("theorem", "translator", "audit")]
    if (broken or not ran) and not diffs and not viol:
        found = False
        if ran and ctx.tier != "thorough":
            ran2, n2, diffs2, viol2 = tie(ctx, tier_override="thorough", tag="search")
            if diffs2 or viol2:
                found = True
                report(ctx, diffs2, viol2)
        if not found:
            names = [o.name for o in broken] or ["correspondence:deep-clone (could not run: %s)" % str(getattr(ctx, "build_error", getattr(ctx, "harness_crash", "?")))[:300]]
            for nm in names[:5]:
                ctx.violation("obligation:" + nm, "obligation no longer checks: " + nm, obligation=nm, no_input=True,
                              extra={"detail": [o.detail for o in broken if o.name == nm]})


def replay(ctx, path):
    if not ctx.build_harness("c13"):
        return 2
    rc, out = common.sh([ctx.harness_bin("c13"), "--replay", path], timeout=600)
    print(out)
    return 0
