"""C05 — garbage collection is transparent and never frees a reachable value.

T: coq/gen/GenerationGen.v regenerated from vm/src/gc.rs (`impl Generation`, the skip test of
   `Gc::mark`, `Gc::new_child_gc`) and vm/src/thread.rs (`trace_fields_except_stack`).
Proofs: coq/theories/Props/C05.v over Heap/MarkSweep.v (mark skips by the GENERATED `mark_skips`).
C (collect replay): around real `Thread::collect()` calls in a tree of threads the heap reachable from
   every host handle is dumped (hook verif::graph: owner heap, generation, fields), roots are taken from
   the real tracer (verif_walk) plus the handles still held, the extracted `collect` (coq/extract/c05)
   is run on the dump and its freed set compared with the objects the implementation freed.
C: generated allocation-heavy programs run under every collection stride (hook H1) with quarantine
   (hook H2): outcome = what the generator knows and identical for all strides, no freed object
   reached (events, renderings), host handles unchanged, allocated_memory back at the baseline.
"""
import json
import os

from . import common


def tie(ctx, tier_override=None, tag="tie"):
    out_dir = os.path.join(ctx.run_dir, tag)
    os.makedirs(out_dir, exist_ok=True)
    if not ctx.build_harness("c05"):
        return False, 0, [], []
    saved = ctx.tier
    if tier_override:
        ctx.tier = tier_override
    rc, out = ctx.run_harness("c05", out_dir=out_dir, timeout=3400 if ctx.tier == "thorough" else 900)
    ctx.tier = saved
    if rc != 0 or not os.path.exists(os.path.join(out_dir, "stats.json")):
        ctx.log("harness c05 failed:", out[-500:])
        ctx.harness_crash = out[-1500:]
        return False, 0, [], []
    n, diffs = common.diff_lines(os.path.join(out_dir, "expected.txt"), os.path.join(out_dir, "impl_out.txt"))
    cases = common.read_lines(os.path.join(out_dir, "cases.txt"))
    stats = json.load(open(os.path.join(out_dir, "stats.json")))
    ctx.coverage["evaluations"] = ctx.coverage.get("evaluations", 0) + stats["evaluations"]
    ctx.coverage["distinct_nontrivial"] = ctx.coverage.get("distinct_nontrivial", 0) + stats["distinct_nontrivial"]
    ctx.coverage["rule"] = stats["rule"]
    ctx.coverage["input_distribution"] = stats["hist"]
    ctx.coverage["programs"] = stats["programs"]
    ctx.coverage["strides"] = stats["strides"]
    ctx.coverage["forced_collections"] = stats["forced_collections"]
    ctx.coverage["traces_validated_against_impl"] = ctx.coverage.get("traces_validated_against_impl", 0) + n
    ctx.coverage["property_violations_observed"] = stats.get("violations_observed", 0)
    exp = common.read_lines(os.path.join(out_dir, "expected.txt"))
    samples = []
    for i in (3, len(cases) // 3, len(cases) // 2, len(cases) - 2):
        if 0 <= i < len(cases) and i < len(exp):
            try:
                c = json.loads(cases[i])
                first = next((s.get("eval") for s in c["steps"] if isinstance(s, dict) and s.get("eval")), "")
                samples.append({"family": c["family"], "stride": c["stride"], "steps": len(c["steps"]),
                                "first_eval_tail": first[-200:], "expected": exp[i][:200]})
            except Exception:
                pass
    ctx.coverage["samples"] = samples
    viol = []
    vp = os.path.join(out_dir, "violations.jsonl")
    if os.path.exists(vp):
        for line in open(vp):
            line = line.strip()
            if line:
                try:
                    viol.append(json.loads(line))
                except Exception:
                    pass
    ctx.replay_result = collect_replay(ctx, out_dir, viol)
    return True, n, diffs, viol


def _freed(line):
    if not line.startswith("ok freed="):
        return None
    body = line[len("ok freed="):].split(" ")[0]
    return set(int(x) for x in body.split(",") if x)


def collect_replay(ctx, out_dir, viol):
    """Run the extracted `collect` on the dumped heaps and compare freed sets.  Returns
    (ran, cases, objects, freed_by_both, disagreements)."""
    mi = os.path.join(out_dir, "creplay_model_in.txt")
    if not os.path.exists(mi):
        return (False, 0, 0, 0, 0)
    model = ctx.build_model("c05")
    if model is None:
        return (False, 0, 0, 0, 0)
    mo = os.path.join(out_dir, "creplay_model_out.txt")
    if not ctx.run_model(model, mi, mo):
        return (False, 0, 0, 0, 0)
    model_out = common.read_lines(mo)
    impl_out = common.read_lines(os.path.join(out_dir, "creplay_impl_out.txt"))
    cases = common.read_lines(os.path.join(out_dir, "creplay_cases.txt"))
    ncases = nobj = nfreed = bad = 0
    seen = set(v["key"] for v in viol)

    def add(key, what, case, exp, obs):
        if key not in seen:
            seen.add(key)
            viol.append({"key": key, "what": what, "case": case, "expected": exp, "observed": obs})

    for i in range(max(len(model_out), len(impl_out))):
        m = model_out[i] if i < len(model_out) else "<missing>"
        o = impl_out[i] if i < len(impl_out) else "<missing>"
        try:
            c = json.loads(cases[i]) if i < len(cases) else {}
        except Exception:
            c = {}
        if m == "skip" and o == "skip":
            continue
        if o.startswith("held-freed "):
            bad += 1
            parent = o.split(" ")[1]
            add("c05:replay-freed-reachable:via-%s" % parent,
                "a value the host still holds reaches a FREED object after a collection (%s)" % o[len("held-freed "):],
                {"replay_case": i}, "nothing reachable from a held handle is freed", o)
            continue
        fm, fo = _freed(m), _freed(o)
        if fm is None or fo is None:
            bad += 1
            add("c05:replay-broken:%s" % (m.split(" ")[0] if fm is None else o.split(" ")[0]),
                "collect replay case could not be evaluated", {"replay_case": i, "setup": c.get("setup")}, m[:200], o[:200])
            continue
        ncases += 1
        kinds = c.get("kinds", [])
        nobj += len(kinds)
        nfreed += len(fm & fo)
        small = {k: c.get(k) for k in ("replay_case", "setup", "dropped", "collect")}
        for x in sorted(fo - fm):
            bad += 1
            k = kinds[x] if x < len(kinds) else "?"
            path = (c.get("paths") or [None] * (x + 1))[x]
            add("c05:replay-freed-reachable:%s" % k,
                "a collection by thread %s freed a `%s` object that is reachable (%s): the model's collect, which is "
                "proved to keep everything reachable, keeps it" % (c.get("collect"), k, path),
                dict(small, object=x, path=path), "kept", "freed")
        for x in sorted(fm - fo):
            bad += 1
            k = kinds[x] if x < len(kinds) else "?"
            add("c05:garbage-kept:%s" % k,
                "a collection by thread %s did not free an unreachable `%s` object of a swept heap (heap %s) that the "
                "model's collect frees" % (c.get("collect"), k, (c.get("owners") or [None] * (x + 1))[x]),
                dict(small, object=x), "freed", "kept")
        # accounting without sizes: allocated_memory of a heap goes down exactly when the model frees one
        # of its objects (the heaps were collected just before the dump, so there is no other garbage)
        if "shrunk" in c:
            owners = c.get("owners", [])
            should = sorted(set(owners[x] for x in fm if x < len(owners)))
            if sorted(c["shrunk"]) != should or c.get("grew"):
                bad += 1
                add("c05:replay-accounting",
                    "allocated_memory changed on other heaps than those the model frees objects of",
                    dict(small, allocated_before=c.get("allocated_before"), allocated_after=c.get("allocated_after")),
                    "shrunk heaps %s, none grown" % should, "shrunk %s grown %s" % (c["shrunk"], c.get("grew")))
        if c.get("events"):
            add("c05:replay-dangling-reached", "the replayed collection reached a freed object", small, "no event", "; ".join(c["events"])[:300])
    ctx.coverage["collect_replay"] = {"collections": ncases, "objects_dumped": nobj, "objects_freed_by_both": nfreed,
                                      "disagreements": bad, "accounting": "sizes are not reported by the graph hook: only WHICH heaps' allocated_memory shrinks is compared with the model"}
    ctx.coverage["evaluations"] = ctx.coverage.get("evaluations", 0) + ncases
    ctx.coverage["traces_validated_against_impl"] = ctx.coverage.get("traces_validated_against_impl", 0) + ncases
    return (True, ncases, nobj, nfreed, bad)


def run(ctx):
    gen_ok = ctx.gen_coq(["GenerationGen", "ClonerGen"])
    proved = ctx.coq_prove("C05") if gen_ok else False
    ran, n, diffs, viol = tie(ctx)
    ctx.obligations.append(common.Obligation("correspondence:gc-transparency", "correspondence", ran and not diffs,
                                             "%d (program, stride) runs, %d with an outcome other than the expected one" % (n, len(diffs))))
    rr = getattr(ctx, "replay_result", (False, 0, 0, 0, 0))
    ctx.obligations.append(common.Obligation("correspondence:collect-replay", "correspondence", rr[0] and rr[4] == 0 and rr[1] > 0,
                                             "%d real collections replayed through the extracted collect: %d dumped objects, %d freed by both, %d disagreements"
                                             % (rr[1], rr[2], rr[3], rr[4])))
    ctx.trusted.append("coq/extract/c05/driver.ml (parsing/printing); the root census of the replay comes from the real tracer (verif_walk) plus the handles the host still holds")
    ctx.assumptions.append("collect replay: allocated_memory is not compared with the model's survivor sizes because the graph hook does not report object sizes (accounting is checked by the baseline observation instead)")
    ctx.trusted.append("translator harness/src/tr/generation.rs (syn): impl Generation, the skip test of Gc::mark, new_child_gc")
    ctx.trusted.append("hooks: verif::set_stride (H1), quarantine / take_events / is_freed (H2), verif::graph (H3)")
    ctx.trusted.append("harness/src/bin/c05.rs: program generator with closed-form expected results, graph renderer, child-process runner")
    ctx.assumptions.append("the model collects with per-collection mark sets; the implementation's mark bits are reset by sweep (gc.rs:1359) — equivalent under the invariant proved in C05_inv_*")
    ctx.assumptions.append("a root the tracer misses is only visible through the quarantine (events / freed objects in renderings), not through the model")
    ctx.assumptions.append("Rust-level use after free that bypasses the hooks (raw reads inside std) is outside the model")
    for v in viol[:200]:
        ctx.violation(v["key"], v["what"], case=v.get("case"), expected=v.get("expected"), observed=v.get("observed"))
    if diffs and not viol:
        for (i, e, o) in diffs[:5]:
            ctx.violation("c05:outcome:line-%d" % i, "outcome differs from the expected one", case={"line": i}, expected=e, observed=o)
    broken = [o for o in ctx.obligations if not o.ok and o.kind in ("theorem", "translator", "audit")]
    if (broken or not ran) and not diffs and not viol:
        found = False
        if ran and ctx.tier != "thorough":
            ran2, n2, diffs2, viol2 = tie(ctx, tier_override="thorough", tag="search")
            for v in viol2[:200]:
                found = True
                ctx.violation(v["key"], v["what"], case=v.get("case"), expected=v.get("expected"), observed=v.get("observed"))
        if not found:
            names = [o.name for o in broken] or ["correspondence:gc-transparency (could not run: %s)" % str(getattr(ctx, "build_error", getattr(ctx, "harness_crash", "?")))[:300]]
            for nm in names[:5]:
                ctx.violation("obligation:" + nm, "obligation no longer checks: " + nm, obligation=nm, no_input=True,
                              extra={"detail": [o.detail for o in broken if o.name == nm]})


def replay(ctx, path):
    if not ctx.build_harness("c05"):
        return 2
    v = json.load(open(path))
    rc, out = common.sh([ctx.harness_bin("c05"), "--replay", path, "--seed", str(v.get("seed", 1)), "--tier", v.get("tier", "quick")], timeout=900)
    print(out)
    return 0
