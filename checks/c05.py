"""C05 — garbage collection is transparent and never frees a reachable value.

T: coq/gen/GenerationGen.v regenerated from vm/src/gc.rs (`impl Generation`, the skip test of
   `Gc::mark`, `Gc::new_child_gc`) and vm/src/thread.rs (`trace_fields_except_stack`).
Proofs: coq/theories/Props/C05.v over Heap/MarkSweep.v (mark skips by the GENERATED `mark_skips`).
C: generated allocation-heavy programs run under every collection stride (hook H1) with quarantine
   (hook H2): outcome = what the generator knows and identical for all strides, no freed object
   reached (events, renderings), host handles unchanged, allocated_memory back at the baseline.
"""
import json
import os

from . import common


def tie(ctx, tier_override=None, tag="tie"):
    out_dir = os.path.join(ctx.run_dir, tag)
    os.makedirs(out_dir, exist_ok=True)
    if not ctx.build_harness("c05"):
        return False, 0, [], []
    saved = ctx.tier
    if tier_override:
        ctx.tier = tier_override
    rc, out = ctx.run_harness("c05", out_dir=out_dir, timeout=3400 if ctx.tier == "thorough" else 900)
    ctx.tier = saved
    if rc != 0 or not os.path.exists(os.path.join(out_dir, "stats.json")):
        ctx.log("harness c05 failed:", out[-500:])
        ctx.harness_crash = out[-1500:]
        return False, 0, [], []
    n, diffs = common.diff_lines(os.path.join(out_dir, "expected.txt"), os.path.join(out_dir, "impl_out.txt"))
    cases = common.read_lines(os.path.join(out_dir, "cases.txt"))
    stats = json.load(open(os.path.join(out_dir, "stats.json")))
    ctx.coverage["evaluations"] = ctx.coverage.get("evaluations", 0) + stats["evaluations"]
    ctx.coverage["distinct_nontrivial"] = ctx.coverage.get("distinct_nontrivial", 0) + stats["distinct_nontrivial"]
    ctx.coverage["rule"] = stats["rule"]
    ctx.coverage["input_distribution"] = stats["hist"]
    ctx.coverage["programs"] = stats["programs"]
    ctx.coverage["strides"] = stats["strides"]
    ctx.coverage["forced_collections"] = stats["forced_collections"]
    ctx.coverage["traces_validated_against_impl"] = ctx.coverage.get("traces_validated_against_impl", 0) + n
    ctx.coverage["property_violations_observed"] = stats.get("violations_observed", 0)
    exp = common.read_lines(os.path.join(out_dir, "expected.txt"))
    samples = []
    for i in (3, len(cases) // 3, len(cases) // 2, len(cases) - 2):
        if 0 <= i < len(cases) and i < len(exp):
            try:
                c = json.loads(cases[i])
                first = next((s.get("eval") for s in c["steps"] if isinstance(s, dict) and s.get("eval")), "")
                samples.append({"family": c["family"], "stride": c["stride"], "steps": len(c["steps"]),
                                "first_eval_tail": first[-200:], "expected": exp[i][:200]})
            except Exception:
                pass
    ctx.coverage["samples"] = samples
    viol = []
    vp = os.path.join(out_dir, "violations.jsonl")
    if os.path.exists(vp):
        for line in open(vp):
            line = line.strip()
            if line:
                try:
                    viol.append(json.loads(line))
                except Exception:
                    pass
    return True, n, diffs, viol


def run(ctx):
    gen_ok = ctx.gen_coq(["GenerationGen", "ClonerGen"])
    proved = ctx.coq_prove("C05") if gen_ok else False
    ran, n, diffs, viol = tie(ctx)
    ctx.obligations.append(common.Obligation("correspondence:gc-transparency", "correspondence", ran and not diffs,
                                             "%d (program, stride) runs, %d with an outcome other than the expected one" % (n, len(diffs))))
    ctx.trusted.append("translator harness/src/tr/generation.rs (syn): impl Generation, the skip test of Gc::mark, new_child_gc")
    ctx.trusted.append("hooks: verif::set_stride (H1), quarantine / take_events / is_freed (H2), verif::graph (H3)")
    ctx.trusted.append("harness/src/bin/c05.rs: program generator with closed-form expected results, graph renderer, child-process runner")
    ctx.assumptions.append("the model collects with per-collection mark sets; the implementation's mark bits are reset by sweep (gc.rs:1359) — equivalent under the invariant proved in C05_inv_*")
    ctx.assumptions.append("a root the tracer misses is only visible through the quarantine (events / freed objects in renderings), not through the model")
    ctx.assumptions.append("Rust-level use after free that bypasses the hooks (raw reads inside std) is outside the model")
    for v in viol[:200]:
        ctx.violation(v["key"], v["what"], case=v.get("case"), expected=v.get("expected"), observed=v.get("observed"))
    if diffs and not viol:
        for (i, e, o) in diffs[:5]:
            ctx.violation("c05:outcome:line-%d" % i, "outcome differs from the expected one", case={"line": i}, expected=e, observed=o)
    broken = [o for o in ctx.obligations if not o.ok and o.kind in ("theorem", "translator", "audit")]
    if (broken or not ran) and not diffs and not viol:
        found = False
        if ran and ctx.tier != "thorough":
            ran2, n2, diffs2, viol2 = tie(ctx, tier_override="thorough", tag="search")
            for v in viol2[:200]:
                found = True
                ctx.violation(v["key"], v["what"], case=v.get("case"), expected=v.get("expected"), observed=v.get("observed"))
        if not found:
            names = [o.name for o in broken] or ["correspondence:gc-transparency (could not run: %s)" % str(getattr(ctx, "build_error", getattr(ctx, "harness_crash", "?")))[:300]]
            for nm in names[:5]:
                ctx.violation("obligation:" + nm, "obligation no longer checks: " + nm, obligation=nm, no_input=True,
                              extra={"detail": [o.detail for o in broken if o.name == nm]})


def replay(ctx, path):
    if not ctx.build_harness("c05"):
        return 2
    v = json.load(open(path))
    rc, out = common.sh([ctx.harness_bin("c05"), "--replay", path, "--seed", str(v.get("seed", 1)), "--tier", v.get("tier", "quick")], timeout=900)
    print(out)
    return 0
