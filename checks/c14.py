"""C14 — parallel execution is safe and equivalent to running alone.   PARTIAL.

Proofs (coq/theories/Props/C14.v): lock ordering excludes deadlock under every schedule
(`ordered_no_deadlock`, `ordered_can_finish`, witness `unordered_can_deadlock`), the memoised-query
protocol evaluates every module body at most once and gives everybody the same value
(`once_under_any_schedule`, `result_schedule_independent`, `once_progress`).

Tie C (observational, the OS scheduler is SAMPLED): harness/src/bin/c14.rs runs N in {2,4,8,16} OS
threads on sibling / nested Gluon threads of one VM, each scenario in its own process under a
watchdog, and compares with solo runs.  The extracted models are run on the corpus and on the
import lists of every completed scenario (evaluation counters), and — when the lock-edge hook
(fixes/hook-locklog.patch) is applied — the extracted `well_ordered_prefix` validates the observed
nested acquisitions against one fixed order (the premise of `ordered_no_deadlock`).

Scenario families beside the classic one-program-per-thread scenarios (classes stay clean on the
unchanged tree): `fresh-names-rounds` — all OS threads released together by a barrier in each of
many short rounds, compiling programs that introduce the same never-seen field / constructor / string
names and use them by name; `gc-thread+heap-results` — a dedicated OS thread loops collect() on the
root (thorough: also on intermediate parents) while children repeatedly evaluate programs whose
result is a heap closure that is then called from the host and across follow-up evaluations.

Keys: deadlock:<class>  no-termination-busy:<class>  crash:<class>  result-differs-from-solo:<class>
      module-evaluated-twice:<class>  lock-order-cycle:<lock classes>
"""
import json
import os
import re
import time

from . import common

CLASS_NAMES = {1: "Thread.context", 2: "Thread.child_threads", 3: "GlobalVmState.gc", 4: "import-database"}


def _model_corpus(ctx, model):
    """Hand-picked lock programs / schedules / memo histories through the extracted model."""
    path = os.path.join(common.VERIF, "corpus", "C14", "models.txt")
    lines = [l.rstrip("\n") for l in open(path) if l.strip() and not l.startswith("#")]
    exp = [l.split(" | ", 1)[0] for l in lines]
    cmd = [l.split(" | ", 1)[1] for l in lines]
    d = os.path.join(ctx.run_dir, "corpus")
    os.makedirs(d, exist_ok=True)
    open(os.path.join(d, "in.txt"), "w").write("\n".join(cmd) + "\n")
    ok = ctx.run_model(model, os.path.join(d, "in.txt"), os.path.join(d, "out.txt"))
    out = common.read_lines(os.path.join(d, "out.txt")) if ok else []
    bad = [(c, e, o) for c, e, o in zip(cmd, exp, out + ["<missing>"] * len(exp)) if e != o]
    ctx.obligations.append(common.Obligation("correspondence:model-corpus", "correspondence", ok and not bad,
                                             "%d corpus lines, %d differ %s" % (len(cmd), len(bad), bad[:2])))
    return len(cmd), bad


def _find_cycle(edges):
    """edges: set of (a, b) over hashable nodes.  Returns (order, None) or (None, cycle)."""
    succ = {}
    nodes = set()
    for a, b in edges:
        succ.setdefault(a, set()).add(b)
        nodes.add(a)
        nodes.add(b)
    color = {}
    order = []
    for start in sorted(nodes):
        if start in color:
            continue
        stack = [(start, iter(sorted(succ.get(start, ()))))]
        color[start] = 1
        path = [start]
        while stack:
            n, it = stack[-1]
            nxt = next(it, None)
            if nxt is None:
                color[n] = 2
                order.append(n)
                stack.pop()
                path.pop()
            elif color.get(nxt) == 1:
                return None, path[path.index(nxt):] + [nxt]
            elif nxt not in color:
                color[nxt] = 1
                path.append(nxt)
                stack.append((nxt, iter(sorted(succ.get(nxt, ())))))
    order.reverse()
    return order, None


def _lock_order(ctx, model, out_dir):
    """Premise of ordered_no_deadlock on real histories (only when the hook produced edges)."""
    p = os.path.join(out_dir, "lock_edges.json")
    data = json.load(open(p)) if os.path.exists(p) else []
    data = [d for d in data if d.get("edges")]
    if not data:
        ctx.coverage["lock_order_premise"] = "not observed: fixes/hook-locklog.patch is not applied to /repo (no lock-edge log)"
        return
    progs = []
    n_edges = 0
    cyc_seen = set()
    for d in data:
        edges = set(((e[0], e[1]), (e[2], e[3])) for e in d["edges"])
        n_edges += len(edges)
        order, cycle = _find_cycle(edges)
        if cycle is not None:
            classes = "+".join(sorted(set(CLASS_NAMES.get(c, str(c)) for (c, _) in cycle)))
            if classes not in cyc_seen:
                cyc_seen.add(classes)
                ctx.violation("lock-order-cycle:" + classes,
                              "nested lock acquisitions observed in one run do not respect any single order: %s "
                              "(instances are Thread addresses); this is the premise of ordered_no_deadlock failing on a "
                              "real history, cf. unordered_can_deadlock" % " -> ".join("%s@%x" % (CLASS_NAMES.get(c, c), i) for (c, i) in cycle),
                              case={"scenario": d["scenario"]}, expected="acyclic nested-acquisition graph", observed=str(cycle))
            continue
        rank = {n: i + 1 for i, n in enumerate(order)}
        for (a, b) in sorted(edges):
            progs.append("wop A%d A%d" % (rank[a], rank[b]))
    d = os.path.join(ctx.run_dir, "lockorder")
    os.makedirs(d, exist_ok=True)
    open(os.path.join(d, "in.txt"), "w").write("\n".join(progs) + ("\n" if progs else ""))
    ok = True
    out = []
    if progs:
        ok = ctx.run_model(model, os.path.join(d, "in.txt"), os.path.join(d, "out.txt"))
        out = common.read_lines(os.path.join(d, "out.txt"))
    bad = [i for i, o in enumerate(out) if o != "true"]
    ctx.obligations.append(common.Obligation("validator:lock-order-premise", "correspondence", ok and not bad and not cyc_seen,
                                             "%d runs with lock edges, %d edges, %d cyclic edge sets, %d edges rejected by well_ordered_prefix"
                                             % (len(data), n_edges, len(cyc_seen), len(bad))))
    ctx.coverage["lock_order_premise"] = "%d nested acquisitions from %d runs checked with the extracted well_ordered_prefix" % (n_edges, len(data))


def _replay_rate(ctx, scenario, reps, tag):
    """Re-run one scenario `reps` times; returns (failing, total, text)."""
    d = os.path.join(ctx.run_dir, "rerun")
    os.makedirs(d, exist_ok=True)
    f = os.path.join(d, "%s.json" % tag)
    json.dump({"case": {"scenario": scenario}}, open(f, "w"))
    rc, out = common.sh([ctx.harness_bin("c14"), "--replay", f, "--out", d, "reps=%d" % reps], timeout=reps * 45 + 60)
    m = re.search(r"failing runs: (\d+)/(\d+)", out)
    if not m:
        return None, reps, out[-300:]
    return int(m.group(1)), int(m.group(2)), "\n".join(l[:200] for l in out.splitlines() if l.startswith("run "))


def _shrink(ctx, scenario, budget_s, tag):
    """Greedy: drop threads (a channel pair together) while the scenario still fails at least once in 4 runs."""
    t_end = time.time() + budget_s
    cur = scenario
    changed = True
    while changed and time.time() < t_end:
        changed = False
        ths = cur["threads"]
        groups = []
        seen = set()
        for i, t in enumerate(ths):
            if i in seen:
                continue
            g = [i] if t["chan"] < 0 else [j for j, u in enumerate(ths) if u["chan"] == t["chan"]]
            seen.update(g)
            groups.append(g)
        for g in groups:
            if time.time() >= t_end or len(ths) - len(g) < 1:
                break
            # a thread that is the parent of a kept thread cannot go
            keep = [i for i in range(len(ths)) if i not in g]
            if any(ths[i]["parent"] in g for i in keep):
                continue
            remap = {old: new for new, old in enumerate(keep)}
            nt = []
            for i in keep:
                t = dict(ths[i])
                if t["parent"] >= 0:
                    t["parent"] = remap[t["parent"]]
                nt.append(t)
            chans = sorted(set(t["chan"] for t in nt if t["chan"] >= 0))
            cmap = {c: k for k, c in enumerate(chans)}
            for t in nt:
                if t["chan"] >= 0:
                    t["chan"] = cmap[t["chan"]]
            cand = dict(cur)
            cand["threads"] = nt
            cand["chans"] = [cur["chans"][c] for c in chans]
            cand["n"] = len(nt)
            bad, tot, _ = _replay_rate(ctx, cand, 4, tag + "-shrink")
            if bad:
                cur = cand
                changed = True
                break
    return cur


def run(ctx):
    ctx.coq_prove("C14")
    model = ctx.build_model("c14")
    n_corpus = 0
    if model is None:
        ctx.obligations.append(common.Obligation("correspondence:model-corpus", "correspondence", False, "extraction / ocaml build failed"))
    else:
        n_corpus, bad = _model_corpus(ctx, model)
        for (c, e, o) in bad[:5]:
            ctx.violation("obligation:correspondence:model-corpus", "extracted model answers `%s` on corpus line `%s`, expected `%s`" % (o, c, e),
                          obligation="correspondence:model-corpus", no_input=True)

    out_dir = os.path.join(ctx.run_dir, "tie")
    os.makedirs(out_dir, exist_ok=True)
    ran = False
    failures = []
    stats = {}
    n = 0
    diffs = []
    if ctx.build_harness("c14"):
        # corpus/C14/*.json (minimised scenarios of the findings) are run first, then the generated ones
        extra = ["corpus=" + os.path.join(common.VERIF, "corpus", "C14")]
        if ctx.tier != "thorough":
            extra.append("scenarios=28")  # + 7 corpus scenarios + 2x2 family scenarios; sized by measurement
        else:
            extra.append("par=10")
        rc, out = ctx.run_harness("c14", extra=extra, out_dir=out_dir,
                                  timeout=3400 if ctx.tier == "thorough" else 1200)
        if rc == 0 and os.path.exists(os.path.join(out_dir, "stats.json")):
            ran = True
            stats = json.load(open(os.path.join(out_dir, "stats.json")))
            failures = json.load(open(os.path.join(out_dir, "failures.json")))
            n, diffs = common.diff_lines(os.path.join(out_dir, "model_in.txt"), os.path.join(out_dir, "impl_out.txt"), limit=100000)
        else:
            ctx.log("harness c14 failed:", out[-600:])
            ctx.harness_crash = out[-1500:]

    # --- model vs implementation on the evaluation counters of every completed scenario
    once_n, once_diffs = 0, []
    if ran and model is not None and os.path.exists(os.path.join(out_dir, "once_in.txt")):
        if ctx.run_model(model, os.path.join(out_dir, "once_in.txt"), os.path.join(out_dir, "once_out.txt")):
            mo = [re.sub(r"^got=\S* ", "", l) for l in common.read_lines(os.path.join(out_dir, "once_out.txt"))]
            im = common.read_lines(os.path.join(out_dir, "impl_once.txt"))
            once_n = len(im)
            once_diffs = [(i, a, b) for i, (a, b) in enumerate(zip(mo, im)) if a != b] + ([(-1, "len %d" % len(mo), "len %d" % len(im))] if len(mo) != len(im) else [])
        else:
            once_diffs = [(-1, "model driver failed", "")]
    if ran and model is not None:
        _lock_order(ctx, model, out_dir)

    n_bad = len(set(f["scenario_id"] for f in failures))
    ctx.obligations.append(common.Obligation(
        "correspondence:parallel-vs-solo", "correspondence", ran and not failures and not diffs,
        "%d scenarios (%d program runs), %d with a failure, %d expected/observed lines differ" % (n, stats.get("program_runs", 0), n_bad, len(diffs))))
    ctx.obligations.append(common.Obligation(
        "correspondence:once-model-vs-tick-counters", "correspondence", ran and model is not None and not once_diffs,
        "%d completed scenarios: evaluation counters of the extracted Once model (fair rounds) vs the `tick` counters of the VM; %d differ" % (once_n, len(once_diffs))))

    if ran:
        cases = common.read_lines(os.path.join(out_dir, "cases.txt"))
        impl = common.read_lines(os.path.join(out_dir, "impl_out.txt"))
        ctx.coverage["evaluations"] = stats["evaluations"]
        ctx.coverage["distinct_nontrivial"] = stats["distinct_nontrivial"]
        ctx.coverage["rule"] = stats["rule"]
        ctx.coverage["input_distribution"] = stats["hist"]
        ctx.coverage["traces_validated_against_impl"] = n + once_n + n_corpus
        ctx.coverage["exhaustive"] = False
        ctx.coverage["samples"] = [{"scenario": cases[i], "observed": impl[i][:300]} for i in (0, len(cases) // 3, len(cases) // 2, len(cases) - 1) if i < len(cases)]
        for k in ("program_runs", "forced_collections", "root_collections", "module_bodies_evaluated", "solo_units", "worlds", "watchdog_s",
                  "max_scenario_wall_ms", "solo_ms", "run_ms", "reruns_after_busy_timeout", "corpus_scenarios"):
            ctx.coverage[k] = stats.get(k)
        ctx.coverage["scheduler"] = "sampled (OS scheduler + seeded start delays / yields / sleeps); seed %d" % ctx.seed
        if not stats.get("module_bodies_evaluated") or not stats.get("forced_collections"):
            ctx.violation("obligation:correspondence:parallel-vs-solo", "the harness is vacuous: no module body evaluated or no collection forced",
                          obligation="correspondence:parallel-vs-solo", no_input=True)

    ctx.trusted.append("harness/src/bin/c14.rs: world/program/scenario generators, extern module c14.rt (tick/jitter/nap), child-process runner, "
                       "watchdog + /proc sampling (asleep vs busy), canonical result lines; coq/extract/c14/driver.ml")
    ctx.trusted.append("gluon_vm::verif hooks set_stride / set_quarantine / take_events (collections are forced at the real check_collect sites; "
                       "freed blocks are poisoned, so a use-after-free panics or is logged instead of passing silently)")
    ctx.assumptions.append("the OS scheduler is sampled, not enumerated: a passing run is evidence, not proof, about the implementation's interleavings")
    ctx.assumptions.append("data races / memory corruption cannot be exhibited by the Coq models; they are only observed (exit status, poisoned frees, wrong results)")
    ctx.assumptions.append("Locks.v: one lock per class rank, RwLock read locks treated as exclusive; Once.v: flat import lists (nested imports are flattened "
                           "in dependency order), no revisions, no failing bodies; salsa itself is not modelled")
    ctx.assumptions.append("solo = the same program alone on a fresh VM (a channel pair: sender to completion, then receiver)")

    # --- violations: one per (symptom, class), first scenario as the replay, all ids listed
    groups = {}
    for f in failures:
        key = f["key"] if ":" in f["key"] else f["key"] + ":" + f["scenario"]["class"]
        groups.setdefault(key, []).append(f)
    # re-runs (reproduction rate) and shrinking are bounded by a time budget: a deadlock costs a
    # whole watchdog period per run
    budget = 150 if ctx.tier == "thorough" else 0
    rerun_until = time.time() + (150 if ctx.tier == "thorough" else 30)
    reps = 8 if ctx.tier == "thorough" else 2
    for gi, (key, fs) in enumerate(sorted(groups.items())):
        first = fs[0]
        ids = sorted(set(f["scenario_id"] for f in fs))
        extra = {"scenario_ids": ids, "count": len(ids), "scenario_text": first.get("scenario_text"),
                 "other_examples": [f["what"][:300] for f in fs[1:4]]}
        scenario = first["scenario"]
        if time.time() < rerun_until:
            bad, tot, text = _replay_rate(ctx, scenario, reps if not key.startswith("deadlock") else min(reps, 3), "g%d" % gi)
            extra["rerun"] = {"failing": bad, "runs": tot, "lines": text[:1500]}
            if bad and budget > 0 and len(scenario["threads"]) > 2:
                t0 = time.time()
                small = _shrink(ctx, scenario, min(budget, 90), "g%d" % gi)
                budget -= time.time() - t0
                if len(small["threads"]) < len(scenario["threads"]):
                    extra["minimised_from_threads"] = len(scenario["threads"])
                    scenario = small
        rate = extra.get("rerun", {})
        what = "%s  [%d of %d scenarios of this run show it%s]" % (
            first["what"], len(ids), stats.get("evaluations", 0),
            ("; re-running the stored scenario: %s/%s runs fail" % (rate.get("failing"), rate.get("runs"))) if rate else "; not re-run (time budget)")
        ctx.violation(key, what, case={"scenario": scenario}, expected=first.get("expected"), observed=first.get("observed"), extra=extra)
    for (i, a, b) in once_diffs[:5]:
        ctx.violation("module-evaluated-twice:model-vs-counters", "evaluation counters differ from the Once model: model `%s`, VM `%s`" % (a, b),
                      case={"line": i}, expected=a, observed=b)

    broken = [o for o in ctx.obligations if not o.ok and o.kind in ("theorem", "audit")]
    if not ran or broken or model is None:
        names = [o.name for o in broken]
        if not ran:
            names.append("correspondence:parallel-vs-solo (could not run: %s)" % str(getattr(ctx, "build_error", getattr(ctx, "harness_crash", "?")))[:300])
        if model is None:
            names.append("correspondence:model-corpus (extraction failed)")
        for nm in names[:5]:
            ctx.violation("obligation:" + nm, "obligation no longer checks: " + nm, obligation=nm, no_input=True,
                          extra={"detail": [o.detail for o in broken if o.name == nm]})


def replay(ctx, path):
    if not ctx.build_harness("c14"):
        return 2
    v = json.load(open(path))
    if not (v.get("case") or {}).get("scenario"):
        print("replay %s names an obligation, not a scenario: %s" % (path, v.get("what")))
        return 0
    d = os.path.join(ctx.run_dir, "replay")
    os.makedirs(d, exist_ok=True)
    rc, out = common.sh([ctx.harness_bin("c14"), "--replay", path, "--out", d, "reps=10"], timeout=900)
    print(out)
    return 0
