#!/bin/sh
# Offline build of the framework: harness binaries (against /repo's working tree, hooks on) and the
# Coq development (full .vo build).  Safe to re-run.  A part that fails to build here is reported by
# the check that needs it (each check rebuilds what it uses), so this script keeps going.
cd "$(dirname "$0")"
export CARGO_NET_OFFLINE=true
mkdir -p .cache evidence replays
[ -f harness/Cargo.lock ] || cp /repo/Cargo.lock harness/Cargo.lock
(cd harness && cargo build --offline --bins --keep-going 2>&1 | tail -3)
(cd harness && /verif/.cache/target/debug/gencoq /verif/coq/gen)
(cd coq && ./mk.sh -k -j16 2>&1 | grep -v "^Warning" | tail -5)
echo setup done
exit 0
