#!/bin/sh
# Offline build of the framework: harness binaries (against /repo's working tree, hooks on),
# the Coq development (full .vo build) and nothing else.  Safe to re-run.
set -e
cd "$(dirname "$0")"
export CARGO_NET_OFFLINE=true
mkdir -p .cache evidence replays
[ -f harness/Cargo.lock ] || cp /repo/Cargo.lock harness/Cargo.lock
(cd harness && cargo build --offline --bins 2>&1 | tail -3)
(cd harness && /verif/.cache/target/debug/gencoq /verif/coq/gen)
(cd coq && ./mk.sh -j16 2>&1 | grep -v "^Warning" | tail -5)
echo setup done
