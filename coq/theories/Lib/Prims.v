(* C06 - model of the standard-library primitives of /repo/vm/src/primitives.rs, INCLUDING the
   panics of their Rust callees.  Executable definitions only (extracted by coq/extract/c06).

   Every primitive is wrapped by `primitive!` (vm/src/api/mac.rs:96) in an `extern "C" fn` that calls
   `VmFunction::unpack_and_call` (vm/src/api/function.rs:283) directly: a Rust panic raised by the
   callee cannot unwind out of the wrapper, the process aborts.  [HostPanic] is that outcome.
   A callee returning `RuntimeResult::Panic(..)` / `Status::Error` is an ordinary Gluon error
   ([GluonError]); it reaches the host as `Err(..)`.

   Structure (so that the theorems do not depend on the number of primitives):
     prim_eval e args =
        ill-shaped arguments                          -> Unmodelled
        an explicit guard of the callee rejects       -> GluonError     (guards come from the
                                                                         regenerated table: e_guards)
        the precondition of the Rust operation fails  -> HostPanic      (c_pre : pcond)
        intrinsic failure of the callee               -> GluonError     (c_err)
        otherwise                                     -> Ret (c_val args)
   The harness is built with overflow checks on (harness/Cargo.toml profile.dev), so arithmetic
   overflow in `<<`, `>>`, `abs`, `pow` is a panic (rustc_inherit_overflow_checks).
   Integer arguments reach the callee through `i as $id` casts (vm/src/api/mod.rs:854 int_impls!),
   so a `u32`/`usize`/`u64` parameter sees the Int argument modulo 2^32 / 2^64. *)
From Coq Require Import List String ZArith Bool.
From GV Require Import Base.Utf8 Lib.PrimSig.
From GVgen Require Import PrimTableGen.
Import ListNotations.
Open Scope Z_scope.

(* ------------------------------------------------------------------------------------------ *)
(* arguments, values, results *)

Inductive ty := TInt | TByte | TChar | TFloat | TStr | TArr | TArrByte | TUnit | TBuf | TAny.

Inductive arg :=
| AInt (z : Z)            (* Int *)
| AByte (z : Z)           (* Byte *)
| AChar (z : Z)           (* Char: a Unicode scalar value *)
| AFloat                  (* Float: opaque (never computed on) *)
| AStr (s : bytes)        (* String: UTF-8 bytes *)
| AArr (l : list Z)       (* Array Int (or any array of that length) *)
| ABytes (l : list Z)     (* Array Byte *)
| AUnit
| ABuf (s : bytes).       (* StringBuf holding s *)

Inductive value :=
| VInt (z : Z)
| VByte (z : Z)
| VStr (s : bytes)
| VData (tag : Z) (fields : list value)   (* variants, records, tuples, Bool, unit *)
| VArr (l : list value)
| VOpaque.                                (* a value the model does not compute *)

Inductive result := Ret (v : value) | GluonError | HostPanic | Unmodelled.

Definition vbool (b : bool) : value := VData (if b then 1 else 0) [].
Definition vunit : value := VData 0 [].
Definition vnone : value := VData 0 [].
Definition vsome (v : value) : value := VData 1 [v].
Definition verr_unit : value := VData 0 [VInt 0].    (* Err (): a Rust `()` is pushed as Int 0 *)
Definition vok (v : value) : value := VData 1 [v].
Definition vpair (a b : value) : value := VData 0 [a; b].
Definition vopt_int (o : option Z) : value := match o with Some z => vsome (VInt z) | None => vnone end.

(* ------------------------------------------------------------------------------------------ *)
(* machine integers *)

Definition i64_min : Z := -9223372036854775808.
Definition i64_max : Z := 9223372036854775807.
Definition two64 : Z := 18446744073709551616.
Definition two32 : Z := 4294967296.
Definition in_i64 (z : Z) : bool := (i64_min <=? z) && (z <=? i64_max).
Definition in_u8 (z : Z) : bool := (0 <=? z) && (z <=? 255).
Definition wrap64 (z : Z) : Z := (z + 9223372036854775808) mod two64 - 9223372036854775808.
Definition as_u64 (z : Z) : Z := z mod two64.     (* `i as u64`, `i as usize` *)
Definition as_u32 (z : Z) : Z := z mod two32.     (* `i as u32` *)
Definition as_i32 (z : Z) : Z := (z + 2147483648) mod two32 - 2147483648.
Definition wrap8 (z : Z) : Z := z mod 256.
Definition sat64 (z : Z) : Z := if z <? i64_min then i64_min else if i64_max <? z then i64_max else z.
Definition sat8 (z : Z) : Z := if z <? 0 then 0 else if 255 <? z then 255 else z.

Fixpoint popcount (n : nat) (z : Z) : Z :=
  match n with
  | O => 0
  | S k => (if Z.testbit z (Z.of_nat k) then 1 else 0) + popcount k z
  end.
Definition leading_zeros (w : Z) (u : Z) : Z := if u =? 0 then w else w - (Z.log2 u + 1).
Fixpoint tz_loop (n : nat) (u acc : Z) : Z :=
  match n with
  | O => acc
  | S k => if Z.odd u then acc else tz_loop k (u / 2) (acc + 1)
  end.
Definition trailing_zeros (w : nat) (u : Z) : Z := if u =? 0 then Z.of_nat w else tz_loop w u 0.
Definition rotl (w : Z) (u n : Z) : Z :=
  let k := n mod w in (u * 2 ^ k) mod 2 ^ w + u / 2 ^ (w - k).
Definition rotr (w : Z) (u n : Z) : Z := rotl w u (w - n mod w).
Fixpoint swap_loop (n : nat) (u acc : Z) : Z :=
  match n with
  | O => acc
  | S k => swap_loop k (u / 256) (acc * 256 + u mod 256)
  end.
Definition swap_bytes64 (u : Z) : Z := swap_loop 8 u 0.

(* i64::pow / u8::pow overflow (exponent is a u32): the mathematical result leaves the range.  The
   square-and-multiply loop of core::num never overflows an intermediate when the result fits. *)
Definition pow_out_of (lo hi : Z) (a e : Z) : bool :=
  if (Z.abs a <=? 1) then false
  else if 64 <=? e then true
  else negb ((lo <=? a ^ e) && (a ^ e <=? hi)).
Definition pow_val (a e : Z) : Z :=
  if a =? 0 then (if e =? 0 then 1 else 0)
  else if a =? 1 then 1
  else if a =? -1 then (if Z.even e then 1 else -1)
  else if 64 <=? e then 0 else a ^ e.

(* ------------------------------------------------------------------------------------------ *)
(* byte-string helpers *)

Fixpoint bytes_eqb (a b : bytes) : bool :=
  match a, b with
  | [], [] => true
  | x :: a', y :: b' => (x =? y) && bytes_eqb a' b'
  | _, _ => false
  end.
Fixpoint is_prefix (p s : bytes) : bool :=
  match p, s with
  | [], _ => true
  | x :: p', y :: s' => (x =? y) && is_prefix p' s'
  | _ :: _, [] => false
  end.
Definition is_suffix (p s : bytes) : bool := is_prefix (rev p) (rev s).
Fixpoint find_from (p s : bytes) (i : Z) : option Z :=
  if is_prefix p s then Some i
  else match s with
       | [] => None
       | _ :: s' => find_from p s' (i + 1)
       end.
Fixpoint rfind_from (p s : bytes) (i : Z) (best : option Z) : option Z :=
  let best' := if is_prefix p s then Some i else best in
  match s with
  | [] => best'
  | _ :: s' => rfind_from p s' (i + 1) best'
  end.
Fixpoint bytes_cmp (a b : bytes) : Z :=      (* Ordering tag: Less 0, Equal 1, Greater 2 *)
  match a, b with
  | [], [] => 1
  | [], _ :: _ => 0
  | _ :: _, [] => 2
  | x :: a', y :: b' => if x <? y then 0 else if y <? x then 2 else bytes_cmp a' b'
  end.
Definition sub_bytes (s : bytes) (a b : Z) : bytes := firstn (Z.to_nat (b - a)) (skipn (Z.to_nat a) s).
Definition all_ascii (s : bytes) : bool := forallb (fun b => b <? 128) s.
Definition ascii_ws (b : Z) : bool := ((9 <=? b) && (b <=? 13)) || (b =? 32).
Fixpoint drop_ws (s : bytes) : bytes :=
  match s with
  | b :: s' => if ascii_ws b then drop_ws s' else s
  | [] => []
  end.
Fixpoint strip_prefix_fuel (fuel : nat) (p s : bytes) : bytes :=
  match fuel with
  | O => s
  | S f => if is_prefix p s then strip_prefix_fuel f p (skipn (List.length p) s) else s
  end.
Definition trim_start_matches (s p : bytes) : bytes :=
  match p with [] => s | _ => strip_prefix_fuel (List.length s) p s end.
Definition trim_end_matches (s p : bytes) : bytes := rev (trim_start_matches (rev s) (rev p)).

Fixpoint dec_digits (fuel : nat) (n : Z) (acc : bytes) : bytes :=
  match fuel with
  | O => acc
  | S f => let acc' := (48 + n mod 10) :: acc in
           if n <? 10 then acc' else dec_digits f (n / 10) acc'
  end.
Definition show_z (z : Z) : bytes := if z <? 0 then 45 :: dec_digits 25 (- z) [] else dec_digits 25 z [].

(* char::to_digit for radix <= 36 *)
Definition digit_of (c : Z) : option Z :=
  if (48 <=? c) && (c <=? 57) then Some (c - 48)
  else if (97 <=? c) && (c <=? 122) then Some (c - 87)
  else if (65 <=? c) && (c <=? 90) then Some (c - 55)
  else None.
Definition to_digit (c radix : Z) : option Z :=
  match digit_of c with
  | Some d => if d <? radix then Some d else None
  | None => None
  end.
Fixpoint parse_digits (s : bytes) (radix acc : Z) : option Z :=
  match s with
  | [] => Some acc
  | b :: s' => match to_digit b radix with
               | Some d => parse_digits s' radix (acc * radix + d)
               | None => None
               end
  end.
(* <i64|u8>::from_str_radix for 2 <= radix <= 36; `signed` selects whether a leading '-' is a sign *)
Definition parse_int (signed : bool) (lo hi : Z) (s : bytes) (radix : Z) : option Z :=
  match s with
  | [] => None
  | b :: r =>
      let '(neg, ds) :=
        if b =? 43 then (false, r)
        else if signed && (b =? 45) then (true, r)
        else (false, s) in
      match ds with
      | [] => None
      | _ => match parse_digits ds radix 0 with
             | Some n => let v := if neg then - n else n in
                         if (lo <=? v) && (v <=? hi) then Some v else None
             | None => None
             end
      end
  end.
Definition vres_int (o : option Z) : value := match o with Some z => vok (VInt z) | None => verr_unit end.
Definition vres_byte (o : option Z) : value := match o with Some z => vok (VByte z) | None => verr_unit end.

(* Unicode White_Space (char::is_whitespace) *)
Definition is_whitespace (c : Z) : bool :=
  ((9 <=? c) && (c <=? 13)) || (c =? 32) || (c =? 133) || (c =? 160) || (c =? 5760)
  || ((8192 <=? c) && (c <=? 8202)) || (c =? 8232) || (c =? 8233) || (c =? 8239) || (c =? 8287) || (c =? 12288).
Definition is_control (c : Z) : bool := (c <? 32) || ((127 <=? c) && (c <=? 159)).
Definition ascii_lower (c : Z) : bool := (97 <=? c) && (c <=? 122).
Definition ascii_upper (c : Z) : bool := (65 <=? c) && (c <=? 90).
Definition ascii_digit (c : Z) : bool := (48 <=? c) && (c <=? 57).
(* predicates that need the Unicode tables: exact on ASCII, opaque elsewhere *)
Definition ascii_pred (p : Z -> bool) (c : Z) : value := if c <? 128 then vbool (p c) else VOpaque.

(* ------------------------------------------------------------------------------------------ *)
(* argument access *)

Definition num_at (i : nat) (args : list arg) : Z :=
  match nth_error args i with
  | Some (AInt z) => z
  | Some (AByte z) => z
  | Some (AChar z) => z
  | _ => 0
  end.
Definition str_at (i : nat) (args : list arg) : bytes :=
  match nth_error args i with
  | Some (AStr s) => s
  | Some (ABuf s) => s
  | Some (ABytes s) => s
  | _ => []
  end.
Definition arr_at (i : nat) (args : list arg) : list Z :=
  match nth_error args i with
  | Some (AArr l) => l
  | Some (ABytes l) => l
  | _ => []
  end.
Definition usize_at (i : nat) (args : list arg) : Z := as_u64 (num_at i args).

(* ------------------------------------------------------------------------------------------ *)
(* preconditions of the Rust operations (violated => panic inside the extern "C" wrapper) *)

Inductive pcond :=
| PNever
| PRadix (i : nat) (lo hi : Z)   (* `radix as u32` outside [lo, hi]: from_str_radix, to_digit, is_digit *)
| PShiftI64 (i : nat)            (* i64 `<<` / `>>` and u64 `>>` by an amount < 0 or >= 64 *)
| PShiftU8 (i : nat)             (* u8 `<<` / `>>` by an amount >= 8 *)
| PZero (i : nat)                (* division by zero: wrapping_div, overflowing_div *)
| PZeroOrMinNeg1 (i j : nat)     (* `%` / rem_euclid: divisor 0, or i64::MIN % -1 *)
| PAbsMin (i : nat)              (* i64::MIN.abs() *)
| PPowI64 (i j : nat)
| PPowU8 (i j : nat)
| PStrRange (s a b : nat)        (* &s[a..b] *)
| PStrSplit (s a : nat)          (* s.split_at(a), &s[a..] *)
| PArrRange (r a b : nat).       (* array slice initialiser: needs a <= b <= len *)

Definition str_range_ok (s : bytes) (a b : Z) : bool :=
  (a <=? b) && is_char_boundary s a && is_char_boundary s b.

Definition panics (pc : pcond) (args : list arg) : bool :=
  match pc with
  | PNever => false
  | PRadix i lo hi => let r := as_u32 (num_at i args) in negb ((lo <=? r) && (r <=? hi))
  | PShiftI64 i => let n := num_at i args in (n <? 0) || (64 <=? n)
  | PShiftU8 i => 8 <=? num_at i args
  | PZero i => num_at i args =? 0
  | PZeroOrMinNeg1 i j => (num_at j args =? 0) || ((num_at i args =? i64_min) && (num_at j args =? -1))
  | PAbsMin i => num_at i args =? i64_min
  | PPowI64 i j => pow_out_of i64_min i64_max (num_at i args) (as_u32 (num_at j args))
  | PPowU8 i j => pow_out_of 0 255 (num_at i args) (as_u32 (num_at j args))
  | PStrRange s a b => negb (str_range_ok (str_at s args) (usize_at a args) (usize_at b args))
  | PStrSplit s a => negb (is_char_boundary (str_at s args) (usize_at a args))
  | PArrRange r a b => negb ((usize_at a args <=? usize_at b args) && (usize_at b args <=? zlen (arr_at r args)))
  end.

(* ------------------------------------------------------------------------------------------ *)
(* explicit guards written in primitives.rs (read from the regenerated table) *)

Inductive guard :=
| GNonZero (i : nat)
| GLeU (i j : nat)                  (* arg i <= arg j as usize *)
| GLeLenArr (i r : nat)             (* arg i (usize) <= List.length of array r *)
| GBoundary (s i : nat)             (* s.is_char_boundary(arg i as usize) *)
| GRangeU32 (i : nat) (lo hi : Z)   (* lo <= (arg i as u32) <= hi *)
| GRangeI (i : nat) (lo hi : Z)     (* lo <= arg i <= hi *)
| GLtByte (i : nat) (n : Z).        (* byte arg i < n *)

Definition guard_ok (args : list arg) (g : guard) : bool :=
  match g with
  | GNonZero i => negb (num_at i args =? 0)
  | GLeU i j => usize_at i args <=? usize_at j args
  | GLeLenArr i r => usize_at i args <=? zlen (arr_at r args)
  | GBoundary s i => is_char_boundary (str_at s args) (usize_at i args)
  | GRangeU32 i lo hi => (lo <=? as_u32 (num_at i args)) && (as_u32 (num_at i args) <=? hi)
  | GRangeI i lo hi => (lo <=? num_at i args) && (num_at i args <=? hi)
  | GLtByte i n => num_at i args <? n
  end.

Open Scope string_scope.
Open Scope Z_scope.
(* The guard texts the translator can emit.  Parameter names fix the argument position:
   divisor / index / radix / rhs / exp = argument 1, start = 1, end = 2, s / array = 0. *)
Definition parse_guard (s : string) : list guard :=
  if String.eqb s "ok:divisor!=0" then [GNonZero 1]
  else if String.eqb s "bad:divisor==0" then [GNonZero 1]
  else if String.eqb s "bad:start>end" then [GLeU 1 2]
  else if String.eqb s "bad:end>array.len()" then [GLeLenArr 2 0]
  else if String.eqb s "bad:!s.is_char_boundary(index)" then [GBoundary 0 1]
  else if String.eqb s "ok:s.is_char_boundary(index)" then [GBoundary 0 1]
  else if String.eqb s "ok:s.is_char_boundary(start)&&s.is_char_boundary(end)" then [GBoundary 0 1; GBoundary 0 2]
  else if String.eqb s "ok:(2..=36).contains(&radix)" then [GRangeU32 1 2 36]
  else if String.eqb s "ok:(0..64).contains(&rhs)" then [GRangeI 1 0 63]
  else if String.eqb s "ok:rhs<8" then [GLtByte 1 8]
  else [].
Close Scope string_scope.

Definition guards_of (e : entry) : list guard := flat_map parse_guard (e_guards e).

Definition nat_eqb := Nat.eqb.
Definition guard_eqb (a b : guard) : bool :=
  match a, b with
  | GNonZero i, GNonZero i' => nat_eqb i i'
  | GLeU i j, GLeU i' j' => nat_eqb i i' && nat_eqb j j'
  | GLeLenArr i r, GLeLenArr i' r' => nat_eqb i i' && nat_eqb r r'
  | GBoundary s i, GBoundary s' i' => nat_eqb s s' && nat_eqb i i'
  | GRangeU32 i lo hi, GRangeU32 i' lo' hi' => nat_eqb i i' && (lo =? lo') && (hi =? hi')
  | GRangeI i lo hi, GRangeI i' lo' hi' => nat_eqb i i' && (lo =? lo') && (hi =? hi')
  | GLtByte i n, GLtByte i' n' => nat_eqb i i' && (n =? n')
  | _, _ => false
  end.
Definition has (g : guard) (gs : list guard) : bool := existsb (guard_eqb g) gs.

(* do the guards imply the precondition?  (sufficient condition; sound by PrimsProofs.implies_sound) *)
Definition implies (gs : list guard) (pc : pcond) : bool :=
  match pc with
  | PNever => true
  | PRadix i lo hi =>
      existsb (fun g => match g with
                        | GRangeU32 i' lo' hi' => nat_eqb i i' && (lo <=? lo') && (hi' <=? hi)
                        | _ => false end) gs
  | PShiftI64 i =>
      existsb (fun g => match g with
                        | GRangeI i' lo' hi' => nat_eqb i i' && (0 <=? lo') && (hi' <=? 63)
                        | _ => false end) gs
  | PShiftU8 i =>
      existsb (fun g => match g with
                        | GLtByte i' n => nat_eqb i i' && (n <=? 8)
                        | _ => false end) gs
  | PZero i => has (GNonZero i) gs
  | PZeroOrMinNeg1 _ _ => false
  | PAbsMin _ => false
  | PPowI64 _ _ => false
  | PPowU8 _ _ => false
  | PStrRange s a b => has (GLeU a b) gs && has (GBoundary s a) gs && has (GBoundary s b) gs
  | PStrSplit s a => has (GBoundary s a) gs
  | PArrRange r a b => has (GLeU a b) gs && has (GLeLenArr b r) gs
  end.

(* ------------------------------------------------------------------------------------------ *)
(* callee semantics *)

Record csem := mk_csem {
  c_sig : list ty;
  c_pre : pcond;
  c_err : list arg -> bool;      (* the callee itself reports a Gluon error *)
  c_val : list arg -> value;
  c_wit : list arg               (* arguments violating c_pre ([] when c_pre = PNever) *)
}.

Definition no_err (_ : list arg) : bool := false.
Definition total (sig : list ty) (v : list arg -> value) : csem := mk_csem sig PNever no_err v [].
Definition opaque (sig : list ty) : csem := total sig (fun _ => VOpaque).

Definition i1 (f : Z -> value) : csem := total [TInt] (fun a => f (num_at 0 a)).
Definition i2 (f : Z -> Z -> value) : csem := total [TInt; TInt] (fun a => f (num_at 0 a) (num_at 1 a)).
Definition b1 (f : Z -> value) : csem := total [TByte] (fun a => f (num_at 0 a)).
Definition b2 (f : Z -> Z -> value) : csem := total [TByte; TByte] (fun a => f (num_at 0 a) (num_at 1 a)).
Definition c1 (f : Z -> value) : csem := total [TChar] (fun a => f (num_at 0 a)).
Definition s1 (f : bytes -> value) : csem := total [TStr] (fun a => f (str_at 0 a)).
Definition s2 (f : bytes -> bytes -> value) : csem := total [TStr; TStr] (fun a => f (str_at 0 a) (str_at 1 a)).

Definition ovf64 (r : Z) : value := vpair (VInt (wrap64 r)) (vbool (negb (in_i64 r))).
Definition ovf8 (r : Z) : value := vpair (VByte (wrap8 r)) (vbool (negb (in_u8 r))).
Definition min_neg1 (a b : Z) : bool := (a =? i64_min) && (b =? -1).
Definition rem_euclid (a b : Z) : Z := a mod (Z.abs b).
Definition checked_rem_v (f : Z -> Z -> Z) (a b : Z) : value :=
  if (b =? 0) || min_neg1 a b then vnone else vsome (VInt (f a b)).

Definition sem_shl : list arg -> value := fun a => VInt (wrap64 (num_at 0 a * 2 ^ num_at 1 a)).
Definition sem_ashr : list arg -> value := fun a => VInt (Z.shiftr (num_at 0 a) (num_at 1 a)).
Definition sem_lshr : list arg -> value := fun a => VInt (wrap64 (Z.shiftr (as_u64 (num_at 0 a)) (num_at 1 a))).
Definition sem_from_str_radix : list arg -> value :=
  fun a => vres_int (parse_int true i64_min i64_max (str_at 0 a) (as_u32 (num_at 1 a))).
Definition sem_pow64 : list arg -> value := fun a => VInt (pow_val (num_at 0 a) (as_u32 (num_at 1 a))).
Definition sem_pow8 : list arg -> value := fun a => VByte (pow_val (num_at 0 a) (as_u32 (num_at 1 a))).
Definition sem_is_digit : list arg -> value :=
  fun a => vbool (match to_digit (num_at 0 a) (as_u32 (num_at 1 a)) with Some _ => true | None => false end).
Definition sem_to_digit : list arg -> value := fun a => vopt_int (to_digit (num_at 0 a) (as_u32 (num_at 1 a))).
Definition sem_str_slice : list arg -> value := fun a => VStr (sub_bytes (str_at 0 a) (usize_at 1 a) (usize_at 2 a)).
Definition sem_split_at : list arg -> value :=
  fun a => let s := str_at 0 a in let i := usize_at 1 a in
           vpair (VStr (sub_bytes s 0 i)) (VStr (sub_bytes s i (zlen s))).
Definition sem_char_at : list arg -> value :=
  fun a => VInt (decode_first (skipn (Z.to_nat (usize_at 1 a)) (str_at 0 a))).
Definition vints (l : list Z) : value := VArr (map VInt l).
Definition sem_arr_slice : list arg -> value :=
  fun a => vints (firstn (Z.to_nat (usize_at 2 a - usize_at 1 a)) (skipn (Z.to_nat (usize_at 1 a)) (arr_at 0 a))).
Definition last_char (s : bytes) : option Z :=
  match rev (decode_all s) with c :: _ => Some c | [] => None end.
Definition show_char_v (c : Z) : value :=
  if (32 <=? c) && (c <? 127) && negb (c =? 39) && negb (c =? 92) then VStr [39; c; 39] else VOpaque.

(* a witness for each unguarded partial operation *)
Definition w_int2 (a b : Z) : list arg := [AInt a; AInt b].

Open Scope string_scope.
Open Scope Z_scope.

Definition fl (n : string) (sig : list ty) : string * csem := ("std::float::prim::" ++ n, opaque sig).
Definition F1 := [TFloat].
Definition F2 := [TFloat; TFloat].

Definition callee_table : list (string * csem) :=
  [ (* ---- std.int.prim (i64) ---- *)
    ("|src,radix|std::int::prim::from_str_radix(src,radix).map_err(|_|())",
       mk_csem [TStr; TInt] (PRadix 1 2 36) no_err sem_from_str_radix [AStr [49%Z]; AInt 99])
  ; ("int::from_str_radix", mk_csem [TStr; TInt] (PRadix 1 2 36) no_err sem_from_str_radix [AStr [49%Z]; AInt 99])
  ; ("std::int::shl", mk_csem [TInt; TInt] (PShiftI64 1) no_err sem_shl (w_int2 1 100))
  ; ("int::shl", mk_csem [TInt; TInt] (PShiftI64 1) no_err sem_shl (w_int2 1 100))
  ; ("std::int::arithmetic_shr", mk_csem [TInt; TInt] (PShiftI64 1) no_err sem_ashr (w_int2 1 64))
  ; ("int::arithmetic_shr", mk_csem [TInt; TInt] (PShiftI64 1) no_err sem_ashr (w_int2 1 64))
  ; ("std::int::logical_shr", mk_csem [TInt; TInt] (PShiftI64 1) no_err sem_lshr (w_int2 1 (-1)))
  ; ("int::logical_shr", mk_csem [TInt; TInt] (PShiftI64 1) no_err sem_lshr (w_int2 1 (-1)))
  ; ("std::int::bitxor", i2 (fun a b => VInt (Z.lxor a b)))
  ; ("std::int::bitand", i2 (fun a b => VInt (Z.land a b)))
  ; ("std::int::bitor", i2 (fun a b => VInt (Z.lor a b)))
  ; ("std::int::prim::count_ones", i1 (fun a => VInt (popcount 64 (as_u64 a))))
  ; ("std::int::prim::count_zeros", i1 (fun a => VInt (64 - popcount 64 (as_u64 a))))
  ; ("std::int::prim::leading_zeros", i1 (fun a => VInt (leading_zeros 64 (as_u64 a))))
  ; ("std::int::prim::trailing_zeros", i1 (fun a => VInt (trailing_zeros 64 (as_u64 a))))
  ; ("std::int::prim::rotate_left", i2 (fun a n => VInt (wrap64 (rotl 64 (as_u64 a) (as_u32 n)))))
  ; ("std::int::prim::rotate_right", i2 (fun a n => VInt (wrap64 (rotr 64 (as_u64 a) (as_u32 n)))))
  ; ("std::int::prim::swap_bytes", i1 (fun a => VInt (wrap64 (swap_bytes64 (as_u64 a)))))
  ; ("std::int::prim::from_be", i1 (fun a => VInt (wrap64 (swap_bytes64 (as_u64 a)))))   (* little-endian host *)
  ; ("std::int::prim::from_le", i1 (fun a => VInt a))
  ; ("std::int::prim::to_be", i1 (fun a => VInt (wrap64 (swap_bytes64 (as_u64 a)))))
  ; ("std::int::prim::to_le", i1 (fun a => VInt a))
  ; ("std::int::prim::pow", mk_csem [TInt; TInt] (PPowI64 0 1) no_err sem_pow64 (w_int2 2 64))
  ; ("int::pow", mk_csem [TInt; TInt] PNever
        (fun a => pow_out_of i64_min i64_max (num_at 0 a) (as_u32 (num_at 1 a))) sem_pow64 [])
  ; ("std::int::prim::abs", mk_csem [TInt] (PAbsMin 0) no_err (fun a => VInt (Z.abs (num_at 0 a))) [AInt i64_min])
  ; ("int::abs", mk_csem [TInt] PNever (fun a => num_at 0 a =? i64_min) (fun a => VInt (Z.abs (num_at 0 a))) [])
  ; ("int::rem", mk_csem [TInt; TInt] (PZeroOrMinNeg1 0 1) no_err
        (fun a => VInt (Z.rem (num_at 0 a) (num_at 1 a))) (w_int2 i64_min (-1)))
  ; ("int::rem@checked", mk_csem [TInt; TInt] PNever
        (fun a => (num_at 1 a =? 0) || min_neg1 (num_at 0 a) (num_at 1 a))
        (fun a => VInt (Z.rem (num_at 0 a) (num_at 1 a))) [])
  ; ("int::rem_euclid", mk_csem [TInt; TInt] (PZeroOrMinNeg1 0 1) no_err
        (fun a => VInt (rem_euclid (num_at 0 a) (num_at 1 a))) (w_int2 i64_min (-1)))
  ; ("int::rem_euclid@checked", mk_csem [TInt; TInt] PNever
        (fun a => (num_at 1 a =? 0) || min_neg1 (num_at 0 a) (num_at 1 a))
        (fun a => VInt (rem_euclid (num_at 0 a) (num_at 1 a))) [])
  ; ("std::int::prim::checked_rem", i2 (checked_rem_v Z.rem))
  ; ("std::int::prim::checked_rem_euclid", i2 (checked_rem_v rem_euclid))
  ; ("std::int::prim::saturating_add", i2 (fun a b => VInt (sat64 (a + b))))
  ; ("std::int::prim::saturating_sub", i2 (fun a b => VInt (sat64 (a - b))))
  ; ("std::int::prim::saturating_mul", i2 (fun a b => VInt (sat64 (a * b))))
  ; ("std::int::prim::wrapping_add", i2 (fun a b => VInt (wrap64 (a + b))))
  ; ("std::int::prim::wrapping_sub", i2 (fun a b => VInt (wrap64 (a - b))))
  ; ("std::int::prim::wrapping_mul", i2 (fun a b => VInt (wrap64 (a * b))))
  ; ("std::int::prim::wrapping_div", mk_csem [TInt; TInt] (PZero 1) no_err
        (fun a => VInt (wrap64 (Z.quot (num_at 0 a) (num_at 1 a)))) (w_int2 1 0))
  ; ("int::wrapping_div", mk_csem [TInt; TInt] (PZero 1) no_err
        (fun a => VInt (wrap64 (Z.quot (num_at 0 a) (num_at 1 a)))) (w_int2 1 0))
  ; ("std::int::prim::wrapping_abs", i1 (fun a => VInt (wrap64 (Z.abs a))))
  ; ("int::wrapping_rem", mk_csem [TInt; TInt] (PZero 1) no_err
        (fun a => VInt (Z.rem (num_at 0 a) (num_at 1 a))) (w_int2 1 0))
  ; ("int::wrapping_rem_euclid", mk_csem [TInt; TInt] (PZero 1) no_err
        (fun a => VInt (rem_euclid (num_at 0 a) (num_at 1 a))) (w_int2 1 0))
  ; ("std::int::prim::wrapping_neg", i1 (fun a => VInt (wrap64 (- a))))
  ; ("std::int::prim::overflowing_add", i2 (fun a b => ovf64 (a + b)))
  ; ("std::int::prim::overflowing_sub", i2 (fun a b => ovf64 (a - b)))
  ; ("std::int::prim::overflowing_mul", i2 (fun a b => ovf64 (a * b)))
  ; ("std::int::prim::overflowing_div", mk_csem [TInt; TInt] (PZero 1) no_err
        (fun a => ovf64 (Z.quot (num_at 0 a) (num_at 1 a))) (w_int2 1 0))
  ; ("int::overflowing_div", mk_csem [TInt; TInt] (PZero 1) no_err
        (fun a => ovf64 (Z.quot (num_at 0 a) (num_at 1 a))) (w_int2 1 0))
  ; ("std::int::prim::overflowing_abs", i1 (fun a => ovf64 (Z.abs a)))
  ; ("int::overflowing_rem", mk_csem [TInt; TInt] (PZero 1) no_err
        (fun a => vpair (VInt (Z.rem (num_at 0 a) (num_at 1 a))) (vbool (min_neg1 (num_at 0 a) (num_at 1 a)))) (w_int2 1 0))
  ; ("int::overflowing_rem_euclid", mk_csem [TInt; TInt] (PZero 1) no_err
        (fun a => vpair (VInt (rem_euclid (num_at 0 a) (num_at 1 a))) (vbool (min_neg1 (num_at 0 a) (num_at 1 a)))) (w_int2 1 0))
  ; ("std::int::prim::overflowing_neg", i1 (fun a => ovf64 (- a)))
  ; ("std::int::prim::signum", i1 (fun a => VInt (Z.sgn a)))
  ; ("std::int::prim::is_positive", i1 (fun a => vbool (0 <? a)))
  ; ("std::int::prim::is_negative", i1 (fun a => vbool (a <? 0)))
  ; ("|b:u8|basVmInt", b1 (fun b => VInt b))
  ; ("|f:f64|fasVmInt", opaque [TFloat])
  ; ("parse::<VmInt>", s1 (fun s => vres_int (parse_int true i64_min i64_max s 10)))
    (* ---- std.byte.prim (u8) ---- *)
  ; ("std::byte::shl", mk_csem [TByte; TByte] (PShiftU8 1) no_err
        (fun a => VByte (wrap8 (num_at 0 a * 2 ^ num_at 1 a))) [AByte 1; AByte 8])
  ; ("byte::shl", mk_csem [TByte; TByte] (PShiftU8 1) no_err
        (fun a => VByte (wrap8 (num_at 0 a * 2 ^ num_at 1 a))) [AByte 1; AByte 8])
  ; ("std::byte::shr", mk_csem [TByte; TByte] (PShiftU8 1) no_err
        (fun a => VByte (Z.shiftr (num_at 0 a) (num_at 1 a))) [AByte 1; AByte 8])
  ; ("byte::shr", mk_csem [TByte; TByte] (PShiftU8 1) no_err
        (fun a => VByte (Z.shiftr (num_at 0 a) (num_at 1 a))) [AByte 1; AByte 8])
  ; ("std::byte::bitxor", b2 (fun a b => VByte (Z.lxor a b)))
  ; ("std::byte::bitand", b2 (fun a b => VByte (Z.land a b)))
  ; ("std::byte::bitor", b2 (fun a b => VByte (Z.lor a b)))
  ; ("std::byte::prim::count_ones", b1 (fun a => VInt (popcount 8 a)))
  ; ("std::byte::prim::count_zeros", b1 (fun a => VInt (8 - popcount 8 a)))
  ; ("std::byte::prim::leading_zeros", b1 (fun a => VInt (leading_zeros 8 a)))
  ; ("std::byte::prim::trailing_zeros", b1 (fun a => VInt (trailing_zeros 8 a)))
  ; ("std::byte::prim::rotate_left", total [TByte; TInt] (fun a => VByte (rotl 8 (num_at 0 a) (as_u32 (num_at 1 a)))))
  ; ("std::byte::prim::rotate_right", total [TByte; TInt] (fun a => VByte (rotr 8 (num_at 0 a) (as_u32 (num_at 1 a)))))
  ; ("std::byte::prim::swap_bytes", b1 (fun a => VByte a))
  ; ("std::byte::prim::from_be", b1 (fun a => VByte a))
  ; ("std::byte::prim::from_le", b1 (fun a => VByte a))
  ; ("std::byte::prim::to_be", b1 (fun a => VByte a))
  ; ("std::byte::prim::to_le", b1 (fun a => VByte a))
  ; ("std::byte::prim::pow", mk_csem [TByte; TInt] (PPowU8 0 1) no_err sem_pow8 [AByte 2; AInt 8])
  ; ("byte::pow", mk_csem [TByte; TInt] PNever
        (fun a => pow_out_of 0 255 (num_at 0 a) (as_u32 (num_at 1 a))) sem_pow8 [])
  ; ("std::byte::prim::saturating_add", b2 (fun a b => VByte (sat8 (a + b))))
  ; ("std::byte::prim::saturating_sub", b2 (fun a b => VByte (sat8 (a - b))))
  ; ("std::byte::prim::saturating_mul", b2 (fun a b => VByte (sat8 (a * b))))
  ; ("std::byte::prim::wrapping_add", b2 (fun a b => VByte (wrap8 (a + b))))
  ; ("std::byte::prim::wrapping_sub", b2 (fun a b => VByte (wrap8 (a - b))))
  ; ("std::byte::prim::wrapping_mul", b2 (fun a b => VByte (wrap8 (a * b))))
  ; ("std::byte::prim::wrapping_div", mk_csem [TByte; TByte] (PZero 1) no_err
        (fun a => VByte (num_at 0 a / num_at 1 a)) [AByte 1; AByte 0])
  ; ("byte::wrapping_div", mk_csem [TByte; TByte] (PZero 1) no_err
        (fun a => VByte (num_at 0 a / num_at 1 a)) [AByte 1; AByte 0])
  ; ("std::byte::prim::overflowing_add", b2 (fun a b => ovf8 (a + b)))
  ; ("std::byte::prim::overflowing_sub", b2 (fun a b => ovf8 (a - b)))
  ; ("std::byte::prim::overflowing_mul", b2 (fun a b => ovf8 (a * b)))
  ; ("std::byte::prim::overflowing_div", mk_csem [TByte; TByte] (PZero 1) no_err
        (fun a => ovf8 (num_at 0 a / num_at 1 a)) [AByte 1; AByte 0])
  ; ("byte::overflowing_div", mk_csem [TByte; TByte] (PZero 1) no_err
        (fun a => ovf8 (num_at 0 a / num_at 1 a)) [AByte 1; AByte 0])
  ; ("|i:VmInt|iasu8", i1 (fun a => VByte (wrap8 a)))
  ; ("parse::<u8>", s1 (fun s => vres_byte (parse_int false 0 255 s 10)))
    (* ---- std.char.prim ---- *)
  ; ("::std::char::from_u32", i1 (fun a => if is_scalar (as_u32 a) then vsome (VInt (as_u32 a)) else vnone))
  ; ("|c:char|casu32", c1 (fun c => VInt c))
  ; ("std::char::prim::is_digit", mk_csem [TChar; TInt] (PRadix 1 2 36) no_err sem_is_digit [AChar 49; AInt 37])
  ; ("character::is_digit", mk_csem [TChar; TInt] (PRadix 1 2 36) no_err sem_is_digit [AChar 49; AInt 37])
  ; ("std::char::prim::to_digit", mk_csem [TChar; TInt] (PRadix 1 2 36) no_err sem_to_digit [AChar 49; AInt 37])
  ; ("character::to_digit", mk_csem [TChar; TInt] (PRadix 1 2 36) no_err sem_to_digit [AChar 49; AInt 37])
  ; ("std::char::prim::len_utf8", c1 (fun c => VInt (len_utf8 c)))
  ; ("std::char::prim::len_utf16", c1 (fun c => VInt (if c <? 65536 then 1 else 2)))
  ; ("std::char::prim::is_alphabetic", c1 (ascii_pred (fun c => ascii_lower c || ascii_upper c)))
  ; ("std::char::prim::is_lowercase", c1 (ascii_pred ascii_lower))
  ; ("std::char::prim::is_uppercase", c1 (ascii_pred ascii_upper))
  ; ("std::char::prim::is_whitespace", c1 (fun c => vbool (is_whitespace c)))
  ; ("std::char::prim::is_alphanumeric", c1 (ascii_pred (fun c => ascii_lower c || ascii_upper c || ascii_digit c)))
  ; ("std::char::prim::is_control", c1 (fun c => vbool (is_control c)))
  ; ("std::char::prim::is_numeric", c1 (ascii_pred ascii_digit))
    (* ---- std.string.prim ---- *)
  ; ("std::string::prim::len", s1 (fun s => VInt (zlen s)))
  ; ("std::string::prim::is_empty", s1 (fun s => vbool (zlen s =? 0)))
  ; ("std::string::prim::is_char_boundary", total [TStr; TInt] (fun a => vbool (is_char_boundary (str_at 0 a) (usize_at 1 a))))
  ; ("std::string::prim::as_bytes", s1 (fun s => VArr (map VByte s)))
  ; ("string::split_at", mk_csem [TStr; TInt] (PStrSplit 0 1) no_err sem_split_at [AStr [195; 169]%Z; AInt 1])
  ; ("std::string::prim::contains::<&str>", s2 (fun s p => vbool (match find_from p s 0 with Some _ => true | None => false end)))
  ; ("std::string::prim::starts_with::<&str>", s2 (fun s p => vbool (is_prefix p s)))
  ; ("std::string::prim::ends_with::<&str>", s2 (fun s p => vbool (is_suffix p s)))
  ; ("std::string::prim::find::<&str>", s2 (fun s p => vopt_int (find_from p s 0)))
  ; ("std::string::prim::rfind::<&str>", s2 (fun s p => vopt_int (rfind_from p s 0 None)))
  ; ("std::string::prim::trim", s1 (fun s => if all_ascii s then VStr (rev (drop_ws (rev (drop_ws s)))) else VOpaque))
  ; ("std::string::prim::trim_start", s1 (fun s => if all_ascii s then VStr (drop_ws s) else VOpaque))
  ; ("std::string::prim::trim_end", s1 (fun s => if all_ascii s then VStr (rev (drop_ws (rev s))) else VOpaque))
  ; ("std::string::prim::trim_start_matches::<&str>", s2 (fun s p => VStr (trim_start_matches s p)))
  ; ("std::string::prim::trim_end_matches::<&str>", s2 (fun s p => VStr (trim_end_matches s p)))
  ; ("string::append", s2 (fun a b => VStr (List.app a b)))
  ; ("string::append_char", total [TStr; TChar] (fun a => VStr (List.app (str_at 0 a) (encode_char (num_at 1 a)))))
  ; ("string::from_char", c1 (fun c => VStr (encode_char c)))
  ; ("string::slice", mk_csem [TStr; TInt; TInt] (PStrRange 0 1 2) no_err sem_str_slice
        [AStr [104; 101; 108; 108; 111]%Z; AInt 3; AInt 1])
  ; ("string::from_utf8", total [TArrByte] (fun a => if utf8_valid (str_at 0 a) then vok (VStr (str_at 0 a)) else verr_unit))
  ; ("string::char_at", mk_csem [TStr; TInt] (PStrSplit 0 1)
        (fun a => zlen (str_at 0 a) <=? usize_at 1 a) sem_char_at [AStr [195; 169]%Z; AInt 1])
    (* ---- std.array.prim ---- *)
  ; ("std::array::prim::len", total [TArr] (fun a => VInt (zlen (arr_at 0 a))))
  ; ("std::array::prim::index", mk_csem [TArr; TInt] PNever
        (fun a => zlen (arr_at 0 a) <=? usize_at 1 a)
        (fun a => VInt (nth (Z.to_nat (usize_at 1 a)) (arr_at 0 a) 0%Z)) [])
  ; ("std::array::prim::append", total [TArr; TArr] (fun a => vints (List.app (arr_at 0 a) (arr_at 1 a))))
  ; ("std::array::prim::slice", mk_csem [TArr; TInt; TInt] (PArrRange 0 1 2) no_err sem_arr_slice
        [AArr [1; 2]%Z; AInt 2; AInt 1])
    (* ---- std.effect.st.string.prim ---- *)
  ; ("std::effect::st::string::prim::len", total [TBuf] (fun a => VInt (zlen (str_at 0 a))))
  ; ("|()|StringBuf(Default::default(),PhantomData::<S>)", opaque [TUnit])
  ; ("std::effect::st::string::prim::slice", mk_csem [TBuf; TInt; TInt] (PStrRange 0 1 2) no_err sem_str_slice
        [ABuf [104; 101; 108; 108; 111]%Z; AInt 3; AInt 1])
  ; ("std::effect::st::string::prim::pop", total [TBuf] (fun a => vopt_int (last_char (str_at 0 a))))
  ; ("std::effect::st::string::prim::push_str", total [TBuf; TStr] (fun _ => VInt 0))
    (* ---- std.prim ---- *)
  ; ("std::prim::show_int", i1 (fun a => VStr (show_z a)))
  ; ("std::prim::show_float", opaque [TFloat])
  ; ("std::prim::show_byte", b1 (fun a => VStr (show_z a)))
  ; ("std::prim::show_char", c1 show_char_v)
  ; ("str::cmp", s2 (fun a b => VData (bytes_cmp a b) []))
  ; ("<strasPartialEq>::eq", s2 (fun a b => vbool (bytes_eqb a b)))
  ; ("std::prim::error", mk_csem [TStr] PNever (fun _ => true) (fun _ => VOpaque) [])
  ; ("std::prim::discriminant_value", opaque [TAny])
    (* ---- std.float.prim: f64 operations never panic; values are not modelled ---- *)
  ; fl "is_nan" F1; fl "is_infinite" F1; fl "is_finite" F1; fl "is_normal" F1; fl "floor" F1; fl "ceil" F1
  ; fl "round" F1; fl "trunc" F1; fl "fract" F1; fl "abs" F1; fl "signum" F1; fl "is_sign_positive" F1
  ; fl "is_sign_negative" F1; fl "mul_add" [TFloat; TFloat; TFloat]; fl "recip" F1
  ; ("|a:f64,b:f64|a%b", opaque F2)
  ; fl "rem_euclid" F2; fl "powi" [TFloat; TInt]; fl "powf" F2; fl "sqrt" F1; fl "exp" F1; fl "exp2" F1
  ; fl "ln" F1; fl "log2" F1; fl "log10" F1; fl "to_degrees" F1; fl "to_radians" F1; fl "max" F2; fl "min" F2
  ; fl "cbrt" F1; fl "hypot" F2; fl "sin" F1; fl "cos" F1; fl "tan" F1; fl "acos" F1; fl "atan" F1
  ; fl "atan2" F2; fl "sin_cos" F1; fl "exp_m1" F1; fl "ln_1p" F1; fl "sinh" F1; fl "cosh" F1; fl "tanh" F1
  ; fl "acosh" F1; fl "atanh" F1
  ; ("|i:VmInt|iasf64", opaque [TInt])
  ; ("parse::<f64>", opaque [TStr])
  ].

Close Scope string_scope.

Fixpoint lookup (k : string) (t : list (string * csem)) : option csem :=
  match t with
  | [] => None
  | (k', c) :: t' => if String.eqb k' k then Some c else lookup k t'
  end.

Definition callee_of (e : entry) : option csem := lookup (e_callee e) callee_table.

(* ------------------------------------------------------------------------------------------ *)
(* well-typed arguments *)

Definition byte_list (l : list Z) : bool := forallb in_u8 l.
Definition arg_ok (t : ty) (a : arg) : bool :=
  match t, a with
  | TInt, AInt z => in_i64 z
  | TByte, AByte z => in_u8 z
  | TChar, AChar z => is_scalar z
  | TFloat, AFloat => true
  | TStr, AStr s => byte_list s && utf8_valid s
  | TArr, AArr l => forallb in_i64 l
  | TArrByte, ABytes l => byte_list l
  | TUnit, AUnit => true
  | TBuf, ABuf s => byte_list s && utf8_valid s
  | TAny, _ => true
  | _, _ => false
  end.
Fixpoint args_ok (sig : list ty) (args : list arg) : bool :=
  match sig, args with
  | [], [] => true
  | t :: sig', a :: args' => arg_ok t a && args_ok sig' args'
  | _, _ => false
  end.

(* ------------------------------------------------------------------------------------------ *)
(* evaluation *)

Definition run (c : csem) (gs : list guard) (args : list arg) : result :=
  if negb (args_ok (c_sig c) args) then Unmodelled
  else if negb (forallb (guard_ok args) gs) then GluonError
  else if panics (c_pre c) args then HostPanic
  else if c_err c args then GluonError
  else Ret (c_val c args).

Definition prim_eval (e : entry) (args : list arg) : result :=
  match callee_of e with
  | Some c => run c (guards_of e) args
  | None => Unmodelled
  end.

Definition well_typed (e : entry) (args : list arg) : Prop :=
  match callee_of e with
  | Some c => args_ok (c_sig c) args = true
  | None => False
  end.

(* primitives whose guards do not (provably) cover the precondition of their callee *)
Definition entry_safe (e : entry) : bool :=
  match callee_of e with
  | Some c => implies (guards_of e) (c_pre c)
  | None => true
  end.
Definition known_bad : list entry := filter (fun e => negb (entry_safe e)) prim_table.

Definition is_panic (r : result) : bool := match r with HostPanic => true | _ => false end.
Definition witness_ok (e : entry) : bool :=
  match callee_of e with
  | Some c => args_ok (c_sig c) (c_wit c) && is_panic (prim_eval e (c_wit c))
  | None => false
  end.

(* ------------------------------------------------------------------------------------------ *)
(* coverage of the regenerated table *)

Open Scope string_scope.
Open Scope Z_scope.
Definition modelled_module (m : string) : bool :=
  existsb (String.eqb m)
    ["std.int.prim"; "std.byte.prim"; "std.char.prim"; "std.string.prim"; "std.array.prim";
     "std.float.prim"; "std.prim"; "std.effect.st.string.prim"].
Close Scope string_scope.

Definition covered (e : entry) : bool :=
  negb (modelled_module (e_mod e))
  || match callee_of e with
     | Some c => Nat.eqb (List.length (c_sig c)) (e_arity e)
     | None => false
     end.

Fixpoint find_entry (m n : string) (t : list entry) : option entry :=
  match t with
  | [] => None
  | e :: t' => if String.eqb (e_mod e) m && String.eqb (e_name e) n then Some e else find_entry m n t'
  end.

(* entry points of the extracted driver *)
Definition eval_named (m n : string) (args : list arg) : result :=
  match find_entry m n prim_table with
  | Some e => prim_eval e args
  | None => Unmodelled
  end.
Definition sig_named (m n : string) : option (list ty) :=
  match find_entry m n prim_table with
  | Some e => match callee_of e with Some c => Some (c_sig c) | None => None end
  | None => None
  end.
Definition known_bad_names : list (string * string) := map (fun e => (e_mod e, e_name e)) known_bad.
