(* C19: the rest of std.map's interface (generated MapGen.v): map, map_with_key, keys, values,
   append.  Each is characterised through find / to_list, and each keeps the search-tree
   invariant, so the find/insert laws of MapProofs.v keep applying to its result. *)
From Coq Require Import List Sorted Lia ZArith.
From GVgen Require Import MapGen.
From GV Require Import Lib.StdSpec Lib.MapProofs.
Import ListNotations.

Section MapMore.
Variable K : Type.
Variable cmp : K -> K -> comparison.
Hypothesis ord : ord_ok cmp.

(* ---- map (Functor instance): values change, keys and shape do not ---- *)

Lemma find_fmap : forall (A B : Type) (f : A -> B) k (m : Map K A),
  MapGen.find cmp k (MapGen.map f m) = option_map f (MapGen.find cmp k m).
Proof.
  intros A B f k m. induction m as [|k2 v l IHl r IHr]; [reflexivity|].
  cbn [MapGen.map]. rewrite !find_Bin. destruct (cmp k k2); cbn; auto.
Qed.

Lemma all_keys_fmap : forall (A B : Type) (f : A -> B) (P : K -> Prop) (m : Map K A),
  all_keys P m -> all_keys P (MapGen.map f m).
Proof.
  intros A B f P m. induction m as [|k2 v l IHl r IHr]; cbn; [trivial|].
  intros (Hk & Hl & Hr). auto.
Qed.

Lemma fmap_bst : forall (A B : Type) (f : A -> B) (m : Map K A),
  bst cmp m -> bst cmp (MapGen.map f m).
Proof.
  intros A B f m. induction m as [|k2 v l IHl r IHr]; cbn; [trivial|].
  intros (Hl & Hr & Bl & Br). repeat split; auto using all_keys_fmap.
Qed.

Lemma to_list_fmap : forall (A B : Type) (f : A -> B) (m : Map K A),
  MapGen.to_list (MapGen.map f m) = List.map (fun kv => (fst kv, f (snd kv))) (MapGen.to_list m).
Proof.
  intros A B f m. rewrite !to_list_elements.
  induction m as [|k2 v l IHl r IHr]; [reflexivity|].
  cbn [MapGen.map elements]. rewrite IHl, IHr, map_app. reflexivity.
Qed.

(* ---- map_with_key ---- *)

Lemma to_list_map_with_key : forall (A B : Type) (f : K -> A -> B) (m : Map K A),
  MapGen.to_list (MapGen.map_with_key f m) =
  List.map (fun kv => (fst kv, f (fst kv) (snd kv))) (MapGen.to_list m).
Proof.
  intros A B f m. rewrite !to_list_elements.
  induction m as [|k2 v l IHl r IHr]; [reflexivity|].
  cbn [MapGen.map_with_key elements]. rewrite IHl, IHr, map_app. reflexivity.
Qed.

Lemma all_keys_map_with_key : forall (A B : Type) (f : K -> A -> B) (P : K -> Prop) (m : Map K A),
  all_keys P m -> all_keys P (MapGen.map_with_key f m).
Proof.
  intros A B f P m. induction m as [|k2 v l IHl r IHr]; cbn; [trivial|].
  intros (Hk & Hl & Hr). auto.
Qed.

Lemma map_with_key_bst : forall (A B : Type) (f : K -> A -> B) (m : Map K A),
  bst cmp m -> bst cmp (MapGen.map_with_key f m).
Proof.
  intros A B f m. induction m as [|k2 v l IHl r IHr]; cbn; [trivial|].
  intros (Hl & Hr & Bl & Br). repeat split; auto using all_keys_map_with_key.
Qed.

(* ---- keys / values are the two projections of to_list ---- *)

Lemma keys_values_to_list : forall (V : Type) (m : Map K V),
  MapGen.keys m = List.map fst (MapGen.to_list m) /\
  MapGen.values m = List.map snd (MapGen.to_list m).
Proof.
  intros V m. rewrite to_list_elements. split; [apply keys_elements | apply values_elements].
Qed.

(* ---- append l r: every binding of r is inserted into l, so r wins on common keys ---- *)

Lemma find_outside : forall (V : Type) (P : K -> Prop) x (m : Map K V),
  all_keys P m -> (forall y, P y -> cmp x y <> Eq) -> MapGen.find cmp x m = None.
Proof.
  intros V P x m. induction m as [|k2 v l IHl r IHr]; intros H N; [reflexivity|].
  destruct H as (Hk & Hl & Hr). rewrite find_Bin.
  destruct (cmp x k2) eqn:C; auto. exfalso. exact (N _ Hk C).
Qed.

Lemma append_Bin : forall (V : Type) (l : Map K V) k v a b,
  MapGen.append cmp l (Bin k v a b) =
  MapGen.append cmp (MapGen.insert cmp k v (MapGen.append cmp l b)) a.
Proof. reflexivity. Qed.

Lemma append_Tip : forall (V : Type) (l : Map K V), MapGen.append cmp l Tip = l.
Proof. reflexivity. Qed.

Theorem find_append : forall (V : Type) x (r l : Map K V),
  bst cmp r ->
  MapGen.find cmp x (MapGen.append cmp l r) =
  match MapGen.find cmp x r with Some v => Some v | None => MapGen.find cmp x l end.
Proof.
  intros V x r. induction r as [|k v a IHa b IHb]; intros l B.
  - rewrite append_Tip. reflexivity.
  - destruct B as (Ha & Hb & Ba & Bb). rewrite append_Bin, (IHa _ Ba), find_Bin.
    destruct (cmp x k) eqn:C.
    + (* x equivalent to the root key *)
      rewrite (find_outside V (fun y => cmp y k = Lt) x a Ha).
      * now apply find_insert_eq.
      * intros y Hy E. rewrite (cmp_eq_l K cmp ord _ _ k E) in C. congruence.
    + (* x below the root: not in b *)
      destruct (MapGen.find cmp x a); [reflexivity|].
      rewrite (find_insert_neq K cmp V ord) by congruence.
      rewrite (IHb _ Bb).
      rewrite (find_outside V (fun y => cmp y k = Gt) x b Hb); [reflexivity|].
      intros y Hy E. rewrite (cmp_eq_l K cmp ord _ _ k E) in C. congruence.
    + (* x above the root: not in a *)
      rewrite (find_outside V (fun y => cmp y k = Lt) x a Ha).
      * rewrite (find_insert_neq K cmp V ord) by congruence. exact (IHb _ Bb).
      * intros y Hy E. rewrite (cmp_eq_l K cmp ord _ _ k E) in C. congruence.
Qed.

Theorem append_bst : forall (V : Type) (r l : Map K V),
  bst cmp l -> bst cmp (MapGen.append cmp l r).
Proof.
  intros V r. induction r as [|k v a IHa b IHb]; intros l B.
  - rewrite append_Tip. exact B.
  - rewrite append_Bin. apply IHa. apply (insert_bst K cmp V ord). now apply IHb.
Qed.

(* empty is a left and right identity of append, observed through find *)
Corollary find_append_empty_l : forall (V : Type) x (r : Map K V),
  bst cmp r -> MapGen.find cmp x (MapGen.append cmp Tip r) = MapGen.find cmp x r.
Proof.
  intros V x r B. rewrite (find_append V x r Tip B), find_Tip.
  now destruct (MapGen.find cmp x r).
Qed.

(* ---- Foldable: foldr / foldl visit the values in increasing key order ---- *)

Lemma foldl_elements : forall (V B : Type) (f : B -> V -> B) (m : Map K V) z,
  @MapGen.foldl K B V f z m = fold_left (fun acc kv => f acc (snd kv)) (elements m) z.
Proof.
  intros V B f m. induction m as [|k v l IHl r IHr]; intro z.
  - reflexivity.
  - cbn [MapGen.foldl StdSpec.elements]. rewrite IHl, IHr, fold_left_app. reflexivity.
Qed.

Theorem foldr_key_order : forall (V B : Type) (f : V -> B -> B) z (m : Map K V),
  MapGen.foldr f z m = fold_right f z (MapGen.values m).
Proof.
  intros V B f z m. rewrite foldr_elements, values_elements.
  induction (elements m) as [|kv xs IH]; cbn; [reflexivity | now rewrite IH].
Qed.

Theorem foldl_key_order : forall (V B : Type) (f : B -> V -> B) z (m : Map K V),
  MapGen.foldl f z m = fold_left f (MapGen.values m) z.
Proof.
  intros V B f z m. rewrite foldl_elements, values_elements.
  revert z. induction (elements m) as [|kv xs IH]; intro z; cbn; [reflexivity | now rewrite IH].
Qed.

End MapMore.

(* non-vacuity: a concrete search tree, and append's right bias on a common key *)
Example append_example :
  let l := MapGen.insert Z.compare 1%Z 10%Z (MapGen.insert Z.compare 2%Z 20%Z Tip) in
  let r := MapGen.insert Z.compare 2%Z 99%Z (MapGen.insert Z.compare 3%Z 30%Z Tip) in
  bst Z.compare r /\
  MapGen.to_list (MapGen.append Z.compare l r) = [(1, 10); (2, 99); (3, 30)]%Z.
Proof. cbn. repeat split; reflexivity. Qed.
