(* C19: model of the JSON codec reached through std.json.ser.to_string / std.json.de.deserialize
   (std/json/ser.glu, std/json/de.glu, /repo/vm/src/api/json.rs: serde_json CompactFormatter)
   for float-free values.  Strings and keys are UTF-8 byte lists; objects are key/value lists in
   the order std.map enumerates them (sorted by key).
   [ser] is the compact writer.  [de] is a reader for the compact syntax [ser] produces (no white
   space, no floats, `\u00XY` escapes only): a model of the real reader on the image of the writer.
   Executable definitions only. *)
From Coq Require Import List Bool ZArith NArith DecimalZ.
From GV Require Import Lib.Derive.
Import ListNotations.
Local Open Scope bool_scope.
Local Open Scope N_scope.

Inductive jv :=
  | JNull
  | JBool (b : bool)
  | JInt (z : Z)
  (* a float, carried opaquely as its decimal token (what the writer printed); the number <-> text
     conversion itself is not modelled *)
  | JFloat (tok : list N)
  | JStr (s : list N)
  | JArr (l : list jv)
  | JObj (kv : list (list N * jv)).

(* ---- writer ---- *)

Definition hexd (n : N) : N := if n <? 10 then 48 + n else 87 + n.

(* serde_json::ser::format_escaped_str_contents: QU, BS, BB, FF, NN, RR, TT, UU *)
Definition esc (b : N) : list N :=
  if b =? 34 then [92; 34]
  else if b =? 92 then [92; 92]
  else if b =? 8 then [92; 98]
  else if b =? 12 then [92; 102]
  else if b =? 10 then [92; 110]
  else if b =? 13 then [92; 114]
  else if b =? 9 then [92; 116]
  else if b <? 32 then [92; 117; 48; 48; hexd (b / 16); hexd (b mod 16)]
  else [b].

Definition ser_str (s : list N) : list N := 34 :: flat_map esc s ++ [34].

Fixpoint ser (v : jv) : list N :=
  match v with
  | JNull => [110; 117; 108; 108]
  | JBool true => [116; 114; 117; 101]
  | JBool false => [102; 97; 108; 115; 101]
  | JInt z => show_int z
  | JFloat tok => tok
  | JStr s => ser_str s
  | JArr l =>
      91 :: (fix elems (l : list jv) : list N :=
               match l with
               | [] => []
               | [x] => ser x
               | x :: r => ser x ++ 44 :: elems r
               end) l ++ [93]
  | JObj kv =>
      123 :: (fix members (kv : list (list N * jv)) : list N :=
                match kv with
                | [] => []
                | [(k, x)] => ser_str k ++ 58 :: ser x
                | (k, x) :: r => ser_str k ++ 58 :: ser x ++ 44 :: members r
                end) kv ++ [125]
  end.

(* ---- reader ---- *)

Definition is_dig (b : N) : bool := (48 <=? b) && (b <=? 57).

Definition mk_digit (b : N) (u : Decimal.uint) : Decimal.uint :=
  if b =? 48 then Decimal.D0 u else if b =? 49 then Decimal.D1 u else if b =? 50 then Decimal.D2 u
  else if b =? 51 then Decimal.D3 u else if b =? 52 then Decimal.D4 u else if b =? 53 then Decimal.D5 u
  else if b =? 54 then Decimal.D6 u else if b =? 55 then Decimal.D7 u else if b =? 56 then Decimal.D8 u
  else Decimal.D9 u.

Fixpoint undigits (l : list N) : Decimal.uint * list N :=
  match l with
  | [] => (Decimal.Nil, [])
  | b :: r => if is_dig b then let '(u, r') := undigits r in (mk_digit b u, r') else (Decimal.Nil, l)
  end.

Definition pint (inp : list N) : option (jv * list N) :=
  match inp with
  | [] => None
  | b :: r =>
      if b =? 45 then
        match undigits r with
        | (Decimal.Nil, _) => None
        | (u, r') => Some (JInt (Z.of_int (Decimal.Neg u)), r')
        end
      else
        match undigits inp with
        | (Decimal.Nil, _) => None
        | (u, r') => Some (JInt (Z.of_int (Decimal.Pos u)), r')
        end
  end.

(* number tokens: the maximal run of number characters; an integer when it is `-?digit+`,
   otherwise (a '.', an exponent) a float token kept as it is *)
Definition is_numch (b : N) : bool :=
  is_dig b || (b =? 45) || (b =? 43) || (b =? 46) || (b =? 101) || (b =? 69).
Definition is_intch (b : N) : bool := is_dig b || (b =? 45).

Fixpoint span_num (l : list N) : list N * list N :=
  match l with
  | [] => ([], [])
  | b :: r => if is_numch b then let '(t, r') := span_num r in (b :: t, r') else ([], l)
  end.

Definition pnum (inp : list N) : option (jv * list N) :=
  let '(tok, rest) := span_num inp in
  match tok with
  | [] => None
  | _ :: _ =>
      if forallb is_intch tok then
        match pint tok with Some (v, []) => Some (v, rest) | _ => None end
      else Some (JFloat tok, rest)
  end.

Definition hexval (d : N) : option N :=
  if (48 <=? d) && (d <=? 57) then Some (d - 48)
  else if (97 <=? d) && (d <=? 102) then Some (d - 87)
  else None.

Definition unesc1 (e : N) : option N :=
  if e =? 34 then Some 34 else if e =? 92 then Some 92 else if e =? 47 then Some 47
  else if e =? 98 then Some 8 else if e =? 102 then Some 12 else if e =? 110 then Some 10
  else if e =? 114 then Some 13 else if e =? 116 then Some 9 else None.

(* the input after an opening quote -> (contents, input after the closing quote) *)
Fixpoint pstr (inp : list N) : option (list N * list N) :=
  match inp with
  | [] => None
  | b :: r =>
      if b =? 34 then Some ([], r)
      else if b =? 92 then
        match r with
        | [] => None
        | e :: r2 =>
            if e =? 117 then
              match r2 with
              | h1 :: h2 :: h3 :: h4 :: r3 =>
                  if (h1 =? 48) && (h2 =? 48) then
                    match hexval h3, hexval h4, pstr r3 with
                    | Some a, Some c, Some (s, r') => Some (a * 16 + c :: s, r')
                    | _, _, _ => None
                    end
                  else None
              | _ => None
              end
            else
              match unesc1 e, pstr r2 with
              | Some c, Some (s, r') => Some (c :: s, r')
              | _, _ => None
              end
        end
      else match pstr r with Some (s, r') => Some (b :: s, r') | None => None end
  end.

Fixpoint strip (p inp : list N) : option (list N) :=
  match p, inp with
  | [], _ => Some inp
  | x :: p', y :: r => if x =? y then strip p' r else None
  | _ :: _, [] => None
  end.

Fixpoint pval (fuel : nat) (inp : list N) {struct fuel} : option (jv * list N) :=
  match fuel with
  | O => None
  | S f =>
      match inp with
      | [] => None
      | b :: r =>
          if b =? 110 then match strip [117; 108; 108] r with Some r' => Some (JNull, r') | None => None end
          else if b =? 116 then match strip [114; 117; 101] r with Some r' => Some (JBool true, r') | None => None end
          else if b =? 102 then match strip [97; 108; 115; 101] r with Some r' => Some (JBool false, r') | None => None end
          else if b =? 34 then match pstr r with Some (s, r') => Some (JStr s, r') | None => None end
          else if b =? 91 then
            match r with
            | [] => None
            | b2 :: r2 =>
                if b2 =? 93 then Some (JArr [], r2)
                else match pelems f r with Some (l, r') => Some (JArr l, r') | None => None end
            end
          else if b =? 123 then
            match r with
            | [] => None
            | b2 :: r2 =>
                if b2 =? 125 then Some (JObj [], r2)
                else match pmembers f r with Some (kv, r') => Some (JObj kv, r') | None => None end
            end
          else pnum inp
      end
  end
(* value ("," value)* "]" *)
with pelems (fuel : nat) (inp : list N) {struct fuel} : option (list jv * list N) :=
  match fuel with
  | O => None
  | S f =>
      match pval f inp with
      | Some (x, b :: r) =>
          if b =? 93 then Some ([x], r)
          else if b =? 44 then match pelems f r with Some (l, r') => Some (x :: l, r') | None => None end
          else None
      | _ => None
      end
  end
(* string ":" value ("," string ":" value)* "}" *)
with pmembers (fuel : nat) (inp : list N) {struct fuel} : option (list (list N * jv) * list N) :=
  match fuel with
  | O => None
  | S f =>
      match inp with
      | q :: r0 =>
          if q =? 34 then
            match pstr r0 with
            | Some (k, c :: r1) =>
                if c =? 58 then
                  match pval f r1 with
                  | Some (x, b :: r) =>
                      if b =? 125 then Some ([(k, x)], r)
                      else if b =? 44 then
                        match pmembers f r with Some (l, r') => Some ((k, x) :: l, r') | None => None end
                      else None
                  | _ => None
                  end
                else None
            | _ => None
            end
          else None
      | [] => None
      end
  end.

Definition de (text : list N) : option jv :=
  match pval (S (length text)) text with
  | Some (v, []) => Some v
  | _ => None
  end.

(* the value class of the round-trip theorem: float tokens are non-integer number tokens *)
Definition float_tok_ok (tok : list N) : bool := forallb is_numch tok && negb (forallb is_intch tok).

Fixpoint wf (v : jv) : bool :=
  match v with
  | JFloat tok => float_tok_ok tok
  | JArr l => forallb wf l
  | JObj kv => forallb (fun p => wf (snd p)) kv
  | _ => true
  end.
