(* C19: counterexample search for the std.map laws pinned in Props/C19.v, used by checks/c19.py
   when one of the C19_map_* theorems no longer checks.  Definitions only (no proofs): it depends
   on the regenerated MapGen.v alone, so it still compiles when a proof breaks.  A search, not a
   proof: it looks through all pairs of maps built from at most 3 insertions over keys {1,2,3}. *)
From Coq Require Import List ZArith.
From GVgen Require Import MapGen.
Import ListNotations.
Local Open Scope Z_scope.

Definition of_list (xs : list (Z * Z)) : Map Z Z :=
  fold_left (fun m kv => MapGen.insert Z.compare (fst kv) (snd kv) m) xs Tip.

Definition oz_eqb (a b : option Z) : bool :=
  match a, b with
  | Some x, Some y => Z.eqb x y
  | None, None => true
  | _, _ => false
  end.

Definition enc (o : option Z) : list Z := match o with Some v => [1; v] | None => [0; 0] end.

Definition flat (xs : list (Z * Z)) : list Z :=
  Z.of_nat (length xs) :: flat_map (fun kv => [fst kv; snd kv]) xs.

(* all insertion lists of length <= n over the given bindings *)
Fixpoint lists_upto (n : nat) (bs : list (Z * Z)) : list (list (Z * Z)) :=
  match n with
  | O => [[]]
  | S n' => [] :: flat_map (fun b => List.map (cons b) (lists_upto n' bs)) bs
  end.

Definition keys3 : list Z := [1; 2; 3].

(* append l r is the right-biased union, observed through find *)
Definition append_bad (l r : list (Z * Z)) (x : Z) : option (list Z) :=
  let got := MapGen.find Z.compare x (MapGen.append Z.compare (of_list l) (of_list r)) in
  let exp := match MapGen.find Z.compare x (of_list r) with
             | Some v => Some v
             | None => MapGen.find Z.compare x (of_list l)
             end in
  if oz_eqb got exp then None else Some (flat l ++ flat r ++ [x] ++ enc got ++ enc exp).

(* map f m changes values only, observed through find (f = +100) *)
Definition fmap_bad (l : list (Z * Z)) (x : Z) : option (list Z) :=
  let got := MapGen.find Z.compare x (MapGen.map (fun v => v + 100) (of_list l)) in
  let exp := option_map (fun v => v + 100) (MapGen.find Z.compare x (of_list l)) in
  if oz_eqb got exp then None else Some (flat l ++ [x] ++ enc got ++ enc exp).

Fixpoint first_some {A B : Type} (f : A -> option B) (xs : list A) : option B :=
  match xs with
  | [] => None
  | x :: rest => match f x with Some b => Some b | None => first_some f rest end
  end.

Definition left_bindings : list (Z * Z) := [(1, 10); (2, 20); (3, 30)].
Definition right_bindings : list (Z * Z) := [(1, 11); (2, 21); (3, 31)].

Definition append_cex : option (list Z) :=
  first_some (fun l => first_some (fun r => first_some (append_bad l r) keys3)
                                  (lists_upto 3 right_bindings))
             (lists_upto 3 left_bindings).

Definition fmap_cex : option (list Z) :=
  first_some (fun l => first_some (fmap_bad l) keys3) (lists_upto 3 left_bindings).
