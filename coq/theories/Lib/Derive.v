(* C19: model of `#[derive(Eq)]` / `#[derive(Show)]` for variant types
   (/repo/vm/src/derive/eq.rs, show.rs) as functions from a type declaration to an equality /
   a rendering over constructor trees.  Executable definitions only.

   Type language of constructor arguments: Int, String, the declared type itself (is_self_type,
   derive/mod.rs:277: the monomorphic recursive `eq` / `show_` is used), another declared type of
   the environment, the type's parameter.  Strings are their UTF-8 byte lists, as in the VM. *)
From Coq Require Import List Bool ZArith NArith DecimalZ.
Open Scope bool_scope.
Import ListNotations.

Inductive ty := TInt | TStr | TSelf | TRef (n : nat) | TParam.

(* a declaration: constructors in declaration order, each a name (bytes) and argument types *)
Definition decl := list (list N * list ty).
Definition env := list decl.

(* ground types of values: GData n p = declaration n of the environment at parameter p
   (p is irrelevant for declarations that do not mention TParam) *)
Inductive gty := GInt | GStr | GData (n : nat) (p : gty).

Inductive val := VInt (z : Z) | VStr (s : list N) | VCon (c : nat) (args : list val).

Definition resolve (self : nat) (p : gty) (t : ty) : gty :=
  match t with
  | TInt => GInt
  | TStr => GStr
  | TSelf => GData self p
  | TRef n => GData n GInt
  | TParam => p
  end.

Fixpoint wt (e : env) (g : gty) (v : val) {struct v} : bool :=
  match g, v with
  | GInt, VInt _ => true
  | GStr, VStr _ => true
  | GData n p, VCon c args =>
      match nth_error e n with
      | Some d =>
          match nth_error d c with
          | Some (_, tys) =>
              (fix go (tys : list ty) (args : list val) {struct args} : bool :=
                 match tys, args with
                 | [], [] => true
                 | t :: tys', a :: args' => wt e (resolve n p t) a && go tys' args'
                 | _, _ => false
                 end) tys args
          | None => false
          end
      | None => false
      end
  | _, _ => false
  end.

Fixpoint bytes_eqb (a b : list N) : bool :=
  match a, b with
  | [], [] => true
  | x :: a', y :: b' => N.eqb x y && bytes_eqb a' b'
  | _, _ => false
  end.

(* eq.rs: `match (l, r) with | (C_i arg_l.., C_i arg_r..) -> e_1 && .. && e_n | .. | _ -> False`
   where e_j is the recursive `eq` for an argument of the type itself and the implicit `==` of the
   argument's type otherwise; no arguments -> True.  (The real chain is left-nested; `&&` on
   terminating pure operands is associative.)  `==` at Int / String are the primitives. *)
Fixpoint deq (e : env) (g : gty) (x y : val) {struct x} : bool :=
  match g with
  | GInt => match x, y with VInt a, VInt b => Z.eqb a b | _, _ => false end
  | GStr => match x, y with VStr a, VStr b => bytes_eqb a b | _, _ => false end
  | GData n p =>
      match nth_error e n with
      | None => false
      | Some d =>
          match x, y with
          | VCon cx xs, VCon cy ys =>
              if Nat.eqb cx cy then
                match nth_error d cx with
                | None => false
                | Some (_, tys) =>
                    (fix chain (tys : list ty) (xs ys : list val) {struct xs} : bool :=
                       match tys, xs, ys with
                       | [], [], [] => true
                       | t :: tys', a :: xs', b :: ys' => deq e (resolve n p t) a b && chain tys' xs' ys'
                       | _, _, _ => false
                       end) tys xs ys
                end
              else false
          | _, _ => false
          end
      end
  end.

(* std.int show = Rust `format!("{}", i)`: decimal, '-' for negatives *)
Fixpoint digits (u : Decimal.uint) : list N :=
  match u with
  | Decimal.Nil => []
  | Decimal.D0 u => 48%N :: digits u
  | Decimal.D1 u => 49%N :: digits u
  | Decimal.D2 u => 50%N :: digits u
  | Decimal.D3 u => 51%N :: digits u
  | Decimal.D4 u => 52%N :: digits u
  | Decimal.D5 u => 53%N :: digits u
  | Decimal.D6 u => 54%N :: digits u
  | Decimal.D7 u => 55%N :: digits u
  | Decimal.D8 u => 56%N :: digits u
  | Decimal.D9 u => 57%N :: digits u
  end.

Definition show_int (z : Z) : list N :=
  match Z.to_int z with
  | Decimal.Pos u => digits u
  | Decimal.Neg u => 45%N :: digits u
  end.

(* show.rs: `"C" ++ " " ++ ("(" ++ show a_1 ++ ")") ++ " " ++ ...`; std/string.glu:26 show for
   String is `"\"" ++ s ++ "\""` (no escaping). *)
Fixpoint dshow (e : env) (g : gty) (x : val) {struct x} : list N :=
  match g, x with
  | GInt, VInt z => show_int z
  | GStr, VStr s => 34%N :: s ++ [34%N]
  | GData n p, VCon c args =>
      match nth_error e n with
      | Some d =>
          match nth_error d c with
          | Some (name, tys) =>
              name ++
              (fix go (tys : list ty) (args : list val) {struct args} : list N :=
                 match tys, args with
                 | t :: tys', a :: args' =>
                     32%N :: 40%N :: dshow e (resolve n p t) a ++ 41%N :: go tys' args'
                 | _, _ => []
                 end) tys args
          | None => []
          end
      | None => []
      end
  | _, _ => []
  end.

(* no string of the value contains the quote character *)
Fixpoint quote_free (v : val) : bool :=
  match v with
  | VInt _ => true
  | VStr s => forallb (fun b => negb (N.eqb b 34%N)) s
  | VCon _ args => forallb quote_free args
  end.

(* constructor names: non-empty, no space, no ')', distinct within a declaration *)
Definition name_ok (nm : list N) : bool :=
  match nm with [] => false | _ => forallb (fun b => negb (N.eqb b 32%N) && negb (N.eqb b 41%N)) nm end.

Fixpoint nodupb (l : list (list N)) : bool :=
  match l with
  | [] => true
  | x :: r => negb (existsb (bytes_eqb x) r) && nodupb r
  end.

Definition decl_ok (d : decl) : bool := forallb (fun c => name_ok (fst c)) d && nodupb (map fst d).
Definition env_ok (e : env) : bool := forallb decl_ok e.
