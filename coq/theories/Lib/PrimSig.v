(* Shape of one row of the primitive tables of /repo/vm/src/primitives.rs, as emitted by the
   translator harness/src/tr/primtable.rs into coq/gen/PrimTableGen.v.
     e_mod     gluon module the table is registered under in src/lib.rs ("std.int.prim")
     e_name    field name in the `record!` ("shl"; nested records joined with '.')
     e_arity   first argument of `primitive!`
     e_callee  token text of the callee, whitespace removed ("std::int::shl", "int::rem",
               or the text of a closure)
     e_guards  for callees defined in primitives.rs (or closures): the conditions of the `if`s that
               choose between RuntimeResult::Return and RuntimeResult::Panic, tagged
               "ok:<cond>" (then-branch returns) or "bad:<cond>" (then-branch is the error) *)
From Coq Require Import List String.

Record entry := mk_entry {
  e_mod : string;
  e_name : string;
  e_arity : nat;
  e_callee : string;
  e_guards : list string
}.
