(* C19: executable instances of the generated std.map / std.list definitions at Int keys and
   elements (compare := Z.compare), as run by the correspondence driver coq/extract/c19.
   Definitions only. *)
From Coq Require Import List ZArith.
From GVgen Require Import MapGen ListGen.
From GV Require Import Lib.StdSpec.
Import ListNotations.

(* op = (is_find, (k, v)); finds are accumulated in reverse chronological order, exactly as the
   Gluon driver in harness/src/bin/c19.rs does *)
Fixpoint zmap_go (ops : list (bool * (Z * Z))) (m m2 : Map Z Z) (acc : list (option Z))
  : list (option Z) * Map Z Z * Map Z Z :=
  match ops with
  | [] => (acc, m, m2)
  | (true, (k, v)) :: r =>
      zmap_go r m (MapGen.insert Z.compare k v m2) (MapGen.find Z.compare k m :: acc)
  | (false, (k, v)) :: r => zmap_go r (MapGen.insert Z.compare k v m) m2 acc
  end.

(* last component: to_list (append m (map_with_key (fun k _ => k) m2)), m2 = the map of the
   (k, v) carried by the find operations *)
Definition zmap_run (ops : list (bool * (Z * Z)))
  : list (option Z) * list (Z * Z) * list Z * list Z * list (Z * Z) :=
  let '(finds, m, m2) := zmap_go ops Tip Tip [] in
  (finds, MapGen.to_list m, MapGen.keys m, MapGen.values m,
   MapGen.to_list (MapGen.append Z.compare m (MapGen.map_with_key (fun k _ => k) m2))).

Definition zsort (xs : list Z) : fuelled (list Z) := sort Z.compare xs.
Definition zfilter_gt (c : Z) (xs : list Z) : list Z := ListGen.filter (fun x => Z.gtb x c) xs.
Definition zfilter_even (xs : list Z) : list Z := ListGen.filter Z.even xs.
(* the folds of the Gluon driver: foldl (\a x -> a * 3 - x) 7, foldr (\x a -> x - a * 3) 7 *)
Definition zlist_foldl (xs : list Z) : Z := fold_left (fun a x => a * 3 - x)%Z xs 7%Z.
Definition zlist_foldr (xs : list Z) : Z := fold_right (fun x a => x - a * 3)%Z 7%Z xs.
Definition zlist_append (xs ys : list Z) : list Z := ListGen.append xs ys.
