(* C19: the instance the correspondence runs (Int keys / elements, compare := Z.compare) satisfies
   the premise of the map / sort theorems. *)
From Coq Require Import List ZArith Sorted Permutation Lia.
From GVgen Require Import MapGen ListGen.
From GV Require Import Lib.StdSpec Lib.StdModel Lib.MapProofs Lib.ListProofs.
Import ListNotations.

Theorem Zcompare_ord_ok : ord_ok Z.compare.
Proof.
  repeat split.
  - apply Z.compare_refl.
  - intros a b. apply Z.compare_antisym.
  - intros a b c H1 H2. rewrite Z.compare_lt_iff in *. lia.
  - intros a b c H. apply Z.compare_eq in H. now subst.
Qed.

Theorem zsort_correct : forall xs,
  exists r, zsort xs = Done r /\ StronglySorted Z.le r /\ Permutation xs r.
Proof.
  intro xs. destruct (@sort_correct Z Z.compare Zcompare_ord_ok xs) as (r & E & S & P).
  exists r. split; [exact E|]. split; [|exact P].
  clear E P. induction S as [|a l S IH F]; constructor; [exact IH|].
  eapply Forall_impl; [|exact F]. intros b H. unfold le_of in H. now apply Z.compare_le_iff.
Qed.
