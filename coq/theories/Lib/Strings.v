(* C19: std.string / std.array functions on their mathematical definitions.
   A string is its list of Unicode scalar values (N); byte offsets are computed from the UTF-8
   width of each scalar value (std.string indexes by byte offset; the primitives are Rust `str`
   methods, /repo/vm/src/primitives.rs:247-360 and the `std::string::prim` table at :668-700).
   An array is a list.  Executable definitions only. *)
From Coq Require Import List Bool ZArith NArith.
From GV Require Import Lib.Derive.
Import ListNotations.
Open Scope bool_scope.

(* ---- UTF-8 ---- *)

Definition utf8 (c : N) : list N :=
  if (c <? 128)%N then [c]
  else if (c <? 2048)%N then [192 + c / 64; 128 + c mod 64]%N
  else if (c <? 65536)%N then [224 + c / 4096; 128 + (c / 64) mod 64; 128 + c mod 64]%N
  else [240 + c / 262144; 128 + (c / 4096) mod 64; 128 + (c / 64) mod 64; 128 + c mod 64]%N.

Definition width (c : N) : nat :=
  if (c <? 128)%N then 1 else if (c <? 2048)%N then 2 else if (c <? 65536)%N then 3 else 4.

Definition str := list N.
Definition bytes (s : str) : list N := flat_map utf8 s.
Fixpoint slen (s : str) : nat := match s with [] => 0 | c :: r => width c + slen r end.

(* split at byte offset i; None when i is not a character boundary (or past the end) *)
Fixpoint split_at (s : str) (i : nat) {struct s} : option (str * str) :=
  match i with
  | O => Some ([], s)
  | _ =>
      match s with
      | [] => None
      | c :: r =>
          if Nat.leb (width c) i then
            match split_at r (i - width c) with
            | Some (a, b) => Some (c :: a, b)
            | None => None
            end
          else None
      end
  end.

Definition is_char_boundary (s : str) (i : nat) : bool :=
  match split_at s i with Some _ => true | None => false end.

(* s[a..b] for boundaries a <= b *)
Definition slice (s : str) (a b : nat) : option str :=
  match split_at s b with
  | Some (p, _) => match split_at p a with Some (_, q) => Some q | None => None end
  | None => None
  end.

Definition char_at (s : str) (i : nat) : option N :=
  match split_at s i with
  | Some (_, c :: _) => Some c
  | _ => None
  end.

Fixpoint is_prefix (p s : str) : bool :=
  match p, s with
  | [], _ => true
  | x :: p', y :: s' => N.eqb x y && is_prefix p' s'
  | _ :: _, [] => false
  end.

(* byte offset of the first / last occurrence *)
Fixpoint find_from (p s : str) (off : nat) : option nat :=
  if is_prefix p s then Some off
  else match s with [] => None | c :: r => find_from p r (off + width c) end.
Definition sfind (s p : str) : option nat := find_from p s 0.

Fixpoint rfind_from (p s : str) (off : nat) : option nat :=
  match (match s with [] => None | c :: r => rfind_from p r (off + width c) end) with
  | Some x => Some x
  | None => if is_prefix p s then Some off else None
  end.
Definition srfind (s p : str) : option nat := rfind_from p s 0.

Definition contains (s p : str) : bool := match sfind s p with Some _ => true | None => false end.
Definition starts_with (s p : str) : bool := is_prefix p s.
Definition ends_with (s p : str) : bool := is_prefix (rev p) (rev s).

(* Unicode White_Space (what Rust's char::is_whitespace tests) *)
Definition is_ws (c : N) : bool :=
  ((9 <=? c) && (c <=? 13) || (c =? 32) || (c =? 133) || (c =? 160) || (c =? 5760) ||
   (8192 <=? c) && (c <=? 8202) || (c =? 8232) || (c =? 8233) || (c =? 8239) || (c =? 8287) ||
   (c =? 12288))%N.

Fixpoint drop_ws (s : str) : str :=
  match s with
  | [] => []
  | c :: r => if is_ws c then drop_ws r else s
  end.
Definition trim_start (s : str) : str := drop_ws s.
Definition trim_end (s : str) : str := rev (drop_ws (rev s)).
Definition trim (s : str) : str := trim_end (trim_start s).

Fixpoint strip_prefix (p s : str) : option str :=
  match p, s with
  | [], _ => Some s
  | x :: p', y :: s' => if N.eqb x y then strip_prefix p' s' else None
  | _ :: _, [] => None
  end.

(* repeatedly remove the (non-empty) prefix p *)
Fixpoint strip_all (fuel : nat) (p s : str) : str :=
  match fuel with
  | O => s
  | S f => match strip_prefix p s with Some r => strip_all f p r | None => s end
  end.
Definition trim_start_matches (s p : str) : str :=
  match p with [] => s | _ => strip_all (length s) p s end.
Definition trim_end_matches (s p : str) : str := rev (trim_start_matches (rev s) (rev p)).

Fixpoint lex_compare {A : Type} (cmp : A -> A -> comparison) (a b : list A) : comparison :=
  match a, b with
  | [], [] => Eq
  | [], _ :: _ => Lt
  | _ :: _, [] => Gt
  | x :: a', y :: b' => match cmp x y with Eq => lex_compare cmp a' b' | o => o end
  end.

Definition str_compare (s t : str) : comparison := lex_compare N.compare s t.
Definition str_eqb (s t : str) : bool := match str_compare s t with Eq => true | _ => false end.
Definition str_show (s : str) : str := 34%N :: s ++ [34%N].

(* ---- arrays (std/array.glu + std.array.prim) ---- *)

Definition arr_slice (xs : list Z) (i j : nat) : list Z := firstn (j - i) (skipn i xs).
Definition arr_foldl (xs : list Z) : Z := fold_left (fun a x => a * 3 - x)%Z xs 7%Z.
Definition arr_foldr (xs : list Z) : Z := fold_right (fun x a => x - a * 3)%Z 7%Z xs.
Definition arr_map (xs : list Z) : list Z := map (fun x => x * 2 + 1)%Z xs.
Definition arr_compare (xs ys : list Z) : comparison := lex_compare Z.compare xs ys.
Definition arr_eqb (xs ys : list Z) : bool := match arr_compare xs ys with Eq => true | _ => false end.
(* std/array.glu show: "[]" | "[" ++ show x0 ++ ", " ++ show x1 .. ++ "]" ; bytes *)
Definition arr_show (xs : list Z) : list N :=
  match xs with
  | [] => [91; 93]%N
  | x :: r => 91%N :: show_int x ++ flat_map (fun y => 44%N :: 32%N :: show_int y) r ++ [93%N]
  end.
