(* C19: the derived Eq is structural equality; the derived Show is injective on values whose
   strings contain no quote character, and is NOT injective in general (String's show does not
   escape, std/string.glu:26). *)
From Coq Require Import List Bool ZArith NArith DecimalZ DecimalFacts Lia.
From GV Require Import Lib.Derive.
Import ListNotations.
Open Scope bool_scope.

(* ---- induction principle for the nested type val ---- *)
Section ValInd.
Variable P : val -> Prop.
Hypothesis Hint : forall z, P (VInt z).
Hypothesis Hstr : forall s, P (VStr s).
Hypothesis Hcon : forall c args, Forall P args -> P (VCon c args).
Fixpoint val_ind' (v : val) : P v :=
  match v with
  | VInt z => Hint z
  | VStr s => Hstr s
  | VCon c args =>
      Hcon c args ((fix go (l : list val) : Forall P l :=
                      match l with
                      | [] => Forall_nil P
                      | x :: r => Forall_cons x (val_ind' x) (go r)
                      end) args)
  end.
End ValInd.

(* ---- unfolding lemmas: the nested fixes as stand-alone functions ---- *)

Fixpoint wt_args (e : env) (n : nat) (p : gty) (tys : list ty) (args : list val) : bool :=
  match tys, args with
  | [], [] => true
  | t :: tys', a :: args' => wt e (resolve n p t) a && wt_args e n p tys' args'
  | _, _ => false
  end.

Lemma wt_con : forall e n p c args,
  wt e (GData n p) (VCon c args) =
  match nth_error e n with
  | Some d => match nth_error d c with Some (_, tys) => wt_args e n p tys args | None => false end
  | None => false
  end.
Proof.
  intros. cbn [wt]. destruct (nth_error e n) as [d|]; [|reflexivity].
  destruct (nth_error d c) as [[nm tys]|]; [|reflexivity].
  revert tys. induction args as [|a args IH]; intros [|t tys]; cbn; try reflexivity.
  now rewrite IH.
Qed.

Fixpoint deq_args (e : env) (n : nat) (p : gty) (tys : list ty) (xs ys : list val) : bool :=
  match tys, xs, ys with
  | [], [], [] => true
  | t :: tys', a :: xs', b :: ys' => deq e (resolve n p t) a b && deq_args e n p tys' xs' ys'
  | _, _, _ => false
  end.

Lemma deq_con : forall e n p cx xs cy ys,
  deq e (GData n p) (VCon cx xs) (VCon cy ys) =
  match nth_error e n with
  | None => false
  | Some d =>
      if Nat.eqb cx cy then
        match nth_error d cx with None => false | Some (_, tys) => deq_args e n p tys xs ys end
      else false
  end.
Proof.
  intros. cbn [deq]. destruct (nth_error e n) as [d|]; [|reflexivity].
  destruct (Nat.eqb cx cy); [|reflexivity].
  destruct (nth_error d cx) as [[nm tys]|]; [|reflexivity].
  revert tys ys. induction xs as [|a xs IH]; intros [|t tys] [|b ys]; cbn; try reflexivity.
  now rewrite IH.
Qed.

Fixpoint dshow_args (e : env) (n : nat) (p : gty) (tys : list ty) (args : list val) : list N :=
  match tys, args with
  | t :: tys', a :: args' =>
      32%N :: 40%N :: dshow e (resolve n p t) a ++ 41%N :: dshow_args e n p tys' args'
  | _, _ => []
  end.

Lemma dshow_con : forall e n p c args,
  dshow e (GData n p) (VCon c args) =
  match nth_error e n with
  | Some d => match nth_error d c with Some (name, tys) => name ++ dshow_args e n p tys args | None => [] end
  | None => []
  end.
Proof.
  intros. cbn [dshow]. destruct (nth_error e n) as [d|]; [|reflexivity].
  destruct (nth_error d c) as [[nm tys]|]; [|reflexivity]. f_equal.
  revert tys. induction args as [|a args IH]; intros [|t tys]; cbn; try reflexivity.
  now rewrite IH.
Qed.

(* ---- Eq ---- *)

Lemma bytes_eqb_eq : forall a b, bytes_eqb a b = true <-> a = b.
Proof.
  induction a as [|x a IH]; intros [|y b]; cbn; split; intro H; try discriminate; try reflexivity.
  - apply andb_true_iff in H. destruct H as [H1 H2]. apply N.eqb_eq in H1. apply IH in H2. congruence.
  - inversion H; subst. rewrite N.eqb_refl. cbn. now apply IH.
Qed.

Theorem derive_eq_structural : forall e x g y,
  wt e g x = true -> wt e g y = true -> (deq e g x y = true <-> x = y).
Proof.
  intro e. induction x as [z|s|c args IH] using val_ind'; intros g y Wx Wy.
  - destruct g; try discriminate. destruct y; try discriminate. cbn.
    rewrite Z.eqb_eq. split; congruence.
  - destruct g; try discriminate. destruct y; try discriminate. cbn.
    rewrite bytes_eqb_eq. split; congruence.
  - destruct g as [| |n p]; try discriminate. destruct y as [| |cy ys]; try discriminate.
    rewrite deq_con. rewrite wt_con in Wx, Wy.
    destruct (nth_error e n) as [d|]; [|discriminate].
    destruct (Nat.eqb c cy) eqn:Ec.
    + apply Nat.eqb_eq in Ec. subst cy.
      destruct (nth_error d c) as [[nm tys]|]; [|discriminate].
      assert (A : deq_args e n p tys args ys = true <-> args = ys).
      { clear nm. revert tys ys Wx Wy. induction IH as [|a args Ha Hargs IHargs]; intros [|t tys] [|b ys] Wx Wy;
          cbn in *; try discriminate; try (split; [reflexivity|reflexivity]).
        apply andb_true_iff in Wx. destruct Wx as [Wa Wx]. apply andb_true_iff in Wy. destruct Wy as [Wb Wy].
        rewrite andb_true_iff, (Ha _ _ Wa Wb), (IHargs _ _ Wx Wy). split.
        - intros [-> ->]. reflexivity.
        - intro H. inversion H. auto. }
      rewrite A. split; congruence.
    + apply Nat.eqb_neq in Ec. split; [discriminate|]. intro H. inversion H. contradiction.
Qed.

(* ---- Show: Int ---- *)

Definition is_digit (b : N) : bool := (48 <=? b)%N && (b <=? 57)%N.

Lemma digits_digit : forall u, forallb is_digit (digits u) = true.
Proof. induction u; cbn; auto. Qed.

Lemma digits_inj : forall u v, digits u = digits v -> u = v.
Proof.
  induction u; destruct v; cbn; intro H; try discriminate; try reflexivity;
    inversion H; f_equal; auto.
Qed.

Lemma show_int_inj : forall a b, show_int a = show_int b -> a = b.
Proof.
  intros a b H. rewrite <- (DecimalZ.of_to a), <- (DecimalZ.of_to b). f_equal.
  unfold show_int in H.
  destruct (Z.to_int a) as [u|u], (Z.to_int b) as [v|v].
  - f_equal. now apply digits_inj.
  - exfalso. pose proof (digits_digit u) as D. rewrite H in D. cbn in D. discriminate.
  - exfalso. pose proof (digits_digit v) as D. rewrite <- H in D. cbn in D. discriminate.
  - inversion H. f_equal. now apply digits_inj.
Qed.

Definition not_byte (c : N) (b : N) : bool := negb (N.eqb b c).

Lemma show_int_no : forall c z, is_digit c = false -> c <> 45%N -> forallb (not_byte c) (show_int z) = true.
Proof.
  intros c z Hc H45. unfold show_int.
  assert (D : forall u, forallb (not_byte c) (digits u) = true).
  { intro u. pose proof (digits_digit u) as D. rewrite forallb_forall in *. intros x Hx.
    specialize (D x Hx). unfold not_byte. apply negb_true_iff. apply N.eqb_neq. intro E. subst x. congruence. }
  destruct (Z.to_int z); cbn; rewrite ?D; auto.
  unfold not_byte at 1. replace (45 =? c)%N with false; [reflexivity|].
  symmetry. apply N.eqb_neq. congruence.
Qed.

(* ---- a delimiter that does not occur before it splits a list uniquely ---- *)

Lemma split_delim : forall (c : N) l1 l2 r1 r2,
  forallb (not_byte c) l1 = true -> forallb (not_byte c) l2 = true ->
  l1 ++ c :: r1 = l2 ++ c :: r2 -> l1 = l2 /\ r1 = r2.
Proof.
  intros c. induction l1 as [|x l1 IH]; intros [|y l2] r1 r2 H1 H2 E; cbn in *.
  - inversion E. auto.
  - inversion E; subst. apply andb_true_iff in H2. destruct H2 as [H2 _].
    unfold not_byte in H2. rewrite N.eqb_refl in H2. discriminate.
  - inversion E; subst. apply andb_true_iff in H1. destruct H1 as [H1 _].
    unfold not_byte in H1. rewrite N.eqb_refl in H1. discriminate.
  - inversion E; subst. apply andb_true_iff in H1. destruct H1 as [_ H1].
    apply andb_true_iff in H2. destruct H2 as [_ H2].
    destruct (IH _ _ _ H1 H2 H3). subst. auto.
Qed.

(* ---- constructor names ---- *)

Definition name_char (b : N) : bool := negb (N.eqb b 32%N) && negb (N.eqb b 41%N).

Lemma name_ok_chars : forall nm, name_ok nm = true -> nm <> [] /\ forallb name_char nm = true.
Proof. intros [|b nm] H; [discriminate|]. split; [discriminate|exact H]. Qed.

(* what follows a constructor name: nothing, a space or a closing parenthesis *)
Definition delim_start (l : list N) : Prop :=
  match l with [] => True | b :: _ => b = 32%N \/ b = 41%N end.

Lemma name_split : forall n1 n2 r1 r2,
  forallb name_char n1 = true -> forallb name_char n2 = true ->
  delim_start r1 -> delim_start r2 ->
  n1 ++ r1 = n2 ++ r2 -> n1 = n2 /\ r1 = r2.
Proof.
  induction n1 as [|x n1 IH]; intros [|y n2] r1 r2 H1 H2 D1 D2 E; cbn in *.
  - auto.
  - subst r1. cbn in D1. apply andb_true_iff in H2. destruct H2 as [H2 _].
    unfold name_char in H2. apply andb_true_iff in H2. destruct H2 as [A B].
    apply negb_true_iff, N.eqb_neq in A. apply negb_true_iff, N.eqb_neq in B. destruct D1; contradiction.
  - subst r2. cbn in D2. apply andb_true_iff in H1. destruct H1 as [H1 _].
    unfold name_char in H1. apply andb_true_iff in H1. destruct H1 as [A B].
    apply negb_true_iff, N.eqb_neq in A. apply negb_true_iff, N.eqb_neq in B. destruct D2; contradiction.
  - inversion E; subst. apply andb_true_iff in H1. destruct H1 as [_ H1].
    apply andb_true_iff in H2. destruct H2 as [_ H2].
    destruct (IH _ _ _ H1 H2 D1 D2 H3). subst. auto.
Qed.

Lemma existsb_bytes_eqb : forall x l, existsb (bytes_eqb x) l = true <-> In x l.
Proof.
  intros x l. rewrite existsb_exists. split.
  - intros (y & Hy & E). apply bytes_eqb_eq in E. now subst.
  - intro H. exists x. split; [exact H|]. now apply bytes_eqb_eq.
Qed.

Lemma nodupb_NoDup : forall l, nodupb l = true -> NoDup l.
Proof.
  induction l as [|x l IH]; cbn; intro H; constructor.
  - apply andb_true_iff in H. destruct H as [H _]. apply negb_true_iff in H.
    intro I. apply existsb_bytes_eqb in I. congruence.
  - apply IH. apply andb_true_iff in H. tauto.
Qed.

Lemma ctor_by_name : forall (d : decl) c1 c2 nm t1 t2,
  decl_ok d = true -> nth_error d c1 = Some (nm, t1) -> nth_error d c2 = Some (nm, t2) -> c1 = c2.
Proof.
  intros d c1 c2 nm t1 t2 Hd H1 H2. unfold decl_ok in Hd. apply andb_true_iff in Hd.
  destruct Hd as [_ Hn]. apply nodupb_NoDup in Hn.
  assert (E1 : nth_error (map fst d) c1 = Some nm) by (rewrite nth_error_map, H1; reflexivity).
  assert (E2 : nth_error (map fst d) c2 = Some nm) by (rewrite nth_error_map, H2; reflexivity).
  rewrite NoDup_nth_error in Hn. apply Hn; [|congruence].
  apply nth_error_Some. congruence.
Qed.

Lemma ctor_name_ok : forall (d : decl) c nm tys,
  decl_ok d = true -> nth_error d c = Some (nm, tys) -> forallb name_char nm = true.
Proof.
  intros d c nm tys Hd H. unfold decl_ok in Hd. apply andb_true_iff in Hd. destruct Hd as [Hc _].
  rewrite forallb_forall in Hc. specialize (Hc _ (nth_error_In _ _ H)). cbn in Hc.
  now apply name_ok_chars in Hc.
Qed.

Lemma dshow_args_delim : forall e n p tys args r,
  delim_start (dshow_args e n p tys args ++ 41%N :: r).
Proof. intros e n p [|t tys] [|a args] r; cbn; auto. Qed.

(* ---- Show is injective on quote-free values ---- *)

Lemma dshow_inj_term : forall e, env_ok e = true -> forall x g y r1 r2,
  wt e g x = true -> wt e g y = true -> quote_free x = true -> quote_free y = true ->
  dshow e g x ++ 41%N :: r1 = dshow e g y ++ 41%N :: r2 -> x = y /\ r1 = r2.
Proof.
  intros e He. induction x as [z|s|c args IH] using val_ind'; intros g y r1 r2 Wx Wy Qx Qy E.
  - destruct g; try discriminate. destruct y as [z'| |]; try discriminate. cbn [dshow] in E.
    apply split_delim in E; try (apply show_int_no; [reflexivity|discriminate]).
    destruct E as [E ->]. apply show_int_inj in E. now subst.
  - destruct g; try discriminate. destruct y as [|s'|]; try discriminate. cbn [dshow] in E.
    cbn in E. inversion E as [E']. clear E. rewrite <- !app_assoc in E'. cbn in E'.
    cbn in Qx, Qy. apply (split_delim 34%N) in E'; [|exact Qx|exact Qy].
    destruct E' as [-> E']. inversion E'. auto.
  - destruct g as [| |n p]; try discriminate. destruct y as [| |cy ys]; try discriminate.
    rewrite !dshow_con in E. rewrite wt_con in Wx, Wy.
    destruct (nth_error e n) as [d|] eqn:En; [|discriminate].
    assert (Hd : decl_ok d = true).
    { unfold env_ok in He. rewrite forallb_forall in He. apply He. eapply nth_error_In; eauto. }
    destruct (nth_error d c) as [[nm tys]|] eqn:Ec; [|discriminate].
    destruct (nth_error d cy) as [[nm' tys']|] eqn:Ecy; [|discriminate].
    rewrite <- !app_assoc in E.
    apply name_split in E; try apply dshow_args_delim; try (eapply ctor_name_ok; eauto).
    destruct E as [-> E].
    assert (c = cy) by (eapply ctor_by_name; eauto). subst cy.
    rewrite Ec in Ecy. inversion Ecy; subst tys'. clear Ecy.
    cbn [quote_free] in Qx, Qy.
    assert (A : args = ys /\ r1 = r2).
    { clear Ec. revert tys ys Wx Wy Qx Qy E.
      induction IH as [|a args Ha Hargs IHargs]; intros [|t tys] [|b ys] Wx Wy Qx Qy E;
        cbn in *; try discriminate.
      - inversion E. auto.
      - apply andb_true_iff in Wx. destruct Wx as [Wa Wx]. apply andb_true_iff in Wy. destruct Wy as [Wb Wy].
        apply andb_true_iff in Qx. destruct Qx as [Qa Qx]. apply andb_true_iff in Qy. destruct Qy as [Qb Qy].
        inversion E as [E']. clear E. rewrite <- !app_assoc in E'. cbn in E'.
        destruct (Ha _ _ _ _ Wa Wb Qa Qb E') as [-> E''].
        destruct (IHargs _ _ Wx Wy Qx Qy E'') as [-> ->]. auto. }
    destruct A as [-> ->]. auto.
Qed.

Theorem derive_show_injective : forall e g x y,
  env_ok e = true -> wt e g x = true -> wt e g y = true ->
  quote_free x = true -> quote_free y = true ->
  dshow e g x = dshow e g y -> x = y.
Proof.
  intros e g x y He Wx Wy Qx Qy E.
  assert (E' : dshow e g x ++ 41%N :: [] = dshow e g y ++ 41%N :: []) by now rewrite E.
  now destruct (dshow_inj_term e He x g y [] [] Wx Wy Qx Qy E').
Qed.

(* Without the quote-freeness premise the statement is false: String's show does not escape.
   type T = | P String String ;  P "a\") (\"b" "c"  and  P "a" "b\") (\"c"  both render as
   P ("a") ("b") ("c"). *)
Definition derive_show_injective_full_stmt : Prop := forall e g x y,
  env_ok e = true -> wt e g x = true -> wt e g y = true -> dshow e g x = dshow e g y -> x = y.

Theorem derive_show_injective_refuted : exists e g x y,
  env_ok e = true /\ wt e g x = true /\ wt e g y = true /\ dshow e g x = dshow e g y /\ x <> y.
Proof.
  exists [[([80%N], [TStr; TStr])]], (GData 0 GInt),
    (VCon 0 [VStr [97; 34; 41; 32; 40; 34; 98]%N; VStr [99]%N]),
    (VCon 0 [VStr [97]%N; VStr [98; 34; 41; 32; 40; 34; 99]%N]).
  repeat split; try reflexivity. discriminate.
Qed.
