(* C11 — proofs about the marshalling model (Marshal.v). *)
From Coq Require Import List ZArith Bool Lia.
From GV Require Import Lib.Marshal.
Import ListNotations.
Open Scope Z_scope.

(* ---- strings ---------------------------------------------------------------------------------- *)

Lemma str_cmp_eq : forall a b, str_cmp a b = Eq <-> a = b.
Proof.
  induction a as [|x a IH]; destruct b as [|y b]; cbn [str_cmp]; split; intro H; try congruence.
  - destruct (Z.compare x y) eqn:E; try discriminate.
    apply Z.compare_eq in E. apply IH in H. congruence.
  - inversion H; subst. rewrite Z.compare_refl. apply IH. reflexivity.
Qed.

Lemma str_eqb_eq : forall a b, str_eqb a b = true <-> a = b.
Proof.
  intros a b. unfold str_eqb. rewrite <- str_cmp_eq. destruct (str_cmp a b); split; congruence.
Qed.

Lemma str_eqb_refl : forall a, str_eqb a a = true.
Proof. intro a. apply str_eqb_eq. reflexivity. Qed.

Lemma str_eqb_neq : forall a b, str_eqb a b = false <-> a <> b.
Proof.
  intros a b. split; intro H.
  - intro E. apply str_eqb_eq in E. congruence.
  - destruct (str_eqb a b) eqn:E; [apply str_eqb_eq in E; contradiction | reflexivity].
Qed.

Lemma str_list_eqb_refl : forall l, str_list_eqb l l = true.
Proof. induction l; cbn; [reflexivity | rewrite str_eqb_refl; assumption]. Qed.

(* ---- integers --------------------------------------------------------------------------------- *)

Lemma in_range_spec : forall lo hi z, in_range lo hi z = true <-> lo <= z < hi.
Proof. intros. unfold in_range. rewrite andb_true_iff, Z.leb_le, Z.ltb_lt. tauto. Qed.

Lemma wrap_s_id : forall n z, 0 < n -> - 2 ^ (n - 1) <= z < 2 ^ (n - 1) -> wrap_s n z = z.
Proof.
  intros n z Hn H. unfold wrap_s.
  assert (E : 2 ^ n = 2 * 2 ^ (n - 1)).
  { replace n with (Z.succ (n - 1)) at 1 by lia. rewrite Z.pow_succ_r by lia. reflexivity. }
  rewrite Z.mod_small by lia. lia.
Qed.

(* `u as i64 as u64` is the identity on 0 .. 2^64 - 1, also above i64::MAX *)
Lemma wrap_u_wrap_s : forall n z, 0 < n -> 0 <= z < 2 ^ n -> wrap_u n (wrap_s n z) = z.
Proof.
  intros n z Hn H. unfold wrap_u, wrap_s.
  assert (Hp : 0 < 2 ^ n) by (apply Z.pow_pos_nonneg; lia).
  rewrite Zminus_mod_idemp_l.
  replace (z + 2 ^ (n - 1) - 2 ^ (n - 1)) with z by lia.
  apply Z.mod_small. lia.
Qed.

(* narrower integers: the `as` cast down undoes the `as i64` up *)
Lemma wrap_s_small : forall n z, 0 < n <= 64 -> - 2 ^ (n - 1) <= z < 2 ^ (n - 1) ->
  wrap_s n (wrap_s 64 z) = z.
Proof.
  intros n z Hn H.
  assert (Hm : 2 ^ (n - 1) <= 2 ^ 63) by (apply Z.pow_le_mono_r; lia).
  rewrite (wrap_s_id 64 z) by lia. apply wrap_s_id; lia.
Qed.

Lemma wrap_u_small : forall n z, 0 < n < 64 -> 0 <= z < 2 ^ n -> wrap_u n (wrap_s 64 z) = z.
Proof.
  intros n z Hn H.
  assert (Hm : 2 ^ n <= 2 ^ 63) by (apply Z.pow_le_mono_r; lia).
  rewrite (wrap_s_id 64 z) by lia. unfold wrap_u. apply Z.mod_small. lia.
Qed.

Lemma wrap_s_range : forall n z, 0 < n -> - 2 ^ (n - 1) <= wrap_s n z < 2 ^ (n - 1).
Proof.
  intros n z Hn. unfold wrap_s.
  assert (E : 2 ^ n = 2 * 2 ^ (n - 1)).
  { replace n with (Z.succ (n - 1)) at 1 by lia. rewrite Z.pow_succ_r by lia. reflexivity. }
  assert (Hp : 0 < 2 ^ n) by (apply Z.pow_pos_nonneg; lia).
  pose proof (Z.mod_pos_bound (z + 2 ^ (n - 1)) (2 ^ n) Hp). lia.
Qed.

Lemma is_scalar_range : forall u, is_scalar u = true -> 0 <= u < 1114112.
Proof.
  intros u H. unfold is_scalar in H. apply orb_true_iff in H.
  destruct H as [H|H]; apply in_range_spec in H; lia.
Qed.

(* ---- floats ----------------------------------------------------------------------------------- *)

(* reading the three fields of a 64-bit pattern assembled from them *)
Lemma fields64 : forall s e m, 0 <= s < 2 -> 0 <= e < 2048 -> 0 <= m < 2 ^ 52 ->
  let b := s * 2 ^ 63 + (e * 2 ^ 52 + m) in
  b / 2 ^ 63 = s /\ (b / 2 ^ 52) mod 2048 = e /\ b mod 2 ^ 52 = m.
Proof.
  intros s e m Hs He Hm b. subst b.
  assert (P52 : 2 ^ 52 = 4503599627370496) by reflexivity.
  assert (P63 : 2 ^ 63 = 2048 * 2 ^ 52) by reflexivity.
  repeat split.
  - symmetry. apply (Z.div_unique _ _ s (e * 2 ^ 52 + m)); nia.
  - replace (s * 2 ^ 63 + (e * 2 ^ 52 + m)) with ((s * 2048 + e) * 2 ^ 52 + m) by lia.
    rewrite Z.div_add_l by lia. rewrite (Z.div_small m) by lia. rewrite Z.add_0_r.
    rewrite Z.add_comm, Z.mod_add by lia. apply Z.mod_small. lia.
  - replace (s * 2 ^ 63 + (e * 2 ^ 52 + m)) with (m + (s * 2048 + e) * 2 ^ 52) by lia.
    rewrite Z.mod_add by lia. apply Z.mod_small. lia.
Qed.

Lemma fields32 : forall b, 0 <= b < 2 ^ 32 ->
  let s := b / 2 ^ 31 in let e := (b / 2 ^ 23) mod 256 in let m := b mod 2 ^ 23 in
  0 <= s < 2 /\ 0 <= e < 256 /\ 0 <= m < 2 ^ 23 /\ b = s * 2 ^ 31 + (e * 2 ^ 23 + m).
Proof.
  intros b Hb s e m. subst s e m.
  assert (P23 : 2 ^ 23 = 8388608) by reflexivity.
  assert (P31 : 2 ^ 31 = 256 * 2 ^ 23) by reflexivity.
  assert (P32 : 2 ^ 32 = 2 * 2 ^ 31) by reflexivity.
  pose proof (Z.div_mod b (2 ^ 23) ltac:(lia)) as D1.
  pose proof (Z.mod_pos_bound b (2 ^ 23) ltac:(lia)) as B1.
  pose proof (Z.div_mod (b / 2 ^ 23) 256 ltac:(lia)) as D2.
  pose proof (Z.mod_pos_bound (b / 2 ^ 23) 256 ltac:(lia)) as B2.
  assert (E : b / 2 ^ 31 = (b / 2 ^ 23) / 256).
  { rewrite P31. rewrite (Z.mul_comm 256). rewrite Z.div_div by lia. reflexivity. }
  rewrite E.
  assert (0 <= b / 2 ^ 23 / 256 < 2).
  { split; [apply Z.div_pos; [apply Z.div_pos|]; lia|].
    apply Z.div_lt_upper_bound; [lia|]. apply Z.div_lt_upper_bound; lia. }
  repeat split; try lia.
Qed.

Lemma rne_exact : forall x sh, 0 < sh -> 0 <= x -> rne (x * 2 ^ sh) sh = x.
Proof.
  intros x sh Hsh Hx. unfold rne.
  assert (Hp : 0 < 2 ^ sh) by (apply Z.pow_pos_nonneg; lia).
  assert (Hh : 0 < 2 ^ (sh - 1)) by (apply Z.pow_pos_nonneg; lia).
  rewrite Z.div_mul by lia. rewrite Z.mod_mul by lia.
  replace (2 ^ (sh - 1) <? 0) with false by (symmetry; apply Z.ltb_ge; lia).
  replace (0 =? 2 ^ (sh - 1)) with false by (symmetry; apply Z.eqb_neq; lia).
  reflexivity.
Qed.

Lemma quiet_id : forall m, 2 ^ 22 <= m -> quiet 23 m = m.
Proof.
  intros m H. unfold quiet. change (23 - 1) with 22.
  replace (m <? 2 ^ 22) with false by (symmetry; apply Z.ltb_ge; lia). reflexivity.
Qed.

Ltac lits :=
  change (2 ^ 22) with 4194304 in *; change (2 ^ 23) with 8388608 in *;
  change (2 ^ 29) with 536870912 in *; change (2 ^ 31) with 2147483648 in *;
  change (2 ^ 32) with 4294967296 in *; change (2 ^ 52) with 4503599627370496 in *;
  change (2 ^ 63) with 9223372036854775808 in *; change (2 ^ 64) with 18446744073709551616 in *.

Lemma z52 : 0 <= 0 < 2 ^ 52.
Proof. lits. lia. Qed.

Lemma m29 : forall m, 0 <= m < 2 ^ 23 -> 0 <= m * 2 ^ 29 < 2 ^ 52.
Proof. intros m H. lits. lia. Qed.

(* Every f32 that is not a signalling NaN survives `as f64 as f32` bit for bit. *)
Lemma f32_roundtrip : forall b, 0 <= b < 2 ^ 32 -> f32_is_snan b = false ->
  f64_narrow (f32_widen b) = b.
Proof.
  intros b Hb Hs.
  destruct (fields32 b Hb) as (Bs & Be & Bm & Eb).
  unfold f32_is_snan in Hs. unfold f32_widen.
  set (s := b / 2 ^ 31) in *. set (e := (b / 2 ^ 23) mod 256) in *. set (m := b mod 2 ^ 23) in *.
  assert (P23 : 2 ^ 23 = 8388608) by reflexivity.
  assert (P22 : 2 ^ 22 = 4194304) by reflexivity.
  assert (P29 : 2 ^ 29 = 536870912) by reflexivity.
  assert (P52 : 2 ^ 52 = 2 ^ 23 * 2 ^ 29) by reflexivity.
  assert (P52' : 2 ^ 52 = 4503599627370496) by reflexivity.
  destruct (e =? 255) eqn:E255.
  - apply Z.eqb_eq in E255.
    destruct (m =? 0) eqn:M0.
    + (* infinity *)
      apply Z.eqb_eq in M0.
      pose proof (fields64 s 2047 0 Bs ltac:(lia) z52) as (F1 & F2 & F3).
      cbn zeta in F1, F2, F3. rewrite Z.add_0_r in F1, F2, F3.
      unfold f64_narrow. rewrite F1, F2, F3. change (2047 =? 2047) with true. change (0 =? 0) with true. cbv iota. rewrite Eb, E255, M0. lia.
    + (* quiet NaN: payload preserved *)
      apply Z.eqb_neq in M0. cbn [negb andb] in Hs. apply Z.ltb_ge in Hs.
      rewrite quiet_id by lia.
      pose proof (fields64 s 2047 (m * 2 ^ 29) Bs ltac:(lia) (m29 m Bm)) as (F1 & F2 & F3).
      cbn zeta in F1, F2, F3.
      unfold f64_narrow. rewrite F1, F2, F3. change (2047 =? 2047) with true. cbv iota.
      replace (m * 2 ^ 29 =? 0) with false by (symmetry; apply Z.eqb_neq; nia).
      rewrite Z.div_mul by lia. rewrite quiet_id by lia. rewrite Eb, E255. lia.
  - apply Z.eqb_neq in E255.
    destruct (e =? 0) eqn:E0.
    + apply Z.eqb_eq in E0.
      destruct (m =? 0) eqn:M0.
      * (* zero *)
        apply Z.eqb_eq in M0.
        pose proof (fields64 s 0 0 Bs ltac:(lia) z52) as (F1 & F2 & F3).
        cbn zeta in F1, F2, F3. cbn [Z.mul Z.add] in F1, F2, F3. rewrite Z.add_0_r in F1, F2, F3.
        unfold f64_narrow. rewrite Z.add_0_r. rewrite F1, F2, F3. change (0 =? 2047) with false. change (0 =? 0) with true. cbv iota. rewrite Eb, E0, M0. lia.
      * (* subnormal f32 = normal f64 *)
        apply Z.eqb_neq in M0.
        assert (Hm : 0 < m) by lia.
        pose proof (Z.log2_spec m Hm) as L. pose proof (Z.log2_nonneg m) as Ln.
        set (k := Z.log2 m) in *.
        assert (Hk : k < 23).
        { apply Z.log2_lt_pow2; lia. }
        assert (Hpk : 0 < 2 ^ k) by (apply Z.pow_pos_nonneg; lia).
        assert (Hsplit : 2 ^ 52 = 2 ^ k * 2 ^ (52 - k)).
        { rewrite <- Z.pow_add_r by lia. f_equal. lia. }
        assert (Hpk2 : 0 < 2 ^ (52 - k)) by (apply Z.pow_pos_nonneg; lia).
        assert (Hsucc : 2 ^ Z.succ k = 2 * 2 ^ k) by (rewrite Z.pow_succ_r by lia; reflexivity).
        pose proof (fields64 s (k + 874) ((m - 2 ^ k) * 2 ^ (52 - k)) Bs ltac:(lia) ltac:(nia)) as (F1 & F2 & F3).
        cbn zeta in F1, F2, F3.
        unfold f64_narrow. rewrite F1, F2, F3.
        replace (k + 874 =? 2047) with false by (symmetry; apply Z.eqb_neq; lia).
        replace (k + 874 =? 0) with false by (symmetry; apply Z.eqb_neq; lia).
        replace (897 <=? k + 874) with false by (symmetry; apply Z.leb_gt; lia).
        replace (926 - (k + 874)) with (52 - k) by lia.
        replace (2 ^ 52 + (m - 2 ^ k) * 2 ^ (52 - k)) with (m * 2 ^ (52 - k)) by nia.
        rewrite rne_exact by lia. rewrite Eb, E0. lia.
    + (* normal *)
      apply Z.eqb_neq in E0.
      pose proof (fields64 s (e + 896) (m * 2 ^ 29) Bs ltac:(lia) (m29 m Bm)) as (F1 & F2 & F3).
      cbn zeta in F1, F2, F3.
      unfold f64_narrow. rewrite F1, F2, F3.
      replace (e + 896 =? 2047) with false by (symmetry; apply Z.eqb_neq; lia).
      replace (e + 896 =? 0) with false by (symmetry; apply Z.eqb_neq; lia).
      replace (897 <=? e + 896) with true by (symmetry; apply Z.leb_le; lia).
      replace (2 ^ 52 + m * 2 ^ 29) with ((2 ^ 23 + m) * 2 ^ 29) by lia.
      rewrite rne_exact by lia.
      rewrite Z.min_r by (lits; lia). lits. lia.
Qed.

(* A signalling NaN does not survive: the conversion sets the quiet bit. *)
Lemma f32_snan_lossy : f64_narrow (f32_widen 2139095041) = 2143289345.
Proof. vm_compute. reflexivity. Qed.

Lemma f32_widen_range : forall b, 0 <= b < 2 ^ 32 -> 0 <= f32_widen b < 2 ^ 64.
Proof.
  intros b Hb. destruct (fields32 b Hb) as (Bs & Be & Bm & Eb).
  unfold f32_widen.
  set (s := b / 2 ^ 31) in *. set (e := (b / 2 ^ 23) mod 256) in *. set (m := b mod 2 ^ 23) in *.
  assert (P23 : 2 ^ 23 = 8388608) by reflexivity.
  assert (P29 : 2 ^ 29 = 536870912) by reflexivity.
  assert (P52' : 2 ^ 52 = 4503599627370496) by reflexivity.
  assert (P63 : 2 ^ 63 = 2048 * 2 ^ 52) by reflexivity.
  assert (P64 : 2 ^ 64 = 2 * 2 ^ 63) by reflexivity.
  assert (Hmag : forall mag, 0 <= mag < 2 ^ 63 -> 0 <= s * 2 ^ 63 + mag < 2 ^ 64) by (intros; nia).
  apply Hmag.
  destruct (e =? 255) eqn:E255.
  - destruct (m =? 0).
    + lia.
    + unfold quiet. change (23 - 1) with 22. change (2 ^ 22) with 4194304.
      destruct (m <? 4194304) eqn:Q; [apply Z.ltb_lt in Q | apply Z.ltb_ge in Q]; nia.
  - apply Z.eqb_neq in E255. destruct (e =? 0) eqn:E0.
    + destruct (m =? 0) eqn:M0; [lia|]. apply Z.eqb_neq in M0.
      assert (Hm : 0 < m) by lia.
      pose proof (Z.log2_spec m Hm) as L. pose proof (Z.log2_nonneg m) as Ln.
      set (k := Z.log2 m) in *.
      assert (Hk : k < 23) by (apply Z.log2_lt_pow2; lia).
      assert (Hpk : 0 < 2 ^ k) by (apply Z.pow_pos_nonneg; lia).
      assert (Hsplit : 2 ^ 52 = 2 ^ k * 2 ^ (52 - k)).
      { rewrite <- Z.pow_add_r by lia. f_equal. lia. }
      assert (Hpk2 : 0 < 2 ^ (52 - k)) by (apply Z.pow_pos_nonneg; lia).
      assert (Hsucc : 2 ^ Z.succ k = 2 * 2 ^ k) by (rewrite Z.pow_succ_r by lia; reflexivity).
      nia.
    + nia.
Qed.

(* ---- list helpers ----------------------------------------------------------------------------- *)

Lemma all2_length : forall {A B} (f : A -> B -> bool) l1 l2, all2 f l1 l2 = true -> length l1 = length l2.
Proof.
  induction l1 as [|a l1 IH]; destruct l2 as [|b l2]; cbn; intro H; try discriminate; [reflexivity|].
  apply andb_true_iff in H. f_equal. apply IH. tauto.
Qed.

Lemma zipw_length : forall {A B C} (f : A -> B -> C) l1 l2, length l1 = length l2 -> length (zipw f l1 l2) = length l1.
Proof.
  induction l1 as [|a l1 IH]; destruct l2 as [|b l2]; cbn; intro H; try discriminate; [reflexivity|].
  f_equal. apply IH. lia.
Qed.

Lemma zipw_app : forall {A B C} (f : A -> B -> C) l1 l2 l1' l2', length l1 = length l2 ->
  zipw f (l1 ++ l1') (l2 ++ l2') = zipw f l1 l2 ++ zipw f l1' l2'.
Proof.
  induction l1 as [|a l1 IH]; destruct l2 as [|b l2]; cbn; intros l1' l2' H; try discriminate; [reflexivity|].
  f_equal. apply IH. lia.
Qed.

(* round trip through a pair of element-wise functions *)
Lemma zipo_zipw : forall {A} (pu : A -> rval -> repr) (ge : A -> repr -> option rval) (w : A -> rval -> bool) l xs,
  Forall (fun a => forall v, w a v = true -> ge a (pu a v) = Some v) l ->
  all2 w l xs = true -> zipo ge l (zipw pu l xs) = Some xs.
Proof.
  induction l as [|a l IH]; destruct xs as [|x xs]; cbn; intros HF H; try discriminate; [reflexivity|].
  apply andb_true_iff in H. destruct H as [H1 H2]. inversion HF as [|? ? Ha HF']; subst.
  rewrite (Ha x H1). rewrite (IH xs HF' H2). reflexivity.
Qed.

Lemma mapo_map : forall (pu : rval -> repr) (ge : repr -> option rval) (w : rval -> bool) (xs : list rval),
  (forall v, w v = true -> ge (pu v) = Some v) -> forallb w xs = true -> mapo ge (map pu xs) = Some xs.
Proof.
  intros pu ge w xs H. induction xs as [|x xs IH]; cbn; intro Hw; [reflexivity|].
  apply andb_true_iff in Hw. destruct Hw as [H1 H2]. rewrite (H x H1), (IH H2). reflexivity.
Qed.

Lemma all2_zipw : forall {A B} (pu : A -> B -> repr) (ok : A -> repr -> bool) (w : A -> B -> bool) l xs,
  Forall (fun a => forall v, w a v = true -> ok a (pu a v) = true) l ->
  all2 w l xs = true -> all2 ok l (zipw pu l xs) = true.
Proof.
  induction l as [|a l IH]; destruct xs as [|x xs]; cbn; intros HF H; try discriminate; [reflexivity|].
  apply andb_true_iff in H. destruct H as [H1 H2]. inversion HF as [|? ? Ha HF']; subst.
  rewrite (Ha x H1). rewrite (IH xs HF' H2). reflexivity.
Qed.

Lemma sel_spec : forall {V R} (d : R) (f : V -> Z -> R) vs i tag,
  sel d f vs i tag = match nth_error vs i with Some vr => f vr (tag + Z.of_nat i) | None => d end.
Proof.
  induction vs as [|vr vs IH]; intros i tag; destruct i; cbn [sel nth_error]; try reflexivity.
  - f_equal. lia.
  - rewrite IH. destruct (nth_error vs i); [f_equal; lia | reflexivity].
Qed.

Lemma nth_error_Forall : forall {A} (P : A -> Prop) l i x, Forall P l -> nth_error l i = Some x -> P x.
Proof.
  intros A P l i x HF H. apply nth_error_In in H. rewrite Forall_forall in HF. auto.
Qed.

Lemma forallb_nth : forall {A} (f : A -> bool) l i x, forallb f l = true -> nth_error l i = Some x -> f x = true.
Proof.
  intros A f l i x HF H. apply nth_error_In in H. rewrite forallb_forall in HF. auto.
Qed.

(* ---- records: lookup by name ------------------------------------------------------------------ *)

Lemma nodup_str_NoDup : forall l, nodup_str l = true -> NoDup l.
Proof.
  induction l as [|x l IH]; cbn; intro H; [constructor|].
  apply andb_true_iff in H. destruct H as [H1 H2]. constructor; [|auto].
  intro Hin. apply negb_true_iff in H1.
  assert (existsb (str_eqb x) l = true) by (apply existsb_exists; exists x; split; [assumption | apply str_eqb_refl]).
  congruence.
Qed.

Lemma lookup_skip : forall {A} n names1 (vals1 : list A) names2 vals2,
  ~ In n names1 -> length names1 = length vals1 ->
  lookup n (names1 ++ names2) (vals1 ++ vals2) = lookup n names2 vals2.
Proof.
  induction names1 as [|n1 names1 IH]; destruct vals1 as [|v1 vals1]; cbn; intros names2 vals2 Hn Hl; try discriminate; [reflexivity|].
  destruct (str_eqb n n1) eqn:E.
  - apply str_eqb_eq in E. subst. exfalso. apply Hn. left. reflexivity.
  - apply IH; [intro; apply Hn; right; assumption | lia].
Qed.

Lemma lookup_head : forall {A} n names (v : A) vals, lookup n (n :: names) (v :: vals) = Some v.
Proof. intros. cbn. rewrite str_eqb_refl. reflexivity. Qed.

(* reading the fields of a record by name gives back the values they were built from *)
Lemma named_roundtrip : forall (pu : tcode -> rval -> repr) (ge : tcode -> repr -> option rval)
    (w : tcode -> rval -> bool) (suf pre : list (str * tcode)) (xs_pre xs_suf : list rval),
  NoDup (map fst (pre ++ suf)) -> length pre = length xs_pre ->
  Forall (fun f => forall v, w (snd f) v = true -> ge (snd f) (pu (snd f) v) = Some v) suf ->
  all2 (fun f x => w (snd f) x) suf xs_suf = true ->
  mapo (fun f => match lookup (fst f) (map fst (pre ++ suf))
                         (zipw (fun f x => pu (snd f) x) (pre ++ suf) (xs_pre ++ xs_suf)) with
                 | Some r' => ge (snd f) r'
                 | None => None
                 end) suf = Some xs_suf.
Proof.
  induction suf as [|f suf IH]; intros pre xs_pre xs_suf Hnd Hl HF Hw.
  - destruct xs_suf; [reflexivity | discriminate].
  - destruct xs_suf as [|x xs_suf]; [discriminate|].
    cbn [all2] in Hw. apply andb_true_iff in Hw. destruct Hw as [Hw1 Hw2].
    inversion HF as [|? ? Hf HF']; subst.
    cbn [mapo].
    (* the head *)
    assert (Hhead : lookup (fst f) (map fst (pre ++ f :: suf))
                      (zipw (fun f x => pu (snd f) x) (pre ++ f :: suf) (xs_pre ++ x :: xs_suf))
                    = Some (pu (snd f) x)).
    { rewrite map_app. rewrite zipw_app by assumption.
      rewrite lookup_skip.
      - cbn [map zipw]. apply lookup_head.
      - rewrite map_app in Hnd. cbn [map] in Hnd. apply NoDup_remove_2 in Hnd.
        intro Hin. apply Hnd. apply in_or_app. left. assumption.
      - rewrite map_length, zipw_length by assumption. reflexivity. }
    rewrite Hhead. rewrite (Hf x Hw1).
    (* the tail, with the head moved to the prefix *)
    specialize (IH (pre ++ [f]) (xs_pre ++ [x]) xs_suf).
    rewrite <- !app_assoc in IH. cbn [app] in IH.
    rewrite IH; [reflexivity | assumption | rewrite !app_length; cbn; lia | assumption | assumption].
Qed.

Lemma named_roundtrip0 : forall (pu : tcode -> rval -> repr) (ge : tcode -> repr -> option rval)
    (w : tcode -> rval -> bool) (fs : list (str * tcode)) (xs : list rval),
  nodup_str (map fst fs) = true ->
  Forall (fun f => forall v, w (snd f) v = true -> ge (snd f) (pu (snd f) v) = Some v) fs ->
  all2 (fun f x => w (snd f) x) fs xs = true ->
  mapo (fun f => match lookup (fst f) (map fst fs) (zipw (fun f x => pu (snd f) x) fs xs) with
                 | Some r' => ge (snd f) r'
                 | None => None
                 end) fs = Some xs.
Proof.
  intros pu ge w fs xs Hnd HF Hw.
  apply (named_roundtrip pu ge w fs [] [] xs); auto. apply nodup_str_NoDup. assumption.
Qed.

(* ---- maps ------------------------------------------------------------------------------------- *)

(* the tree std.map.insert builds from keys inserted in increasing order: a right spine *)
Fixpoint spine (l : list (str * repr)) : repr :=
  match l with
  | [] => RTag 0
  | (k, v) :: l' => RData 1 [RString k; v; RTag 0; spine l']
  end.

Lemma map_insert_spine : forall l k v,
  forallb (fun kv => str_gtb k (fst kv)) l = true ->
  map_insert k v (spine l) = spine (l ++ [(k, v)]).
Proof.
  induction l as [|[k1 v1] l IH]; intros k v H; cbn [spine app map_insert]; [reflexivity|].
  cbn [forallb fst] in H. apply andb_true_iff in H. destruct H as [H1 H2].
  unfold str_gtb in H1. destruct (str_cmp k k1); try discriminate.
  rewrite IH by assumption. reflexivity.
Qed.

Lemma ssorted_app_gt : forall {A} (l : list (str * A)) k a,
  ssorted (l ++ [(k, a)]) = true -> forallb (fun kv => str_gtb k (fst kv)) l = true.
Proof.
  induction l as [|kv l IH]; intros k a H; cbn in *; [reflexivity|].
  apply andb_true_iff in H. destruct H as [H1 H2].
  rewrite forallb_app in H1. apply andb_true_iff in H1. destruct H1 as [_ H1]. cbn in H1.
  rewrite andb_true_r in H1. rewrite H1. cbn. eapply IH. eassumption.
Qed.

Lemma ssorted_app_l : forall {A} (l l' : list (str * A)), ssorted (l ++ l') = true -> ssorted l = true.
Proof.
  induction l as [|kv l IH]; intros l' H; cbn in *; [reflexivity|].
  apply andb_true_iff in H. destruct H as [H1 H2].
  rewrite forallb_app in H1. apply andb_true_iff in H1. destruct H1 as [H1 _].
  rewrite H1. cbn. eapply IH. eassumption.
Qed.

Lemma forallb_gt_map : forall (pu : rval -> repr) k (acc : list (str * rval)),
  forallb (fun kv => str_gtb k (fst kv)) acc = true ->
  forallb (fun kv => str_gtb k (fst kv)) (map (fun kv => (fst kv, pu (snd kv))) acc) = true.
Proof.
  intros pu k acc. induction acc as [|kv acc IH]; cbn; intro H; [reflexivity|].
  apply andb_true_iff in H. destruct H as [H1 H2]. rewrite H1. cbn. auto.
Qed.

Lemma push_map_spine : forall (pu : rval -> repr) (kvs acc : list (str * rval)),
  ssorted (acc ++ kvs) = true ->
  fold_left (fun m kv => map_insert (fst kv) (pu (snd kv)) m) kvs
    (spine (map (fun kv => (fst kv, pu (snd kv))) acc))
  = spine (map (fun kv => (fst kv, pu (snd kv))) (acc ++ kvs)).
Proof.
  induction kvs as [|[k v] kvs IH]; intros acc H; cbn [fold_left].
  - rewrite app_nil_r. reflexivity.
  - cbn [fst snd].
    rewrite map_insert_spine.
    + specialize (IH (acc ++ [(k, v)])). rewrite <- app_assoc in IH. cbn [app] in IH.
      rewrite map_app in IH. cbn [map fst snd] in IH. apply IH. assumption.
    + replace (acc ++ (k, v) :: kvs) with ((acc ++ [(k, v)]) ++ kvs) in H by (rewrite <- app_assoc; reflexivity).
      apply ssorted_app_l in H. apply ssorted_app_gt in H.
      apply forallb_gt_map. assumption.
Qed.

Lemma map_entries_spine : forall (pu : rval -> repr) (ge : repr -> option rval) (w : rval -> bool) (kvs : list (str * rval)),
  (forall v, w v = true -> ge (pu v) = Some v) ->
  forallb (fun kv => w (snd kv)) kvs = true ->
  map_entries ge (spine (map (fun kv => (fst kv, pu (snd kv))) kvs)) = Some kvs.
Proof.
  intros pu ge w kvs Hg. induction kvs as [|[k v] kvs IH]; intro Hw; cbn [map spine map_entries fst snd]; [reflexivity|].
  cbn [forallb snd] in Hw. apply andb_true_iff in Hw. destruct Hw as [H1 H2].
  cbn [Z.eqb Pos.eqb]. rewrite (Hg v H1). rewrite (IH H2). reflexivity.
Qed.

Lemma bt_insert_end : forall l k v,
  forallb (fun kv => str_gtb k (fst kv)) l = true -> bt_insert k v l = l ++ [(k, v)].
Proof.
  induction l as [|[k1 v1] l IH]; intros k v H; cbn [bt_insert app]; [reflexivity|].
  cbn [forallb fst] in H. apply andb_true_iff in H. destruct H as [H1 H2].
  unfold str_gtb in H1. destruct (str_cmp k k1); try discriminate.
  rewrite IH by assumption. reflexivity.
Qed.

Lemma bt_of_sorted_aux : forall (kvs acc : list (str * rval)),
  ssorted (acc ++ kvs) = true ->
  fold_left (fun acc kv => bt_insert (fst kv) (snd kv) acc) kvs acc = acc ++ kvs.
Proof.
  induction kvs as [|[k v] kvs IH]; intros acc H; cbn [fold_left].
  - rewrite app_nil_r. reflexivity.
  - cbn [fst snd]. rewrite bt_insert_end.
    + specialize (IH (acc ++ [(k, v)])). rewrite <- app_assoc in IH. cbn [app] in IH. apply IH. assumption.
    + replace (acc ++ (k, v) :: kvs) with ((acc ++ [(k, v)]) ++ kvs) in H by (rewrite <- app_assoc; reflexivity).
      apply ssorted_app_l in H. eapply ssorted_app_gt. eassumption.
Qed.

Lemma bt_of_sorted : forall kvs, ssorted kvs = true -> bt_of_list kvs = kvs.
Proof. intros kvs H. unfold bt_of_list. apply (bt_of_sorted_aux kvs []). assumption. Qed.

(* ---- induction principle for the nested type codes -------------------------------------------- *)

Section tcode_ind'.
  Variable P : tcode -> Prop.
  Hypothesis HPrim : forall p, P (TPrim p).
  Hypothesis HOption : forall t, P t -> P (TOption t).
  Hypothesis HResult : forall e t, P e -> P t -> P (TResult e t).
  Hypothesis HVec : forall t, P t -> P (TVec t).
  Hypothesis HMap : forall t, P t -> P (TMap t).
  Hypothesis HTuple : forall ts, Forall P ts -> P (TTuple ts).
  Hypothesis HStruct : forall n k fs, Forall (fun f => P (snd f)) fs -> P (TStruct n k fs).
  Hypothesis HEnum : forall n vs,
    Forall (fun vr => Forall (fun f => P (snd f)) (snd (snd vr))) vs -> P (TEnum n vs).

  Fixpoint tcode_ind' (t : tcode) : P t :=
    match t with
    | TPrim p => HPrim p
    | TOption t' => HOption t' (tcode_ind' t')
    | TResult e t' => HResult e t' (tcode_ind' e) (tcode_ind' t')
    | TVec t' => HVec t' (tcode_ind' t')
    | TMap t' => HMap t' (tcode_ind' t')
    | TTuple ts =>
        HTuple ts ((fix go (l : list tcode) : Forall P l :=
                      match l with
                      | [] => Forall_nil P
                      | x :: l' => Forall_cons x (tcode_ind' x) (go l')
                      end) ts)
    | TStruct n k fs =>
        HStruct n k fs ((fix go (l : list (str * tcode)) : Forall (fun f => P (snd f)) l :=
                           match l with
                           | [] => Forall_nil _
                           | x :: l' => Forall_cons x (tcode_ind' (snd x)) (go l')
                           end) fs)
    | TEnum n vs =>
        HEnum n vs
          ((fix gov (l : list (str * (skind * list (str * tcode))))
              : Forall (fun vr => Forall (fun f => P (snd f)) (snd (snd vr))) l :=
              match l with
              | [] => Forall_nil _
              | vr :: l' =>
                  Forall_cons vr
                    ((fix go (l : list (str * tcode)) : Forall (fun f => P (snd f)) l :=
                        match l with
                        | [] => Forall_nil _
                        | x :: l' => Forall_cons x (tcode_ind' (snd x)) (go l')
                        end) (snd (snd vr)))
                    (gov l')
              end) vs)
    end.
End tcode_ind'.

(* ---- get (push v) = v ------------------------------------------------------------------------- *)

Lemma get_push_prim : forall p v, wf_prim p v = true -> get_prim p (push_prim p v) = Some v.
Proof.
  intros p v H.
  destruct p; destruct v; cbn [wf_prim] in H; try discriminate; cbn [push_prim get_prim].
  - apply in_range_spec in H. rewrite (wrap_s_small 64) by (change (2 ^ (64 - 1)) with (2 ^ 63); lia). reflexivity.
  - apply in_range_spec in H. rewrite (wrap_s_small 32) by (change (2 ^ (32 - 1)) with (2 ^ 31); lia). reflexivity.
  - apply in_range_spec in H. rewrite (wrap_s_small 16) by (change (2 ^ (16 - 1)) with (2 ^ 15); lia). reflexivity.
  - apply in_range_spec in H. rewrite (wrap_s_small 64) by (change (2 ^ (64 - 1)) with (2 ^ 63); lia). reflexivity.
  - reflexivity.
  - apply in_range_spec in H. rewrite wrap_u_small by lia. reflexivity.
  - apply in_range_spec in H. rewrite wrap_u_small by lia. reflexivity.
  - apply in_range_spec in H. rewrite wrap_u_wrap_s by lia. reflexivity.
  - apply in_range_spec in H. rewrite wrap_u_wrap_s by lia. reflexivity.
  - reflexivity.
  - apply andb_true_iff in H. destruct H as [H1 H2]. apply in_range_spec in H1. apply negb_true_iff in H2.
    rewrite f32_roundtrip by assumption. reflexivity.
  - destruct b; reflexivity.
  - pose proof (is_scalar_range z H) as R.
    rewrite wrap_u_small by (change (2 ^ 32) with 4294967296; lia). rewrite H. reflexivity.
  - reflexivity.
  - reflexivity.
  - cbn [data_view]. rewrite H. reflexivity.
Qed.

Lemma forallb_impl : forall {A} (f g : A -> bool) l, (forall x, f x = true -> g x = true) -> forallb f l = true -> forallb g l = true.
Proof.
  intros A f g l Hfg. induction l as [|x l IH]; cbn; intro H; [reflexivity|].
  apply andb_true_iff in H. destruct H as [H1 H2]. rewrite (Hfg x H1), (IH H2). reflexivity.
Qed.

Lemma Forall_forallb_imp : forall {A} (P : A -> Prop) (f : A -> bool) (Q : A -> Prop) l,
  Forall P l -> forallb f l = true -> (forall x, P x -> f x = true -> Q x) -> Forall Q l.
Proof.
  intros A P f Q l HF Hb Himp. rewrite Forall_forall in *. rewrite forallb_forall in Hb. intros x Hin. auto.
Qed.

Lemma all2_nil_l : forall {A B} (f : A -> B -> bool) xs, all2 f [] xs = true -> xs = [].
Proof. intros A B f xs H. destruct xs; [reflexivity | discriminate]. Qed.

Lemma length_zero_nil : forall {A} (l : list A), Nat.eqb (length l) 0 = true -> l = [].
Proof. intros A l H. destruct l; [reflexivity | discriminate]. Qed.

Definition rt_ok (t : tcode) : Prop := forall v, wf_type t = true -> wf t v = true -> get t (push t v) = Some v.

Lemma rt_fields : forall (fs : list (str * tcode)),
  Forall (fun f => rt_ok (snd f)) fs -> forallb (fun f => wf_type (snd f)) fs = true ->
  Forall (fun f => forall v, wf (snd f) v = true -> get (snd f) (push (snd f) v) = Some v) fs.
Proof.
  intros fs HF Hb. eapply Forall_forallb_imp; [exact HF | exact Hb |].
  intros f Hf Hwt v Hw. apply Hf; assumption.
Qed.

Theorem get_push : forall t v, wf_type t = true -> wf t v = true -> get t (push t v) = Some v.
Proof.
  intro t. change (rt_ok t).
  induction t using tcode_ind'; intros v Ht Hw.
  - apply get_push_prim. exact Hw.
  - (* Option *)
    cbn [wf_type] in Ht. destruct v; cbn [wf] in Hw; try discriminate; cbn [push get data_view].
    + reflexivity.
    + change (1 =? 0) with false. cbv iota. rewrite IHt by assumption. reflexivity.
  - (* Result *)
    cbn [wf_type] in Ht. apply andb_true_iff in Ht. destruct Ht as [Ht1 Ht2].
    destruct v; cbn [wf] in Hw; try discriminate; cbn [push get data_view].
    + change (1 =? 0) with false. change (1 =? 1) with true. cbv iota. rewrite IHt2 by assumption. reflexivity.
    + change (0 =? 0) with true. cbv iota. rewrite IHt1 by assumption. reflexivity.
  - (* Vec *)
    cbn [wf_type] in Ht. destruct v; cbn [wf] in Hw; try discriminate. cbn [push get]. unfold mk_array.
    rewrite (mapo_map (push t) (get t) (wf t)); [reflexivity | | assumption].
    intros x Hx. apply IHt; assumption.
  - (* Map *)
    cbn [wf_type] in Ht. destruct v; cbn [wf] in Hw; try discriminate.
    apply andb_true_iff in Hw. destruct Hw as [Hw1 Hw2].
    cbn [push get].
    pose proof (push_map_spine (push t) kvs [] Hw2) as Hp. cbn [map spine app] in Hp. rewrite Hp.
    rewrite (map_entries_spine (push t) (get t) (wf t)).
    + cbn [omap]. rewrite bt_of_sorted by assumption. reflexivity.
    + intros x Hx. apply IHt; assumption.
    + eapply forallb_impl; [|exact Hw1]. intros kv Hkv. cbn beta in Hkv. apply andb_true_iff in Hkv. tauto.
  - (* Tuple *)
    cbn [wf_type] in Ht. apply andb_true_iff in Ht. destruct Ht as [_ Ht].
    destruct v; cbn [wf] in Hw; try discriminate. cbn [push get data_view].
    pose proof (all2_length _ _ _ Hw) as Hl.
    rewrite zipw_length by assumption. rewrite Nat.eqb_refl.
    rewrite (zipo_zipw push get wf); [reflexivity | | assumption].
    eapply Forall_forallb_imp; [exact H | exact Ht |]. intros a Ha Hwt x Hx. apply Ha; assumption.
  - (* Struct *)
    cbn [wf_type] in Ht. apply andb_true_iff in Ht. destruct Ht as [Htf Htk].
    pose proof (rt_fields fs H Htf) as HF.
    destruct v; cbn [wf] in Hw; try discriminate.
    destruct k.
    + (* named *)
      apply andb_true_iff in Htk. destruct Htk as [_ Hnd].
      assert (E : push (TStruct n KNamed fs) (VSeq vs) = RRecord (map fst fs) (zipw (fun f x => push (snd f) x) fs vs)).
      { cbn [push]. destruct fs as [|[? ?] [|? ?]]; reflexivity. }
      rewrite E.
      assert (E2 : forall r, get (TStruct n KNamed fs) r =
                match data_view r with
                | Some (_, (names, vals)) =>
                    omap VSeq (mapo (fun f => match lookup (fst f) names vals with
                                               | Some r' => get (snd f) r'
                                               | None => None
                                               end) fs)
                | None => None
                end).
      { intro r. cbn [get]. destruct fs as [|[? ?] [|? ?]]; reflexivity. }
      rewrite E2. cbn [data_view].
      rewrite (named_roundtrip0 push get wf) by assumption. reflexivity.
    + (* tuple struct *)
      destruct fs as [|[n1 t1] [|f2 fs]].
      * apply all2_nil_l in Hw. subst. reflexivity.
      * destruct vs as [|x [|? ?]]; cbn [all2] in Hw; rewrite ?andb_false_r in Hw; try discriminate.
        rewrite andb_true_r in Hw. inversion HF as [|? ? Hf ?]; subst. cbn [snd] in Hf.
        cbn [push get]. rewrite (Hf x Hw). reflexivity.
      * set (fs' := (n1, t1) :: f2 :: fs) in *.
        assert (E : push (TStruct n KTuple fs') (VSeq vs) = RRecord (tuple_names (length fs')) (zipw (fun f x => push (snd f) x) fs' vs)) by reflexivity.
        assert (E2 : forall r, get (TStruct n KTuple fs') r =
                  match data_view r with
                  | Some (_, (_, vals)) => omap VSeq (zipo (fun f x => get (snd f) x) fs' vals)
                  | None => None
                  end) by reflexivity.
        rewrite E, E2. cbn [data_view].
        rewrite (zipo_zipw (fun f x => push (snd f) x) (fun f x => get (snd f) x) (fun f x => wf (snd f) x)) by assumption.
        reflexivity.
    + (* unit struct *)
      apply length_zero_nil in Htk. subst fs. apply all2_nil_l in Hw. subst. reflexivity.
  - (* Enum *)
    cbn [wf_type] in Ht. apply andb_true_iff in Ht. destruct Ht as [_ Ht].
    destruct v; cbn [wf] in Hw; try discriminate.
    rewrite sel_spec in Hw.
    cbn [push get]. rewrite sel_spec.
    destruct (nth_error vs idx) as [vr|] eqn:En; [|discriminate].
    pose proof (nth_error_Forall _ _ _ _ H En) as HFv.
    pose proof (forallb_nth _ _ _ _ Ht En) as Hwv. cbn beta in Hwv.
    apply andb_true_iff in Hwv. destruct Hwv as [Hwf Hwk].
    pose proof (rt_fields _ HFv Hwf) as HF.
    destruct vr as [vn [k fs]]. cbn [fst snd] in *.
    assert (Hview : forall fields, data_view (push_variant k (0 + Z.of_nat idx) (map fst fs) fields) =
              Some (Z.of_nat idx, ([], match k with KNamed => [RRecord (map fst fs) fields] | _ => fields end))).
    { intro fields. destruct k; reflexivity. }
    rewrite Hview.
    replace (Z.of_nat idx <? 0) with false by (symmetry; apply Z.ltb_ge; lia).
    rewrite sel_spec. rewrite Nat2Z.id. rewrite En. cbn [fst snd]. rewrite Z.add_0_l, Nat2Z.id.
    destruct k.
    + apply andb_true_iff in Hwk. destruct Hwk as [_ Hnd].
      cbn [data_view]. rewrite (named_roundtrip0 push get wf) by assumption. reflexivity.
    + rewrite (zipo_zipw (fun f x => push (snd f) x) (fun f x => get (snd f) x) (fun f x => wf (snd f) x)) by assumption.
      reflexivity.
    + apply length_zero_nil in Hwk. subst fs. apply all2_nil_l in Hw. subst. reflexivity.
Qed.

(* The excluded class: an f32 signalling NaN comes back with its quiet bit set. *)
Theorem get_push_f32_snan_refuted :
  exists v, in_range 0 (2 ^ 32) (match v with VFloat b => b | _ => -1 end) = true /\
            get TF32 (push TF32 v) <> Some v.
Proof.
  exists (VFloat 2139095041). split; [reflexivity|].
  cbn [push push_prim get get_prim]. rewrite f32_snan_lossy. discriminate.
Qed.

(* ---- the pushed value has the corresponding Gluon type ------------------------------------------ *)

Lemma all2_map_zipw : forall {A} (g : A -> gty) (pu : A -> rval -> repr) (w : A -> rval -> bool) l xs,
  Forall (fun a => forall v, w a v = true -> shape_ok (g a) (pu a v) = true) l ->
  all2 w l xs = true -> all2 shape_ok (map g l) (zipw pu l xs) = true.
Proof.
  induction l as [|a l IH]; destruct xs as [|x xs]; cbn; intros HF H; try discriminate; [reflexivity|].
  apply andb_true_iff in H. destruct H as [H1 H2]. inversion HF as [|? ? Ha HF']; subst.
  rewrite (Ha x H1), (IH xs HF' H2). reflexivity.
Qed.

Lemma all2_named_map_zipw : forall {A} (nm : A -> str) (g : A -> gty) (pu : A -> rval -> repr) (w : A -> rval -> bool) l xs,
  Forall (fun a => forall v, w a v = true -> shape_ok (g a) (pu a v) = true) l ->
  all2 w l xs = true ->
  all2 (fun (f : str * gty) x => shape_ok (snd f) x) (map (fun a => (nm a, g a)) l) (zipw pu l xs) = true.
Proof.
  induction l as [|a l IH]; destruct xs as [|x xs]; cbn; intros HF H; try discriminate; [reflexivity|].
  apply andb_true_iff in H. destruct H as [H1 H2]. inversion HF as [|? ? Ha HF']; subst.
  rewrite (Ha x H1), (IH xs HF' H2). reflexivity.
Qed.

Lemma all2_combine : forall (names : list str) (gs : list gty) (vals : list repr),
  length names = length gs ->
  all2 (fun (f : str * gty) x => shape_ok (snd f) x) (combine names gs) vals = all2 shape_ok gs vals.
Proof.
  induction names as [|n names IH]; destruct gs as [|g gs]; cbn; intros vals H; try discriminate; [reflexivity|].
  destruct vals as [|v vals]; [reflexivity|]. rewrite IH by lia. reflexivity.
Qed.

Lemma map_fst_combine : forall {A B} (a : list A) (b : list B), length a = length b -> map fst (combine a b) = a.
Proof.
  induction a as [|x a IH]; destruct b as [|y b]; cbn; intro H; try discriminate; [reflexivity|].
  f_equal. apply IH. lia.
Qed.

Lemma tuple_names_length : forall n, length (tuple_names n) = n.
Proof. intro n. unfold tuple_names. rewrite map_length, seq_length. reflexivity. Qed.

Lemma shape_record : forall fs names vals,
  str_list_eqb names (map fst fs) = true ->
  all2 (fun (f : str * gty) x => shape_ok (snd f) x) fs vals = true ->
  shape_ok (GRecord fs) (RRecord names vals) = true.
Proof.
  intros fs names vals H1 H2. destruct fs; [reflexivity|].
  cbn [shape_ok]. rewrite H1, H2. reflexivity.
Qed.

Lemma shape_tuple_record : forall gs vals,
  all2 shape_ok gs vals = true ->
  shape_ok (GRecord (named_tuple gs)) (RRecord (tuple_names (length gs)) vals) = true.
Proof.
  intros gs vals H. apply shape_record.
  - unfold named_tuple. rewrite map_fst_combine by apply tuple_names_length. apply str_list_eqb_refl.
  - unfold named_tuple. rewrite all2_combine by apply tuple_names_length. assumption.
Qed.

Lemma map_shape_spine : forall (ok : repr -> bool) (l : list (str * repr)),
  forallb (fun kv => forallb is_byte (fst kv) && ok (snd kv)) l = true -> map_shape ok (spine l) = true.
Proof.
  intros ok l. induction l as [|[k v] l IH]; cbn [spine map_shape forallb fst snd]; intro H; [reflexivity|].
  apply andb_true_iff in H. destruct H as [H1 H2]. apply andb_true_iff in H1. destruct H1 as [Hk Hv].
  change (1 =? 0) with false. change (1 =? 1) with true. cbv iota.
  rewrite Hk, Hv, (IH H2). reflexivity.
Qed.

Lemma push_shape_prim : forall p v, wf_prim p v = true -> shape_ok (gluon_prim p) (push_prim p v) = true.
Proof.
  intros p v H.
  assert (R64 : forall z, in_range (- 2 ^ 63) (2 ^ 63) (wrap_s 64 z) = true).
  { intro z. apply in_range_spec. apply (wrap_s_range 64). lia. }
  destruct p; destruct v; cbn [wf_prim] in H; try discriminate; cbn [push_prim gluon_prim shape_ok]; try apply R64.
  - exact H.
  - exact H.
  - apply andb_true_iff in H. destruct H as [H1 _]. apply in_range_spec in H1.
    apply in_range_spec. apply f32_widen_range. assumption.
  - destruct b; reflexivity.
  - pose proof (is_scalar_range z H) as R. rewrite wrap_s_id by (change (2 ^ (64 - 1)) with 9223372036854775808; lia). exact H.
  - exact H.
  - reflexivity.
  - apply in_range_spec in H. assert (z = 0 \/ z = 1 \/ z = 2) as [E|[E|E]] by lia; subst; reflexivity.
Qed.

Definition sh_ok (t : tcode) : Prop :=
  forall v, wf_type t = true -> wf t v = true -> shape_ok (gluon_ty t) (push t v) = true.

Lemma sh_fields : forall (fs : list (str * tcode)),
  Forall (fun f => sh_ok (snd f)) fs -> forallb (fun f => wf_type (snd f)) fs = true ->
  Forall (fun f => forall v, wf (snd f) v = true -> shape_ok (gluon_ty (snd f)) (push (snd f) v) = true) fs.
Proof.
  intros fs HF Hb. eapply Forall_forallb_imp; [exact HF | exact Hb |].
  intros f Hf Hwt v Hw. apply Hf; assumption.
Qed.

Theorem push_shape : forall t v, wf_type t = true -> wf t v = true -> shape_ok (gluon_ty t) (push t v) = true.
Proof.
  intro t. change (sh_ok t).
  induction t using tcode_ind'; intros v Ht Hw.
  - apply push_shape_prim. exact Hw.
  - cbn [wf_type] in Ht. destruct v; cbn [wf] in Hw; try discriminate; cbn [push gluon_ty].
    + reflexivity.
    + cbn. rewrite IHt by assumption. reflexivity.
  - cbn [wf_type] in Ht. apply andb_true_iff in Ht. destruct Ht as [Ht1 Ht2].
    destruct v; cbn [wf] in Hw; try discriminate; cbn [push gluon_ty].
    + cbn. rewrite IHt2 by assumption. reflexivity.
    + cbn. rewrite IHt1 by assumption. reflexivity.
  - cbn [wf_type] in Ht. destruct v; cbn [wf] in Hw; try discriminate. cbn [push gluon_ty shape_ok]. unfold mk_array.
    apply andb_true_iff. split.
    + rewrite forallb_forall. intros r Hin. apply in_map_iff in Hin. destruct Hin as (x & E & Hin). subst r.
      rewrite forallb_forall in Hw. apply IHt; auto.
    + destruct (map (push t) vs); [reflexivity|]. destruct (kind_of r); reflexivity.
  - cbn [wf_type] in Ht. destruct v; cbn [wf] in Hw; try discriminate.
    apply andb_true_iff in Hw. destruct Hw as [Hw1 Hw2].
    cbn [push gluon_ty shape_ok].
    pose proof (push_map_spine (push t) kvs [] Hw2) as Hp. cbn [map spine app] in Hp. rewrite Hp.
    apply map_shape_spine. rewrite forallb_forall. intros kv Hin. apply in_map_iff in Hin.
    destruct Hin as (kv' & E & Hin). subst kv. cbn [fst snd].
    rewrite forallb_forall in Hw1. specialize (Hw1 kv' Hin). cbn beta in Hw1.
    apply andb_true_iff in Hw1. destruct Hw1 as [Hk Hv]. apply andb_true_iff. split; [exact Hk | apply IHt; assumption].
  - cbn [wf_type] in Ht. apply andb_true_iff in Ht. destruct Ht as [_ Ht].
    destruct v; cbn [wf] in Hw; try discriminate. cbn [push gluon_ty].
    rewrite <- (map_length gluon_ty ts). apply shape_tuple_record.
    apply (all2_map_zipw gluon_ty push wf); [|assumption].
    eapply Forall_forallb_imp; [exact H | exact Ht |]. intros a Ha Hwt x Hx. apply Ha; assumption.
  - cbn [wf_type] in Ht. apply andb_true_iff in Ht. destruct Ht as [Htf Htk].
    pose proof (sh_fields fs H Htf) as HF.
    destruct v; cbn [wf] in Hw; try discriminate.
    destruct k.
    + assert (E : push (TStruct n KNamed fs) (VSeq vs) = RRecord (map fst fs) (zipw (fun f x => push (snd f) x) fs vs)).
      { cbn [push]. destruct fs as [|[? ?] [|? ?]]; reflexivity. }
      assert (E2 : gluon_ty (TStruct n KNamed fs) = GRecord (map (fun f => (fst f, gluon_ty (snd f))) fs)).
      { cbn [gluon_ty]. destruct fs as [|[? ?] [|? ?]]; reflexivity. }
      rewrite E, E2. apply shape_record.
      * rewrite map_map. cbn [fst]. apply str_list_eqb_refl.
      * apply (all2_named_map_zipw fst (fun f => gluon_ty (snd f)) (fun f x => push (snd f) x) (fun f x => wf (snd f) x)); assumption.
    + destruct fs as [|[n1 t1] [|f2 fs]].
      * reflexivity.
      * destruct vs as [|x [|? ?]]; cbn [all2] in Hw; rewrite ?andb_false_r in Hw; try discriminate.
        rewrite andb_true_r in Hw. inversion HF as [|? ? Hf ?]; subst. cbn [snd] in Hf.
        cbn [push gluon_ty]. apply Hf. assumption.
      * set (fs' := (n1, t1) :: f2 :: fs) in *.
        change (shape_ok (GRecord (named_tuple (map (fun f => gluon_ty (snd f)) fs')))
                  (RRecord (tuple_names (length fs')) (zipw (fun f x => push (snd f) x) fs' vs)) = true).
        rewrite <- (map_length (fun f => gluon_ty (snd f)) fs'). apply shape_tuple_record.
        apply (all2_map_zipw (fun f => gluon_ty (snd f)) (fun f x => push (snd f) x) (fun f x => wf (snd f) x)); assumption.
    + cbn [gluon_ty]. destruct fs as [|[? ?] [|? ?]]; reflexivity.
  - cbn [wf_type] in Ht. apply andb_true_iff in Ht. destruct Ht as [_ Ht].
    destruct v; cbn [wf] in Hw; try discriminate.
    rewrite sel_spec in Hw.
    cbn [push gluon_ty]. rewrite sel_spec.
    destruct (nth_error vs idx) as [vr|] eqn:En; [|discriminate].
    pose proof (nth_error_Forall _ _ _ _ H En) as HFv.
    pose proof (forallb_nth _ _ _ _ Ht En) as Hwv. cbn beta in Hwv.
    apply andb_true_iff in Hwv. destruct Hwv as [Hwf Hwk].
    pose proof (sh_fields _ HFv Hwf) as HF.
    destruct vr as [vn [k fs]]. cbn [fst snd] in *.
    cbn [shape_ok].
    assert (Hview : forall fields, data_view (push_variant k (0 + Z.of_nat idx) (map fst fs) fields) =
              Some (Z.of_nat idx, ([], match k with KNamed => [RRecord (map fst fs) fields] | _ => fields end))).
    { intro fields. destruct k; reflexivity. }
    rewrite Hview.
    replace (Z.of_nat idx <? 0) with false by (symmetry; apply Z.ltb_ge; lia).
    rewrite sel_spec. rewrite Nat2Z.id. rewrite nth_error_map, En. cbn [option_map fst snd].
    destruct k.
    + cbn [all2]. rewrite andb_true_r. apply shape_record.
      * rewrite map_map. cbn [fst]. apply str_list_eqb_refl.
      * apply (all2_named_map_zipw fst (fun f => gluon_ty (snd f)) (fun f x => push (snd f) x) (fun f x => wf (snd f) x)); assumption.
    + apply (all2_map_zipw (fun f => gluon_ty (snd f)) (fun f x => push (snd f) x) (fun f x => wf (snd f) x)); assumption.
    + apply length_zero_nil in Hwk. subst fs. reflexivity.
Qed.

(* ---- signature check -------------------------------------------------------------------------- *)

Section gty_ind'.
  Variable P : gty -> Prop.
  Hypothesis HInt : P GInt.
  Hypothesis HByte : P GByte.
  Hypothesis HFloat : P GFloat.
  Hypothesis HString : P GString.
  Hypothesis HChar : P GChar.
  Hypothesis HArray : forall g, P g -> P (GArray g).
  Hypothesis HMap : forall g, P g -> P (GMap g).
  Hypothesis HRecord : forall fs, Forall (fun f => P (snd f)) fs -> P (GRecord fs).
  Hypothesis HVariant : forall vs, Forall (fun vr => Forall P (snd vr)) vs -> P (GVariant vs).

  Fixpoint gty_ind' (g : gty) : P g :=
    match g with
    | GInt => HInt | GByte => HByte | GFloat => HFloat | GString => HString | GChar => HChar
    | GArray g' => HArray g' (gty_ind' g')
    | GMap g' => HMap g' (gty_ind' g')
    | GRecord fs =>
        HRecord fs ((fix go (l : list (str * gty)) : Forall (fun f => P (snd f)) l :=
                       match l with
                       | [] => Forall_nil _
                       | x :: l' => Forall_cons x (gty_ind' (snd x)) (go l')
                       end) fs)
    | GVariant vs =>
        HVariant vs ((fix gov (l : list (str * list gty)) : Forall (fun vr => Forall P (snd vr)) l :=
                        match l with
                        | [] => Forall_nil _
                        | vr :: l' =>
                            Forall_cons vr
                              ((fix go (l : list gty) : Forall P l :=
                                  match l with
                                  | [] => Forall_nil _
                                  | x :: l' => Forall_cons x (gty_ind' x) (go l')
                                  end) (snd vr))
                              (gov l')
                        end) vs)
    end.
End gty_ind'.

Lemma all2_eq : forall {A} (eqb : A -> A -> bool) (l1 l2 : list A),
  Forall (fun a => forall b, eqb a b = true -> a = b) l1 -> all2 eqb l1 l2 = true -> l1 = l2.
Proof.
  induction l1 as [|a l1 IH]; destruct l2 as [|b l2]; cbn; intros HF H; try discriminate; [reflexivity|].
  apply andb_true_iff in H. destruct H as [H1 H2]. inversion HF as [|? ? Ha HF']; subst.
  f_equal; [apply Ha; assumption | apply IH; assumption].
Qed.

Lemma all2_refl : forall {A} (eqb : A -> A -> bool) (l : list A),
  Forall (fun a => eqb a a = true) l -> all2 eqb l l = true.
Proof.
  induction l as [|a l IH]; cbn; intro HF; [reflexivity|].
  inversion HF; subst. rewrite H1. cbn. auto.
Qed.

Lemma gty_eqb_sound : forall a b, gty_eqb a b = true -> a = b.
Proof.
  induction a using gty_ind'; destruct b; cbn [gty_eqb]; intro E; try discriminate; try reflexivity.
  - f_equal. auto.
  - f_equal. auto.
  - f_equal. eapply all2_eq; [|exact E].
    rewrite Forall_forall in *. intros [n g] Hin [n' g'] Hb. cbn [fst snd] in Hb.
    apply andb_true_iff in Hb. destruct Hb as [Hb1 Hb2]. apply str_eqb_eq in Hb1.
    specialize (H (n, g) Hin). cbn [snd] in H. f_equal; auto.
  - f_equal. eapply all2_eq; [|exact E].
    rewrite Forall_forall in *. intros [n gs] Hin [n' gs'] Hb. cbn [fst snd] in Hb.
    apply andb_true_iff in Hb. destruct Hb as [Hb1 Hb2]. apply str_eqb_eq in Hb1.
    specialize (H (n, gs) Hin). cbn [snd] in H. f_equal; [assumption|].
    eapply all2_eq; [|exact Hb2]. exact H.
Qed.

Lemma gty_eqb_refl : forall a, gty_eqb a a = true.
Proof.
  induction a using gty_ind'; cbn [gty_eqb]; try reflexivity; try assumption.
  - apply all2_refl. rewrite Forall_forall in *. intros [n g] Hin. cbn [fst snd].
    rewrite str_eqb_refl. cbn. apply (H (n, g) Hin).
  - apply all2_refl. rewrite Forall_forall in *. intros [n gs] Hin. cbn [fst snd].
    rewrite str_eqb_refl. cbn. apply all2_refl. apply (H (n, gs) Hin).
Qed.

Theorem sig_ok_iff : forall t g, sig_ok t g = true <-> gluon_ty t = g.
Proof.
  intros t g. unfold sig_ok. split; [apply gty_eqb_sound | intro E; subst; apply gty_eqb_refl].
Qed.

(* A request at a Rust type whose Gluon type differs from the global's is refused. *)
Theorem sig_refuses : forall t t', gluon_ty t <> gluon_ty t' -> sig_ok t (gluon_ty t') = false.
Proof.
  intros t t' H. destruct (sig_ok t (gluon_ty t')) eqn:E; [|reflexivity].
  apply sig_ok_iff in E. contradiction.
Qed.

(* The documented equivalences: Rust types with the same Gluon type are interchangeable. *)
Theorem sig_accepts : forall t t', gluon_ty t = gluon_ty t' -> sig_ok t (gluon_ty t') = true.
Proof. intros t t' H. apply sig_ok_iff. assumption. Qed.

(* What an accepted request is handed has the Gluon type of the requested Rust type. *)
Theorem sig_ok_shape : forall t t' v, sig_ok t (gluon_ty t') = true -> wf_type t' = true -> wf t' v = true ->
  shape_ok (gluon_ty t) (push t' v) = true.
Proof.
  intros t t' v H Ht Hw. apply sig_ok_iff in H. rewrite H. apply push_shape; assumption.
Qed.

(* e.g. distinct primitive representations are never confused *)
Lemma sig_examples :
  sig_ok TI32 (gluon_ty TU64) = true /\ sig_ok TF32 (gluon_ty TF64) = true /\
  sig_ok TI64 (gluon_ty TF64) = false /\ sig_ok TU8 (gluon_ty TI64) = false /\
  sig_ok TChar (gluon_ty TI64) = false /\ sig_ok (TOption TI64) (gluon_ty (TResult TI64 TI64)) = false /\
  sig_ok (TVec TU8) (gluon_ty TString) = false.
Proof. repeat split; reflexivity. Qed.

(* ---- serde bridge ----------------------------------------------------------------------------- *)

Lemma cls_fields : forall (c : tcode -> bool) (Q : tcode -> rval -> Prop) (fs : list (str * tcode)),
  Forall (fun f => forall v, c (snd f) = true -> wf_type (snd f) = true -> wf (snd f) v = true -> Q (snd f) v) fs ->
  forallb (fun f => c (snd f)) fs = true -> forallb (fun f => wf_type (snd f)) fs = true ->
  Forall (fun f => forall v, wf (snd f) v = true -> Q (snd f) v) fs.
Proof.
  intros c Q fs HF Hc Hw. rewrite Forall_forall in *. rewrite forallb_forall in Hc, Hw.
  intros f Hin v Hv. apply HF; auto.
Qed.

Lemma ser_class_named : forall n fs, ser_class (TStruct n KNamed fs) = forallb (fun f => ser_class (snd f)) fs.
Proof. intros n fs. cbn [ser_class]. destruct fs as [|[? ?] [|? ?]]; reflexivity. Qed.
Lemma ser_named : forall n fs vs,
  ser (TStruct n KNamed fs) (VSeq vs) = RRecord (map fst fs) (zipw (fun f x => ser (snd f) x) fs vs).
Proof. intros n fs vs. cbn [ser]. destruct fs as [|[? ?] [|? ?]]; reflexivity. Qed.
Lemma gluon_ty_named : forall n fs,
  gluon_ty (TStruct n KNamed fs) = GRecord (map (fun f => (fst f, gluon_ty (snd f))) fs).
Proof. intros n fs. cbn [gluon_ty]. destruct fs as [|[? ?] [|? ?]]; reflexivity. Qed.
Lemma get_named_eq : forall n fs r,
  get (TStruct n KNamed fs) r =
  match data_view r with
  | Some (_, (names, vals)) =>
      omap VSeq (mapo (fun f => match lookup (fst f) names vals with
                                 | Some r' => get (snd f) r'
                                 | None => None
                                 end) fs)
  | None => None
  end.
Proof. intros n fs r. cbn [get]. destruct fs as [|[? ?] [|? ?]]; reflexivity. Qed.
Lemma de_named_eq : forall n fs r,
  de (TStruct n KNamed fs) r =
  match r with
  | RRecord names vals =>
      omap VSeq (mapo (fun f => match lookup (fst f) names vals with
                                 | Some r' => de (snd f) r'
                                 | None => None
                                 end) fs)
  | _ => None
  end.
Proof. intros n fs r. cbn [de]. destruct fs as [|[? ?] [|? ?]]; reflexivity. Qed.
Lemma de_class_named : forall n fs, de_class (TStruct n KNamed fs) = forallb (fun f => de_class (snd f)) fs.
Proof. intros n fs. cbn [de_class]. destruct fs as [|[? ?] [|? ?]]; reflexivity. Qed.
Lemma push_named : forall n fs vs,
  push (TStruct n KNamed fs) (VSeq vs) = RRecord (map fst fs) (zipw (fun f x => push (snd f) x) fs vs).
Proof. intros n fs vs. cbn [push]. destruct fs as [|[? ?] [|? ?]]; reflexivity. Qed.

Lemma ser_shape_prim : forall p v, ser_class (TPrim p) = true -> wf_prim p v = true ->
  shape_ok (gluon_prim p) (ser_prim p v) = true.
Proof.
  intros p v Hc H.
  assert (R64 : forall z, in_range (- 2 ^ 63) (2 ^ 63) (wrap_s 64 z) = true).
  { intro z. apply in_range_spec. apply (wrap_s_range 64). lia. }
  destruct p; cbn [ser_class] in Hc; try discriminate;
    destruct v; cbn [wf_prim] in H; try discriminate; cbn [ser_prim gluon_prim shape_ok]; try apply R64.
  - exact H.
  - apply andb_true_iff in H. destruct H as [H1 _]. apply in_range_spec in H1.
    apply in_range_spec. apply f32_widen_range. assumption.
  - destruct b; reflexivity.
  - exact H.
  - reflexivity.
Qed.

(* On the faithful class `Ser` gives Gluon a value of the Gluon type of T ... *)
Theorem ser_shape : forall t v, ser_class t = true -> wf_type t = true -> wf t v = true ->
  shape_ok (gluon_ty t) (ser t v) = true.
Proof.
  induction t using tcode_ind'; intros v Hc Ht Hw; cbn [ser_class] in Hc; try discriminate.
  - apply ser_shape_prim; assumption.
  - cbn [wf_type] in Ht. apply andb_true_iff in Ht. destruct Ht as [Htf Htk].
    destruct v; cbn [wf] in Hw; try discriminate.
    destruct k.
    + rewrite <- (ser_class_named n) in Hc. rewrite ser_class_named in Hc.
      pose proof (cls_fields ser_class (fun t v => shape_ok (gluon_ty t) (ser t v) = true) fs H Hc Htf) as HF.
      rewrite ser_named, gluon_ty_named. apply shape_record.
      * rewrite map_map. cbn [fst]. apply str_list_eqb_refl.
      * apply (all2_named_map_zipw fst (fun f => gluon_ty (snd f)) (fun f x => ser (snd f) x) (fun f x => wf (snd f) x)); assumption.
    + destruct fs as [|[n1 t1] [|f2 fs]]; try discriminate.
      destruct vs as [|x [|? ?]]; cbn [all2] in Hw; rewrite ?andb_false_r in Hw; try discriminate.
      rewrite andb_true_r in Hw. inversion H as [|? ? Hf ?]; subst. cbn [snd] in Hf.
      cbn [forallb snd] in Htf. rewrite andb_true_r in Htf.
      cbn [ser gluon_ty]. apply Hf; assumption.
    + cbn [gluon_ty]. destruct fs as [|[? ?] [|? ?]]; reflexivity.
  - cbn [wf_type] in Ht. apply andb_true_iff in Ht. destruct Ht as [_ Ht].
    destruct v; cbn [wf] in Hw; try discriminate.
    rewrite sel_spec in Hw.
    cbn [ser gluon_ty]. rewrite sel_spec.
    destruct (nth_error vs idx) as [vr|] eqn:En; [|discriminate].
    pose proof (nth_error_Forall _ _ _ _ H En) as HFv.
    pose proof (forallb_nth _ _ _ _ Ht En) as Hwv. cbn beta in Hwv.
    pose proof (forallb_nth _ _ _ _ Hc En) as Hcv. cbn beta in Hcv.
    apply andb_true_iff in Hwv. destruct Hwv as [Hwf Hwk].
    pose proof (cls_fields ser_class (fun t v => shape_ok (gluon_ty t) (ser t v) = true) _ HFv Hcv Hwf) as HF.
    destruct vr as [vn [k fs]]. cbn [fst snd] in *.
    cbn [shape_ok].
    destruct k; cbn [data_view];
      (replace (0 + Z.of_nat idx <? 0) with false by (symmetry; apply Z.ltb_ge; lia));
      rewrite sel_spec; rewrite Z.add_0_l, Nat2Z.id; rewrite nth_error_map, En; cbn [option_map fst snd].
    + cbn [all2]. rewrite andb_true_r. apply shape_record.
      * rewrite map_map. cbn [fst]. apply str_list_eqb_refl.
      * apply (all2_named_map_zipw fst (fun f => gluon_ty (snd f)) (fun f x => ser (snd f) x) (fun f x => wf (snd f) x)); assumption.
    + apply (all2_map_zipw (fun f => gluon_ty (snd f)) (fun f x => ser (snd f) x) (fun f x => wf (snd f) x)); assumption.
    + reflexivity.
Qed.

Lemma get_ser_prim : forall p v, ser_class (TPrim p) = true -> wf_prim p v = true ->
  get_prim p (ser_prim p v) = Some v.
Proof.
  intros p v Hc H.
  destruct p; cbn [ser_class] in Hc; try discriminate;
    destruct v; cbn [wf_prim] in H; try discriminate; cbn [ser_prim get_prim].
  - apply in_range_spec in H. rewrite (wrap_s_small 64) by (change (2 ^ (64 - 1)) with (2 ^ 63); lia). reflexivity.
  - apply in_range_spec in H. rewrite (wrap_s_small 32) by (change (2 ^ (32 - 1)) with (2 ^ 31); lia). reflexivity.
  - apply in_range_spec in H. rewrite (wrap_s_small 16) by (change (2 ^ (16 - 1)) with (2 ^ 15); lia). reflexivity.
  - apply in_range_spec in H. rewrite (wrap_s_small 64) by (change (2 ^ (64 - 1)) with (2 ^ 63); lia). reflexivity.
  - apply in_range_spec in H. rewrite wrap_u_small by lia. reflexivity.
  - apply in_range_spec in H. rewrite wrap_u_small by lia. reflexivity.
  - apply in_range_spec in H. rewrite wrap_u_wrap_s by lia. reflexivity.
  - apply in_range_spec in H. rewrite wrap_u_wrap_s by lia. reflexivity.
  - reflexivity.
  - apply andb_true_iff in H. destruct H as [H1 H2]. apply in_range_spec in H1. apply negb_true_iff in H2.
    rewrite f32_roundtrip by assumption. reflexivity.
  - destruct b; reflexivity.
  - reflexivity.
  - reflexivity.
Qed.

(* ... which `Getable` reads back as the original (so a Gluon identity function returns it). *)
Theorem get_ser : forall t v, ser_class t = true -> wf_type t = true -> wf t v = true ->
  get t (ser t v) = Some v.
Proof.
  induction t using tcode_ind'; intros v Hc Ht Hw; cbn [ser_class] in Hc; try discriminate.
  - apply get_ser_prim; assumption.
  - cbn [wf_type] in Ht. apply andb_true_iff in Ht. destruct Ht as [Htf Htk].
    destruct v; cbn [wf] in Hw; try discriminate.
    destruct k.
    + rewrite <- (ser_class_named n) in Hc. rewrite ser_class_named in Hc.
      pose proof (cls_fields ser_class (fun t v => get t (ser t v) = Some v) fs H Hc Htf) as HF.
      apply andb_true_iff in Htk. destruct Htk as [_ Hnd].
      rewrite ser_named, get_named_eq. cbn [data_view].
      rewrite (named_roundtrip0 ser get wf) by assumption. reflexivity.
    + destruct fs as [|[n1 t1] [|f2 fs]]; try discriminate.
      destruct vs as [|x [|? ?]]; cbn [all2] in Hw; rewrite ?andb_false_r in Hw; try discriminate.
      rewrite andb_true_r in Hw. inversion H as [|? ? Hf ?]; subst. cbn [snd] in Hf.
      cbn [forallb snd] in Htf. rewrite andb_true_r in Htf.
      cbn [ser get]. rewrite Hf by assumption. reflexivity.
    + apply length_zero_nil in Htk. subst fs. apply all2_nil_l in Hw. subst. reflexivity.
  - cbn [wf_type] in Ht. apply andb_true_iff in Ht. destruct Ht as [_ Ht].
    destruct v; cbn [wf] in Hw; try discriminate.
    rewrite sel_spec in Hw.
    cbn [ser get]. rewrite sel_spec.
    destruct (nth_error vs idx) as [vr|] eqn:En; [|discriminate].
    pose proof (nth_error_Forall _ _ _ _ H En) as HFv.
    pose proof (forallb_nth _ _ _ _ Ht En) as Hwv. cbn beta in Hwv.
    pose proof (forallb_nth _ _ _ _ Hc En) as Hcv. cbn beta in Hcv.
    apply andb_true_iff in Hwv. destruct Hwv as [Hwf Hwk].
    pose proof (cls_fields ser_class (fun t v => get t (ser t v) = Some v) _ HFv Hcv Hwf) as HF.
    destruct vr as [vn [k fs]]. cbn [fst snd] in *.
    destruct k; cbn [data_view];
      (replace (0 + Z.of_nat idx <? 0) with false by (symmetry; apply Z.ltb_ge; lia));
      rewrite sel_spec; rewrite Z.add_0_l, Nat2Z.id; rewrite En; cbn [fst snd]; rewrite Z.add_0_l, Nat2Z.id.
    + apply andb_true_iff in Hwk. destruct Hwk as [_ Hnd].
      cbn [data_view]. rewrite (named_roundtrip0 ser get wf) by assumption. reflexivity.
    + rewrite (zipo_zipw (fun f x => ser (snd f) x) (fun f x => get (snd f) x) (fun f x => wf (snd f) x)) by assumption.
      reflexivity.
    + apply length_zero_nil in Hwk. subst fs. apply all2_nil_l in Hw. subst. reflexivity.
Qed.

Lemma de_push_prim : forall p v, de_class (TPrim p) = true -> wf_prim p v = true ->
  de_prim p (push_prim p v) = Some v.
Proof.
  intros p v Hc H.
  destruct p; cbn [de_class] in Hc; try discriminate;
    destruct v; cbn [wf_prim] in H; try discriminate; cbn [push_prim de_prim].
  - apply in_range_spec in H. rewrite (wrap_s_small 64) by (change (2 ^ (64 - 1)) with (2 ^ 63); lia). reflexivity.
  - apply in_range_spec in H. rewrite (wrap_s_small 32) by (change (2 ^ (32 - 1)) with (2 ^ 31); lia). reflexivity.
  - pose proof H as H'. apply in_range_spec in H'.
    rewrite (wrap_s_id 64) by (change (2 ^ (64 - 1)) with (2 ^ 63); lia). rewrite H. reflexivity.
  - apply in_range_spec in H. rewrite (wrap_s_small 64) by (change (2 ^ (64 - 1)) with (2 ^ 63); lia). reflexivity.
  - reflexivity.
  - pose proof H as H'. apply in_range_spec in H'.
    rewrite (wrap_s_id 64) by (change (2 ^ (64 - 1)) with (2 ^ 63); lia). rewrite H. reflexivity.
  - apply in_range_spec in H. rewrite wrap_u_small by lia. reflexivity.
  - apply in_range_spec in H. rewrite wrap_u_wrap_s by lia. reflexivity.
  - apply in_range_spec in H. rewrite wrap_u_wrap_s by lia. reflexivity.
  - reflexivity.
  - apply andb_true_iff in H. destruct H as [H1 H2]. apply in_range_spec in H1. apply negb_true_iff in H2.
    rewrite f32_roundtrip by assumption. reflexivity.
  - destruct b; reflexivity.
  - pose proof (is_scalar_range z H) as R.
    rewrite wrap_u_small by (change (2 ^ 32) with 4294967296; lia). rewrite H. reflexivity.
  - reflexivity.
Qed.

(* `De` reads a value pushed by `Pushable` (equivalently: built by Gluon code) back, on de_class *)
Theorem de_push : forall t v, de_class t = true -> wf_type t = true -> wf t v = true ->
  de t (push t v) = Some v.
Proof.
  induction t using tcode_ind'; intros v Hc Ht Hw; cbn [de_class] in Hc; try discriminate.
  - apply de_push_prim; assumption.
  - cbn [wf_type] in Ht. destruct v; cbn [wf] in Hw; try discriminate; cbn [push de data_view].
    + reflexivity.
    + change (1 =? 0) with false. change (1 =? 1) with true. cbv iota. rewrite IHt by assumption. reflexivity.
  - cbn [wf_type] in Ht. destruct v; cbn [wf] in Hw; try discriminate. cbn [push de]. unfold mk_array.
    rewrite (mapo_map (push t) (de t) (wf t)); [reflexivity | | assumption].
    intros x Hx. apply IHt; assumption.
  - cbn [wf_type] in Ht. apply andb_true_iff in Ht. destruct Ht as [Htf Htk].
    destruct v; cbn [wf] in Hw; try discriminate.
    destruct k.
    + rewrite <- (de_class_named n) in Hc. rewrite de_class_named in Hc.
      pose proof (cls_fields de_class (fun t v => de t (push t v) = Some v) fs H Hc Htf) as HF.
      apply andb_true_iff in Htk. destruct Htk as [_ Hnd].
      rewrite push_named, de_named_eq.
      rewrite (named_roundtrip0 push de wf) by assumption. reflexivity.
    + destruct fs as [|[n1 t1] [|f2 fs]]; try discriminate.
      destruct vs as [|x [|? ?]]; cbn [all2] in Hw; rewrite ?andb_false_r in Hw; try discriminate.
      rewrite andb_true_r in Hw. inversion H as [|? ? Hf ?]; subst. cbn [snd] in Hf.
      cbn [forallb snd] in Htf. rewrite andb_true_r in Htf.
      cbn [push de]. rewrite Hf by assumption. reflexivity.
    + apply length_zero_nil in Htk. subst fs. apply all2_nil_l in Hw. subst. reflexivity.
  - cbn [wf_type] in Ht. apply andb_true_iff in Ht. destruct Ht as [_ Ht].
    destruct v; cbn [wf] in Hw; try discriminate.
    rewrite sel_spec in Hw.
    cbn [push de]. rewrite sel_spec.
    destruct (nth_error vs idx) as [vr|] eqn:En; [|discriminate].
    pose proof (nth_error_Forall _ _ _ _ H En) as HFv.
    pose proof (forallb_nth _ _ _ _ Ht En) as Hwv. cbn beta in Hwv.
    pose proof (forallb_nth _ _ _ _ Hc En) as Hcv. cbn beta in Hcv.
    apply andb_true_iff in Hwv. destruct Hwv as [Hwf Hwk].
    pose proof (cls_fields de_class (fun t v => de t (push t v) = Some v) _ HFv Hcv Hwf) as HF.
    destruct vr as [vn [k fs]]. cbn [fst snd] in *.
    assert (Hview : forall fields, data_view (push_variant k (0 + Z.of_nat idx) (map fst fs) fields) =
              Some (Z.of_nat idx, ([], match k with KNamed => [RRecord (map fst fs) fields] | _ => fields end))).
    { intro fields. destruct k; reflexivity. }
    rewrite Hview.
    replace (Z.of_nat idx <? 0) with false by (symmetry; apply Z.ltb_ge; lia).
    rewrite sel_spec. rewrite Nat2Z.id. rewrite En. cbn [fst snd]. rewrite Z.add_0_l, Nat2Z.id.
    destruct k.
    + apply andb_true_iff in Hwk. destruct Hwk as [_ Hnd].
      rewrite (named_roundtrip0 push de wf) by assumption. reflexivity.
    + rewrite zipw_length by (apply (all2_length _ _ _ Hw)). rewrite Nat.eqb_refl.
      rewrite (zipo_zipw (fun f x => push (snd f) x) (fun f x => de (snd f) x) (fun f x => wf (snd f) x)) by assumption.
      reflexivity.
    + apply length_zero_nil in Hwk. subst fs. apply all2_nil_l in Hw. subst. reflexivity.
Qed.

Lemma de_ser_prim : forall p v, ser_class (TPrim p) = true -> de_class (TPrim p) = true -> wf_prim p v = true ->
  de_prim p (ser_prim p v) = Some v.
Proof.
  intros p v Hs Hc H.
  destruct p; cbn [ser_class] in Hs; cbn [de_class] in Hc; try discriminate;
    destruct v; cbn [wf_prim] in H; try discriminate; cbn [ser_prim de_prim].
  - apply in_range_spec in H. rewrite (wrap_s_small 64) by (change (2 ^ (64 - 1)) with (2 ^ 63); lia). reflexivity.
  - apply in_range_spec in H. rewrite (wrap_s_small 32) by (change (2 ^ (32 - 1)) with (2 ^ 31); lia). reflexivity.
  - pose proof H as H'. apply in_range_spec in H'.
    rewrite (wrap_s_id 64) by (change (2 ^ (64 - 1)) with (2 ^ 63); lia). rewrite H. reflexivity.
  - apply in_range_spec in H. rewrite (wrap_s_small 64) by (change (2 ^ (64 - 1)) with (2 ^ 63); lia). reflexivity.
  - pose proof H as H'. apply in_range_spec in H'.
    rewrite (wrap_s_id 64) by (change (2 ^ (64 - 1)) with (2 ^ 63); lia). rewrite H. reflexivity.
  - apply in_range_spec in H. rewrite wrap_u_small by lia. reflexivity.
  - apply in_range_spec in H. rewrite wrap_u_wrap_s by lia. reflexivity.
  - apply in_range_spec in H. rewrite wrap_u_wrap_s by lia. reflexivity.
  - reflexivity.
  - apply andb_true_iff in H. destruct H as [H1 H2]. apply in_range_spec in H1. apply negb_true_iff in H2.
    rewrite f32_roundtrip by assumption. reflexivity.
  - destruct b; reflexivity.
  - reflexivity.
Qed.

(* the bridge round trip De (Ser x) = x on the class where both directions are faithful *)
Theorem de_ser : forall t v, ser_class t = true -> de_class t = true -> wf_type t = true -> wf t v = true ->
  de t (ser t v) = Some v.
Proof.
  induction t using tcode_ind'; intros v Hs Hc Ht Hw; cbn [ser_class] in Hs; cbn [de_class] in Hc; try discriminate.
  - apply de_ser_prim; assumption.
  - cbn [wf_type] in Ht. apply andb_true_iff in Ht. destruct Ht as [Htf Htk].
    destruct v; cbn [wf] in Hw; try discriminate.
    destruct k.
    + rewrite <- (de_class_named n) in Hc. rewrite de_class_named in Hc.
      rewrite <- (ser_class_named n) in Hs. rewrite ser_class_named in Hs.
      assert (HF : Forall (fun f => forall v, wf (snd f) v = true -> de (snd f) (ser (snd f) v) = Some v) fs).
      { rewrite Forall_forall in *. rewrite forallb_forall in Hs, Hc, Htf. intros f Hin x Hx. apply H; auto. }
      apply andb_true_iff in Htk. destruct Htk as [_ Hnd].
      rewrite ser_named, de_named_eq.
      rewrite (named_roundtrip0 ser de wf) by assumption. reflexivity.
    + destruct fs as [|[n1 t1] [|f2 fs]]; try discriminate.
      destruct vs as [|x [|? ?]]; cbn [all2] in Hw; rewrite ?andb_false_r in Hw; try discriminate.
      rewrite andb_true_r in Hw. inversion H as [|? ? Hf ?]; subst. cbn [snd] in Hf.
      cbn [forallb snd] in Htf. rewrite andb_true_r in Htf.
      cbn [ser de]. rewrite Hf by assumption. reflexivity.
    + apply length_zero_nil in Htk. subst fs. apply all2_nil_l in Hw. subst. reflexivity.
  - cbn [wf_type] in Ht. apply andb_true_iff in Ht. destruct Ht as [_ Ht].
    destruct v; cbn [wf] in Hw; try discriminate.
    rewrite sel_spec in Hw.
    cbn [ser de]. rewrite sel_spec.
    destruct (nth_error vs idx) as [vr|] eqn:En; [|discriminate].
    pose proof (nth_error_Forall _ _ _ _ H En) as HFv.
    pose proof (forallb_nth _ _ _ _ Ht En) as Hwv. cbn beta in Hwv.
    pose proof (forallb_nth _ _ _ _ Hc En) as Hcv. cbn beta in Hcv.
    pose proof (forallb_nth _ _ _ _ Hs En) as Hsv. cbn beta in Hsv.
    apply andb_true_iff in Hwv. destruct Hwv as [Hwf Hwk].
    destruct vr as [vn [k fs]]. cbn [fst snd] in *.
    assert (HF : Forall (fun f => forall v, wf (snd f) v = true -> de (snd f) (ser (snd f) v) = Some v) fs).
    { rewrite Forall_forall in *. rewrite forallb_forall in Hsv, Hcv, Hwf. intros f Hin x Hx. apply HFv; auto. }
    destruct k; cbn [data_view];
      (replace (0 + Z.of_nat idx <? 0) with false by (symmetry; apply Z.ltb_ge; lia));
      rewrite sel_spec; rewrite Z.add_0_l, Nat2Z.id; rewrite En; cbn [fst snd]; rewrite Z.add_0_l, Nat2Z.id.
    + apply andb_true_iff in Hwk. destruct Hwk as [_ Hnd].
      rewrite (named_roundtrip0 ser de wf) by assumption. reflexivity.
    + rewrite zipw_length by (apply (all2_length _ _ _ Hw)). rewrite Nat.eqb_refl.
      rewrite (zipo_zipw (fun f x => ser (snd f) x) (fun f x => de (snd f) x) (fun f x => wf (snd f) x)) by assumption.
      reflexivity.
    + apply length_zero_nil in Hwk. subst fs. apply all2_nil_l in Hw. subst. reflexivity.
Qed.

(* ---- where the serde bridge is not faithful: witnesses ---------------------------------------- *)

Definition ser_unfaithful (t : tcode) (v : rval) : Prop :=
  wf_type t = true /\ wf t v = true /\ shape_ok (gluon_ty t) (ser t v) = false.

(* Some(x) is serialised as x itself: Gluon code of type Option Int is handed a bare Int *)
Theorem ser_shape_option_refuted : exists t v, ser_unfaithful t v.
Proof. exists (TOption TI64), (VSome (VInt 3)). repeat split; reflexivity. Qed.
(* ... and Some(None) cannot be told from None *)
Theorem ser_option_not_injective_refuted :
  ser (TOption (TOption TI64)) (VSome VNone) = ser (TOption (TOption TI64)) VNone.
Proof. reflexivity. Qed.
(* a Vec becomes a data value, not an array *)
Theorem ser_shape_vec_refuted : exists v, ser_unfaithful (TVec TI64) v.
Proof. exists (VSeq [VInt 1]). repeat split; reflexivity. Qed.
(* u8 becomes an Int where Gluon expects a Byte *)
Theorem ser_shape_u8_refuted : exists v, ser_unfaithful TU8 v.
Proof. exists (VInt 7). repeat split; reflexivity. Qed.
(* char becomes a String where Gluon expects a Char *)
Theorem ser_shape_char_refuted : exists v, ser_unfaithful TChar v.
Proof. exists (VInt 97). repeat split; reflexivity. Qed.
(* a tuple becomes a data value without field names, not a record *)
Theorem ser_shape_tuple_refuted : exists v, ser_unfaithful (TTuple [TI64; TString]) v.
Proof. exists (VSeq [VInt 1; VStr []]). repeat split; reflexivity. Qed.
(* serde numbers Ok = 0, Err = 1; Gluon's Result is | Err | Ok *)
Theorem ser_result_swapped_refuted :
  get (TResult TI64 TI64) (ser (TResult TI64 TI64) (VOk (VInt 5))) = Some (VErr (VInt 5)).
Proof. reflexivity. Qed.
(* a map is serialised without its keys *)
Theorem ser_map_drops_keys_refuted :
  ser (TMap TI64) (VMapV [([97], VInt 1)]) = ser (TMap TI64) (VMapV [([98], VInt 1)]).
Proof. reflexivity. Qed.
