(* C19: std.map (generated MapGen.v) is a finite map ordered by key. *)
From Coq Require Import List Sorted Lia.
From GVgen Require Import MapGen.
From GV Require Import Lib.StdSpec.
Import ListNotations.

Section MapProofs.
Variable K : Type.
Variable cmp : K -> K -> comparison.
Variable V : Type.
Hypothesis ord : ord_ok cmp.

Local Notation find := (@MapGen.find K cmp V).
Local Notation insert := (@MapGen.insert K cmp V).
Local Notation to_list := (@MapGen.to_list K V).
Local Notation bst := (@bst K cmp V).
Local Notation all_keys := (@all_keys K V).
Local Notation elements := (@elements K V).
Local Notation key_lt := (@key_lt K cmp V).
Local Notation insert_all := (@insert_all K cmp V).
Local Notation assoc_last := (@assoc_last K cmp V).

Lemma cmp_refl : forall a, cmp a a = Eq.
Proof. apply ord. Qed.
Lemma cmp_sym : forall a b, cmp b a = CompOpp (cmp a b).
Proof. apply ord. Qed.
Lemma cmp_trans : forall a b c, cmp a b = Lt -> cmp b c = Lt -> cmp a c = Lt.
Proof. apply ord. Qed.
Lemma cmp_eq_l : forall a b c, cmp a b = Eq -> cmp a c = cmp b c.
Proof. apply ord. Qed.
Lemma cmp_eq_r : forall a b c, cmp a b = Eq -> cmp c a = cmp c b.
Proof.
  intros a b c H. rewrite (cmp_sym a c), (cmp_sym b c). f_equal. now apply cmp_eq_l.
Qed.
Lemma cmp_eq_sym : forall a b, cmp a b = Eq -> cmp b a = Eq.
Proof. intros a b H. rewrite cmp_sym, H. reflexivity. Qed.
Lemma cmp_gt_lt : forall a b, cmp a b = Gt -> cmp b a = Lt.
Proof. intros a b H. rewrite cmp_sym, H. reflexivity. Qed.
Lemma cmp_lt_gt : forall a b, cmp a b = Lt -> cmp b a = Gt.
Proof. intros a b H. rewrite cmp_sym, H. reflexivity. Qed.

(* ---- characterising equations of the generated functions (robust to harmless rewrites) ---- *)

Lemma find_Tip : forall k, find k Tip = None.
Proof. reflexivity. Qed.

Lemma find_Bin : forall k k2 v l r,
  find k (Bin k2 v l r) =
  match cmp k k2 with Lt => find k l | Eq => Some v | Gt => find k r end.
Proof. reflexivity. Qed.

Lemma insert_Tip : forall k v, insert k v Tip = Bin k v Tip Tip.
Proof. reflexivity. Qed.

Lemma insert_Bin : forall k v k2 v2 l r,
  insert k v (Bin k2 v2 l r) =
  match cmp k k2 with
  | Lt => Bin k2 v2 (insert k v l) r
  | Eq => Bin k v l r
  | Gt => Bin k2 v2 l (insert k v r)
  end.
Proof. reflexivity. Qed.

Lemma foldr_with_key_elements : forall (B : Type) (f : K -> V -> B -> B) m z,
  @MapGen.foldr_with_key K V B f z m = fold_right (fun kv acc => f (fst kv) (snd kv) acc) z (elements m).
Proof.
  intros B f m. induction m as [|k v l IHl r IHr]; intro z.
  - reflexivity.
  - cbn [MapGen.foldr_with_key StdSpec.elements]. rewrite IHl, IHr, fold_right_app. reflexivity.
Qed.

Lemma to_list_elements : forall m, to_list m = elements m.
Proof.
  intro m. unfold MapGen.to_list. rewrite foldr_with_key_elements.
  induction (elements m) as [|[k v] xs IH]; cbn; [reflexivity | now rewrite IH].
Qed.

Lemma keys_elements : forall m : Map K V, @MapGen.keys K V m = List.map fst (elements m).
Proof.
  intro m. unfold MapGen.keys. rewrite foldr_with_key_elements.
  induction (elements m) as [|[k v] xs IH]; cbn; [reflexivity | now rewrite IH].
Qed.

Lemma foldr_elements : forall (B : Type) (f : V -> B -> B) (m : Map K V) z,
  @MapGen.foldr K V B f z m = fold_right (fun kv acc => f (snd kv) acc) z (elements m).
Proof.
  intros B f m. induction m as [|k v l IHl r IHr]; intro z.
  - reflexivity.
  - cbn [MapGen.foldr StdSpec.elements]. rewrite IHl, IHr, fold_right_app. reflexivity.
Qed.

Lemma values_elements : forall m : Map K V, @MapGen.values K V m = List.map snd (elements m).
Proof.
  intro m. unfold MapGen.values. rewrite foldr_elements.
  induction (elements m) as [|[k v] xs IH]; cbn; [reflexivity | now rewrite IH].
Qed.

(* ---- find / insert ---- *)

Theorem find_insert_eq : forall k k' v m,
  cmp k' k = Eq -> find k' (insert k v m) = Some v.
Proof.
  intros k k' v m E. induction m as [|k2 v2 l IHl r IHr].
  - rewrite insert_Tip, find_Bin, E. reflexivity.
  - rewrite insert_Bin. destruct (cmp k k2) eqn:C; rewrite find_Bin.
    + now rewrite E.
    + rewrite (cmp_eq_l _ _ k2 E), C. exact IHl.
    + rewrite (cmp_eq_l _ _ k2 E), C. exact IHr.
Qed.

Theorem find_insert_neq : forall k k' v m,
  cmp k' k <> Eq -> find k' (insert k v m) = find k' m.
Proof.
  intros k k' v m N. induction m as [|k2 v2 l IHl r IHr].
  - rewrite insert_Tip, find_Bin, find_Tip. destruct (cmp k' k); congruence.
  - rewrite insert_Bin. destruct (cmp k k2) eqn:C; rewrite !find_Bin.
    + rewrite <- (cmp_eq_r _ _ k' C). destruct (cmp k' k); congruence.
    + destruct (cmp k' k2); congruence.
    + destruct (cmp k' k2); congruence.
Qed.

(* ---- the BST invariant ---- *)

Lemma all_keys_impl : forall (P Q : K -> Prop) m,
  (forall x, P x -> Q x) -> all_keys P m -> all_keys Q m.
Proof.
  intros P Q m H. induction m as [|k v l IHl r IHr]; cbn; [trivial|].
  intros (Hk & Hl & Hr). auto.
Qed.

Lemma all_keys_insert : forall (P : K -> Prop) k v m,
  P k -> all_keys P m -> all_keys P (insert k v m).
Proof.
  intros P k v m Hk. induction m as [|k2 v2 l IHl r IHr]; intro H.
  - rewrite insert_Tip. cbn. auto.
  - rewrite insert_Bin. destruct H as (H2 & Hl & Hr).
    destruct (cmp k k2); cbn; auto.
Qed.

Theorem insert_bst : forall k v m, bst m -> bst (insert k v m).
Proof.
  intros k v m. induction m as [|k2 v2 l IHl r IHr]; intro H.
  - rewrite insert_Tip. cbn. auto.
  - rewrite insert_Bin. destruct H as (Hl & Hr & Bl & Br).
    destruct (cmp k k2) eqn:C; cbn.
    + repeat split; auto.
      * eapply all_keys_impl; [|exact Hl]. cbn. intros x Hx. now rewrite (cmp_eq_r _ _ x C).
      * eapply all_keys_impl; [|exact Hr]. cbn. intros x Hx. now rewrite (cmp_eq_r _ _ x C).
    + repeat split; auto. apply all_keys_insert; auto.
    + repeat split; auto. apply all_keys_insert; auto.
Qed.

Lemma bst_Tip : bst Tip.
Proof. exact I. Qed.

Lemma insert_all_bst : forall ops m, bst m -> bst (insert_all ops m).
Proof.
  induction ops as [|[k v] ops IH]; intros m H; cbn; [exact H|].
  apply IH. now apply insert_bst.
Qed.

(* ---- refinement of the association list ---- *)

Lemma find_insert_all : forall k ops m,
  find k (insert_all ops m) =
  match assoc_last k ops with Some w => Some w | None => find k m end.
Proof.
  intros k ops. induction ops as [|[k' v] ops IH]; intro m; cbn.
  - reflexivity.
  - unfold insert_all in IH. rewrite IH. cbn [fst snd].
    destruct (assoc_last k ops); [reflexivity|].
    destruct (cmp k k') eqn:C.
    + now apply find_insert_eq.
    + apply find_insert_neq. congruence.
    + apply find_insert_neq. congruence.
Qed.

Theorem map_refines_assoc : forall (ops : list (K * V)) k,
  find k (insert_all ops Tip) = assoc_last k ops.
Proof.
  intros ops k. rewrite find_insert_all, find_Tip. now destruct (assoc_last k ops).
Qed.

(* ---- to_list: strictly increasing keys, same content as find ---- *)

Lemma all_keys_elements : forall (P : K -> Prop) m,
  all_keys P m -> Forall (fun kv => P (fst kv)) (elements m).
Proof.
  intros P m. induction m as [|k v l IHl r IHr]; cbn; intro H.
  - constructor.
  - destruct H as (Hk & Hl & Hr). apply Forall_app. split; auto.
Qed.

Lemma sorted_app : forall (l r : list (K * V)) x,
  StronglySorted (key_lt) l -> StronglySorted (key_lt) r ->
  Forall (fun y => cmp (fst y) (fst x) = Lt) l ->
  Forall (fun y => cmp (fst y) (fst x) = Gt) r ->
  StronglySorted (key_lt) (l ++ x :: r).
Proof.
  intros l r x Sl Sr Fl Fr. induction l as [|a l IH]; cbn.
  - constructor; [exact Sr|].
    eapply Forall_impl; [|exact Fr]. intros y Hy. unfold key_lt. now apply cmp_gt_lt.
  - inversion Sl as [|? ? Sl' Fa]; subst. inversion Fl as [|? ? Hax Fl']; subst.
    constructor; [now apply IH|].
    apply Forall_app. split; [exact Fa|].
    constructor; [exact Hax|].
    eapply Forall_impl; [|exact Fr]. intros y Hy. unfold key_lt.
    eapply cmp_trans; [exact Hax|]. now apply cmp_gt_lt.
Qed.

Lemma elements_sorted : forall m, bst m -> StronglySorted (key_lt) (elements m).
Proof.
  induction m as [|k v l IHl r IHr]; cbn; intro H.
  - constructor.
  - destruct H as (Hl & Hr & Bl & Br).
    apply sorted_app; auto.
    + now apply (all_keys_elements (fun x => cmp x k = Lt)).
    + now apply (all_keys_elements (fun x => cmp x k = Gt)).
Qed.

Theorem to_list_sorted : forall m, bst m -> StronglySorted (key_lt) (to_list m).
Proof. intros m H. rewrite to_list_elements. now apply elements_sorted. Qed.

Lemma find_elements_sound : forall m k v,
  bst m -> In (k, v) (elements m) -> find k m = Some v.
Proof.
  induction m as [|k2 v2 l IHl r IHr]; cbn [StdSpec.elements]; intros k v B H.
  - destruct H.
  - destruct B as (Hl & Hr & Bl & Br). rewrite find_Bin.
    apply in_app_or in H. destruct H as [H|[H|H]].
    + pose proof (all_keys_elements (fun x => cmp x k2 = Lt) l Hl) as F.
      rewrite Forall_forall in F. specialize (F _ H). cbn in F. rewrite F. now apply IHl.
    + inversion H; subst. now rewrite cmp_refl.
    + pose proof (all_keys_elements (fun x => cmp x k2 = Gt) r Hr) as F.
      rewrite Forall_forall in F. specialize (F _ H). cbn in F. rewrite F. now apply IHr.
Qed.

Lemma find_elements_complete : forall m k v,
  find k m = Some v -> exists k', cmp k k' = Eq /\ In (k', v) (elements m).
Proof.
  induction m as [|k2 v2 l IHl r IHr]; intros k v H.
  - discriminate.
  - rewrite find_Bin in H. cbn [StdSpec.elements]. destruct (cmp k k2) eqn:C.
    + inversion H; subst. exists k2. split; [exact C|]. apply in_or_app. right. now left.
    + destruct (IHl _ _ H) as (k' & E & I). exists k'. split; [exact E|]. apply in_or_app. now left.
    + destruct (IHr _ _ H) as (k' & E & I). exists k'. split; [exact E|]. apply in_or_app. right. now right.
Qed.

Theorem to_list_find : forall m k v, bst m ->
  (find k m = Some v <-> exists k', cmp k k' = Eq /\ In (k', v) (to_list m)).
Proof.
  intros m k v B. rewrite to_list_elements. split.
  - apply find_elements_complete.
  - intros (k' & E & I). pose proof (find_elements_sound m k' v B I) as F.
    clear I. revert F. clear B. induction m as [|k2 v2 l IHl r IHr]; [discriminate|].
    rewrite !find_Bin, (cmp_eq_l _ _ k2 E). destruct (cmp k' k2); auto.
Qed.

(* The whole observable of the correspondence harness: to_list after a run of inserts. *)
Theorem run_sorted : forall ops, StronglySorted (key_lt) (to_list (insert_all ops Tip)).
Proof. intro ops. apply to_list_sorted, insert_all_bst, bst_Tip. Qed.

End MapProofs.
