From Coq Require Import List Arith Bool Lia.
From GV Require Import Lib.StackReset.
From GVgen Require Import StackResetGen.
Import ListNotations.

Lemma reset_fuel_frames fuel : forall s level pushed rest,
  frames s = pushed ++ rest -> length rest = level -> length pushed <= fuel ->
  frames (reset_fuel fuel s level) = rest /\ nvalues (reset_fuel fuel s level) = nvalues s.
Proof.
  induction fuel as [|k IH]; intros s level pushed rest Hf Hl Hp.
  - destruct pushed; [|cbn in Hp; lia]. cbn in *. split; [exact Hf | reflexivity].
  - cbn [reset_fuel]. destruct pushed as [|p pushed'].
    + cbn in Hf. rewrite Hf, Hl. rewrite Nat.ltb_irrefl. split; [exact Hf | reflexivity].
    + assert (Hlt : (level <? length (frames s)) = true).
      { apply Nat.ltb_lt. rewrite Hf, app_length. cbn. lia. }
      rewrite Hlt. specialize (IH (exit_scope s) level pushed' rest).
      destruct IH as [A B].
      * unfold exit_scope. cbn. rewrite Hf. reflexivity.
      * exact Hl.
      * cbn in Hp. lia.
      * split; [exact A | rewrite B; reflexivity].
Qed.

(* reset_stack leaves exactly the frames that were there before the failed evaluation, untouched,
   and does not change the number of values. *)
Theorem reset_frames_restored before failed :
  extends before failed ->
  frames (reset_stack failed (length (frames before))) = frames before
  /\ nvalues (reset_stack failed (length (frames before))) = nvalues failed.
Proof.
  intros [[pushed Hf] _]. unfold reset_stack.
  apply reset_fuel_frames with (pushed := pushed); [exact Hf | reflexivity |].
  rewrite Hf, app_length. lia.
Qed.

(* With the truncation in place a failed evaluation leaves the stack exactly as it found it. *)
Theorem reset_restores before failed :
  extends before failed -> fail_top true before failed = before.
Proof.
  intros H. pose proof (reset_frames_restored _ _ H) as [Hfr Hv]. destruct H as [_ Hle].
  unfold fail_top. rewrite Hfr, Hv. rewrite Nat.min_r by exact Hle. destruct before; reflexivity.
Qed.

(* Without it the values of the failed run stay on the stack: the stack is not restored. *)
Theorem reset_leaks_refuted :
  exists before failed, extends before failed /\ fail_top false before failed <> before
                        /\ nvalues (fail_top false before failed) > nvalues before.
Proof.
  exists (mk_stack [0] 0), (mk_stack [1; 0] 5). split; [|split].
  - split; [exists [1]; reflexivity | cbn; lia].
  - vm_compute. discriminate.
  - vm_compute. lia.
Qed.

(* Over the flag read from vm/src/thread.rs. *)
Theorem reset_restores_current :
  top_level_truncates_values = true ->
  forall before failed, extends before failed -> fail_top top_level_truncates_values before failed = before.
Proof. intros E before failed H. rewrite E. apply reset_restores. exact H. Qed.

Theorem reset_leaks_current_refuted :
  top_level_truncates_values = false ->
  exists before failed, extends before failed /\ fail_top top_level_truncates_values before failed <> before.
Proof.
  intros E. rewrite E. destruct reset_leaks_refuted as [b [f [H1 [H2 _]]]]. exists b, f. split; assumption.
Qed.

(* n failed evaluations of the same shape leak n times the values (no bound on the growth). *)
Fixpoint repeat_fail (truncates : bool) (n : nat) (s : stack) (push_frames : list nat) (push_values : nat) : stack :=
  match n with
  | O => s
  | S k =>
      let failed := mk_stack (push_frames ++ frames s) (nvalues s + push_values) in
      repeat_fail truncates k (fail_top truncates s failed) push_frames push_values
  end.

Theorem repeated_failures_grow n : forall s pf pv,
  nvalues (repeat_fail false n s pf pv) = nvalues s + n * pv
  /\ frames (repeat_fail false n s pf pv) = frames s.
Proof.
  induction n as [|k IH]; intros s pf pv; cbn [repeat_fail].
  - split; [lia | reflexivity].
  - set (failed := mk_stack (pf ++ frames s) (nvalues s + pv)).
    assert (Hext : extends s failed). { split; [exists pf; reflexivity | cbn; lia]. }
    pose proof (reset_frames_restored _ _ Hext) as [Hfr Hv].
    unfold fail_top. specialize (IH (reset_stack failed (length (frames s))) pf pv).
    destruct IH as [A B]. rewrite A, B, Hfr, Hv. cbn. split; [lia | reflexivity].
Qed.

Theorem repeated_failures_fixed n : forall s pf pv, repeat_fail true n s pf pv = s.
Proof.
  induction n as [|k IH]; intros s pf pv; cbn [repeat_fail]; [reflexivity|].
  rewrite reset_restores; [apply IH|]. split; [exists pf; reflexivity | cbn; lia].
Qed.
