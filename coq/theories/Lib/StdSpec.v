(* C19: specification-side definitions for the generated std.map / std.list models
   (coq/gen/MapGen.v, coq/gen/ListGen.v).  Definitions only; proofs in MapProofs.v, ListProofs.v. *)
From Coq Require Import List.
From GVgen Require Import MapGen ListGen.
Import ListNotations.

Section Spec.
Variable K : Type.
Variable cmp : K -> K -> comparison.

(* "compare is a total order" (up to the equivalence [cmp a b = Eq]); an explicit premise of
   the pinned theorems.  Gluon's `Ord` does not promise that EQ is identity, so neither do we. *)
Definition ord_ok : Prop :=
  (forall a, cmp a a = Eq) /\
  (forall a b, cmp b a = CompOpp (cmp a b)) /\
  (forall a b c, cmp a b = Lt -> cmp b c = Lt -> cmp a c = Lt) /\
  (forall a b c, cmp a b = Eq -> cmp a c = cmp b c).

Variable V : Type.

Fixpoint all_keys (P : K -> Prop) (m : Map K V) : Prop :=
  match m with
  | Tip => True
  | Bin k _ l r => P k /\ all_keys P l /\ all_keys P r
  end.

(* binary-search-tree invariant *)
Fixpoint bst (m : Map K V) : Prop :=
  match m with
  | Tip => True
  | Bin k _ l r =>
      all_keys (fun x => cmp x k = Lt) l /\ all_keys (fun x => cmp x k = Gt) r /\ bst l /\ bst r
  end.

(* in-order traversal *)
Fixpoint elements (m : Map K V) : list (K * V) :=
  match m with
  | Tip => []
  | Bin k v l r => elements l ++ (k, v) :: elements r
  end.

(* the finite map an operation list denotes: the LAST binding of (a key equivalent to) k *)
Fixpoint assoc_last (k : K) (ops : list (K * V)) : option V :=
  match ops with
  | [] => None
  | (k', v) :: rest =>
      match assoc_last k rest with
      | Some w => Some w
      | None => match cmp k k' with Eq => Some v | _ => None end
      end
  end.

Definition insert_all (ops : list (K * V)) (m : Map K V) : Map K V :=
  fold_left (fun m kv => @insert K cmp V (fst kv) (snd kv) m) ops m.

Definition key_lt (a b : K * V) : Prop := cmp (fst a) (fst b) = Lt.

End Spec.
Arguments ord_ok {K} cmp.
Arguments all_keys {K V} P m.
Arguments bst {K} cmp {V} m.
Arguments elements {K V} m.
Arguments assoc_last {K} cmp {V} k ops.
Arguments insert_all {K} cmp {V} ops m.
Arguments key_lt {K} cmp {V} a b.

(* entry point of std.list.sort with the fuel the theorem [sort_fuel_enough] shows sufficient *)
Definition sort {A : Type} (cmp : A -> A -> comparison) (xs : list A) : fuelled (list A) :=
  @sort_fuel A cmp (S (length xs)) xs.

Definition le_of {A : Type} (cmp : A -> A -> comparison) (a b : A) : Prop := cmp a b <> Gt.
