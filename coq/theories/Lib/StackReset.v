(* C06 - what a failed top-level evaluation leaves on the VM stack.
   vm/src/thread.rs:1087 call_thunk_top / execute_io_top remember `level = frames.len()` before the
   call and, when the call fails, run `reset_stack(stack, level)` (thread.rs:2965), which calls
   `StackFrame::exit_scope` (vm/src/stack.rs:871) until `level` frames are left.  `exit_scope` pops the
   frame record only: the values pushed by the popped frames stay in `stack.values`.
   Whether the top level then removes those values is read from the source
   (gen/StackResetGen.v: top_level_truncates_values).  Definitions only. *)
From Coq Require Import List Arith Bool.
Import ListNotations.

Record stack := mk_stack {
  frames : list nat;     (* frame offsets, innermost first *)
  nvalues : nat          (* length of stack.values *)
}.

(* StackFrame::exit_scope: pop one frame, values untouched *)
Definition exit_scope (s : stack) : stack := mk_stack (tl (frames s)) (nvalues s).

(* reset_stack: `while frames.len() > level { exit_scope }` *)
Fixpoint reset_fuel (fuel : nat) (s : stack) (level : nat) : stack :=
  match fuel with
  | O => s
  | S k => if level <? length (frames s) then reset_fuel k (exit_scope s) level else s
  end.
Definition reset_stack (s : stack) (level : nat) : stack := reset_fuel (length (frames s)) s level.

(* the error path of call_thunk_top: [before] is the stack when the evaluation started, [failed]
   the stack at the moment of the failure *)
Definition fail_top (truncates : bool) (before failed : stack) : stack :=
  let r := reset_stack failed (length (frames before)) in
  if truncates then mk_stack (frames r) (Nat.min (nvalues r) (nvalues before)) else r.

(* a failed evaluation only ever added frames and values on top of what was there *)
Definition extends (before failed : stack) : Prop :=
  (exists pushed, frames failed = pushed ++ frames before) /\ nvalues before <= nvalues failed.
