(* C19: reading back what the JSON writer produced is the identity (modelled class: null, bool,
   int, string with escapes, array, object; no floats). *)
From Coq Require Import List Bool ZArith NArith DecimalZ DecimalPos DecimalFacts Lia.
From GV Require Import Lib.Derive Lib.DeriveProofs Lib.Json.
Import ListNotations.
Open Scope bool_scope.

(* ---- induction principle for jv ---- *)
Section JvInd.
Variable P : jv -> Prop.
Hypothesis Hnull : P JNull.
Hypothesis Hbool : forall b, P (JBool b).
Hypothesis Hint : forall z, P (JInt z).
Hypothesis Hfloat : forall t, P (JFloat t).
Hypothesis Hstr : forall s, P (JStr s).
Hypothesis Harr : forall l, Forall P l -> P (JArr l).
Hypothesis Hobj : forall kv, Forall (fun p => P (snd p)) kv -> P (JObj kv).
Fixpoint jv_ind' (v : jv) : P v :=
  match v with
  | JNull => Hnull
  | JBool b => Hbool b
  | JInt z => Hint z
  | JFloat t => Hfloat t
  | JStr s => Hstr s
  | JArr l => Harr l ((fix go (l : list jv) : Forall P l :=
                         match l with [] => Forall_nil P | x :: r => Forall_cons x (jv_ind' x) (go r) end) l)
  | JObj kv => Hobj kv ((fix go (l : list (list N * jv)) : Forall (fun p => P (snd p)) l :=
                           match l with
                           | [] => Forall_nil _
                           | p :: r => Forall_cons (P := fun p => P (snd p)) p (jv_ind' (snd p)) (go r)
                           end) kv)
  end.
End JvInd.

(* ---- the nested fixes of [ser] as stand-alone functions ---- *)
Fixpoint ser_elems (l : list jv) : list N :=
  match l with
  | [] => []
  | [x] => ser x
  | x :: r => ser x ++ 44%N :: ser_elems r
  end.
Fixpoint ser_members (kv : list (list N * jv)) : list N :=
  match kv with
  | [] => []
  | [(k, x)] => ser_str k ++ 58%N :: ser x
  | (k, x) :: r => ser_str k ++ 58%N :: ser x ++ 44%N :: ser_members r
  end.

Lemma ser_arr : forall l, ser (JArr l) = 91%N :: ser_elems l ++ [93%N].
Proof.
  intro l. reflexivity.
Qed.
Lemma ser_obj : forall kv, ser (JObj kv) = 123%N :: ser_members kv ++ [125%N].
Proof.
  intro l. reflexivity.
Qed.

Lemma ser_elems_cons : forall x r rest,
  ser_elems (x :: r) ++ 93%N :: rest =
  ser x ++ match r with [] => 93%N :: rest | _ :: _ => 44%N :: ser_elems r ++ 93%N :: rest end.
Proof.
  intros x [|y r] rest; cbn [ser_elems]; [reflexivity|]. rewrite <- app_assoc. reflexivity.
Qed.

Lemma ser_members_cons : forall k x r rest,
  ser_members ((k, x) :: r) ++ 125%N :: rest =
  ser_str k ++ 58%N :: ser x ++
  match r with [] => 125%N :: rest | _ :: _ => 44%N :: ser_members r ++ 125%N :: rest end.
Proof.
  intros k x [|y r] rest; cbn [ser_members]; rewrite <- app_assoc; cbn [app]; [reflexivity|].
  rewrite <- app_assoc. reflexivity.
Qed.

(* ---- integers ---- *)

Lemma is_dig_digit : forall b, is_dig b = DeriveProofs.is_digit b.
Proof. reflexivity. Qed.

Lemma undigits_digits : forall u rest,
  match rest with [] => True | b :: _ => is_dig b = false end ->
  undigits (digits u ++ rest) = (u, rest).
Proof.
  intros u rest Hr. induction u; cbn [digits app undigits];
    try (rewrite IHu; reflexivity).
  destruct rest as [|b r]; [reflexivity|]. cbn. now rewrite Hr.
Qed.

Lemma to_int_nonnil : forall z, match Z.to_int z with Decimal.Pos u | Decimal.Neg u => u <> Decimal.Nil end.
Proof.
  intros [|p|p]; cbn; try discriminate; apply DecimalPos.Unsigned.to_uint_nonnil.
Qed.

Definition follow_ok (rest : list N) : Prop :=
  match rest with [] => True | b :: _ => is_dig b = false end.

Lemma digits_head : forall u, u <> Decimal.Nil -> exists b t, digits u = b :: t /\ is_dig b = true.
Proof. intros [] H; try congruence; cbn; eauto. Qed.

Lemma pint_show_int : forall z rest, follow_ok rest -> pint (show_int z ++ rest) = Some (JInt z, rest).
Proof.
  intros z rest Hr. unfold show_int. pose proof (to_int_nonnil z) as NN. pose proof (DecimalZ.of_to z) as OT.
  destruct (Z.to_int z) as [u|u].
  - destruct (digits_head u NN) as (b & t & E & D).
    assert (B45 : (b =? 45)%N = false).
    { apply N.eqb_neq. intro; subst. discriminate. }
    unfold pint.
    replace (digits u ++ rest) with (b :: (t ++ rest)) by (rewrite E; reflexivity).
    rewrite B45.
    replace (b :: (t ++ rest)) with (digits u ++ rest) by (rewrite E; reflexivity).
    rewrite (undigits_digits u rest Hr).
    destruct u; try congruence; rewrite OT; reflexivity.
  - cbn [app pint]. rewrite N.eqb_refl, (undigits_digits u rest Hr).
    destruct u; try congruence; rewrite OT; reflexivity.
Qed.

Lemma show_int_head : forall z, exists b t, show_int z = b :: t /\ (b = 45%N \/ is_dig b = true).
Proof.
  intro z. unfold show_int. pose proof (to_int_nonnil z) as NN. destruct (Z.to_int z) as [u|u].
  - destruct (digits_head u NN) as (b & t & E & D). eauto.
  - eauto.
Qed.

(* ---- strings ---- *)

Lemma hex_round : forall n, (n < 16)%N -> hexval (hexd n) = Some n.
Proof.
  intros n H.
  assert (A : forallb (fun k => match hexval (hexd k) with Some m => N.eqb m k | None => false end)
                      (map N.of_nat (seq 0 16)) = true) by reflexivity.
  rewrite forallb_forall in A.
  specialize (A n). rewrite in_map_iff in A.
  assert (I : exists x, N.of_nat x = n /\ In x (seq 0 16)).
  { exists (N.to_nat n). split; [apply N2Nat.id|]. apply in_seq. lia. }
  specialize (A I). destruct (hexval (hexd n)) as [m|]; [|discriminate].
  apply N.eqb_eq in A. now subst.
Qed.

Lemma pstr_esc : forall s rest, pstr (flat_map esc s ++ 34%N :: rest) = Some (s, rest).
Proof.
  induction s as [|b s IH]; intro rest.
  - reflexivity.
  - cbn [flat_map]. rewrite <- app_assoc. unfold esc.
    destruct (b =? 34)%N eqn:E1; [apply N.eqb_eq in E1; subst; cbn; now rewrite IH|].
    destruct (b =? 92)%N eqn:E2; [apply N.eqb_eq in E2; subst; cbn; now rewrite IH|].
    destruct (b =? 8)%N eqn:E3; [apply N.eqb_eq in E3; subst; cbn; now rewrite IH|].
    destruct (b =? 12)%N eqn:E4; [apply N.eqb_eq in E4; subst; cbn; now rewrite IH|].
    destruct (b =? 10)%N eqn:E5; [apply N.eqb_eq in E5; subst; cbn; now rewrite IH|].
    destruct (b =? 13)%N eqn:E6; [apply N.eqb_eq in E6; subst; cbn; now rewrite IH|].
    destruct (b =? 9)%N eqn:E7; [apply N.eqb_eq in E7; subst; cbn; now rewrite IH|].
    destruct (b <? 32)%N eqn:E8.
    + apply N.ltb_lt in E8.
      cbn [app pstr]. cbn [N.eqb Pos.eqb andb].
      rewrite (hex_round (b / 16)), (hex_round (b mod 16)), IH.
      * f_equal. f_equal. f_equal. rewrite N.mul_comm. symmetry. apply N.div_mod. discriminate.
      * apply N.mod_lt. discriminate.
      * apply N.div_lt_upper_bound; [discriminate|]. lia.
    + cbn [app pstr]. rewrite E1, E2, IH. reflexivity.
Qed.

Lemma pstr_ser_str : forall s rest, exists t, ser_str s ++ rest = 34%N :: t /\ pstr t = Some (s, rest).
Proof.
  intros s rest. unfold ser_str. exists (flat_map esc s ++ 34%N :: rest). split.
  - cbn. rewrite <- app_assoc. reflexivity.
  - apply pstr_esc.
Qed.

(* ---- sizes (fuel) ---- *)

Fixpoint sz (v : jv) : nat :=
  match v with
  | JArr l => S ((fix go (l : list jv) : nat := match l with [] => 0 | x :: r => S (sz x + go r) end) l)
  | JObj kv => S ((fix go (l : list (list N * jv)) : nat := match l with [] => 0 | p :: r => S (sz (snd p) + go r) end) kv)
  | _ => 1
  end.
Fixpoint need_elems (l : list jv) : nat := match l with [] => 0 | x :: r => S (sz x + need_elems r) end.
Fixpoint need_members (l : list (list N * jv)) : nat := match l with [] => 0 | p :: r => S (sz (snd p) + need_members r) end.
Lemma sz_arr : forall l, sz (JArr l) = S (need_elems l).
Proof. intro l. reflexivity. Qed.
Lemma sz_obj : forall l, sz (JObj l) = S (need_members l).
Proof. intro l. reflexivity. Qed.

(* ---- number tokens ---- *)

Definition follow_num (rest : list N) : Prop :=
  match rest with [] => True | b :: _ => is_numch b = false end.

Lemma span_num_app : forall t rest,
  forallb is_numch t = true -> follow_num rest -> span_num (t ++ rest) = (t, rest).
Proof.
  induction t as [|b t IH]; intros rest Ht Hr.
  - destruct rest as [|c r]; [reflexivity|]. cbn in *. now rewrite Hr.
  - cbn in Ht. apply andb_true_iff in Ht. destruct Ht as [Hb Ht].
    cbn [app span_num]. rewrite Hb, (IH rest Ht Hr). reflexivity.
Qed.

Lemma digits_intch : forall u, forallb is_intch (digits u) = true.
Proof. induction u; cbn; auto. Qed.

Lemma show_int_intch : forall z, forallb is_intch (show_int z) = true.
Proof. intro z. unfold show_int. destruct (Z.to_int z); cbn; apply digits_intch. Qed.

Lemma intch_numch : forall b, is_intch b = true -> is_numch b = true.
Proof.
  intros b H. unfold is_intch in H. unfold is_numch. apply orb_true_iff in H.
  destruct H as [H|H]; rewrite H; cbn; rewrite ?orb_true_r; reflexivity.
Qed.

Lemma forallb_impl : forall (f g : N -> bool) l,
  (forall x, f x = true -> g x = true) -> forallb f l = true -> forallb g l = true.
Proof.
  intros f g l H. induction l as [|x l IH]; cbn; [reflexivity|]. intro E.
  apply andb_true_iff in E. destruct E as [E1 E2]. now rewrite (H _ E1), IH.
Qed.

Lemma pnum_show_int : forall z rest, follow_num rest -> pnum (show_int z ++ rest) = Some (JInt z, rest).
Proof.
  intros z rest Hr. unfold pnum.
  rewrite span_num_app; [| apply (forallb_impl is_intch); [apply intch_numch | apply show_int_intch] | exact Hr].
  destruct (show_int_head z) as (b & t & E & _).
  rewrite show_int_intch.
  pose proof (pint_show_int z [] I) as P. rewrite List.app_nil_r in P. rewrite P.
  rewrite E. reflexivity.
Qed.

Lemma pnum_float : forall tok rest, float_tok_ok tok = true -> follow_num rest ->
  pnum (tok ++ rest) = Some (JFloat tok, rest).
Proof.
  intros tok rest H Hr. unfold float_tok_ok in H. apply andb_true_iff in H. destruct H as [H1 H2].
  apply negb_true_iff in H2. unfold pnum. rewrite span_num_app; auto. rewrite H2.
  destruct tok; [discriminate|reflexivity].
Qed.

Lemma numch_not_lit : forall b, is_numch b = true ->
  ((b =? 110) = false /\ (b =? 116) = false /\ (b =? 102) = false /\ (b =? 34) = false /\
   (b =? 91) = false /\ (b =? 123) = false /\ (b =? 93) = false /\ (b =? 125) = false)%N.
Proof.
  intros b H. repeat split; apply N.eqb_neq; intro; subst; discriminate.
Qed.

Lemma float_tok_head : forall tok, float_tok_ok tok = true -> exists b t, tok = b :: t /\ is_numch b = true.
Proof.
  intros [|b t] H; [discriminate|]. unfold float_tok_ok in H. apply andb_true_iff in H.
  destruct H as [H _]. cbn in H. apply andb_true_iff in H. exists b, t. tauto.
Qed.

(* the first byte of a serialised value is never a closing bracket *)
Lemma ser_head : forall v, wf v = true -> exists b t, ser v = b :: t /\ ((b =? 93) = false /\ (b =? 125) = false)%N.
Proof.
  intros [| [|] | z | tok | s | l | kv] W.
  - eexists _, _. split; [reflexivity|]. split; reflexivity.
  - eexists _, _. split; [reflexivity|]. split; reflexivity.
  - eexists _, _. split; [reflexivity|]. split; reflexivity.
  - destruct (show_int_head z) as (b & t & E & H). exists b, t. split; [exact E|].
    split; apply N.eqb_neq; intro; subst; destruct H as [H|H]; discriminate.
  - cbn [wf] in W. destruct (float_tok_head tok W) as (b & t & E & H). exists b, t. split; [exact E|].
    destruct (numch_not_lit b H) as (_ & _ & _ & _ & _ & _ & A & B). auto.
  - eexists _, _. split; [reflexivity|]. split; reflexivity.
  - rewrite ser_arr. eexists _, _. split; [reflexivity|]. split; reflexivity.
  - rewrite ser_obj. eexists _, _. split; [reflexivity|]. split; reflexivity.
Qed.

(* ---- the round trip, with an arbitrary continuation ---- *)

Lemma pval_ser : forall v, wf v = true -> forall rest fuel,
  follow_num rest -> sz v < fuel -> pval fuel (ser v ++ rest) = Some (v, rest).
Proof.
  induction v as [| b | z | tok | s | l IH | kv IH] using jv_ind'; intros W rest fuel Hr Hf;
    (destruct fuel as [|f]; [lia|]).
  - reflexivity.
  - destruct b; reflexivity.
  - destruct (show_int_head z) as (b & t & E & Hb).
    assert (NB : is_numch b = true).
    { destruct Hb as [->|Hb]; [reflexivity|]. unfold is_numch. now rewrite Hb. }
    destruct (numch_not_lit b NB) as (A1 & A2 & A3 & A4 & A5 & A6 & _ & _).
    cbn [ser].
    replace (show_int z ++ rest) with (b :: (t ++ rest)) by (rewrite E; reflexivity).
    cbn [pval]. rewrite A1, A2, A3, A4, A5, A6.
    replace (b :: (t ++ rest)) with (show_int z ++ rest) by (rewrite E; reflexivity).
    now apply pnum_show_int.
  - cbn [wf] in W. destruct (float_tok_head tok W) as (b & t & E & NB).
    destruct (numch_not_lit b NB) as (A1 & A2 & A3 & A4 & A5 & A6 & _ & _).
    cbn [ser].
    replace (tok ++ rest) with (b :: (t ++ rest)) by (rewrite E; reflexivity).
    cbn [pval]. rewrite A1, A2, A3, A4, A5, A6.
    replace (b :: (t ++ rest)) with (tok ++ rest) by (rewrite E; reflexivity).
    now apply pnum_float.
  - destruct (pstr_ser_str s rest) as (t & E & P). cbn [ser]. rewrite E. cbn [pval].
    cbn [N.eqb Pos.eqb]. now rewrite P.
  - rewrite ser_arr. rewrite sz_arr in Hf. cbn [wf] in W.
    assert (EL : forall l, Forall (fun v => wf v = true -> forall rest fuel, follow_num rest -> sz v < fuel ->
                   pval fuel (ser v ++ rest) = Some (v, rest)) l -> forallb wf l = true ->
                 l <> [] -> forall rest f, need_elems l < f ->
                 pelems f (ser_elems l ++ 93%N :: rest) = Some (l, rest)).
    { clear. induction l as [|x r IHr]; intros F W NE rest f Hn; [congruence|].
      destruct f as [|f]; [lia|]. inversion F as [|? ? Hx Fr]; subst. cbn [need_elems] in Hn.
      cbn [forallb] in W. apply andb_true_iff in W. destruct W as [Wx Wr].
      rewrite ser_elems_cons. cbn [pelems].
      destruct r as [|y r'].
      - rewrite (Hx Wx); [|reflexivity|lia]. reflexivity.
      - rewrite (Hx Wx); [|reflexivity|lia]. cbn [N.eqb Pos.eqb].
        rewrite (IHr Fr Wr); [reflexivity|discriminate|lia]. }
    destruct l as [|x r].
    + reflexivity.
    + cbn [app pval]. cbn [N.eqb Pos.eqb].
      assert (Wx : wf x = true) by (cbn [forallb] in W; apply andb_true_iff in W; tauto).
      destruct (ser_head x Wx) as (b & t & E & N1 & _).
      assert (H0 : exists t', ser_elems (x :: r) ++ [93%N] ++ rest = b :: t').
      { destruct r; cbn [ser_elems]; rewrite E; cbn; eauto. }
      destruct H0 as (t' & E'). rewrite <- app_assoc. rewrite E'. rewrite N1. rewrite <- E'.
      cbn [app]. rewrite (EL (x :: r) IH W); [reflexivity|discriminate|lia].
  - rewrite ser_obj. rewrite sz_obj in Hf. cbn [wf] in W.
    assert (EL : forall l, Forall (fun p => wf (snd p) = true -> forall rest fuel, follow_num rest -> sz (snd p) < fuel ->
                   pval fuel (ser (snd p) ++ rest) = Some (snd p, rest)) l ->
                 forallb (fun p => wf (snd p)) l = true ->
                 l <> [] -> forall rest f, need_members l < f ->
                 pmembers f (ser_members l ++ 125%N :: rest) = Some (l, rest)).
    { clear. induction l as [|[k x] r IHr]; intros F W NE rest f Hn; [congruence|].
      destruct f as [|f]; [lia|]. inversion F as [|? ? Hx Fr]; subst. cbn [need_members snd] in Hn. cbn [snd] in Hx.
      cbn [forallb snd] in W. apply andb_true_iff in W. destruct W as [Wx Wr].
      rewrite ser_members_cons.
      destruct (pstr_ser_str k (58%N :: ser x ++
         match r with [] => 125%N :: rest | _ :: _ => 44%N :: ser_members r ++ 125%N :: rest end)) as (t & E & P).
      rewrite E. cbn [pmembers]. cbn [N.eqb Pos.eqb]. rewrite P. cbn [N.eqb Pos.eqb].
      destruct r as [|y r'].
      - rewrite (Hx Wx); [|reflexivity|lia]. reflexivity.
      - rewrite (Hx Wx); [|reflexivity|lia]. cbn [N.eqb Pos.eqb].
        rewrite (IHr Fr Wr); [reflexivity|discriminate|lia]. }
    destruct kv as [|[k x] r].
    + reflexivity.
    + cbn [app pval]. cbn [N.eqb Pos.eqb].
      assert (H0 : exists t', ser_members ((k, x) :: r) ++ [125%N] ++ rest = 34%N :: t').
      { destruct r; cbn [ser_members]; unfold ser_str; cbn; eauto. }
      destruct H0 as (t' & E'). rewrite <- app_assoc. rewrite E'. cbn [N.eqb Pos.eqb]. rewrite <- E'.
      cbn [app]. rewrite (EL ((k, x) :: r) IH W); [reflexivity|discriminate|lia].
Qed.

(* the default fuel of [de] is enough: every node writes at least one byte *)
Lemma sz_le_len : forall v, wf v = true -> sz v <= length (ser v).
Proof.
  induction v as [| b | z | tok | s | l IH | kv IH] using jv_ind'; intro W.
  - cbn. lia.
  - destruct b; cbn; lia.
  - destruct (show_int_head z) as (b & t & E & _). cbn [ser sz]. rewrite E. cbn. lia.
  - cbn [wf] in W. destruct (float_tok_head tok W) as (b & t & E & _). cbn [ser sz]. rewrite E. cbn. lia.
  - cbn. lia.
  - rewrite ser_arr, sz_arr. cbn [length]. rewrite app_length. cbn [length]. cbn [wf] in W.
    assert (need_elems l <= length (ser_elems l) + 1).
    { induction IH as [|x r Hx Hr IHr]; [cbn; lia|].
      cbn [forallb] in W. apply andb_true_iff in W. destruct W as [Wx Wr]. specialize (Hx Wx). specialize (IHr Wr).
      change (need_elems (x :: r)) with (S (sz x + need_elems r)).
      destruct r as [|y r'].
      - cbn [ser_elems need_elems]. lia.
      - change (ser_elems (x :: y :: r')) with (ser x ++ 44%N :: ser_elems (y :: r')).
        rewrite app_length. cbn [length]. lia. }
    lia.
  - rewrite ser_obj, sz_obj. cbn [length]. rewrite app_length. cbn [length]. cbn [wf] in W.
    assert (need_members kv <= length (ser_members kv) + 1).
    { induction IH as [|[k x] r Hx Hr IHr]; [cbn; lia|]. cbn [snd] in Hx.
      cbn [forallb snd] in W. apply andb_true_iff in W. destruct W as [Wx Wr]. specialize (Hx Wx). specialize (IHr Wr).
      change (need_members ((k, x) :: r)) with (S (sz x + need_members r)).
      destruct r as [|y r'].
      - cbn [ser_members need_members]. rewrite app_length. cbn [length]. lia.
      - change (ser_members ((k, x) :: y :: r')) with (ser_str k ++ 58%N :: ser x ++ 44%N :: ser_members (y :: r')).
        rewrite app_length. cbn [length]. rewrite app_length. cbn [length]. lia. }
    lia.
Qed.

(* floats are carried as opaque number tokens: [wf] asks that every float token is a non-integer
   number token (what a JSON writer prints for a float) *)
Theorem json_de_ser : forall v, wf v = true -> de (ser v) = Some v.
Proof.
  intros v W. unfold de. pose proof (pval_ser v W [] (S (length (ser v))) I) as H.
  rewrite List.app_nil_r in H. rewrite H; [reflexivity|]. pose proof (sz_le_len v W). lia.
Qed.
