(* C19: the string model (Lib/Strings.v) has the byte-offset / scalar-value semantics it claims. *)
From Coq Require Import List Bool ZArith NArith Lia.
From GV Require Import Lib.Strings.
Import ListNotations.
Open Scope bool_scope.

Lemma width_pos : forall c, 0 < width c.
Proof. intro c. unfold width. repeat destruct (_ <? _)%N; lia. Qed.

Lemma utf8_length : forall c, length (utf8 c) = width c.
Proof. intro c. unfold utf8, width. repeat destruct (_ <? _)%N; reflexivity. Qed.

(* len is the number of UTF-8 bytes *)
Theorem slen_bytes : forall s, slen s = length (bytes s).
Proof.
  induction s as [|c s IH]; cbn; [reflexivity|].
  rewrite app_length, utf8_length, IH. reflexivity.
Qed.

Lemma slen_app : forall a b, slen (a ++ b) = slen a + slen b.
Proof. induction a as [|c a IH]; intro b; cbn; [reflexivity|]. rewrite IH. lia. Qed.

(* split_at succeeds exactly on character boundaries and splits there *)
Theorem split_at_sound : forall s i a b,
  split_at s i = Some (a, b) -> s = a ++ b /\ slen a = i.
Proof.
  induction s as [|c s IH]; intros i a b H.
  - destruct i; cbn in H; [|discriminate]. inversion H. auto.
  - destruct i as [|i]; cbn [split_at] in H.
    + inversion H. auto.
    + destruct (Nat.leb (width c) (S i)) eqn:L; [|discriminate].
      destruct (split_at s (S i - width c)) as [[a' b']|] eqn:E; [|discriminate].
      inversion H; subst. apply IH in E. destruct E as [-> E]. apply Nat.leb_le in L.
      split; [reflexivity|]. cbn. lia.
Qed.

Theorem split_at_complete : forall a b, split_at (a ++ b) (slen a) = Some (a, b).
Proof.
  induction a as [|c a IH]; intro b.
  - cbn. destruct b; reflexivity.
  - cbn [app slen]. pose proof (width_pos c) as W.
    destruct (width c + slen a) as [|k] eqn:K; [lia|].
    cbn [split_at]. rewrite <- K.
    replace (Nat.leb (width c) (width c + slen a)) with true by (symmetry; apply Nat.leb_le; lia).
    replace (width c + slen a - width c) with (slen a) by lia.
    rewrite IH. reflexivity.
Qed.

Corollary is_char_boundary_spec : forall s i,
  is_char_boundary s i = true <-> exists a b, s = a ++ b /\ slen a = i.
Proof.
  intros s i. unfold is_char_boundary. split.
  - destruct (split_at s i) as [[a b]|] eqn:E; [|discriminate]. intros _.
    exists a, b. now apply split_at_sound.
  - intros (a & b & -> & <-). now rewrite split_at_complete.
Qed.

Theorem slice_spec : forall s a b q,
  slice s a b = Some q -> exists p r, s = p ++ q ++ r /\ slen p = a /\ slen (p ++ q) = b.
Proof.
  intros s a b q H. unfold slice in H.
  destruct (split_at s b) as [[p0 r]|] eqn:E1; [|discriminate].
  destruct (split_at p0 a) as [[p q']|] eqn:E2; [|discriminate].
  inversion H; subst q'. apply split_at_sound in E1. apply split_at_sound in E2.
  destruct E1 as [-> E1]. destruct E2 as [-> E2].
  exists p, r. rewrite <- app_assoc. auto.
Qed.

Theorem char_at_spec : forall s i c,
  char_at s i = Some c -> exists a b, s = a ++ c :: b /\ slen a = i.
Proof.
  intros s i c H. unfold char_at in H.
  destruct (split_at s i) as [[a [|c' b]]|] eqn:E; try discriminate.
  inversion H; subst c'. apply split_at_sound in E. exists a, b. exact E.
Qed.

Lemma is_prefix_spec : forall p s, is_prefix p s = true <-> exists r, s = p ++ r.
Proof.
  induction p as [|x p IH]; intro s; cbn.
  - split; [intros _; now exists s | reflexivity].
  - destruct s as [|y s].
    + split; [discriminate | intros (r & H); discriminate].
    + rewrite andb_true_iff, N.eqb_eq, IH. split.
      * intros (-> & r & ->). now exists r.
      * intros (r & H). inversion H. split; [reflexivity | now exists r].
Qed.

(* find returns the byte offset of an occurrence ... *)
Lemma find_from_sound : forall p s off i,
  find_from p s off = Some i -> exists a b, s = a ++ p ++ b /\ off + slen a = i.
Proof.
  intros p s. induction s as [|c s IH]; intros off i H; cbn [find_from] in H.
  - destruct (is_prefix p []) eqn:E; [|discriminate]. inversion H; subst.
    apply is_prefix_spec in E. destruct E as (r & E). exists [], r. cbn. split; [exact E | lia].
  - destruct (is_prefix p (c :: s)) eqn:E.
    + inversion H; subst. apply is_prefix_spec in E. destruct E as (r & E).
      exists [], r. cbn. split; [exact E | lia].
    + apply IH in H. destruct H as (a & b & -> & H). exists (c :: a), b. cbn. split; [reflexivity | lia].
Qed.

Theorem find_sound : forall s p i,
  sfind s p = Some i -> exists a b, s = a ++ p ++ b /\ slen a = i.
Proof.
  intros s p i H. apply find_from_sound in H. destruct H as (a & b & E & H). exists a, b. split; [exact E | lia].
Qed.

(* ... and of the first one; None means there is none *)
Lemma find_from_first : forall p s off,
  match find_from p s off with
  | Some i => forall a b, s = a ++ p ++ b -> i <= off + slen a
  | None => forall a b, s <> a ++ p ++ b
  end.
Proof.
  intros p s. induction s as [|c s IH]; intro off; cbn [find_from].
  - destruct (is_prefix p []) eqn:E.
    + intros a b _. lia.
    + intros a b H. destruct a; cbn in H.
      * assert (is_prefix p [] = true) by (apply is_prefix_spec; now exists b). congruence.
      * discriminate.
  - destruct (is_prefix p (c :: s)) eqn:E.
    + intros a b _. lia.
    + specialize (IH (off + width c)). destruct (find_from p s (off + width c)) as [i|].
      * intros [|x a] b H; cbn in H.
        -- assert (is_prefix p (c :: s) = true) by (apply is_prefix_spec; now exists b). congruence.
        -- inversion H; subst. specialize (IH a b eq_refl). cbn. lia.
      * intros [|x a] b H; cbn in H.
        -- assert (is_prefix p (c :: s) = true) by (apply is_prefix_spec; now exists b). congruence.
        -- inversion H; subst. now apply (IH a b).
Qed.

Theorem find_first : forall s p i,
  sfind s p = Some i -> forall a b, s = a ++ p ++ b -> i <= slen a.
Proof.
  intros s p i H a b E. pose proof (find_from_first p s 0) as F. unfold sfind in H. rewrite H in F.
  now apply (F a b).
Qed.

Theorem find_none : forall s p, sfind s p = None -> forall a b, s <> a ++ p ++ b.
Proof.
  intros s p H. pose proof (find_from_first p s 0) as F. unfold sfind in H. rewrite H in F. exact F.
Qed.

(* trim_start removes exactly the longest white-space prefix *)
Theorem trim_start_spec : forall s,
  exists w, s = w ++ trim_start s /\ forallb is_ws w = true /\
            match trim_start s with [] => True | c :: _ => is_ws c = false end.
Proof.
  unfold trim_start. induction s as [|c s (w & E & W & H)].
  - exists []. cbn. auto.
  - cbn [drop_ws]. destruct (is_ws c) eqn:C.
    + exists (c :: w). cbn [app forallb]. rewrite C, W. split; [now rewrite <- E | auto].
    + exists []. cbn. auto.
Qed.

Lemma lex_compare_eq : forall a b, lex_compare N.compare a b = Eq <-> a = b.
Proof.
  induction a as [|x a IH]; intros [|y b]; cbn; split; intro H; try discriminate; try reflexivity.
  - destruct (N.compare x y) eqn:C; try discriminate. apply N.compare_eq in C. apply IH in H. congruence.
  - inversion H; subst. rewrite N.compare_refl. now apply IH.
Qed.

Theorem str_eqb_spec : forall s t, str_eqb s t = true <-> s = t.
Proof.
  intros s t. unfold str_eqb, str_compare. rewrite <- lex_compare_eq.
  destruct (lex_compare N.compare s t); split; intro H; congruence.
Qed.
