(* C06 - theorems about the primitive model (Lib/Prims.v) over the table regenerated from
   /repo/vm/src/primitives.rs (gen/PrimTableGen.v). *)
From Coq Require Import List String ZArith Bool Lia.
From GV Require Import Base.Utf8 Lib.PrimSig Lib.Prims.
From GVgen Require Import PrimTableGen.
Import ListNotations.
Open Scope Z_scope.

(* ------------------------------------------------------------------------------------------ *)
(* guards *)

Lemma guard_eqb_eq a b : guard_eqb a b = true -> a = b.
Proof.
  destruct a, b; cbn [guard_eqb]; try discriminate; unfold nat_eqb; intros H;
    repeat (apply andb_prop in H; destruct H as [H ?]);
    repeat match goal with
           | [ E : Nat.eqb _ _ = true |- _ ] => apply Nat.eqb_eq in E
           | [ E : Z.eqb _ _ = true |- _ ] => apply Z.eqb_eq in E
           end; subst; reflexivity.
Qed.

Lemma has_ok g gs args :
  has g gs = true -> forallb (guard_ok args) gs = true -> guard_ok args g = true.
Proof.
  unfold has. intros Hex Hall. apply existsb_exists in Hex. destruct Hex as [g' [Hin Heq]].
  apply guard_eqb_eq in Heq. subst g'. rewrite forallb_forall in Hall. apply Hall. exact Hin.
Qed.

Lemma existsb_pick (p : guard -> bool) gs args :
  existsb p gs = true -> forallb (guard_ok args) gs = true ->
  exists g, p g = true /\ guard_ok args g = true.
Proof.
  intros Hex Hall. apply existsb_exists in Hex. destruct Hex as [g [Hin Hp]].
  rewrite forallb_forall in Hall. exists g. split; [exact Hp | apply Hall; exact Hin].
Qed.

(* The guards that [implies] accepts really establish the precondition of the Rust operation:
   with them in front, the callee cannot panic, for ALL arguments. *)
Theorem implies_sound gs pc args :
  implies gs pc = true -> forallb (guard_ok args) gs = true -> panics pc args = false.
Proof.
  intros Himp Hall. destruct pc; cbn [implies panics] in *; try discriminate; try reflexivity.
  - (* PRadix *)
    destruct (existsb_pick _ _ _ Himp Hall) as [g [Hp Hok]]. destruct g; try discriminate.
    unfold nat_eqb in Hp. apply andb_prop in Hp. destruct Hp as [Hp Hhi]. apply andb_prop in Hp. destruct Hp as [Hi Hlo].
    apply Nat.eqb_eq in Hi. subst i0. cbn [guard_ok] in Hok. apply andb_prop in Hok. destruct Hok as [H1 H2].
    apply Z.leb_le in Hhi, Hlo, H1, H2. apply negb_false_iff. apply andb_true_intro. split; apply Z.leb_le; lia.
  - (* PShiftI64 *)
    destruct (existsb_pick _ _ _ Himp Hall) as [g [Hp Hok]]. destruct g; try discriminate.
    unfold nat_eqb in Hp. apply andb_prop in Hp. destruct Hp as [Hp Hhi]. apply andb_prop in Hp. destruct Hp as [Hi Hlo].
    apply Nat.eqb_eq in Hi. subst i0. cbn [guard_ok] in Hok. apply andb_prop in Hok. destruct Hok as [H1 H2].
    apply Z.leb_le in Hhi, Hlo, H1, H2. apply orb_false_intro; [apply Z.ltb_ge | apply Z.leb_gt]; lia.
  - (* PShiftU8 *)
    destruct (existsb_pick _ _ _ Himp Hall) as [g [Hp Hok]]. destruct g; try discriminate.
    unfold nat_eqb in Hp. apply andb_prop in Hp. destruct Hp as [Hi Hn].
    apply Nat.eqb_eq in Hi. subst i0. cbn [guard_ok] in Hok.
    apply Z.leb_le in Hn. apply Z.ltb_lt in Hok. apply Z.leb_gt. lia.
  - (* PZero *)
    pose proof (has_ok _ _ args Himp Hall) as Hok. cbn [guard_ok] in Hok.
    apply negb_true_iff in Hok. exact Hok.
  - (* PStrRange *)
    apply andb_prop in Himp. destruct Himp as [Himp Hb]. apply andb_prop in Himp. destruct Himp as [Hle Ha].
    pose proof (has_ok _ _ args Hle Hall) as H1. pose proof (has_ok _ _ args Ha Hall) as H2.
    pose proof (has_ok _ _ args Hb Hall) as H3. cbn [guard_ok] in H1, H2, H3.
    apply negb_false_iff. unfold str_range_ok. rewrite H1, H2, H3. reflexivity.
  - (* PStrSplit *)
    pose proof (has_ok _ _ args Himp Hall) as Hok. cbn [guard_ok] in Hok.
    apply negb_false_iff. exact Hok.
  - (* PArrRange *)
    apply andb_prop in Himp. destruct Himp as [Hle Hlen].
    pose proof (has_ok _ _ args Hle Hall) as H1. pose proof (has_ok _ _ args Hlen Hall) as H2.
    cbn [guard_ok] in H1, H2. apply negb_false_iff. rewrite H1, H2. reflexivity.
Qed.

(* ------------------------------------------------------------------------------------------ *)
(* no panic *)

Lemma run_no_panic c gs args : implies gs (c_pre c) = true -> run c gs args <> HostPanic.
Proof.
  intros Himp. unfold run.
  destruct (negb (args_ok (c_sig c) args)); [discriminate|].
  destruct (forallb (guard_ok args) gs) eqn:Hall; cbn [negb]; [|discriminate].
  rewrite (implies_sound _ _ _ Himp Hall).
  destruct (c_err c args); discriminate.
Qed.

Lemma not_known_bad_safe e : In e prim_table -> ~ In e known_bad -> entry_safe e = true.
Proof.
  intros Hin Hnot. destruct (entry_safe e) eqn:Hs; [reflexivity|].
  exfalso. apply Hnot. unfold known_bad. apply filter_In. split; [exact Hin|]. rewrite Hs. reflexivity.
Qed.

Lemma safe_entry_no_panic e args : entry_safe e = true -> prim_eval e args <> HostPanic.
Proof.
  unfold entry_safe, prim_eval. destruct (callee_of e) as [c|]; [|discriminate].
  intros Hs. apply run_no_panic. exact Hs.
Qed.

(* Every primitive of the regenerated table that is not in [known_bad] returns a value or a Gluon
   error for ALL well-typed arguments (unbounded in the arguments). *)
Theorem prims_no_panic_outside_known e args :
  In e prim_table -> ~ In e known_bad -> well_typed e args -> prim_eval e args <> HostPanic.
Proof.
  intros Hin Hnot _. apply safe_entry_no_panic. apply not_known_bad_safe; assumption.
Qed.

(* The full statement (no exception list); false today, see [known_bad_refuted]. *)
Definition prims_total_no_panic_full_stmt : Prop :=
  forall e args, In e prim_table -> well_typed e args -> prim_eval e args <> HostPanic.

(* It holds exactly when known_bad is empty. *)
Theorem prims_total_no_panic_partial :
  known_bad = [] -> prims_total_no_panic_full_stmt.
Proof.
  intros Hk e args Hin Hwt. apply prims_no_panic_outside_known; try assumption. rewrite Hk. intros [].
Qed.

(* ------------------------------------------------------------------------------------------ *)
(* every member of known_bad really has a panicking, well-typed argument tuple *)

Lemma known_bad_witnesses : forallb witness_ok known_bad = true.
Proof. vm_compute. reflexivity. Qed.

Theorem known_bad_refuted e :
  In e known_bad -> exists args, well_typed e args /\ prim_eval e args = HostPanic.
Proof.
  intros Hin. pose proof known_bad_witnesses as H. rewrite forallb_forall in H. specialize (H e Hin).
  unfold witness_ok in H. unfold well_typed. destruct (callee_of e) as [c|] eqn:Hc; [|discriminate].
  apply andb_prop in H. destruct H as [Hty Hp]. exists (c_wit c). split; [exact Hty|].
  destruct (prim_eval e (c_wit c)); try discriminate. reflexivity.
Qed.

(* ------------------------------------------------------------------------------------------ *)
(* the defective rows, as they stand in primitives.rs at the time of writing (literal rows: these
   lemmas stay true when the table is repaired - they say the unguarded callee needs a guard) *)

Open Scope string_scope.
Definition row_int_from_str_radix := mk_entry "std.int.prim" "from_str_radix" 2 "|src,radix|std::int::prim::from_str_radix(src,radix).map_err(|_|())" [].
Definition row_int_shl := mk_entry "std.int.prim" "shl" 2 "std::int::shl" [].
Definition row_int_arithmetic_shr := mk_entry "std.int.prim" "arithmetic_shr" 2 "std::int::arithmetic_shr" [].
Definition row_int_logical_shr := mk_entry "std.int.prim" "logical_shr" 2 "std::int::logical_shr" [].
Definition row_int_pow := mk_entry "std.int.prim" "pow" 2 "std::int::prim::pow" [].
Definition row_int_abs := mk_entry "std.int.prim" "abs" 1 "std::int::prim::abs" [].
Definition row_int_rem := mk_entry "std.int.prim" "rem" 2 "int::rem" ["ok:divisor!=0"].
Definition row_int_rem_euclid := mk_entry "std.int.prim" "rem_euclid" 2 "int::rem_euclid" ["ok:divisor!=0"].
Definition row_int_wrapping_div := mk_entry "std.int.prim" "wrapping_div" 2 "std::int::prim::wrapping_div" [].
Definition row_int_overflowing_div := mk_entry "std.int.prim" "overflowing_div" 2 "std::int::prim::overflowing_div" [].
Definition row_byte_shl := mk_entry "std.byte.prim" "shl" 2 "std::byte::shl" [].
Definition row_byte_shr := mk_entry "std.byte.prim" "shr" 2 "std::byte::shr" [].
Definition row_byte_pow := mk_entry "std.byte.prim" "pow" 2 "std::byte::prim::pow" [].
Definition row_byte_wrapping_div := mk_entry "std.byte.prim" "wrapping_div" 2 "std::byte::prim::wrapping_div" [].
Definition row_byte_overflowing_div := mk_entry "std.byte.prim" "overflowing_div" 2 "std::byte::prim::overflowing_div" [].
Definition row_char_is_digit := mk_entry "std.char.prim" "is_digit" 2 "std::char::prim::is_digit" [].
Definition row_char_to_digit := mk_entry "std.char.prim" "to_digit" 2 "std::char::prim::to_digit" [].
Definition row_string_slice := mk_entry "std.string.prim" "slice" 3 "string::slice" ["ok:s.is_char_boundary(start)&&s.is_char_boundary(end)"].
Definition row_st_string_slice := mk_entry "std.effect.st.string.prim" "slice" 3 "std::effect::st::string::prim::slice" ["ok:s.is_char_boundary(start)&&s.is_char_boundary(end)"].
Close Scope string_scope.

Definition refuted (e : entry) : Prop := exists args, well_typed e args /\ prim_eval e args = HostPanic.

Ltac refute args := exists args; split; vm_compute; reflexivity.

(* std.int.from_str_radix "1" 99 *)
Lemma prim_int_from_str_radix_refuted : refuted row_int_from_str_radix. Proof. refute [AStr [49]; AInt 99]. Qed.
(* std.int.shl 1 100 *)
Lemma prim_int_shl_refuted : refuted row_int_shl. Proof. refute [AInt 1; AInt 100]. Qed.
Lemma prim_int_arithmetic_shr_refuted : refuted row_int_arithmetic_shr. Proof. refute [AInt 1; AInt 64]. Qed.
Lemma prim_int_logical_shr_refuted : refuted row_int_logical_shr. Proof. refute [AInt 1; AInt (-1)]. Qed.
Lemma prim_int_pow_refuted : refuted row_int_pow. Proof. refute [AInt 2; AInt 63]. Qed.
Lemma prim_int_abs_refuted : refuted row_int_abs. Proof. refute [AInt (-9223372036854775808)]. Qed.
Lemma prim_int_rem_refuted : refuted row_int_rem. Proof. refute [AInt (-9223372036854775808); AInt (-1)]. Qed.
Lemma prim_int_rem_euclid_refuted : refuted row_int_rem_euclid. Proof. refute [AInt (-9223372036854775808); AInt (-1)]. Qed.
Lemma prim_int_wrapping_div_refuted : refuted row_int_wrapping_div. Proof. refute [AInt 1; AInt 0]. Qed.
Lemma prim_int_overflowing_div_refuted : refuted row_int_overflowing_div. Proof. refute [AInt 1; AInt 0]. Qed.
Lemma prim_byte_shl_refuted : refuted row_byte_shl. Proof. refute [AByte 1; AByte 8]. Qed.
Lemma prim_byte_shr_refuted : refuted row_byte_shr. Proof. refute [AByte 1; AByte 255]. Qed.
Lemma prim_byte_pow_refuted : refuted row_byte_pow. Proof. refute [AByte 2; AInt 8]. Qed.
Lemma prim_byte_wrapping_div_refuted : refuted row_byte_wrapping_div. Proof. refute [AByte 7; AByte 0]. Qed.
Lemma prim_byte_overflowing_div_refuted : refuted row_byte_overflowing_div. Proof. refute [AByte 7; AByte 0]. Qed.
Lemma prim_char_is_digit_refuted : refuted row_char_is_digit. Proof. refute [AChar 49; AInt 37]. Qed.
Lemma prim_char_to_digit_refuted : refuted row_char_to_digit. Proof. refute [AChar 97; AInt 99]. Qed.
(* std.string.slice "hello" 3 1 *)
Lemma prim_string_slice_refuted : refuted row_string_slice.
Proof. refute [AStr [104; 101; 108; 108; 111]; AInt 3; AInt 1]. Qed.
Lemma prim_st_string_slice_refuted : refuted row_st_string_slice.
Proof. refute [ABuf [104; 101; 108; 108; 111]; AInt 3; AInt 1]. Qed.

(* ------------------------------------------------------------------------------------------ *)
(* guard lemmas: the explicit checks written in primitives.rs imply the callee's precondition *)

Lemma boundary_le_len s i : 0 <= i -> is_char_boundary s i = true -> i <= zlen s.
Proof.
  intros Hi. unfold is_char_boundary.
  destruct (i =? 0) eqn:E0. { apply Z.eqb_eq in E0. subst. intros _. unfold zlen. lia. }
  destruct (i <? 0) eqn:En; [discriminate|].
  destruct (zlen s <=? i) eqn:El.
  - intros H. apply Z.eqb_eq in H. lia.
  - intros _. apply Z.leb_gt in El. lia.
Qed.

(* &s[start..end] after `start <= end`, `is_char_boundary(start)`, `is_char_boundary(end)` *)
Theorem guarded_slice_safe s a b rest :
  as_u64 a <= as_u64 b ->
  is_char_boundary s (as_u64 a) = true -> is_char_boundary s (as_u64 b) = true ->
  panics (PStrRange 0 1 2) (AStr s :: AInt a :: AInt b :: rest) = false
  /\ as_u64 b <= zlen s.
Proof.
  intros Hle Ha Hb. split.
  - cbn. unfold str_range_ok. apply Z.leb_le in Hle. unfold usize_at, num_at. cbn. rewrite Hle, Ha, Hb. reflexivity.
  - apply boundary_le_len; [|exact Hb]. unfold as_u64. apply Z.mod_pos_bound. reflexivity.
Qed.

(* s.split_at(index) / &s[index..] after `is_char_boundary(index)` *)
Theorem guarded_split_safe s i rest :
  is_char_boundary s (as_u64 i) = true -> panics (PStrSplit 0 1) (AStr s :: AInt i :: rest) = false.
Proof. intros H. cbn. unfold usize_at, num_at. cbn. rewrite H. reflexivity. Qed.

(* the array slice initialiser after `start <= end` and `end <= len` *)
Theorem guarded_array_slice_safe l a b rest :
  as_u64 a <= as_u64 b -> as_u64 b <= zlen l ->
  panics (PArrRange 0 1 2) (AArr l :: AInt a :: AInt b :: rest) = false.
Proof.
  intros H1 H2. cbn. unfold usize_at, num_at. cbn.
  apply Z.leb_le in H1, H2. rewrite H1, H2. reflexivity.
Qed.

(* The rows of the regenerated table that are guarded today keep their guards: for these names the
   table row is safe for all arguments.  (A deleted or weakened guard breaks this proof.) *)
Open Scope string_scope.
Definition guarded_today : list (string * string) :=
  [ ("std.array.prim", "index"); ("std.array.prim", "slice"); ("std.array.prim", "append"); ("std.array.prim", "len")
  ; ("std.string.prim", "split_at"); ("std.string.prim", "char_at"); ("std.string.prim", "is_char_boundary")
  ; ("std.int.prim", "wrapping_rem"); ("std.int.prim", "wrapping_rem_euclid")
  ; ("std.int.prim", "overflowing_rem"); ("std.int.prim", "overflowing_rem_euclid")
  ; ("std.int.prim", "checked_rem"); ("std.int.prim", "checked_rem_euclid") ].
Close Scope string_scope.

Definition row_safe (mn : string * string) : bool :=
  match find_entry (fst mn) (snd mn) prim_table with
  | Some e => entry_safe e && match callee_of e with Some _ => true | None => false end
  | None => false
  end.

Lemma guarded_today_rows : forallb row_safe guarded_today = true.
Proof. vm_compute. reflexivity. Qed.

Theorem guarded_today_safe m n e args :
  In (m, n) guarded_today -> find_entry m n prim_table = Some e -> prim_eval e args <> HostPanic.
Proof.
  intros Hin Hf. pose proof guarded_today_rows as H. rewrite forallb_forall in H. specialize (H _ Hin).
  unfold row_safe in H. cbn [fst snd] in H. rewrite Hf in H. apply andb_prop in H. destruct H as [Hs _].
  apply safe_entry_no_panic. exact Hs.
Qed.

(* ------------------------------------------------------------------------------------------ *)
(* coverage: every row of the regenerated table that belongs to a modelled module has a clause in
   the model (its callee text is known) whose signature has the row's arity *)

Lemma coverage_sweep : forallb covered prim_table = true.
Proof. vm_compute. reflexivity. Qed.

Theorem coverage e :
  In e prim_table -> modelled_module (e_mod e) = true ->
  exists c, callee_of e = Some c /\ List.length (c_sig c) = e_arity e.
Proof.
  intros Hin Hm. pose proof coverage_sweep as H. rewrite forallb_forall in H. specialize (H e Hin).
  unfold covered in H. rewrite Hm in H. cbn [negb orb] in H.
  destruct (callee_of e) as [c|]; [|discriminate]. exists c. split; [reflexivity|]. apply Nat.eqb_eq. exact H.
Qed.

(* the modelled part of the table is not empty (the theorems above are not vacuous) *)
Lemma modelled_rows_exist : (100 <= List.length (filter (fun e => modelled_module (e_mod e)) prim_table))%nat.
Proof. vm_compute. repeat constructor. Qed.
