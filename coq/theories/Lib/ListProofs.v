(* C19: std.list filter / sort (generated ListGen.v) agree with their mathematical definitions. *)
From Coq Require Import List Sorted Permutation Lia.
From GVgen Require Import ListGen.
From GV Require Import Lib.StdSpec.
Import ListNotations.

Section ListProofs.
Variable A : Type.

Local Notation append := (@ListGen.append A).
Local Notation gfilter := (@ListGen.filter A).
Local Notation scan := (@ListGen.scan A).

(* ---- characterising lemmas ---- *)

Lemma append_app : forall xs ys, append xs ys = xs ++ ys.
Proof. induction xs as [|x xs IH]; intro ys; cbn; [reflexivity | now rewrite IH]. Qed.

Theorem filter_spec : forall (p : A -> bool) xs, gfilter p xs = List.filter p xs.
Proof.
  intros p xs. induction xs as [|x xs IH]; cbn; [reflexivity|].
  rewrite IH. reflexivity.
Qed.

Theorem filter_In : forall (p : A -> bool) x xs, In x (gfilter p xs) <-> In x xs /\ p x = true.
Proof. intros. rewrite filter_spec. apply List.filter_In. Qed.

Definition is_lt (c : comparison) := match c with Lt => true | _ => false end.
Definition is_eq (c : comparison) := match c with Eq => true | _ => false end.
Definition is_gt (c : comparison) := match c with Gt => true | _ => false end.

Lemma scan_spec : forall (c : A -> comparison) xs l e g,
  scan c xs l e g =
  (rev (List.filter (fun x => is_lt (c x)) xs) ++ l,
   rev (List.filter (fun x => is_eq (c x)) xs) ++ e,
   rev (List.filter (fun x => is_gt (c x)) xs) ++ g).
Proof.
  intros c xs. induction xs as [|x xs IH]; intros l e g.
  - reflexivity.
  - cbn [ListGen.scan List.filter]. destruct (c x) eqn:C; cbn [is_lt is_eq is_gt]; rewrite IH;
      cbn [rev]; rewrite <- ?app_assoc; reflexivity.
Qed.

Lemma filter3_perm : forall (c : A -> comparison) xs,
  Permutation xs (List.filter (fun x => is_lt (c x)) xs ++
                  List.filter (fun x => is_eq (c x)) xs ++
                  List.filter (fun x => is_gt (c x)) xs).
Proof.
  intros c xs. induction xs as [|x xs IH]; cbn; [constructor|].
  destruct (c x); cbn.
  - apply Permutation_cons_app. exact IH.
  - now constructor.
  - rewrite app_assoc. apply Permutation_cons_app. rewrite <- app_assoc. exact IH.
Qed.

Lemma filter_length_le : forall (p : A -> bool) xs, length (List.filter p xs) <= length xs.
Proof. intros p xs. induction xs as [|x xs IH]; cbn; [lia|]. destruct (p x); cbn; lia. Qed.

Variable cmp : A -> A -> comparison.
Local Notation sort_fuel := (@ListGen.sort_fuel A cmp).

Lemma sort_fuel_S : forall fuel xs,
  sort_fuel (S fuel) xs =
  match xs with
  | [] => Done []
  | pivot :: ys =>
      let '(less, equal, greater) := scan (fun a => cmp a pivot) ys [] [pivot] [] in
      match sort_fuel fuel less with
      | OutOfFuel => OutOfFuel
      | Done r1 =>
          match sort_fuel fuel greater with
          | OutOfFuel => OutOfFuel
          | Done r2 => Done (append (append r1 equal) r2)
          end
      end
  end.
Proof. reflexivity. Qed.

(* One unfolding of sort, in terms of List.filter. *)
Lemma sort_fuel_step : forall fuel pivot ys,
  sort_fuel (S fuel) (pivot :: ys) =
  match sort_fuel fuel (rev (List.filter (fun x => is_lt (cmp x pivot)) ys)) with
  | OutOfFuel => OutOfFuel
  | Done r1 =>
      match sort_fuel fuel (rev (List.filter (fun x => is_gt (cmp x pivot)) ys)) with
      | OutOfFuel => OutOfFuel
      | Done r2 => Done (r1 ++ (rev (List.filter (fun x => is_eq (cmp x pivot)) ys) ++ [pivot]) ++ r2)
      end
  end.
Proof.
  intros fuel pivot ys. rewrite sort_fuel_S, scan_spec. rewrite !app_nil_r.
  destruct (sort_fuel fuel _); [|reflexivity].
  destruct (sort_fuel fuel _); [|reflexivity].
  rewrite !append_app, <- app_assoc. reflexivity.
Qed.

Theorem sort_fuel_enough : forall fuel xs,
  length xs < fuel -> exists r, sort_fuel fuel xs = Done r.
Proof.
  induction fuel as [|fuel IH]; intros xs H; [lia|].
  destruct xs as [|pivot ys].
  - exists []. reflexivity.
  - rewrite sort_fuel_step. cbn [length] in H.
    destruct (IH (rev (List.filter (fun x => is_lt (cmp x pivot)) ys))) as (r1 & E1).
    { rewrite rev_length. pose proof (filter_length_le (fun x => is_lt (cmp x pivot)) ys). lia. }
    destruct (IH (rev (List.filter (fun x => is_gt (cmp x pivot)) ys))) as (r2 & E2).
    { rewrite rev_length. pose proof (filter_length_le (fun x => is_gt (cmp x pivot)) ys). lia. }
    rewrite E1, E2. eauto.
Qed.

Theorem sort_perm : forall fuel xs r, sort_fuel fuel xs = Done r -> Permutation xs r.
Proof.
  induction fuel as [|fuel IH]; intros xs r H; [discriminate|].
  destruct xs as [|pivot ys].
  - inversion H. constructor.
  - rewrite sort_fuel_step in H.
    destruct (sort_fuel fuel (rev (List.filter (fun x => is_lt (cmp x pivot)) ys))) as [r1|] eqn:E1; [|discriminate].
    destruct (sort_fuel fuel (rev (List.filter (fun x => is_gt (cmp x pivot)) ys))) as [r2|] eqn:E2; [|discriminate].
    inversion H; subst r. clear H.
    apply IH in E1. apply IH in E2.
    apply Permutation_trans with
      (List.filter (fun x => is_lt (cmp x pivot)) ys ++
       (pivot :: List.filter (fun x => is_eq (cmp x pivot)) ys) ++
       List.filter (fun x => is_gt (cmp x pivot)) ys).
    + cbn. apply Permutation_cons_app. apply (filter3_perm (fun x => cmp x pivot)).
    + apply Permutation_app; [|apply Permutation_app].
      * eapply Permutation_trans; [apply Permutation_rev | exact E1].
      * eapply Permutation_trans; [apply Permutation_cons_append|].
        apply Permutation_app_tail, Permutation_rev.
      * eapply Permutation_trans; [apply Permutation_rev | exact E2].
Qed.

Hypothesis ord : ord_ok cmp.

Let cmp_refl : forall a, cmp a a = Eq. Proof. apply ord. Qed.
Let cmp_sym : forall a b, cmp b a = CompOpp (cmp a b). Proof. apply ord. Qed.
Let cmp_trans : forall a b c, cmp a b = Lt -> cmp b c = Lt -> cmp a c = Lt. Proof. apply ord. Qed.
Let cmp_eq_l : forall a b c, cmp a b = Eq -> cmp a c = cmp b c. Proof. apply ord. Qed.

Local Notation le := (le_of cmp).

Lemma sorted_3way : forall (l e g : list A) p,
  StronglySorted le l -> StronglySorted le g ->
  Forall (fun x => cmp x p = Lt) l -> Forall (fun x => cmp x p = Eq) e -> Forall (fun x => cmp x p = Gt) g ->
  StronglySorted le (l ++ e ++ g).
Proof.
  intros l e g p Sl Sg Fl Fe Fg.
  assert (Heg : forall x y, cmp x p = Eq -> cmp y p = Gt -> le x y).
  { intros x y Hx Hy. unfold le_of. rewrite (cmp_eq_l _ _ y Hx), cmp_sym, Hy. discriminate. }
  assert (Hee : forall x y, cmp x p = Eq -> cmp y p = Eq -> le x y).
  { intros x y Hx Hy. unfold le_of. rewrite (cmp_eq_l _ _ y Hx), cmp_sym, Hy. discriminate. }
  assert (Hle : forall x y, cmp x p = Lt -> cmp y p = Eq -> le x y).
  { intros x y Hx Hy. unfold le_of.
    assert (cmp x y = cmp x p) as ->; [|rewrite Hx; discriminate].
    rewrite (cmp_sym y x), (cmp_sym p x). f_equal. now apply cmp_eq_l. }
  assert (Hlg : forall x y, cmp x p = Lt -> cmp y p = Gt -> le x y).
  { intros x y Hx Hy. unfold le_of. rewrite (cmp_trans x p y); [discriminate|exact Hx|].
    rewrite cmp_sym, Hy. reflexivity. }
  assert (Seg : StronglySorted le (e ++ g)).
  { clear Sl Fl. induction e as [|a e IH]; cbn; [exact Sg|].
    inversion Fe as [|? ? Ha Fe']; subst. constructor; [now apply IH|].
    apply Forall_app. split.
    - eapply Forall_impl; [|exact Fe']. intros y Hy. now apply Hee.
    - eapply Forall_impl; [|exact Fg]. intros y Hy. now apply Heg. }
  induction l as [|a l IH]; cbn; [exact Seg|].
  inversion Sl as [|? ? Sl' Fa]; subst. inversion Fl as [|? ? Ha Fl']; subst.
  constructor; [now apply IH|].
  apply Forall_app. split; [exact Fa|]. apply Forall_app. split.
  - eapply Forall_impl; [|exact Fe]. intros y Hy. now apply Hle.
  - eapply Forall_impl; [|exact Fg]. intros y Hy. now apply Hlg.
Qed.

Lemma Forall_filter : forall (p : A -> bool) xs, Forall (fun x => p x = true) (List.filter p xs).
Proof. intros p xs. apply Forall_forall. intros x H. now apply List.filter_In in H. Qed.

Theorem sort_sorted : forall fuel xs r, sort_fuel fuel xs = Done r -> StronglySorted le r.
Proof.
  induction fuel as [|fuel IH]; intros xs r H; [discriminate|].
  destruct xs as [|pivot ys].
  - inversion H. constructor.
  - rewrite sort_fuel_step in H.
    destruct (sort_fuel fuel (rev (List.filter (fun x => is_lt (cmp x pivot)) ys))) as [r1|] eqn:E1; [|discriminate].
    destruct (sort_fuel fuel (rev (List.filter (fun x => is_gt (cmp x pivot)) ys))) as [r2|] eqn:E2; [|discriminate].
    inversion H; subst r. clear H.
    pose proof (sort_perm _ _ _ E1) as P1. pose proof (sort_perm _ _ _ E2) as P2.
    apply sorted_3way with (p := pivot).
    + eapply IH; eassumption.
    + eapply IH; eassumption.
    + eapply Permutation_Forall; [exact P1|]. eapply Permutation_Forall; [apply Permutation_rev|].
      eapply Forall_impl; [|apply Forall_filter]. cbn. intros x Hx. destruct (cmp x pivot); now try discriminate.
    + apply Forall_app. split.
      * eapply Permutation_Forall; [apply Permutation_rev|].
        eapply Forall_impl; [|apply Forall_filter]. cbn. intros x Hx. destruct (cmp x pivot); now try discriminate.
      * constructor; [apply cmp_refl|constructor].
    + eapply Permutation_Forall; [exact P2|]. eapply Permutation_Forall; [apply Permutation_rev|].
      eapply Forall_impl; [|apply Forall_filter]. cbn. intros x Hx. destruct (cmp x pivot); now try discriminate.
Qed.

(* std.list.sort with the default fuel: total, sorted, a permutation. *)
Theorem sort_correct : forall xs,
  exists r, sort cmp xs = Done r /\ StronglySorted le r /\ Permutation xs r.
Proof.
  intro xs. unfold sort. destruct (sort_fuel_enough (S (length xs)) xs) as (r & E); [lia|].
  exists r. split; [exact E|]. split; [eapply sort_sorted | eapply sort_perm]; exact E.
Qed.

End ListProofs.
