(* Mark & sweep as gluon does it (vm/src/gc.rs:1300 collect, :1316 mark, :1336 sweep;
   vm/src/thread.rs:348 Roots, :372 scope, :395 mark_child_roots).  Definitions only.

   A collection started by the thread owning heap [t]
     * traces the roots of that thread and of every thread below it (mark_child_roots),
     * `Gc::mark` refuses (returns "already marked") every object whose generation
       `is_parent_of` the collecting heap's generation — [mark_skips], GENERATED from gc.rs —
       so nothing reached only through such an object is traced,
     * sweeps heap [t] and the heaps of all threads below it: every unmarked object of those heaps
       is freed and its size subtracted from the heap's `allocated_memory` (gc.rs:1388 free).
   Mark bits do not survive a collection in the model (sweep resets them, gc.rs:1359). *)
From Coq Require Import List ZArith Bool Arith.
From GVgen Require Import GenerationGen.
From GV Require Import Heap.Heap.
Import ListNotations.

(* [None]: out of fuel.  A pointer to a freed object is stepped over here; collect_no_dangling
   shows it does not occur under the invariant (the implementation would read freed memory). *)
Fixpoint mark (fuel : nat) (st : store) (cg : Z) (work : list oid) (marked : list oid)
  : option (list oid) :=
  match fuel with
  | 0 => None
  | S f =>
    match work with
    | [] => Some marked
    | o :: w =>
      match lookup st o with
      | None => mark f st cg w marked
      | Some ob =>
        if mark_skips (o_gen ob) cg (mem o marked)
        then mark f st cg w marked
        else mark f st cg (ptrs (o_fields ob) ++ w) (o :: marked)
      end
    end
  end.

(* enough for any work list: every step either drops one work item or marks a new object *)
Definition cost (x : option obj) : nat :=
  match x with Some ob => 2 + length (o_fields ob) | None => 0 end.
Definition mark_fuel (st : store) (work : list oid) : nat :=
  1 + length work + list_sum (map cost st).

Fixpoint sweep_from (i : nat) (st : store) (scope : list hid) (marked : list oid) : store :=
  match st with
  | [] => []
  | x :: rest =>
    (match x with
     | Some ob => if mem (o_owner ob) scope && negb (mem i marked) then None else Some ob
     | None => None
     end) :: sweep_from (S i) rest scope marked
  end.
Definition sweep (st : store) (scope : list hid) (marked : list oid) : store :=
  sweep_from 0 st scope marked.

(* bytes freed from heap [h] *)
Fixpoint freed_from (i : nat) (st : store) (h : hid) (scope : list hid) (marked : list oid) : nat :=
  match st with
  | [] => 0
  | x :: rest =>
    (match x with
     | Some ob => if Nat.eqb (o_owner ob) h && mem (o_owner ob) scope && negb (mem i marked)
                  then o_size ob else 0
     | None => 0
     end) + freed_from (S i) rest h scope marked
  end.

Definition collect_roots (tr : tree) (rs : list (list field)) (t : hid) : list oid :=
  flat_map (fun h => ptrs (roots_of rs h)) (desc tr t).

Definition collect (s : state) (t : hid) : option state :=
  let tr := s_tree s in
  let st := s_store s in
  let work := collect_roots tr (s_roots s) t in
  match mark (mark_fuel st work) st (gen_of tr t) work [] with
  | None => None
  | Some m =>
    let scope := desc tr t in
    Some (mkState tr (sweep st scope m) (s_roots s)
            (map (fun h => alloc_of (s_alloc s) h - freed_from 0 st h scope m)
                 (seq 0 (length (s_alloc s)))))
  end.

(* Gc::alloc_ignore_limit_: allocated_memory += size (gc.rs:1265) *)
Definition op_alloc (s : state) (t : hid) (k : kind) (tag : Z) (size : nat) (fs : list field)
  : state * oid :=
  let ob := mkObj t (gen_of (s_tree s) t) k tag t size fs in
  (mkState (s_tree s) (s_store s ++ [Some ob]) (s_roots s)
           (upd (s_alloc s) t (alloc_of (s_alloc s) t + size)),
   length (s_store s)).
