(* C13 clone_iso: the copy is isomorphic to the source graph.

   The association list the clone builds ([snd] of the clone state) relates every copied source
   object to its copy.  [clone_iso]: at the end
     * the result is related to the source value,
     * every pair (a, b) of the list is a faithful copy: same kind, payload, size, and field by
       field either the same immediate, the same (shared, old) pointer, or a pair of the list.
   So the relation "equal or paired" is a bisimulation between the source graph (in the old store)
   and the result graph (in the new store).  [clone_vis_injective] / [clone_vis_functional]: no copy
   stands for two sources, and a source of a kind that goes through `visited` ([memo], GENERATED)
   has exactly one copy — sharing and cycles are preserved for those kinds.  (For Reference / Lazy /
   extern functions [memo] is false: see clone_iso_refuted_cell_sharing.) *)
From Coq Require Import List ZArith Bool Arith Lia.
From GVgen Require Import GenerationGen ClonerGen.
From GV Require Import Heap.Heap Heap.HeapProofs Heap.Clone Heap.CloneProofs.
Import ListNotations.

Section Iso.
  Variables (tr : tree) (st0 : store).
  Variables (rg : Z) (recv : hid) (rgen : Z) (cth : hid).
  Variable R : oid -> Prop.
  Let n0 := length st0.

  Hypothesis R_exists : forall p, R p -> exists ob, lookup st0 p = Some ob.
  Hypothesis R_closed : forall o ob p, R o -> lookup st0 o = Some ob -> In (Ptr p) (o_fields ob) -> R p.
  Hypothesis S1 : forall o ob, R o -> lookup st0 o = Some ob ->
    clone_shares rg (o_gen ob) = true -> ancP tr (o_owner ob) recv.
  Hypothesis S2 : forall o ob i p, R o -> lookup st0 o = Some ob ->
    nth_error (o_fields ob) i = Some (Ptr p) -> fmode_of (o_kind ob) i = FShare -> shr tr st0 recv p.

  Notation cinv := (cinv tr st0 recv rgen).
  Notation pre := (pre tr st0 recv R).
  Notation post := (post tr st0 recv rgen).

  Definition rel (vis : list (oid * oid)) (f f' : field) : Prop :=
    match f, f' with
    | Imm a, Imm b => a = b
    | Ptr a, Ptr b => (a = b /\ a < n0) \/ In (a, b) vis
    | _, _ => False
    end.

  Definition partial_ok (st : store) (vis : list (oid * oid)) (oa : obj) (b : oid) (i : nat) : Prop :=
    exists ob, lookup st b = Some ob /\
      o_kind ob = o_kind oa /\ o_tag ob = o_tag oa /\ o_size ob = o_size oa /\
      length (o_fields ob) = length (o_fields oa) /\
      forall j f, j < i -> nth_error (o_fields oa) j = Some f ->
        exists f', nth_error (o_fields ob) j = Some f' /\ rel vis f f'.

  Definition copy_ok (st : store) (vis : list (oid * oid)) (a b : oid) : Prop :=
    exists oa, lookup st0 a = Some oa /\ partial_ok st vis oa b (length (o_fields oa)).

  Definition iso_inv (pending : list oid) (c : cst) : Prop :=
    forall a b, In (a, b) (snd c) -> In b pending \/ copy_ok (fst c) (snd c) a b.

  (* no copy stands for two sources; a source whose kind goes through `visited` has one copy *)
  Definition vis_ok (c : cst) : Prop :=
    NoDup (map snd (snd c)) /\
    (forall a b b' oa, In (a, b) (snd c) -> In (a, b') (snd c) ->
       lookup st0 a = Some oa -> memo (o_kind oa) = true -> b = b').

  Definition ipre (pending : list oid) (c : cst) : Prop :=
    cinv c /\ iso_inv pending c /\ (forall b, In b pending -> b < length (fst c)) /\ vis_ok c.

  (* pairs added by a step have a copy allocated by that step *)
  Definition newb (c c' : cst) : Prop :=
    forall a b, In (a, b) (snd c') -> In (a, b) (snd c) \/ length (fst c) <= b.

  Definition ipost (pending : list oid) (c c' : cst) (f f' : field) : Prop :=
    post c c' f' /\ iso_inv pending c' /\ rel (snd c') f f' /\ newb c c' /\ vis_ok c'.

  Lemma rel_mono : forall vis vis' f f', (forall x, In x vis -> In x vis') -> rel vis f f' -> rel vis' f f'.
  Proof.
    intros vis vis' [a|a] [b|b] I H; cbn in *; auto. destruct H; auto.
  Qed.

  Lemma partial_mono : forall st st' vis vis' oa b i,
    lookup st' b = lookup st b -> (forall x, In x vis -> In x vis') ->
    partial_ok st vis oa b i -> partial_ok st' vis' oa b i.
  Proof.
    intros st st' vis vis' oa b i E I [ob [L [K [T [Z [Ln F]]]]]].
    exists ob. rewrite E. repeat (split; [assumption|]).
    intros j f Hj N. destruct (F j f Hj N) as [f' [N' Rl]]. exists f'. split; [assumption|].
    eapply rel_mono; eauto.
  Qed.

  Lemma copy_mono : forall st st' vis vis' a b,
    lookup st' b = lookup st b -> (forall x, In x vis -> In x vis') ->
    copy_ok st vis a b -> copy_ok st' vis' a b.
  Proof.
    intros st st' vis vis' a b E I [oa [L P]]. exists oa. split; [assumption|].
    eapply partial_mono; eauto.
  Qed.

  Lemma frame_lookup : forall n st st' o, frame n st st' -> o < n -> lookup st' o = lookup st o.
  Proof. intros n st st' o F L. unfold lookup. rewrite F; auto. Qed.

  (* nothing changes: the no-allocation cases *)
  Lemma ipost_refl : forall pending c f f',
    ipre pending c -> goodf tr st0 recv (fst c) f' -> rel (snd c) f f' -> ipost pending c c f f'.
  Proof.
    intros pending c f f' [CI [II [_ VO]]] G Rl. split; [apply post_refl; assumption|].
    split; [assumption|]. split; [assumption|]. split; [|assumption]. intros a b H. left. assumption.
  Qed.

  Section Fields.
    Variable cv : cst -> fmode -> field -> option (cst * field).
    Hypothesis Hcv : forall pending c m f c' f',
      ipre pending c -> pre m f -> cv c m f = Some (c', f') -> ipost pending c c' f f'.

    Lemma clone_fields_iso : forall k o' oa pending fs done c c',
      o_fields oa = done ++ fs ->
      ipre (o' :: pending) c -> n0 <= o' -> o' < length (fst c) ->
      partial_ok (fst c) (snd c) oa o' (length done) ->
      (forall j f, nth_error fs j = Some f -> pre (fmode_of k (length done + j)) f) ->
      clone_fields cv k o' (length done) fs c = Some c' ->
      cinv c' /\ iso_inv (o' :: pending) c' /\
      partial_ok (fst c') (snd c') oa o' (length (o_fields oa)) /\
      length (fst c) <= length (fst c') /\
      (forall o, o < length (fst c) -> o <> o' -> nth_error (fst c') o = nth_error (fst c) o) /\
      (forall x, In x (snd c) -> In x (snd c')) /\ newb c c' /\ vis_ok c'.
    Proof.
      intros k o' oa pending. induction fs as [|f fs IH]; intros done c c' EF IP Lo Hi PO P H;
        cbn [clone_fields] in H.
      - inversion H; subst c'. destruct IP as [CI [II [_ VO]]].
        rewrite app_nil_r in EF. rewrite EF.
        split; [assumption|]. split; [assumption|]. split; [assumption|].
        split; [lia|]. split; [auto|]. split; [auto|]. split; [|assumption]. intros a b Hab. left. assumption.
      - destruct (cv c (fmode_of k (length done)) f) as [[c1 f']|] eqn:E; [|discriminate].
        assert (Pf : pre (fmode_of k (length done)) f).
        { specialize (P 0 f eq_refl). rewrite Nat.add_0_r in P. assumption. }
        destruct (Hcv _ _ _ _ _ _ IP Pf E) as [[CI1 [G1 [L1 [F1 V1]]]] [II1 [Rl1 [NB1 VO1]]]].
        pose proof IP as [CI [II [PB VO]]].
        set (c2 := (set_field (fst c1) o' (length done) f', snd c1)).
        assert (CI2 : cinv c2).
        { apply cinv_set_field; auto. lia. }
        (* the copy after writing field [length done] *)
        assert (PO2 : partial_ok (fst c2) (snd c2) oa o' (length (done ++ [f]))).
        { destruct PO as [ob [L [K [T [Z [Ln F]]]]]].
          assert (L1' : lookup (fst c1) o' = Some ob) by (rewrite (frame_lookup _ _ _ _ F1 Hi); assumption).
          unfold partial_ok, c2. cbn [fst snd].
          eexists. split; [apply (lookup_set_field_same _ _ _ _ _ L1')|]. cbn.
          repeat (split; [assumption|]). split; [rewrite upd_length; assumption|].
          intros j g Hj N. rewrite app_length in Hj. cbn in Hj.
          destruct (Nat.eq_dec j (length done)) as [->|NE].
          - rewrite EF in N. rewrite nth_error_app2 in N by lia. rewrite Nat.sub_diag in N.
            cbn in N. inversion N; subst g. exists f'. split; [|assumption].
            apply nth_error_upd_same. rewrite Ln, EF, app_length. cbn. lia.
          - destruct (F j g ltac:(lia) N) as [g' [N' Rg]]. exists g'. split.
            + rewrite nth_error_upd_other by auto. assumption.
            + eapply rel_mono; eauto. }
        assert (II2 : iso_inv (o' :: pending) c2).
        { intros a b Hab. unfold c2 in *. cbn [fst snd] in *.
          destruct (II1 a b Hab) as [Pn|CO]; [left; assumption|].
          destruct (Nat.eq_dec b o') as [->|NE]; [left; left; reflexivity|].
          right. eapply copy_mono; [| |exact CO]; auto.
          apply lookup_set_field_other. auto. }
        assert (IP2 : ipre (o' :: pending) c2).
        { split; [assumption|]. split; [assumption|]. split; [|exact VO1].
          intros b Hb. unfold c2. cbn [fst]. rewrite set_field_length.
          destruct Hb as [<-|Hb]; [lia|]. specialize (PB b (or_intror Hb)). lia. }
        replace (S (length done)) with (length (done ++ [f])) in H by (rewrite app_length; cbn; lia).
        destruct (IH (done ++ [f]) c2 c') as [CI3 [II3 [PO3 [L3 [F3 [V3 [NB3 VO3]]]]]]]; auto.
        + rewrite <- app_assoc. cbn. assumption.
        + unfold c2. cbn [fst]. rewrite set_field_length. lia.
        + intros j g Hj. rewrite app_length. cbn.
          specialize (P (S j) g Hj). replace (length done + 1 + j) with (length done + S j) by lia. assumption.
        + unfold c2 in *. cbn [fst snd] in *. rewrite set_field_length in *.
          split; [assumption|]. split; [assumption|]. split; [assumption|].
          split; [lia|]. split.
          * intros o Ho No. rewrite F3 by (try lia; auto).
            unfold set_field. destruct (lookup (fst c1) o').
            -- rewrite nth_error_upd_other by auto. apply F1. assumption.
            -- apply F1. assumption.
          * split; [intros x Hx; apply V3; apply V1; assumption|]. split; [|exact VO3].
            intros a b Hab. destruct (NB3 a b Hab) as [Hin|Hge].
            -- destruct (NB1 a b Hin) as [?|?]; [left; assumption|right; lia].
            -- right. cbn [fst] in Hge. rewrite set_field_length in Hge. lia.
    Qed.
  End Fields.

  Lemma assoc_none : forall o l b, assoc o l = None -> In (o, b) l -> False.
  Proof.
    induction l as [|[x y] l IHl]; intros b A I; cbn in *; [assumption|].
    destruct (Nat.eqb x o) eqn:E; [discriminate|].
    destruct I as [I|I]; [inversion I; subst; rewrite Nat.eqb_refl in E; discriminate|eauto].
  Qed.

  Lemma shr_lt' : forall p, shr tr st0 recv p -> p < n0.
  Proof. intros p [pb [L _]]. eapply lookup_lt; eauto. Qed.

  Lemma clone_val_iso : forall fuel pending c m f c' f',
    ipre pending c -> pre m f -> clone_val rg recv rgen cth fuel c m f = Some (c', f') ->
    ipost pending c c' f f'.
  Proof.
    induction fuel as [|fuel IH]; intros pending c m f c' f' IP P H.
    - (* no fuel: only the cases that do not allocate can succeed *)
      pose proof IP as [CI [II [PB VO]]].
      pose proof (clone_val_spec tr st0 rg recv rgen cth R R_exists R_closed S1 S2 0 c m f c' f' CI P H) as PS.
      assert (Same : c' = c -> rel (snd c) f f' -> ipost pending c c' f f').
      { intros -> Rl. split; [assumption|]. split; [assumption|]. split; [assumption|].
        split; [|assumption]. intros a b Hab. left. assumption. }
      destruct f as [z|o]; cbn [clone_val] in H.
      + inversion H; subst. apply Same; cbn; reflexivity.
      + destruct m.
        * destruct (lookup (fst c) o) as [ob|] eqn:L; [|discriminate].
          destruct (clone_shares rg (o_gen ob)) eqn:SH.
          -- inversion H; subst. apply Same; [reflexivity|]. cbn. left. split; auto.
             cbn [CloneProofs.pre] in P. destruct (R_exists _ P) as [ob0 L0]. eapply lookup_lt; eauto.
          -- destruct (if memo (o_kind ob) then assoc o (snd c) else None) as [o'|] eqn:A.
             ++ inversion H; subst. destruct (memo (o_kind ob)); [|discriminate].
                apply assoc_in in A. apply Same; [reflexivity|]. cbn. right. assumption.
             ++ destruct (negb (clonable (o_kind ob))); discriminate.
        * destruct (lookup (fst c) o) as [ob|] eqn:L; [|discriminate].
          destruct (if memo (o_kind ob) then assoc o (snd c) else None) as [o'|] eqn:A.
          -- inversion H; subst. destruct (memo (o_kind ob)); [|discriminate].
             apply assoc_in in A. apply Same; [reflexivity|]. cbn. right. assumption.
          -- destruct (negb (clonable (o_kind ob))); discriminate.
        * inversion H; subst. apply Same; [reflexivity|]. cbn. left. split; auto.
          cbn [CloneProofs.pre] in P. apply shr_lt'. assumption.
    - pose proof IP as [CI [II [PB VO]]].
      pose proof (clone_val_spec tr st0 rg recv rgen cth R R_exists R_closed S1 S2 (S fuel) c m f c' f' CI P H) as PS.
      assert (Same : c' = c -> rel (snd c) f f' -> ipost pending c c' f f').
      { intros -> Rl. split; [assumption|]. split; [assumption|]. split; [assumption|].
        split; [|assumption]. intros a b Hab. left. assumption. }
      destruct f as [z|o]; cbn [clone_val] in H.
      + inversion H; subst. apply Same; cbn; reflexivity.
      + assert (Main : forall ob, lookup (fst c) o = Some ob -> R o ->
                  (if memo (o_kind ob) then assoc o (snd c) else None) = None ->
                  (if negb (clonable (o_kind ob)) then None
                   else match clone_fields (clone_val rg recv rgen cth fuel) (o_kind ob)
                                (length (fst c)) 0 (o_fields ob)
                                (fst c ++ [Some (mkObj recv rgen (o_kind ob) (o_tag ob) cth (o_size ob)
                                                       (map (fun _ => Imm 0%Z) (o_fields ob)))],
                                 (o, length (fst c)) :: snd c) with
                        | Some c2 => Some (c2, Ptr (length (fst c)))
                        | None => None
                        end) = Some (c', f') -> ipost pending c c' (Ptr o) f').
        { intros ob L Ro AN HH. split; [assumption|].
          destruct (negb (clonable (o_kind ob))); [discriminate|].
          set (o' := length (fst c)) in *.
          set (nob := mkObj recv rgen (o_kind ob) (o_tag ob) cth (o_size ob)
                            (map (fun _ => Imm 0%Z) (o_fields ob))) in *.
          set (c1 := (fst c ++ [Some nob], (o, o') :: snd c)) in *.
          destruct (clone_fields _ _ _ _ _ c1) as [c2|] eqn:CF; [|discriminate].
          inversion HH; subst c' f'. clear HH.
          destruct (R_exists _ Ro) as [ob0 L0].
          pose proof (lookup_lt _ _ _ L0) as Lt. fold n0 in Lt.
          rewrite (lookup_old tr st0 recv rgen _ _ CI Lt) in L. rewrite L0 in L. inversion L; subst ob0. clear L.
          pose proof CI as [X1 [X2 [X3 X4]]].
          assert (CI1 : cinv c1).
          { unfold CloneProofs.cinv, c1. cbn [fst snd]. rewrite app_length. cbn [length].
            split; [lia|]. split; [|split].
            - intros x Hx. rewrite nth_error_app1 by lia. apply X2. assumption.
            - intros x Lx Hx. destruct (Nat.eq_dec x o') as [->|N].
              + exists nob. unfold o'. rewrite lookup_app_new. split; [reflexivity|].
                cbn. split; [reflexivity|]. split; [reflexivity|].
                intros g Hg. apply in_map_iff in Hg. destruct Hg as [? [<- _]]. exact I.
              + destruct (X3 x Lx) as [xb [Lxb [O1 [O2 O3]]]]; [unfold o' in *; lia|].
                exists xb. rewrite lookup_app_old by (unfold o' in *; lia).
                split; [assumption|]. split; [assumption|]. split; [assumption|].
                intros g Hg. eapply goodf_mono; [|apply O3; assumption]. rewrite app_length. lia.
            - intros a b [E|Hab].
              + inversion E; subst. unfold o'. lia.
              + destruct (X4 _ _ Hab). lia. }
          assert (II1 : iso_inv (o' :: pending) c1).
          { intros a b [E|Hab].
            - inversion E; subst. left. left. reflexivity.
            - destruct (II a b Hab) as [Pn|CO]; [left; right; assumption|].
              right. unfold c1. cbn [fst snd]. eapply copy_mono; [| |exact CO].
              + apply lookup_app_old. destruct (X4 _ _ Hab). assumption.
              + intros x Hx. right. assumption. }
          assert (VO1 : vis_ok c1).
          { destruct VO as [ND FN]. unfold vis_ok, c1. cbn [snd map]. split.
            - constructor; [|assumption]. intro Hin. apply in_map_iff in Hin.
              destruct Hin as [[a b] [E Hab]]. cbn in E. subst b.
              destruct (X4 _ _ Hab). unfold o' in *. lia.
            - intros a b b' oa [E|Hab] [E'|Hab'] La Ma.
              + inversion E; inversion E'; subst. reflexivity.
              + inversion E; subst a b. exfalso. rewrite L0 in La. inversion La; subst oa.
                rewrite Ma in AN. eapply assoc_none; eauto.
              + inversion E'; subst a b'. exfalso. rewrite L0 in La. inversion La; subst oa.
                rewrite Ma in AN. eapply assoc_none; eauto.
              + eapply FN; eauto. }
          assert (IP1 : ipre (o' :: pending) c1).
          { split; [assumption|]. split; [assumption|]. split; [|exact VO1].
            intros b Hb. unfold c1. cbn [fst]. rewrite app_length. cbn.
            destruct Hb as [<-|Hb]; [unfold o'; lia|]. specialize (PB b Hb). lia. }
          assert (PO1 : partial_ok (fst c1) (snd c1) ob o' (length (@nil field))).
          { exists nob. unfold c1, o'. cbn [fst]. rewrite lookup_app_new. split; [reflexivity|].
            cbn. repeat (split; [reflexivity|]). split; [apply map_length|].
            intros j g Hj. lia. }
          assert (EF : o_fields ob = [] ++ o_fields ob) by reflexivity.
          assert (Lo1 : n0 <= o') by (unfold o'; lia).
          assert (Hi1 : o' < length (fst c1)).
          { unfold c1. cbn [fst]. rewrite app_length. cbn. unfold o'. lia. }
          assert (PF : forall j g, nth_error (o_fields ob) j = Some g ->
                         pre (fmode_of (o_kind ob) (length (@nil field) + j)) g).
          { intros j g Hj. cbn [length plus]. destruct g as [z|p]; cbn; auto.
            destruct (fmode_of (o_kind ob) j) eqn:FM.
            + eapply R_closed; eauto. eapply nth_error_In; eauto.
            + eapply R_closed; eauto. eapply nth_error_In; eauto.
            + eapply S2; eauto. }
          destruct (clone_fields_iso _ IH (o_kind ob) o' ob pending (o_fields ob) [] c1 c2
                                     EF IP1 Lo1 Hi1 PO1 PF CF)
            as [CI2 [II2 [PO2 [L2 [F2 [V2 [NB2 VO2]]]]]]].
          assert (NB2' : forall a b, In (a, b) (snd c2) ->
                          In (a, b) ((o, o') :: snd c) \/ S (length (fst c)) <= b).
          { intros a b Hab. destruct (NB2 a b Hab) as [Hin|Hge]; [left; exact Hin|right].
            unfold c1 in Hge. cbn [fst] in Hge. rewrite app_length in Hge. cbn [length] in Hge. lia. }
          clear NB2. rename NB2' into NB2.
          unfold c1 in L2. cbn [fst snd] in L2. rewrite app_length in L2. cbn [length] in L2.
            split; [|split].
            + intros a b Hab. destruct (II2 a b Hab) as [[<-|Pn]|CO]; [|left; assumption|right; assumption].
              (* the only pair whose copy is o' is (o, o'), and that copy is complete *)
              right. assert (a = o).
              { destruct (NB2 a o' Hab) as [[E|Hin]|Hge].
                - inversion E. reflexivity.
                - destruct (X4 _ _ Hin). unfold o' in *. lia.
                - unfold o' in *. lia. }
              subst a. exists ob. split; assumption.
            + cbn. right. apply V2. left. reflexivity.
            + split; [|exact VO2]. intros a b Hab. destruct (NB2 a b Hab) as [[E|Hin]|Hge].
              * inversion E; subst. right. unfold o'. lia.
              * left. assumption.
              * right. lia. }
        destruct m.
        * destruct (lookup (fst c) o) as [ob|] eqn:L; [|discriminate].
          cbn [CloneProofs.pre] in P.
          destruct (clone_shares rg (o_gen ob)) eqn:SH.
          -- inversion H; subst. apply Same; [reflexivity|]. cbn. left. split; auto.
             destruct (R_exists _ P) as [ob0 L0]. eapply lookup_lt; eauto.
          -- destruct (if memo (o_kind ob) then assoc o (snd c) else None) as [o'|] eqn:A.
             ++ inversion H; subst. destruct (memo (o_kind ob)); [|discriminate].
                apply assoc_in in A. apply Same; [reflexivity|]. cbn. right. assumption.
             ++ eapply Main; eauto.
        * destruct (lookup (fst c) o) as [ob|] eqn:L; [|discriminate].
          cbn [CloneProofs.pre] in P.
          destruct (if memo (o_kind ob) then assoc o (snd c) else None) as [o'|] eqn:A.
          -- inversion H; subst. destruct (memo (o_kind ob)); [|discriminate].
             apply assoc_in in A. apply Same; [reflexivity|]. cbn. right. assumption.
          -- eapply Main; eauto.
        * inversion H; subst. apply Same; [reflexivity|]. cbn. left. split; auto.
          cbn [CloneProofs.pre] in P. apply shr_lt'. assumption.
  Qed.
End Iso.

(* ---- the packaged statement ---- *)

Theorem clone_iso : forall tr st0 recv cth full fuel v r c',
  inv_old_to_young tr st0 -> recv < length tr -> not_dangling st0 v ->
  sharing_sound tr st0 recv full v -> verbatim_ok tr st0 recv v ->
  deep_clone fuel tr st0 recv cth full v = Some (c', r) ->
  (* the result is the source value's counterpart *)
  rel st0 (snd c') v r /\
  (* every recorded pair is a faithful copy *)
  (forall a b, In (a, b) (snd c') -> copy_ok st0 (fst c') (snd c') a b) /\
  (* no copy stands for two sources *)
  NoDup (map snd (snd c')) /\
  (* a source whose kind goes through `visited` has exactly one copy: sharing and cycles are kept *)
  (forall a b b' oa, In (a, b) (snd c') -> In (a, b') (snd c') ->
     lookup st0 a = Some oa -> memo (o_kind oa) = true -> b = b').
Proof.
  intros tr st0 recv cth full fuel v r c' IS Lr ND HS1 HS2 H. unfold deep_clone in H.
  set (rgen := gen_of tr recv) in *.
  set (rg := if full then full_clone_generation else rgen) in *.
  set (R := reach st0 (ptrs [v])).
  assert (RE : forall p, R p -> exists ob, lookup st0 p = Some ob).
  { intros p Rp. eapply reach_exists; eauto. }
  assert (RC : forall o ob p, R o -> lookup st0 o = Some ob -> In (Ptr p) (o_fields ob) -> R p).
  { intros o ob p Ro L I. eapply reach_step; eauto. apply in_ptrs. assumption. }
  assert (A1 : forall o ob, R o -> lookup st0 o = Some ob ->
               clone_shares rg (o_gen ob) = true -> ancP tr (o_owner ob) recv).
  { intros o ob Ro L S. eapply HS1; eauto. }
  assert (A2 : forall o ob i p, R o -> lookup st0 o = Some ob ->
               nth_error (o_fields ob) i = Some (Ptr p) -> fmode_of (o_kind ob) i = FShare ->
               shr tr st0 recv p).
  { intros o ob i p Ro L N F. eapply HS2; eauto. }
  assert (IP0 : ipre tr st0 recv rgen [] (st0, [])).
  { split; [|split; [|split]].
    - unfold cinv. cbn [fst snd]. split; [lia|]. split; [auto|]. split.
      + intros o A B. lia.
      + intros a b [].
    - intros a b [].
    - intros b [].
    - split; [constructor|]. intros a b b' oa []. }
  assert (P0 : pre tr st0 recv R FInner v).
  { destruct v as [z|p]; cbn; auto. apply reach_root. cbn. auto. }
  destruct (clone_val_iso tr st0 rg recv rgen cth R RE RC A1 A2 fuel [] (st0, []) FInner v c' r IP0 P0 H)
    as [_ [II [Rl [_ [NDp FN]]]]].
  split; [assumption|]. split; [|split; assumption].
  intros a b Hab. destruct (II a b Hab) as [[]|CO]. assumption.
Qed.
