(* C07 — memory accounting of one `Gc` (definitions only; proofs in AccountProofs.v).
   All arithmetic comes from the GENERATED coq/gen/AllocGen.v (vm/src/gc.rs: alloc_owned,
   alloc_ignore_limit_, free, check_collect, collect, AllocPtr::size).  `hdr` is
   GcHeader::value_offset(), a layout constant the harness measures on the real heap.

   State: the `allocated_memory` counter, `collect_limit`, and the live objects (payload size,
   still rooted?).  Objects do not point to each other here: a collection frees exactly the
   unrooted ones, which is what `sweep` does to unmarked objects (gc.rs:1336, free :1388). *)
From Coq Require Import NArith List Bool.
From GVgen Require Import AllocGen.
Import ListNotations.
Local Open Scope N_scope.

Record heap : Type := {
  allocated : N;
  climit : N;
  objs : list (N * bool);     (* newest first, like the `values` list *)
}.

Definition heap0 : heap :=
  {| allocated := initial_allocated; climit := initial_collect_limit; objs := [] |}.

Inductive op : Type :=
| OAlloc (size : N)            (* Gc::alloc / alloc_owned: limit-checked *)
| OAllocIgnore (size : N)      (* Gc::alloc_ignore_limit *)
| OAllocCollect (size : N)     (* Gc::alloc_and_collect: check_collect, then alloc_owned *)
| ODrop (i : nat)              (* the i-th live object (newest = 0) loses its root *)
| OCollect.                    (* Gc::collect *)

(* Gc::alloc_owned *)
Definition alloc_ok (hdr a size limit : N) : bool :=
  negb (alloc_refused (alloc_needed hdr a size) limit).

Definition do_alloc_unchecked (hdr : N) (h : heap) (size : N) : heap :=
  {| allocated := alloc_update hdr (allocated h) size;
     climit := climit h;
     objs := (size, true) :: objs h |}.

(* sweep: free every unrooted object, oldest-last order as in the list *)
Fixpoint sweep_objs (hdr : N) (a : N) (l : list (N * bool)) : N * list (N * bool) :=
  match l with
  | [] => (a, [])
  | (size, rooted) :: l' =>
      if rooted then
        let '(a', r) := sweep_objs hdr a l' in (a', (size, rooted) :: r)
      else sweep_objs hdr (free_update hdr a size) l'
  end.

Definition do_collect (hdr : N) (h : heap) : heap :=
  let '(a, l) := sweep_objs hdr (allocated h) (objs h) in
  {| allocated := a; climit := collect_limit_after a; objs := l |}.

Fixpoint unroot (l : list (N * bool)) (i : nat) : list (N * bool) :=
  match l, i with
  | [], _ => []
  | (s, _) :: l', O => (s, false) :: l'
  | x :: l', S i' => x :: unroot l' i'
  end.

(* result: new heap and whether the operation reported OutOfMemory *)
Definition run_op (hdr limit : N) (h : heap) (o : op) : heap * bool :=
  match o with
  | OAlloc size =>
      if alloc_ok hdr (allocated h) size limit then (do_alloc_unchecked hdr h size, false) else (h, true)
  | OAllocIgnore size => (do_alloc_unchecked hdr h size, false)
  | OAllocCollect size =>
      let h1 := if collect_due (allocated h) (climit h) then do_collect hdr h else h in
      if alloc_ok hdr (allocated h1) size limit then (do_alloc_unchecked hdr h1 size, false) else (h1, true)
  | ODrop i => ({| allocated := allocated h; climit := climit h; objs := unroot (objs h) i |}, false)
  | OCollect => (do_collect hdr h, false)
  end.

Fixpoint run_ops (hdr limit : N) (h : heap) (l : list op) : heap :=
  match l with
  | [] => h
  | o :: l' => run_ops hdr limit (fst (run_op hdr limit h o)) l'
  end.

(* trace of (allocated, oom?) after every operation — what the correspondence compares *)
Fixpoint trace_ops (hdr limit : N) (h : heap) (l : list op) : list (N * bool) :=
  match l with
  | [] => []
  | o :: l' =>
      let '(h', oom) := run_op hdr limit h o in
      (allocated h', oom) :: trace_ops hdr limit h' l'
  end.

(* Sequences the limit claim is about: no alloc_ignore_limit (used by the VM only to box the
   message of a failing primitive, api/mod.rs:493,:533). *)
Definition checked_op (o : op) : bool :=
  match o with OAllocIgnore _ => false | _ => true end.

(* The sum the counter is supposed to be. *)
Fixpoint objs_total (hdr : N) (l : list (N * bool)) : N :=
  match l with
  | [] => 0
  | (s, _) :: l' => obj_size hdr s + objs_total hdr l'
  end.

(* By how much a successful checked allocation can leave the counter above the limit:
   the counter grows by [alloc_update], the test looks at [alloc_needed] with the comparison
   [alloc_refused].  Computed from the generated definitions only (probes at 0 and at the
   boundary), and proved to be the exact bound in AccountProofs.v. *)
Definition growth (hdr : N) : N := alloc_update hdr 0 0.
Definition tested (hdr : N) : N := alloc_needed hdr 0 0.
(* 1 if a `needed` equal to the limit is refused (>=), 0 if it is accepted (>) *)
Definition strict (limit : N) : N := if alloc_refused limit limit then 1 else 0.
Definition slack (hdr : N) : N := growth hdr - tested hdr - strict 1.

(* A run that exhibits the slack: one object whose payload just passes the test. *)
Definition witness_limit (hdr : N) : N := 100 + 2 * hdr.
Definition witness_size (hdr : N) : N := witness_limit hdr - tested hdr - strict 1.
Definition witness_ops (hdr : N) : list op := [OAlloc (witness_size hdr)].
