(* C13: what `Cloner::deep_clone` (Heap/Clone.v) produces.

   [clone_spec] is the invariant of the recursion; from it:
     clone_owned_by_receiver  everything reachable from the result lives in the receiver's heap or
                              one of its ancestors
     clone_preserves_inv      the old-to-young invariant of C05 still holds
     clone_survives_sender    freeing heaps that are not ancestors of the receiver (dropping or
                              collecting the sender) leaves no dangling pointer in the result
   under two side conditions on the part of the source graph the clone walks:
     S1  the generation test ([clone_shares], GENERATED) only succeeds for objects that live in the
         receiver's ancestry — a theorem on one branch of the tree (shortcut_sound) and vacuous for a
         full clone;
     S2  fields the Cloner copies verbatim ([FShare] in the GENERATED table: the code pointer of a
         closure, and — today — the elements of an array of strings) point into the receiver's
         ancestry.
   The `_refuted` theorems at the end exhibit what happens when S2 fails. *)
From Coq Require Import List ZArith Bool Arith Lia.
From GVgen Require Import GenerationGen ClonerGen.
From GV Require Import Heap.Heap Heap.HeapProofs Heap.Clone.
Import ListNotations.

(* ---- small facts about stores ---- *)

Lemma lookup_app_old : forall st x o, o < length st -> lookup (st ++ [x]) o = lookup st o.
Proof. intros. unfold lookup. rewrite nth_error_app1; auto. Qed.

Lemma lookup_app_new : forall st ob, lookup (st ++ [Some ob]) (length st) = Some ob.
Proof.
  intros. unfold lookup. rewrite nth_error_app2 by lia. rewrite Nat.sub_diag. reflexivity.
Qed.

Lemma upd_length : forall {A} (l : list A) i x, length (upd l i x) = length l.
Proof. induction l; intros [|i] x; cbn; auto. Qed.

Lemma nth_error_upd_same : forall {A} (l : list A) i x, i < length l -> nth_error (upd l i x) i = Some x.
Proof.
  induction l; intros [|i] x H; cbn in *; try lia; auto. apply IHl. lia.
Qed.

Lemma nth_error_upd_other : forall {A} (l : list A) i j x, i <> j -> nth_error (upd l i x) j = nth_error l j.
Proof.
  induction l; intros [|i] [|j] x H; cbn; auto; try congruence.
Qed.

Lemma set_field_length : forall st o i v, length (set_field st o i v) = length st.
Proof.
  intros. unfold set_field. destruct (lookup st o); auto. apply upd_length.
Qed.

Lemma lookup_set_field_other : forall st o i v o', o <> o' ->
  lookup (set_field st o i v) o' = lookup st o'.
Proof.
  intros. unfold set_field. destruct (lookup st o); auto.
  unfold lookup. rewrite nth_error_upd_other; auto.
Qed.

Lemma lookup_set_field_same : forall st o i v ob, lookup st o = Some ob ->
  lookup (set_field st o i v) o =
  Some (mkObj (o_owner ob) (o_gen ob) (o_kind ob) (o_tag ob) (o_cell ob) (o_size ob)
              (upd (o_fields ob) i v)).
Proof.
  intros. unfold set_field. rewrite H. unfold lookup. rewrite nth_error_upd_same; auto.
  eapply lookup_lt; eauto.
Qed.

Lemma in_upd : forall {A} (l : list A) i x y, In y (upd l i x) -> y = x \/ In y l.
Proof.
  induction l; intros [|i] x y H; cbn in *; auto.
  - destruct H; auto.
  - destruct H; auto. destruct (IHl _ _ _ H); auto.
Qed.

Lemma assoc_in : forall o l o', assoc o l = Some o' -> In (o, o') l.
Proof.
  induction l as [|[a b] l IH]; intros o' H; cbn in *; [discriminate|].
  destruct (Nat.eqb a o) eqn:E.
  - apply Nat.eqb_eq in E. inversion H; subst. auto.
  - auto.
Qed.

(* ---- the invariant of the recursion ---- *)

Section Spec.
  Variables (tr : tree) (st0 : store).
  Variables (rg : Z) (recv : hid) (rgen : Z) (cth : hid).
  (* the part of the source graph the clone may walk *)
  Variable R : oid -> Prop.

  Let n0 := length st0.

  (* an old object the result may share: it lives in the receiver's ancestry *)
  Definition shr (p : oid) : Prop :=
    exists pb, lookup st0 p = Some pb /\ ancP tr (o_owner pb) recv.

  Hypothesis R_exists : forall p, R p -> exists ob, lookup st0 p = Some ob.
  Hypothesis R_closed : forall o ob p, R o -> lookup st0 o = Some ob -> In (Ptr p) (o_fields ob) -> R p.
  Hypothesis S1 : forall o ob, R o -> lookup st0 o = Some ob ->
    clone_shares rg (o_gen ob) = true -> ancP tr (o_owner ob) recv.
  Hypothesis S2 : forall o ob i p, R o -> lookup st0 o = Some ob ->
    nth_error (o_fields ob) i = Some (Ptr p) -> fmode_of (o_kind ob) i = FShare -> shr p.

  Definition goodp (st : store) (p : oid) : Prop :=
    (n0 <= p /\ p < length st) \/ shr p.

  Definition goodf (st : store) (f : field) : Prop :=
    match f with Imm _ => True | Ptr p => goodp st p end.

  Definition cinv (c : cst) : Prop :=
    n0 <= length (fst c) /\
    (forall o, o < n0 -> nth_error (fst c) o = nth_error st0 o) /\
    (forall o, n0 <= o -> o < length (fst c) ->
       exists ob, lookup (fst c) o = Some ob /\ o_owner ob = recv /\ o_gen ob = rgen /\
                  forall f, In f (o_fields ob) -> goodf (fst c) f) /\
    (forall a b, In (a, b) (snd c) -> n0 <= b /\ b < length (fst c)).

  Definition pre (m : fmode) (f : field) : Prop :=
    match f with
    | Imm _ => True
    | Ptr p => match m with FShare => shr p | _ => R p end
    end.

  (* unchanged below [n] *)
  Definition frame (n : nat) (st st' : store) : Prop :=
    forall o, o < n -> nth_error st' o = nth_error st o.

  Definition post (c c' : cst) (f' : field) : Prop :=
    cinv c' /\ goodf (fst c') f' /\ length (fst c) <= length (fst c') /\
    frame (length (fst c)) (fst c) (fst c') /\
    (forall x, In x (snd c) -> In x (snd c')).

  Lemma goodf_mono : forall st st' f, length st <= length st' -> goodf st f -> goodf st' f.
  Proof.
    intros st st' [z|p] L G; cbn in *; auto. destruct G as [[A B]|G]; [left; lia|right; auto].
  Qed.

  Lemma lookup_old : forall c o, cinv c -> o < n0 -> lookup (fst c) o = lookup st0 o.
  Proof. intros c o [_ [H _]] L. unfold lookup. rewrite H; auto. Qed.

  Lemma shr_lt : forall p, shr p -> p < n0.
  Proof. intros p [pb [L _]]. eapply lookup_lt; eauto. Qed.

  (* writing a good field into a copy keeps the invariant *)
  Lemma cinv_set_field : forall c o' i f,
    cinv c -> n0 <= o' -> o' < length (fst c) -> goodf (fst c) f ->
    cinv (set_field (fst c) o' i f, snd c).
  Proof.
    intros c o' i f [A [B [C D]]] Lo Hi G. unfold cinv. cbn [fst snd].
    rewrite set_field_length. split; [assumption|]. split; [|split].
    - intros o Ho. rewrite <- B by assumption.
      unfold set_field. destruct (lookup (fst c) o'); auto. apply nth_error_upd_other. lia.
    - intros o Lo' Hi'. destruct (Nat.eq_dec o o') as [->|N].
      + destruct (C o' Lo Hi) as [ob [L [O1 [O2 O3]]]].
        rewrite (lookup_set_field_same _ _ _ _ _ L). eexists. split; [reflexivity|]. cbn.
        split; [assumption|]. split; [assumption|].
        intros g Hg. apply in_upd in Hg. destruct Hg as [->|Hg].
        * eapply goodf_mono; [|eassumption]. rewrite set_field_length. lia.
        * eapply goodf_mono; [|apply O3; assumption]. rewrite set_field_length. lia.
      + destruct (C o Lo' Hi') as [ob [L [O1 [O2 O3]]]].
        rewrite lookup_set_field_other by auto. exists ob. split; [assumption|].
        split; [assumption|]. split; [assumption|].
        intros g Hg. eapply goodf_mono; [|apply O3; assumption]. rewrite set_field_length. lia.
    - intros a b Hab. apply (D a b). assumption.
  Qed.

  Lemma post_refl : forall c f, cinv c -> goodf (fst c) f -> post c c f.
  Proof.
    intros c f CI G. split; [exact CI|]. split; [exact G|]. split; [lia|].
    split; [intros o Ho; reflexivity|auto].
  Qed.

  Section Fields.
    Variable cv : cst -> fmode -> field -> option (cst * field).
    Hypothesis Hcv : forall c m f c' f', cinv c -> pre m f -> cv c m f = Some (c', f') -> post c c' f'.

    Lemma clone_fields_spec : forall k o' fs i c c',
      cinv c -> n0 <= o' -> o' < length (fst c) ->
      (forall j f, nth_error fs j = Some f -> pre (fmode_of k (i + j)) f) ->
      clone_fields cv k o' i fs c = Some c' ->
      cinv c' /\ length (fst c) <= length (fst c') /\
      (forall o, o < length (fst c) -> o <> o' -> nth_error (fst c') o = nth_error (fst c) o) /\
      (forall x, In x (snd c) -> In x (snd c')).
    Proof.
      intros k o'. induction fs as [|f fs IH]; intros i c c' CI Lo Hi P H; cbn [clone_fields] in H.
      - inversion H; subst. split; [assumption|]. split; [lia|]. split; auto.
      - destruct (cv c (fmode_of k i) f) as [[c1 f']|] eqn:E; [|discriminate].
        assert (Pf : pre (fmode_of k i) f).
        { specialize (P 0 f eq_refl). rewrite Nat.add_0_r in P. assumption. }
        destruct (Hcv _ _ _ _ _ CI Pf E) as [CI1 [G1 [L1 [F1 V1]]]].
        assert (CI2 : cinv (set_field (fst c1) o' i f', snd c1)).
        { apply cinv_set_field; auto. lia. }
        destruct (IH (S i) _ c' CI2 Lo) as [CI3 [L3 [F3 V3]]].
        + cbn [fst]. rewrite set_field_length. lia.
        + intros j g Hj. specialize (P (S j) g Hj). replace (S i + j) with (i + S j) by lia. assumption.
        + assumption.
        + cbn [fst snd] in *. rewrite set_field_length in *.
          split; [assumption|]. split; [lia|]. split.
          * intros o Ho No. rewrite F3 by (try lia; auto).
            unfold set_field. destruct (lookup (fst c1) o').
            -- rewrite nth_error_upd_other by auto. apply F1. assumption.
            -- apply F1. assumption.
          * intros x Hx. apply V3. apply V1. assumption.
    Qed.
  End Fields.

  Lemma clone_val_spec : forall fuel c m f c' f',
    cinv c -> pre m f -> clone_val rg recv rgen cth fuel c m f = Some (c', f') -> post c c' f'.
  Proof.
    induction fuel as [|fuel IH]; intros c m f c' f' CI P H.
    - (* no fuel: only the cases that do not allocate can succeed *)
      destruct f as [z|o]; cbn [clone_val] in H.
      + inversion H; subst. apply post_refl; [assumption|exact I].
      + destruct m.
        * destruct (lookup (fst c) o) as [ob|] eqn:L; [|discriminate].
          destruct (clone_shares rg (o_gen ob)) eqn:SH.
          -- inversion H; subst. cbn [pre] in P.
             destruct (R_exists _ P) as [ob0 L0].
             pose proof (lookup_lt _ _ _ L0) as Lt. fold n0 in Lt.
             rewrite (lookup_old _ _ CI Lt) in L. rewrite L0 in L. inversion L; subst ob0.
             apply post_refl; [assumption|]. cbn. right. exists ob. split; auto.
             eapply S1; eauto.
          -- destruct (if memo (o_kind ob) then assoc o (snd c) else None) as [o'|] eqn:A.
             ++ inversion H; subst. destruct (memo (o_kind ob)); [|discriminate].
                apply assoc_in in A. pose proof CI as [X1 [X2 [X3 X4]]].
                apply post_refl; [assumption|]. cbn. left. apply (X4 _ _ A).
             ++ destruct (negb (clonable (o_kind ob))); discriminate.
        * destruct (lookup (fst c) o) as [ob|] eqn:L; [|discriminate].
          destruct (if memo (o_kind ob) then assoc o (snd c) else None) as [o'|] eqn:A.
          -- inversion H; subst. destruct (memo (o_kind ob)); [|discriminate].
             apply assoc_in in A. pose proof CI as [X1 [X2 [X3 X4]]].
             apply post_refl; [assumption|]. cbn. left. apply (X4 _ _ A).
          -- destruct (negb (clonable (o_kind ob))); discriminate.
        * inversion H; subst. cbn [pre] in P.
          apply post_refl; [assumption|]. cbn. right. assumption.
    - destruct f as [z|o]; cbn [clone_val] in H.
      + inversion H; subst. apply post_refl; [assumption|exact I].
      + assert (Main : forall ob, lookup (fst c) o = Some ob -> R o ->
                  (if memo (o_kind ob) then assoc o (snd c) else None) = None ->
                  (if negb (clonable (o_kind ob)) then None
                   else match clone_fields (clone_val rg recv rgen cth fuel) (o_kind ob)
                                (length (fst c)) 0 (o_fields ob)
                                (fst c ++ [Some (mkObj recv rgen (o_kind ob) (o_tag ob) cth (o_size ob)
                                                       (map (fun _ => Imm 0%Z) (o_fields ob)))],
                                 (o, length (fst c)) :: snd c) with
                        | Some c2 => Some (c2, Ptr (length (fst c)))
                        | None => None
                        end) = Some (c', f') -> post c c' f').
        { intros ob L Ro _ HH.
          destruct (negb (clonable (o_kind ob))); [discriminate|].
          set (o' := length (fst c)) in *.
          set (nob := mkObj recv rgen (o_kind ob) (o_tag ob) cth (o_size ob)
                            (map (fun _ => Imm 0%Z) (o_fields ob))) in *.
          set (c1 := (fst c ++ [Some nob], (o, o') :: snd c)) in *.
          destruct (clone_fields _ _ _ _ _ c1) as [c2|] eqn:CF; [|discriminate].
          inversion HH; subst c' f'. clear HH.
          destruct (R_exists _ Ro) as [ob0 L0].
          pose proof (lookup_lt _ _ _ L0) as Lt. fold n0 in Lt.
          rewrite (lookup_old _ _ CI Lt) in L. rewrite L0 in L. inversion L; subst ob0. clear L.
          pose proof CI as [X1 [X2 [X3 X4]]].
          assert (CI1 : cinv c1).
          { unfold cinv, c1. cbn [fst snd]. rewrite app_length. cbn [length].
            split; [lia|]. split; [|split].
            - intros x Hx. rewrite nth_error_app1 by lia. apply X2. assumption.
            - intros x Lx Hx. destruct (Nat.eq_dec x o') as [->|N].
              + exists nob. unfold o'. rewrite lookup_app_new. split; [reflexivity|].
                cbn. split; [reflexivity|]. split; [reflexivity|].
                intros g Hg. apply in_map_iff in Hg. destruct Hg as [? [<- _]]. exact I.
              + destruct (X3 x Lx) as [xb [Lxb [O1 [O2 O3]]]]; [unfold o' in *; lia|].
                exists xb. rewrite lookup_app_old by (unfold o' in *; lia).
                split; [assumption|]. split; [assumption|]. split; [assumption|].
                intros g Hg. eapply goodf_mono; [|apply O3; assumption]. rewrite app_length. lia.
            - intros a b [E|Hab].
              + inversion E; subst. unfold o'. lia.
              + destruct (X4 _ _ Hab). lia. }
          destruct (clone_fields_spec _ (IH) (o_kind ob) o' (o_fields ob) 0 c1 c2 CI1) as [CI2 [L2 [F2 V2]]].
          - unfold o'. lia.
          - unfold c1. cbn [fst]. rewrite app_length. cbn. unfold o'. lia.
          - intros j g Hj. cbn [plus]. destruct g as [z|p]; cbn; auto.
            destruct (fmode_of (o_kind ob) j) eqn:FM.
            + eapply R_closed; eauto. eapply nth_error_In; eauto.
            + eapply R_closed; eauto. eapply nth_error_In; eauto.
            + eapply S2; eauto.
          - assumption.
          - unfold c1 in L2, F2, V2. cbn [fst snd] in L2, F2, V2. rewrite app_length in L2, F2. cbn [length] in L2, F2.
            split; [assumption|]. split.
            + cbn. left. unfold o'. lia.
            + split; [lia|]. split.
              * intros x Hx. rewrite F2 by (unfold o' in *; lia).
                apply nth_error_app1. assumption.
              * intros x Hx. apply V2. right. assumption. }
        destruct m.
        * destruct (lookup (fst c) o) as [ob|] eqn:L; [|discriminate].
          cbn [pre] in P.
          destruct (clone_shares rg (o_gen ob)) eqn:SH.
          -- inversion H; subst.
             destruct (R_exists _ P) as [ob0 L0].
             pose proof (lookup_lt _ _ _ L0) as Lt. fold n0 in Lt.
             rewrite (lookup_old _ _ CI Lt) in L. rewrite L0 in L. inversion L; subst ob0.
             apply post_refl; [assumption|]. cbn. right. exists ob. split; auto.
             eapply S1; eauto.
          -- destruct (if memo (o_kind ob) then assoc o (snd c) else None) as [o'|] eqn:A.
             ++ inversion H; subst. destruct (memo (o_kind ob)); [|discriminate].
                apply assoc_in in A. pose proof CI as [X1 [X2 [X3 X4]]].
                apply post_refl; [assumption|]. cbn. left. apply (X4 _ _ A).
             ++ eapply Main; eauto.
        * destruct (lookup (fst c) o) as [ob|] eqn:L; [|discriminate].
          cbn [pre] in P.
          destruct (if memo (o_kind ob) then assoc o (snd c) else None) as [o'|] eqn:A.
          -- inversion H; subst. destruct (memo (o_kind ob)); [|discriminate].
             apply assoc_in in A. pose proof CI as [X1 [X2 [X3 X4]]].
             apply post_refl; [assumption|]. cbn. left. apply (X4 _ _ A).
          -- eapply Main; eauto.
        * inversion H; subst. cbn [pre] in P.
          apply post_refl; [assumption|]. cbn. right. assumption.
  Qed.
End Spec.

(* ---- the side conditions, as predicates on the source graph ---- *)

(* S1: where the generation test says "share", the object is in the receiver's ancestry *)
Definition sharing_sound (tr : tree) (st0 : store) (recv : hid) (full : bool) (v : field) : Prop :=
  forall o ob, reach st0 (ptrs [v]) o -> lookup st0 o = Some ob ->
    clone_shares (if full then full_clone_generation else gen_of tr recv) (o_gen ob) = true ->
    ancP tr (o_owner ob) recv.

(* S2: fields the Cloner copies verbatim point into the receiver's ancestry *)
Definition verbatim_ok (tr : tree) (st0 : store) (recv : hid) (v : field) : Prop :=
  forall o ob i p, reach st0 (ptrs [v]) o -> lookup st0 o = Some ob ->
    nth_error (o_fields ob) i = Some (Ptr p) -> fmode_of (o_kind ob) i = FShare ->
    exists pb, lookup st0 p = Some pb /\ ancP tr (o_owner pb) recv.

Definition not_dangling (st0 : store) (v : field) : Prop :=
  forall p, v = Ptr p -> exists ob, lookup st0 p = Some ob.

Lemma reach_exists : forall tr st0 v o,
  inv_old_to_young tr st0 -> not_dangling st0 v -> reach st0 (ptrs [v]) o ->
  exists ob, lookup st0 o = Some ob.
Proof.
  intros tr st0 v o IS ND R. induction R as [o Ho|o ob p R IH L Hp].
  - apply in_ptrs in Ho. destruct Ho as [Ho|[]]. apply ND. auto.
  - destruct (IS o ob L) as [_ [_ P]]. destruct (P p Hp) as [pb [Lp _]]. eauto.
Qed.

Section Derived.
  Variables (tr : tree) (st0 : store) (recv cth : hid) (full : bool) (fuel : nat).
  Variables (v r : field) (c' : cst).
  Hypothesis W : wf_tree tr.
  Hypothesis IS : inv_old_to_young tr st0.
  Hypothesis Lrecv : recv < length tr.
  Hypothesis ND : not_dangling st0 v.
  Hypothesis HS1 : sharing_sound tr st0 recv full v.
  Hypothesis HS2 : verbatim_ok tr st0 recv v.
  Hypothesis H : deep_clone fuel tr st0 recv cth full v = Some (c', r).

  Let rgen := gen_of tr recv.
  Let rg := if full then full_clone_generation else rgen.
  Let R := reach st0 (ptrs [v]).
  Let n0 := length st0.

  Lemma derived_post : post tr st0 recv rgen (st0, []) c' r.
  Proof.
    unfold deep_clone in H.
    assert (RE : forall p, R p -> exists ob, lookup st0 p = Some ob).
    { intros p Rp. eapply reach_exists; eauto. }
    assert (RC : forall o ob p, R o -> lookup st0 o = Some ob -> In (Ptr p) (o_fields ob) -> R p).
    { intros o ob p Ro L I. eapply reach_step; eauto. apply in_ptrs. assumption. }
    assert (A1 : forall o ob, R o -> lookup st0 o = Some ob ->
                 clone_shares rg (o_gen ob) = true -> ancP tr (o_owner ob) recv).
    { intros o ob Ro L S. eapply HS1; eauto. }
    assert (A2 : forall o ob i p, R o -> lookup st0 o = Some ob ->
                 nth_error (o_fields ob) i = Some (Ptr p) -> fmode_of (o_kind ob) i = FShare ->
                 shr tr st0 recv p).
    { intros o ob i p Ro L N F. eapply HS2; eauto. }
    assert (CI0 : cinv tr st0 recv rgen (st0, [])).
    { unfold cinv. cbn [fst snd]. split; [lia|]. split; [auto|]. split.
      - intros o A B. lia.
      - intros a b []. }
    assert (P0 : pre tr st0 recv R FInner v).
    { destruct v as [z|p]; cbn; auto. apply reach_root. cbn. auto. }
    exact (clone_val_spec tr st0 rg recv rgen cth R RE RC A1 A2 fuel (st0, []) FInner v c' r CI0 P0 H).
  Qed.

  Let st' := fst c'.

  Lemma good_closed : forall o, goodp tr st0 recv st' o ->
    exists ob, lookup st' o = Some ob /\ ancP tr (o_owner ob) recv /\
               (forall p, In p (ptrs (o_fields ob)) -> goodp tr st0 recv st' p) /\
               (o < n0 -> lookup st0 o = Some ob).
  Proof.
    intros o G. unfold st' in *. destruct derived_post as [CI [_ _]]. pose proof CI as [X1 [X2 [X3 X4]]].
    destruct G as [[A B]|[pb [L A]]].
    - destruct (X3 o A B) as [ob [Lo [O1 [O2 O3]]]]. exists ob. split; [assumption|].
      split; [rewrite O1; constructor|]. split.
      + intros p Hp. apply in_ptrs in Hp. apply (O3 _ Hp).
      + intros Lt. unfold n0 in Lt. lia.
    - pose proof (lookup_lt _ _ _ L) as Lt.
      exists pb. split; [rewrite (lookup_old tr st0 recv rgen _ _ CI Lt); assumption|].
      split; [assumption|]. split; [|auto].
      intros p Hp. destruct (IS o pb L) as [_ [_ P]]. destruct (P p Hp) as [qb [Lq Aq]].
      right. exists qb. split; [assumption|]. eapply ancP_trans; eauto.
  Qed.

  Lemma reach_good : forall o, reach st' (ptrs [r]) o -> goodp tr st0 recv st' o.
  Proof.
    intros o Rc. induction Rc as [o Ho|o ob p Rc IH L Hp].
    - destruct derived_post as [_ [G _]]. apply in_ptrs in Ho. destruct Ho as [Ho|[]].
      subst r. exact G.
    - destruct (good_closed o IH) as [ob' [L' [_ [Cl _]]]]. rewrite L in L'. inversion L'; subst.
      apply Cl. assumption.
  Qed.

  (* clone_owned_by_receiver *)
  Theorem clone_owned_by_receiver_ : forall o, reach st' (ptrs [r]) o ->
    exists ob, lookup st' o = Some ob /\ ancP tr (o_owner ob) recv.
  Proof.
    intros o Rc. destruct (good_closed o (reach_good o Rc)) as [ob [L [A _]]]. eauto.
  Qed.

  (* the source graph is untouched *)
  Theorem clone_frame_ : forall o, o < length st0 -> nth_error st' o = nth_error st0 o.
  Proof.
    intros o Lt. destruct derived_post as [[_ [X2 _]] _]. apply X2. assumption.
  Qed.

  (* clone_preserves_inv *)
  Theorem clone_preserves_inv_ : inv_old_to_young tr st'.
  Proof.
    intros o ob L. unfold st' in *. destruct derived_post as [CI _]. pose proof CI as [X1 [X2 [X3 X4]]].
    destruct (Nat.lt_ge_cases o n0) as [Lt|Ge].
    - rewrite (lookup_old tr st0 recv rgen _ _ CI Lt) in L.
      destruct (IS o ob L) as [A [B P]]. split; [assumption|]. split; [assumption|].
      intros p Hp. destruct (P p Hp) as [pb [Lp Ap]]. exists pb. split; [|assumption].
      rewrite (lookup_old tr st0 recv rgen _ _ CI); [assumption|]. eapply lookup_lt; eauto.
    - destruct (X3 o Ge (lookup_lt _ _ _ L)) as [ob' [L' [O1 [O2 O3]]]].
      rewrite L in L'. inversion L'; subst ob'.
      split; [rewrite O1; assumption|]. split; [rewrite O1, O2; reflexivity|].
      intros p Hp. apply in_ptrs in Hp. specialize (O3 _ Hp). cbn in O3.
      destruct (good_closed p O3) as [pb [Lp [Ap _]]]. exists pb. split; [assumption|].
      rewrite O1. assumption.
  Qed.

  (* clone_survives_sender: whatever is freed outside the receiver's ancestry (the sender's
     heap dropped, the sender or any other branch collected), the result is intact *)
  Theorem clone_survives_sender_ : forall st'' : store,
    (forall o ob, lookup st' o = Some ob -> ancP tr (o_owner ob) recv -> lookup st'' o = Some ob) ->
    forall o, reach st' (ptrs [r]) o ->
      reach st'' (ptrs [r]) o /\ exists ob, lookup st'' o = Some ob /\ lookup st' o = Some ob.
  Proof.
    intros st'' K o Rc. induction Rc as [o Ho|o ob p Rc IH L Hp].
    - split; [apply reach_root; assumption|].
      destruct (clone_owned_by_receiver_ o (reach_root _ _ _ Ho)) as [ob [L A]]. eauto.
    - destruct IH as [R2 [ob' [L2 L1]]]. rewrite L in L1. inversion L1; subst ob'.
      assert (Rp : reach st' (ptrs [r]) p) by (eapply reach_step; eauto).
      split; [eapply reach_step; eauto|].
      destruct (clone_owned_by_receiver_ p Rp) as [pb [Lp A]]. eauto.
  Qed.
End Derived.

(* ---- when the side condition S1 holds ---- *)

Lemma gen_nonneg : forall tr, wf_tree tr -> forall h, h < length tr -> (0 <= gen_of tr h)%Z.
Proof.
  intros tr W h. induction h as [h IH] using lt_wf_ind. intros L.
  unfold gen_of. destruct (nth_error tr h) as [i|] eqn:E.
  - pose proof (W h i E) as Wi. destruct (h_parent i) as [p|] eqn:P.
    + destruct Wi as [Lt G]. rewrite G. unfold child_generation, gen_next.
      specialize (IH p Lt ltac:(lia)). lia.
    + rewrite Wi. unfold gen_default. lia.
  - apply nth_error_None in E. lia.
Qed.

(* a full clone shares nothing: `Generation::disjoint()` is below every real generation *)
Theorem full_clone_sharing_sound : forall tr st0 recv v,
  wf_tree tr -> inv_old_to_young tr st0 -> sharing_sound tr st0 recv true v.
Proof.
  intros tr st0 recv v W IS o ob _ L S. exfalso.
  destruct (IS o ob L) as [Lt [G _]].
  pose proof (gen_nonneg tr W _ Lt).
  unfold clone_shares, gen_can_contain_values_from, full_clone_generation, gen_disjoint in S.
  apply Z.leb_le in S. lia.
Qed.

(* everything reachable from a value held by thread [s] lives in s's ancestry *)
Definition held_by (tr : tree) (st0 : store) (s : hid) (v : field) : Prop :=
  forall p, v = Ptr p -> exists ob, lookup st0 p = Some ob /\ ancP tr (o_owner ob) s.

Lemma held_reach : forall tr st0 s v o ob,
  inv_old_to_young tr st0 -> held_by tr st0 s v -> reach st0 (ptrs [v]) o ->
  lookup st0 o = Some ob -> ancP tr (o_owner ob) s.
Proof.
  intros tr st0 s v o ob IS HB R. revert ob. induction R as [o Ho|o ob' p R IH L Hp]; intros ob L'.
  - apply in_ptrs in Ho. destruct Ho as [Ho|[]]. destruct (HB o Ho) as [ob0 [L0 A]].
    rewrite L' in L0. inversion L0; subst. assumption.
  - destruct (IS o ob' L) as [_ [_ P]]. destruct (P p Hp) as [pb [Lp Ap]].
    rewrite L' in Lp. inversion Lp; subst. eapply ancP_trans; eauto.
Qed.

(* on one branch the generation test is sound (shortcut_sound) *)
Theorem same_branch_sharing_sound : forall tr st0 s recv v,
  wf_tree tr -> inv_old_to_young tr st0 -> held_by tr st0 s v -> same_branch tr s recv ->
  sharing_sound tr st0 recv false v.
Proof.
  intros tr st0 s recv v W IS HB SB o ob R L S.
  pose proof (held_reach _ _ _ _ _ _ IS HB R L) as A.
  destruct (IS o ob L) as [_ [G _]]. rewrite G in S.
  eapply shortcut_sound; eauto.
Qed.

(* hence for the host route (re_root / Pushable for RootedValue), whose decision between the two
   is `can_share_values_with`, S1 always holds *)
Theorem reroot_sharing_sound : forall tr st0 s t v,
  wf_tree tr -> inv_old_to_young tr st0 -> held_by tr st0 s v ->
  sharing_sound tr st0 t (negb (can_share tr t s)) v.
Proof.
  intros tr st0 s t v W IS HB. destruct (can_share tr t s) eqn:E; cbn [negb].
  - apply same_branch_sharing_sound with (s := s); auto.
    destruct (can_share_same_branch _ _ _ E) as [A|A]; [right|left]; assumption.
  - apply full_clone_sharing_sound; auto.
Qed.

(* channel send / Reference `<-` never ask for a full clone; the cell's heap [x] is the heap of the
   cell object, which the storing thread [s] reaches — so x is in s's ancestry, one branch *)
Theorem cell_sharing_sound : forall tr st0 s x v,
  wf_tree tr -> inv_old_to_young tr st0 -> held_by tr st0 s v -> ancP tr x s ->
  sharing_sound tr st0 x false v.
Proof.
  intros. eapply same_branch_sharing_sound; eauto. right. assumption.
Qed.
