(* C13 clone_terminates: the fuel (recursion depth) given to `deep_clone` suffices.

   Every visit that allocates enters a source object into the association list, and an object whose
   kind goes through `visited` ([memo], GENERATED) is never entered twice; so the number of source
   objects not yet in the list bounds the remaining depth.  Objects that bypass `visited` (extern
   functions, Reference / Lazy) are cloned again at every visit: the statement is restricted to
   graphs in which such objects hold no pointers (true of extern functions; a Reference / Lazy that
   holds heap values is outside this theorem — a cycle through cells only would make the
   implementation recurse forever). *)
From Coq Require Import List ZArith Bool Arith Lia.
From GVgen Require Import GenerationGen ClonerGen.
From GV Require Import Heap.Heap Heap.HeapProofs Heap.Clone Heap.CloneProofs.
Import ListNotations.

Lemma filter_length_le : forall {A} (p q : A -> bool) l,
  (forall x, q x = true -> p x = true) -> length (filter q l) <= length (filter p l).
Proof.
  intros A p q l H. induction l as [|a l IH]; cbn; [lia|].
  destruct (q a) eqn:Q.
  - rewrite (H a Q). cbn. lia.
  - destruct (p a); cbn; lia.
Qed.

Lemma filter_length_lt : forall {A} (p q : A -> bool) l a,
  (forall x, q x = true -> p x = true) -> In a l -> p a = true -> q a = false ->
  length (filter q l) < length (filter p l).
Proof.
  intros A p q l a H I Pa Qa. induction l as [|b l IH]; [destruct I|]. cbn.
  destruct I as [->|I].
  - rewrite Pa, Qa. cbn. pose proof (filter_length_le p q l H). lia.
  - specialize (IH I). destruct (q b) eqn:Q.
    + rewrite (H b Q). cbn. lia.
    + destruct (p b); cbn; lia.
Qed.

Lemma assoc_in_some : forall o b l, In (o, b) l -> assoc o l <> None.
Proof.
  induction l as [|[x y] l IH]; intros I; cbn in *; [destruct I|].
  destruct (Nat.eqb x o) eqn:E; [discriminate|].
  destruct I as [I|I]; [inversion I; subst; rewrite Nat.eqb_refl in E; discriminate|auto].
Qed.

Definition unseen (vis : list (oid * oid)) (o : oid) : bool :=
  match assoc o vis with None => true | Some _ => false end.

(* source objects not yet entered in the list *)
Definition todo (n0 : nat) (c : cst) : nat := length (filter (unseen (snd c)) (seq 0 n0)).

Lemma todo_mono : forall n0 c c', (forall x, In x (snd c) -> In x (snd c')) -> todo n0 c' <= todo n0 c.
Proof.
  intros n0 c c' V. unfold todo. apply filter_length_le. intros o H. unfold unseen in *.
  destruct (assoc o (snd c)) as [b|] eqn:A; [|reflexivity].
  apply assoc_in in A. apply V in A. apply assoc_in_some in A.
  destruct (assoc o (snd c')); [discriminate|congruence].
Qed.

Lemma todo_enter : forall n0 st st' vis o o',
  o < n0 -> assoc o vis = None -> todo n0 (st', (o, o') :: vis) < todo n0 (st, vis).
Proof.
  intros n0 st st' vis o o' L A. unfold todo. cbn [snd].
  apply filter_length_lt with (a := o).
  - intros x H. unfold unseen in *. cbn [assoc] in H.
    destruct (Nat.eqb o x); [discriminate|]. assumption.
  - apply in_seq. lia.
  - unfold unseen. rewrite A. reflexivity.
  - unfold unseen. cbn [assoc]. rewrite Nat.eqb_refl. reflexivity.
Qed.

Section Term.
  Variables (tr : tree) (st0 : store).
  Variables (rg : Z) (recv : hid) (rgen : Z) (cth : hid).
  Variable R : oid -> Prop.
  Let n0 := length st0.

  Hypothesis R_exists : forall p, R p -> exists ob, lookup st0 p = Some ob.
  Hypothesis R_closed : forall o ob p, R o -> lookup st0 o = Some ob -> In (Ptr p) (o_fields ob) -> R p.
  Hypothesis S1 : forall o ob, R o -> lookup st0 o = Some ob ->
    clone_shares rg (o_gen ob) = true -> ancP tr (o_owner ob) recv.
  Hypothesis S2 : forall o ob i p, R o -> lookup st0 o = Some ob ->
    nth_error (o_fields ob) i = Some (Ptr p) -> fmode_of (o_kind ob) i = FShare -> shr tr st0 recv p.
  (* nothing unclonable in the part of the graph the clone walks *)
  Hypothesis R_clonable : forall o ob, R o -> lookup st0 o = Some ob -> clonable (o_kind ob) = true.
  (* objects that bypass `visited` hold no pointers *)
  Hypothesis R_leaf : forall o ob, R o -> lookup st0 o = Some ob -> memo (o_kind ob) = false ->
    forall f, In f (o_fields ob) -> exists z, f = Imm z.

  Notation cinv := (cinv tr st0 recv rgen).
  Notation pre := (pre tr st0 recv R).
  Notation post := (post tr st0 recv rgen).

  Section Fields.
    Variable cv : cst -> fmode -> field -> option (cst * field).
    Variable F : nat.
    Hypothesis Hspec : forall c m f c' f', cinv c -> pre m f -> cv c m f = Some (c', f') -> post c c' f'.
    Hypothesis Htot : forall c m f, cinv c -> pre m f -> todo n0 c < F -> exists r, cv c m f = Some r.

    Lemma clone_fields_total : forall k o' fs i c,
      cinv c -> n0 <= o' -> o' < length (fst c) ->
      (forall j f, nth_error fs j = Some f -> pre (fmode_of k (i + j)) f) ->
      todo n0 c < F ->
      exists c', clone_fields cv k o' i fs c = Some c'.
    Proof.
      intros k o'. induction fs as [|f fs IH]; intros i c CI Lo Hi P T; cbn [clone_fields].
      - eexists; reflexivity.
      - assert (Pf : pre (fmode_of k i) f).
        { specialize (P 0 f eq_refl). rewrite Nat.add_0_r in P. assumption. }
        destruct (Htot c _ f CI Pf T) as [[c1 f'] E]. rewrite E.
        destruct (Hspec _ _ _ _ _ CI Pf E) as [CI1 [G1 [L1 [F1 V1]]]].
        apply IH.
        + apply cinv_set_field; auto. lia.
        + assumption.
        + cbn [fst]. rewrite set_field_length. lia.
        + intros j g Hj. specialize (P (S j) g Hj). replace (S i + j) with (i + S j) by lia. assumption.
        + pose proof (todo_mono n0 c (set_field (fst c1) o' i f', snd c1) V1). lia.
    Qed.
  End Fields.

  (* a copy all of whose fields are immediates needs no fuel *)
  Lemma clone_fields_imm : forall fuel k o' fs i c,
    (forall f, In f fs -> exists z, f = Imm z) ->
    exists c', clone_fields (clone_val rg recv rgen cth fuel) k o' i fs c = Some c'.
  Proof.
    intros fuel k o'. induction fs as [|f fs IH]; intros i c H; cbn [clone_fields]; [eexists; reflexivity|].
    destruct (H f (or_introl eq_refl)) as [z ->].
    destruct fuel; cbn [clone_val]; apply IH; intros g Hg; apply H; right; assumption.
  Qed.

  Lemma clone_val_total : forall fuel c m f,
    cinv c -> pre m f -> todo n0 c < fuel ->
    exists r, clone_val rg recv rgen cth fuel c m f = Some r.
  Proof.
    induction fuel as [|fuel IH]; intros c m f CI P T; [lia|].
    destruct f as [z|o]; cbn [clone_val]; [eexists; reflexivity|].
    assert (Main : forall ob, lookup st0 o = Some ob -> R o ->
              (if memo (o_kind ob) then assoc o (snd c) else None) = None ->
              exists r,
                (if negb (clonable (o_kind ob)) then None
                 else match clone_fields (clone_val rg recv rgen cth fuel) (o_kind ob)
                              (length (fst c)) 0 (o_fields ob)
                              (fst c ++ [Some (mkObj recv rgen (o_kind ob) (o_tag ob) cth (o_size ob)
                                                     (map (fun _ => Imm 0%Z) (o_fields ob)))],
                               (o, length (fst c)) :: snd c) with
                      | Some c2 => Some (c2, Ptr (length (fst c)))
                      | None => None
                      end) = Some r).
    { intros ob L0 Ro A. rewrite (R_clonable _ _ Ro L0). cbn [negb].
      set (o' := length (fst c)).
      set (nob := mkObj recv rgen (o_kind ob) (o_tag ob) cth (o_size ob)
                        (map (fun _ => Imm 0%Z) (o_fields ob))).
      set (c1 := (fst c ++ [Some nob], (o, o') :: snd c)).
      assert (EX : exists c2, clone_fields (clone_val rg recv rgen cth fuel) (o_kind ob) o' 0 (o_fields ob) c1 = Some c2).
      { destruct (memo (o_kind ob)) eqn:M.
        - (* goes through `visited`: the source object is new to the list *)
          pose proof (lookup_lt _ _ _ L0) as Lt. fold n0 in Lt.
          pose proof CI as [X1 [X2 [X3 X4]]].
          assert (CI1 : cinv c1).
          { unfold CloneProofs.cinv, c1. cbn [fst snd]. rewrite app_length. cbn [length].
            split; [lia|]. split; [|split].
            - intros x Hx. rewrite nth_error_app1 by lia. apply X2. assumption.
            - intros x Lx Hx. destruct (Nat.eq_dec x o') as [->|N].
              + exists nob. unfold o'. rewrite lookup_app_new. split; [reflexivity|].
                cbn. split; [reflexivity|]. split; [reflexivity|].
                intros g Hg. apply in_map_iff in Hg. destruct Hg as [? [<- _]]. exact I.
              + destruct (X3 x Lx) as [xb [Lxb [O1 [O2 O3]]]]; [unfold o' in *; lia|].
                exists xb. rewrite lookup_app_old by (unfold o' in *; lia).
                split; [assumption|]. split; [assumption|]. split; [assumption|].
                intros g Hg. eapply goodf_mono; [|apply O3; assumption]. rewrite app_length. lia.
            - intros a b [E|Hab].
              + inversion E; subst. unfold o'. lia.
              + destruct (X4 _ _ Hab). lia. }
          apply (clone_fields_total (clone_val rg recv rgen cth fuel) fuel).
          + intros. eapply (clone_val_spec tr st0 rg recv rgen cth R); eauto.
          + intros. apply IH; assumption.
          + assumption.
          + unfold o'. lia.
          + unfold c1. cbn [fst]. rewrite app_length. cbn. unfold o'. lia.
          + intros j g Hj. cbn [plus]. destruct g as [z|p]; cbn; auto.
            destruct (fmode_of (o_kind ob) j) eqn:FM.
            * eapply R_closed; eauto. eapply nth_error_In; eauto.
            * eapply R_closed; eauto. eapply nth_error_In; eauto.
            * eapply S2; eauto.
          + pose proof (todo_enter n0 (fst c) (fst c ++ [Some nob]) (snd c) o o' Lt A) as D.
            unfold c1. destruct c as [stc visc]. cbn [fst snd] in *.
            apply (Nat.lt_le_trans _ _ _ D). apply Nat.lt_succ_r. exact T.
        - apply clone_fields_imm. eapply R_leaf; eauto. }
      destruct EX as [c2 E]. fold o' nob c1. rewrite E. eexists; reflexivity. }
    assert (LK : R o -> exists ob, lookup st0 o = Some ob /\ lookup (fst c) o = Some ob).
    { intros Ro. destruct (R_exists _ Ro) as [ob L0]. exists ob. split; [assumption|].
      rewrite (lookup_old tr st0 recv rgen _ _ CI); [assumption|]. eapply lookup_lt; eauto. }
    destruct m.
    - cbn [CloneProofs.pre] in P. destruct (LK P) as [ob [L0 L]]. rewrite L.
      destruct (clone_shares rg (o_gen ob)); [eexists; reflexivity|].
      destruct (if memo (o_kind ob) then assoc o (snd c) else None) eqn:A; [eexists; reflexivity|].
      apply Main; assumption.
    - cbn [CloneProofs.pre] in P. destruct (LK P) as [ob [L0 L]]. rewrite L.
      destruct (if memo (o_kind ob) then assoc o (snd c) else None) eqn:A; [eexists; reflexivity|].
      apply Main; assumption.
    - eexists; reflexivity.
  Qed.
End Term.

Lemma filter_true : forall (l : list nat), filter (fun _ : nat => true) l = l.
Proof. induction l as [|a l IHl]; cbn; [reflexivity|rewrite IHl; reflexivity]. Qed.

Lemma todo_le : forall n0 c, todo n0 c <= n0.
Proof.
  intros. unfold todo.
  pose proof (filter_length_le (fun _ : nat => true) (unseen (snd c)) (seq 0 n0) (fun _ _ => eq_refl)) as H.
  rewrite filter_true, seq_length in H. assumption.
Qed.

(* clone_terminates (partial: cells that bypass `visited` must not hold pointers) *)
Theorem clone_terminates_partial : forall tr st0 recv cth full fuel v,
  inv_old_to_young tr st0 -> not_dangling st0 v ->
  sharing_sound tr st0 recv full v -> verbatim_ok tr st0 recv v ->
  (forall o ob, reach st0 (ptrs [v]) o -> lookup st0 o = Some ob -> clonable (o_kind ob) = true) ->
  (forall o ob, reach st0 (ptrs [v]) o -> lookup st0 o = Some ob -> memo (o_kind ob) = false ->
     forall f, In f (o_fields ob) -> exists z, f = Imm z) ->
  length st0 < fuel ->
  exists c' r, deep_clone fuel tr st0 recv cth full v = Some (c', r).
Proof.
  intros tr st0 recv cth full fuel v IS ND HS1 HS2 HC HL HF. unfold deep_clone.
  set (rgen := gen_of tr recv).
  set (rg := if full then full_clone_generation else rgen).
  set (R := reach st0 (ptrs [v])).
  assert (RE : forall p, R p -> exists ob, lookup st0 p = Some ob).
  { intros p Rp. eapply reach_exists; eauto. }
  assert (RC : forall o ob p, R o -> lookup st0 o = Some ob -> In (Ptr p) (o_fields ob) -> R p).
  { intros o ob p Ro L I. eapply reach_step; eauto. apply in_ptrs. assumption. }
  assert (A1 : forall o ob, R o -> lookup st0 o = Some ob ->
               clone_shares rg (o_gen ob) = true -> ancP tr (o_owner ob) recv).
  { intros o ob Ro L S. eapply HS1; eauto. }
  assert (A2 : forall o ob i p, R o -> lookup st0 o = Some ob ->
               nth_error (o_fields ob) i = Some (Ptr p) -> fmode_of (o_kind ob) i = FShare ->
               shr tr st0 recv p).
  { intros o ob i p Ro L N F. eapply HS2; eauto. }
  assert (CI0 : cinv tr st0 recv rgen (st0, [])).
  { unfold cinv. cbn [fst snd]. split; [lia|]. split; [auto|]. split.
    - intros o A B. lia.
    - intros a b []. }
  assert (P0 : pre tr st0 recv R FInner v).
  { destruct v as [z|p]; cbn; auto. apply reach_root. cbn. auto. }
  destruct (clone_val_total tr st0 rg recv rgen cth R RE RC A1 A2 HC HL fuel (st0, []) FInner v CI0 P0)
    as [[c' r] E].
  - pose proof (todo_le (length st0) (st0, [])). lia.
  - exists c', r. assumption.
Qed.
