(* Heap model shared by C05 (mark/sweep) and C13 (deep clone): executable definitions only.

   What is modelled (file:line refer to /repo):
   * vm/src/gc.rs:236 `struct Gc` — one heap per `Gc`; `generation` (gc.rs:271) is the depth in the
     tree of heaps: the global heap of a VM has `Generation::default()`, `Gc::new_child_gc`
     (gc.rs:1102) gives `generation.next()`.  The root thread's heap is a child of the global heap
     (thread.rs:664 `global_state.gc.new_child_gc()`), `Thread::new_thread` (thread.rs:757) makes a
     child of the calling thread's heap.
   * every allocation stamps the allocating heap's generation into the object's `TypeInfo`
     (gc.rs:1201,1219,1229); `GcPtr::generation` (gc.rs:695) reads it back.  The algorithms only
     ever look at that number ([o_gen]); [o_owner] is ghost state (what hook `verif::owner_of`
     reports) used by the theorems and by the correspondence.
   The comparison functions on generations come from the GENERATED file GenerationGen.v. *)
From Coq Require Import List ZArith Bool Arith.
From GVgen Require Import GenerationGen.
Import ListNotations.

Definition hid := nat.   (* heap id = index into the tree *)
Definition oid := nat.   (* object id = index into the store *)

Record heapinfo := mkHeap { h_parent : option hid; h_gen : Z }.
Definition tree := list heapinfo.

Definition parent_of (tr : tree) (h : hid) : option hid :=
  match nth_error tr h with Some i => h_parent i | None => None end.

Definition gen_of (tr : tree) (h : hid) : Z :=
  match nth_error tr h with Some i => h_gen i | None => gen_disjoint end.

(* GlobalVmStateBuilder::build: `Gc::new(Generation::default(), ..)` *)
Definition add_root (tr : tree) : tree * hid :=
  (tr ++ [mkHeap None gen_default], length tr).

(* Gc::new_child_gc *)
Definition add_child (tr : tree) (p : hid) : tree * hid :=
  (tr ++ [mkHeap (Some p) (child_generation (gen_of tr p))], length tr).

(* [a] is [h] or one of its ancestors; walks at most [fuel] parent links *)
Fixpoint anc_b (fuel : nat) (tr : tree) (a h : hid) : bool :=
  if Nat.eqb a h then true else
  match fuel with
  | 0 => false
  | S f => match parent_of tr h with Some p => anc_b f tr a p | None => false end
  end.

Definition anc (tr : tree) (a h : hid) : bool := anc_b (length tr) tr a h.

Fixpoint root_of_b (fuel : nat) (tr : tree) (h : hid) : hid :=
  match fuel with
  | 0 => h
  | S f => match parent_of tr h with Some p => root_of_b f tr p | None => h end
  end.
Definition root_of (tr : tree) (h : hid) : hid := root_of_b (length tr) tr h.

(* heaps swept by a collection started by the thread owning heap [t]: its own and those of all
   threads below it (thread.rs:372 `Roots::scope`: "`sweep` all child gcs") *)
Definition desc (tr : tree) (t : hid) : list hid :=
  filter (fun h => anc tr t h) (seq 0 (length tr)).

(* thread.rs:1326 can_share_values_with, on heaps.  A `Thread`'s parent link is the parent heap's
   thread; the global heap has no thread, so walking heap parents finds the same answers. *)
Definition can_share (tr : tree) (self other : hid) : bool :=
  if Nat.eqb self other then true
  else if negb (Nat.eqb (root_of tr self) (root_of tr other)) then false
  else if share_self_is_parent (gen_of tr self) (gen_of tr other)
       then anc tr self other
       else anc tr other self.

(* ---- objects ---- *)

Inductive field := Imm (z : Z) | Ptr (o : oid).

(* What `Cloner` distinguishes (value.rs:1567-1589, 1697-1711):
   KData       record / variant                        fields: deep_clone_inner
   KClosure    ClosureData: field 0 = BytecodeFunction (pointer copied), upvars: deep_clone_inner
   KPapp       PartialApplicationData: field 0 = callable (deep_clone_closure / fresh extern copy,
               no generation test), args: deep_clone_inner
   KArrUnknown array of `Value`s                       deep_clone_inner
   KArrArray   array of arrays                         deep_clone_array (no generation test)
   KArrString  array of strings                        element pointers copied as they are
   KArrPrim    array of bytes / ints / floats          no pointers
   KArrUserdata array of userdata                      deep_clone_userdata (no generation test)
   KString     string
   KExtern     ExternFunction: fresh copy each time it is met, not entered in `visited`
   KBytecode   BytecodeFunction: never cloned
   KCell       Reference / Lazy userdata: `Userdata::deep_clone` -> contents through
               deep_clone (with the generation test), fresh cell, not entered in `visited`
   KOpaque     Thread, Sender, Receiver, other userdata: "cannot be cloned" *)
Inductive kind :=
  KData | KClosure | KPapp | KArrUnknown | KArrArray | KArrString | KArrPrim | KArrUserdata
| KString | KExtern | KBytecode | KCell | KOpaque.

(* How `Cloner` produces one field of a copied object (the table itself is GENERATED from
   value.rs: gen/ClonerGen.v):
   FInner  deep_clone_inner: shared if the receiver generation may hold it, else cloned
   FForce  cloned without the generation test
   FShare  the pointer is copied as it is *)
Inductive fmode := FInner | FForce | FShare.

Record obj := mkObj {
  o_owner : hid;          (* ghost: the heap whose allocation list holds the object *)
  o_gen : Z;              (* TypeInfo.generation *)
  o_kind : kind;
  o_tag : Z;              (* all non-pointer payload (bytes, constructor tag, names), opaque *)
  o_cell : hid;           (* KCell: heap of the `thread` the cell clones incoming values into *)
  o_size : nat;           (* bytes accounted in allocated_memory, header included *)
  o_fields : list field
}.

Definition store := list (option obj).   (* [None]: freed *)

Definition lookup (st : store) (o : oid) : option obj :=
  match nth_error st o with Some (Some ob) => Some ob | _ => None end.

Definition alloc (st : store) (ob : obj) : store * oid := (st ++ [Some ob], length st).

Fixpoint upd {A} (l : list A) (i : nat) (x : A) : list A :=
  match l, i with
  | [], _ => []
  | _ :: t, 0 => x :: t
  | h :: t, S j => h :: upd t j x
  end.

Definition set_field (st : store) (o : oid) (i : nat) (v : field) : store :=
  match lookup st o with
  | Some ob => upd st o (Some (mkObj (o_owner ob) (o_gen ob) (o_kind ob) (o_tag ob) (o_cell ob)
                                   (o_size ob) (upd (o_fields ob) i v)))
  | None => st
  end.

Definition set_fields (st : store) (o : oid) (fs : list field) : store :=
  match lookup st o with
  | Some ob => upd st o (Some (mkObj (o_owner ob) (o_gen ob) (o_kind ob) (o_tag ob) (o_cell ob)
                                   (o_size ob) fs))
  | None => st
  end.

Definition ptrs (fs : list field) : list oid :=
  flat_map (fun f => match f with Ptr o => [o] | Imm _ => [] end) fs.

Definition mem (x : nat) (l : list nat) : bool := existsb (Nat.eqb x) l.

(* ---- whole state: tree of heaps, store, roots per heap (stack + rooted handles of the thread
   owning the heap; for a global heap: module globals), allocated_memory per heap ---- *)
Record state := mkState {
  s_tree : tree;
  s_store : store;
  s_roots : list (list field);
  s_alloc : list nat
}.

Definition roots_of (rs : list (list field)) (h : hid) : list field := nth h rs [].
Definition alloc_of (al : list nat) (h : hid) : nat := nth h al 0.
