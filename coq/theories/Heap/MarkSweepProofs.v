(* C05: a collection keeps everything reachable, leaves no dangling pointer, frees everything
   unreachable in the swept heaps, accounts memory exactly, and the fuel of [mark] suffices. *)
From Coq Require Import List ZArith Bool Arith Lia.
From GVgen Require Import GenerationGen.
From GV Require Import Heap.Heap Heap.HeapProofs Heap.MarkSweep.
Import ListNotations.

(* the GENERATED skip test of Gc::mark: "older generation, or already marked" *)
Lemma mark_skips_spec : forall hg cg m, mark_skips hg cg m = (Z.ltb hg cg || m)%bool.
Proof. reflexivity. Qed.

Definition skipped (cg : Z) (ob : obj) : bool := gen_is_parent_of (o_gen ob) cg.

Lemma mark_skips_unfold : forall ob cg m, mark_skips (o_gen ob) cg m = (skipped cg ob || m)%bool.
Proof. reflexivity. Qed.

(* every child of [o] that exists and is not skipped lies in S *)
Definition children_in (st : store) (cg : Z) (o : oid) (S : oid -> Prop) : Prop :=
  forall ob p pob, lookup st o = Some ob -> In p (ptrs (o_fields ob)) ->
    lookup st p = Some pob -> skipped cg pob = false -> S p.

Lemma mark_complete : forall fuel st cg work marked M,
  mark fuel st cg work marked = Some M ->
  (forall o, In o marked -> children_in st cg o (fun p => In p marked \/ In p work)) ->
  incl marked M /\
  (forall o, In o M -> children_in st cg o (fun p => In p M)) /\
  (forall o ob, In o work -> lookup st o = Some ob -> skipped cg ob = false -> In o M).
Proof.
  induction fuel; intros st cg work marked M H Pre; cbn [mark] in H; [discriminate|].
  destruct work as [|o w].
  - inversion H; subst. split; [apply incl_refl|]. split.
    + intros o Ho ob p pob L I Lp S. destruct (Pre o Ho ob p pob L I Lp S) as [?|[]]. assumption.
    + intros o ob [].
  - destruct (lookup st o) as [ob|] eqn:L.
    + rewrite mark_skips_unfold in H.
      destruct (skipped cg ob || mem o marked)%bool eqn:SK.
      * (* skipped or already marked *)
        destruct (IHfuel _ _ _ _ _ H) as [I1 [I2 I3]].
        { intros m Hm ob' p pob L' I Lp S.
          destruct (Pre m Hm ob' p pob L' I Lp S) as [?|[E|?]]; auto.
          subst p. rewrite L in Lp. inversion Lp; subst.
          rewrite S in SK. cbn in SK. apply mem_In in SK. auto. }
        split; [assumption|]. split; [assumption|].
        intros o' ob' [E|Hw] L' S'.
        -- subst o'. rewrite L in L'. inversion L'; subst.
           rewrite S' in SK. cbn in SK. apply mem_In in SK. apply I1. assumption.
        -- eapply I3; eauto.
      * (* newly marked *)
        apply orb_false_iff in SK. destruct SK as [SK1 SK2].
        destruct (IHfuel _ _ _ _ _ H) as [I1 [I2 I3]].
        { intros m [E|Hm] ob' p pob L' I Lp S.
          - subst m. rewrite L in L'. inversion L'; subst. right. apply in_or_app. left. assumption.
          - destruct (Pre m Hm ob' p pob L' I Lp S) as [?|[E|?]].
            + left. right. assumption.
            + left. left. assumption.
            + right. apply in_or_app. right. assumption. }
        split; [intros x Hx; apply I1; right; assumption|]. split; [assumption|].
        intros o' ob' [E|Hw] L' S'.
        -- subst o'. apply I1. left. reflexivity.
        -- eapply I3; eauto. apply in_or_app. right. assumption.
    + destruct (IHfuel _ _ _ _ _ H) as [I1 [I2 I3]].
      { intros m Hm ob' p pob L' I Lp S.
        destruct (Pre m Hm ob' p pob L' I Lp S) as [?|[E|?]]; auto.
        subst p. congruence. }
      split; [assumption|]. split; [assumption|].
      intros o' ob' [E|Hw] L' S'.
      * subst o'. congruence.
      * eapply I3; eauto.
Qed.

(* everything marked was reachable *)
Lemma mark_sound : forall fuel st cg work marked M (R : oid -> Prop),
  mark fuel st cg work marked = Some M ->
  (forall o ob p, R o -> lookup st o = Some ob -> In p (ptrs (o_fields ob)) -> R p) ->
  (forall o, In o work -> R o) -> (forall o, In o marked -> R o) ->
  forall o, In o M -> R o.
Proof.
  induction fuel; intros st cg work marked M R H Cl Hw Hm; cbn [mark] in H; [discriminate|].
  destruct work as [|o w].
  - inversion H; subst. assumption.
  - destruct (lookup st o) as [ob|] eqn:L.
    + destruct (mark_skips (o_gen ob) cg (mem o marked)).
      * eapply IHfuel; eauto. intros; apply Hw; right; assumption.
      * eapply IHfuel; eauto.
        -- intros x Hx. apply in_app_or in Hx. destruct Hx as [Hx|Hx].
           ++ eapply Cl; eauto. apply Hw. left. reflexivity.
           ++ apply Hw. right. assumption.
        -- intros x [E|Hx]; [subst; apply Hw; left; reflexivity|auto].
    + eapply IHfuel; eauto. intros; apply Hw; right; assumption.
Qed.

(* ---- fuel ---- *)

Definition ucost (st : store) (marked : list oid) : nat :=
  list_sum (map (fun o => if mem o marked then 0 else cost (nth o st None)) (seq 0 (length st))).

Lemma list_sum_cons : forall a l, list_sum (a :: l) = a + list_sum l.
Proof. reflexivity. Qed.

Lemma mem_cons : forall x a l, mem x (a :: l) = (Nat.eqb x a || mem x l)%bool.
Proof. reflexivity. Qed.

Lemma sumf_notin : forall (c : nat -> nat) l marked o, ~ In o l ->
  list_sum (map (fun x => if mem x (o :: marked) then 0 else c x) l) =
  list_sum (map (fun x => if mem x marked then 0 else c x) l).
Proof.
  induction l as [|a l IH]; intros marked o N; cbn [map]; [reflexivity|].
  rewrite !list_sum_cons.
  rewrite IH by (intro; apply N; right; assumption).
  rewrite mem_cons. destruct (Nat.eqb a o) eqn:E.
  - apply Nat.eqb_eq in E. subst. exfalso. apply N. left. reflexivity.
  - reflexivity.
Qed.

Lemma sumf_mark : forall (c : nat -> nat) l marked o, NoDup l -> In o l -> mem o marked = false ->
  list_sum (map (fun x => if mem x (o :: marked) then 0 else c x) l) + c o =
  list_sum (map (fun x => if mem x marked then 0 else c x) l).
Proof.
  induction l as [|a l IH]; intros marked o ND I M; [destruct I|].
  inversion ND as [|? ? NI ND']; subst. cbn [map]. rewrite !list_sum_cons.
  destruct (Nat.eq_dec a o) as [E|NE].
  - subst a. rewrite sumf_notin by assumption.
    rewrite mem_cons, Nat.eqb_refl. cbn [orb]. rewrite M. lia.
  - destruct I as [E|I]; [congruence|].
    rewrite <- (IH marked o ND' I M).
    rewrite mem_cons. destruct (Nat.eqb a o) eqn:E; [apply Nat.eqb_eq in E; congruence|].
    cbn [orb]. lia.
Qed.

Lemma map_nth_seq : forall {A B} (l : list A) (d : A) (f : A -> B),
  map (fun o => f (nth o l d)) (seq 0 (length l)) = map f l.
Proof.
  induction l as [|a l IH]; intros d f; cbn [length seq map]; [reflexivity|].
  f_equal. rewrite <- seq_shift, map_map. cbn [nth]. apply IH.
Qed.

Lemma ucost_nil : forall st, ucost st [] = list_sum (map cost st).
Proof.
  intros. unfold ucost. cbn [mem existsb]. rewrite (map_nth_seq st None cost). reflexivity.
Qed.

Lemma lookup_nth : forall st o ob, lookup st o = Some ob -> nth o st None = Some ob.
Proof.
  intros st o ob H. unfold lookup in H.
  destruct (nth_error st o) as [[x|]|] eqn:E; try discriminate.
  inversion H; subst. apply nth_error_nth with (d := None) in E. assumption.
Qed.

Lemma ptrs_length : forall fs, length (ptrs fs) <= length fs.
Proof.
  induction fs as [|f fs IH]; cbn; [lia|]. unfold ptrs in *. cbn.
  rewrite app_length. destruct f; cbn; lia.
Qed.

Lemma mark_fuel_enough : forall fuel st cg work marked,
  length work + ucost st marked < fuel -> exists M, mark fuel st cg work marked = Some M.
Proof.
  induction fuel; intros st cg work marked H; [lia|]. cbn [mark].
  destruct work as [|o w]; [eexists; reflexivity|]. cbn [length] in H.
  destruct (lookup st o) as [ob|] eqn:L.
  - rewrite mark_skips_unfold.
    destruct (skipped cg ob || mem o marked)%bool eqn:SK.
    + apply IHfuel. lia.
    + apply orb_false_iff in SK. destruct SK as [_ SK].
      apply IHfuel. rewrite app_length.
      pose proof (ptrs_length (o_fields ob)).
      assert (I : In o (seq 0 (length st))) by (apply in_seq; pose proof (lookup_lt _ _ _ L); lia).
      pose proof (sumf_mark (fun o => cost (nth o st None)) _ marked o (seq_NoDup _ _) I SK) as E.
      cbv beta in E. rewrite (lookup_nth _ _ _ L) in E. cbn [cost] in E.
      unfold ucost, oid in *. lia.
  - apply IHfuel. lia.
Qed.

(* mark_terminates: the fuel [collect] passes is sufficient for any work list *)
Theorem mark_terminates : forall st cg work,
  exists M, mark (mark_fuel st work) st cg work [] = Some M.
Proof.
  intros. apply mark_fuel_enough. rewrite ucost_nil. unfold mark_fuel. lia.
Qed.

(* ---- sweep ---- *)

Definition swept (scope : list hid) (marked : list oid) (o : oid) (x : option obj) : option obj :=
  match x with
  | Some ob => if mem (o_owner ob) scope && negb (mem o marked) then None else Some ob
  | None => None
  end.

Lemma sweep_from_nth : forall st i scope marked k,
  nth_error (sweep_from i st scope marked) k = option_map (swept scope marked (i + k)) (nth_error st k).
Proof.
  induction st as [|x rest IH]; intros i scope marked k; cbn [sweep_from].
  - destruct k; reflexivity.
  - destruct k; cbn [nth_error option_map].
    + rewrite Nat.add_0_r. destruct x; reflexivity.
    + rewrite IH. replace (S i + k) with (i + S k) by lia. reflexivity.
Qed.

Lemma lookup_sweep : forall st scope marked o,
  lookup (sweep st scope marked) o =
  match lookup st o with
  | Some ob => if mem (o_owner ob) scope && negb (mem o marked) then None else Some ob
  | None => None
  end.
Proof.
  intros. unfold lookup, sweep. rewrite sweep_from_nth. cbn [plus].
  destruct (nth_error st o) as [[ob|]|]; cbn; try reflexivity.
  destruct (mem (o_owner ob) scope && negb (mem o marked)); reflexivity.
Qed.

Lemma sweep_length : forall st i scope marked, length (sweep_from i st scope marked) = length st.
Proof.
  induction st; intros; cbn; [reflexivity|]. rewrite IHst. reflexivity.
Qed.

(* ---- the collection ---- *)

Lemma collect_inv : forall s t s',
  collect s t = Some s' ->
  exists M,
    mark (mark_fuel (s_store s) (collect_roots (s_tree s) (s_roots s) t)) (s_store s)
         (gen_of (s_tree s) t) (collect_roots (s_tree s) (s_roots s) t) [] = Some M /\
    s_tree s' = s_tree s /\ s_roots s' = s_roots s /\
    s_store s' = sweep (s_store s) (desc (s_tree s) t) M /\
    s_alloc s' = map (fun h => alloc_of (s_alloc s) h -
                               freed_from 0 (s_store s) h (desc (s_tree s) t) M)
                     (seq 0 (length (s_alloc s))).
Proof.
  intros s t s' H. unfold collect in H.
  destruct (mark _ _ _ _ _) as [M|] eqn:E; [|discriminate].
  inversion H; subst. exists M. cbn. auto.
Qed.

(* an object owned by the collecting heap or a heap below it is not skipped by mark *)
Lemma not_skipped : forall tr st t ob,
  wf_tree tr -> obj_ok tr st ob -> ancP tr t (o_owner ob) -> skipped (gen_of tr t) ob = false.
Proof.
  intros tr st t ob W [_ [G _]] A. unfold skipped, gen_is_parent_of.
  rewrite G. apply Z.ltb_ge. apply gen_mono_le; assumption.
Qed.

Lemma in_collect_roots : forall tr rs t o,
  In o (collect_roots tr rs t) <-> exists h, In h (desc tr t) /\ In o (ptrs (roots_of rs h)).
Proof.
  intros. unfold collect_roots. rewrite in_flat_map. tauto.
Qed.

Lemma desc_lt : forall tr t h, In h (desc tr t) -> h < length tr.
Proof.
  intros tr t h H. unfold desc in H. apply filter_In in H. destruct H as [H _].
  apply in_seq in H. lia.
Qed.

Section Collect.
  Variables (s s' : state) (t : hid).
  Hypothesis I : inv s.
  Hypothesis C : collect s t = Some s'.

  Let tr := s_tree s.
  Let st := s_store s.
  Let work := collect_roots tr (s_roots s) t.

  (* what is reachable from the traced roots exists, lives in the scope's heaps or above them,
     and, if it lives in a swept heap, is marked *)
  Lemma reach_marked : forall M,
    mark (mark_fuel st work) st (gen_of tr t) work [] = Some M ->
    forall o, reach st work o ->
      exists ob, lookup st o = Some ob /\
                 (exists h, In h (desc tr t) /\ ancP tr (o_owner ob) h) /\
                 (ancP tr t (o_owner ob) -> In o M).
  Proof.
    intros M HM. destruct I as [W [IS RS]]. fold tr in W, IS, RS. fold st in IS, RS.
    destruct (mark_complete _ _ _ _ _ _ HM) as [_ [Cl Wk]]; [intros ? []|].
    intros o R. induction R as [o Ho|o ob p R IH L Hp].
    - apply in_collect_roots in Ho. destruct Ho as [h [Hh Hp]].
      destruct (RS h o Hp) as [ob [L A]].
      exists ob. split; [assumption|]. split; [exists h; auto|].
      intros At. apply (Wk o ob); [apply in_collect_roots; exists h; auto|assumption|].
      eapply not_skipped; eauto.
    - destruct IH as [ob' [L' [[h [Hh Ah]] Mk]]]. rewrite L in L'. inversion L'; subst ob'.
      destruct (IS o ob L) as [_ [_ P]]. destruct (P p Hp) as [pob [Lp Ap]].
      exists pob. split; [assumption|]. split.
      + exists h. split; [assumption|]. eapply ancP_trans; eauto.
      + intros At. assert (Ao : ancP tr t (o_owner ob)) by (eapply ancP_trans; eauto).
        apply (Cl o (Mk Ao) ob p pob L Hp Lp). eapply not_skipped; eauto.
  Qed.

  Theorem collect_keeps_reachable_ : forall o,
    reach st work o ->
    exists ob, lookup st o = Some ob /\ lookup (s_store s') o = Some ob.
  Proof.
    intros o R. destruct (collect_inv _ _ _ C) as [M [HM [_ [_ [ES _]]]]].
    destruct (reach_marked M HM o R) as [ob [L [_ Mk]]].
    exists ob. split; [assumption|]. rewrite ES, lookup_sweep. fold st. rewrite L.
    destruct (mem (o_owner ob) (desc (s_tree s) t)) eqn:Sc; [|reflexivity].
    apply mem_In in Sc. destruct I as [W [IS _]].
    destruct (IS o ob L) as [Lt _].
    apply (in_desc _ _ _ W Lt) in Sc. rewrite (proj2 (mem_In o M) (Mk Sc)). reflexivity.
  Qed.

  Lemma survivor : forall o ob, lookup (s_store s') o = Some ob ->
    lookup st o = Some ob.
  Proof.
    intros o ob H. destruct (collect_inv _ _ _ C) as [M [_ [_ [_ [ES _]]]]].
    rewrite ES, lookup_sweep in H. fold st in H. destruct (lookup st o) as [ob'|]; [|discriminate].
    destruct (mem (o_owner ob') _ && negb (mem o M)); congruence.
  Qed.

  Theorem collect_no_dangling_ : forall x xb p,
    lookup (s_store s') x = Some xb -> In p (ptrs (o_fields xb)) ->
    exists pb, lookup (s_store s') p = Some pb /\ lookup st p = Some pb.
  Proof.
    intros x xb p Hx Hp. pose proof (survivor _ _ Hx) as Lx.
    destruct (collect_inv _ _ _ C) as [M [HM [_ [_ [ES _]]]]].
    destruct I as [W [IS RS]]. fold tr in W, IS. fold st in IS.
    destruct (IS x xb Lx) as [Ltx [_ P]]. destruct (P p Hp) as [pb [Lp Ap]].
    exists pb. split; [|assumption]. rewrite ES, lookup_sweep. fold st. rewrite Lp.
    destruct (mem (o_owner pb) (desc (s_tree s) t)) eqn:Sc; [|reflexivity].
    cbn [andb]. apply mem_In in Sc. destruct (IS p pb Lp) as [Ltp _].
    apply (in_desc _ _ _ W Ltp) in Sc.
    assert (Ax : ancP tr t (o_owner xb)) by (eapply ancP_trans; eauto).
    (* x survived although it lives in a swept heap: it is marked *)
    assert (Mx : In x M).
    { rewrite ES, lookup_sweep in Hx. fold st in Hx. rewrite Lx in Hx.
      apply (in_desc _ _ _ W Ltx) in Ax. apply mem_In in Ax. fold tr in Hx. rewrite Ax in Hx.
      cbn [andb] in Hx. destruct (mem x M) eqn:E; [apply mem_In in E; assumption|discriminate]. }
    destruct (mark_complete _ _ _ _ _ _ HM) as [_ [Cl _]]; [intros ? []|].
    assert (Mp : In p M).
    { apply (Cl x Mx xb p pb Lx Hp Lp). eapply not_skipped; eauto. }
    rewrite (proj2 (mem_In p M) Mp). reflexivity.
  Qed.

  Theorem collect_frees_unreachable_ : forall o ob,
    lookup st o = Some ob -> In (o_owner ob) (desc tr t) -> ~ reach st work o ->
    lookup (s_store s') o = None.
  Proof.
    intros o ob L Sc NR. destruct (collect_inv _ _ _ C) as [M [HM [_ [_ [ES _]]]]].
    rewrite ES, lookup_sweep. fold st. rewrite L. fold tr.
    rewrite (proj2 (mem_In _ _) Sc).
    assert (NM : ~ In o M).
    { intro Mo. apply NR. eapply (mark_sound _ _ _ _ _ _ (reach st work) HM); eauto.
      - intros. eapply reach_step; eauto.
      - intros. apply reach_root. assumption.
      - intros ? []. }
    rewrite (proj2 (mem_false _ _) NM). reflexivity.
  Qed.

  (* the invariant survives the collection *)
  Theorem collect_preserves_inv_ : inv s'.
  Proof.
    destruct (collect_inv _ _ _ C) as [M [HM [ET [ER ES]]]].
    pose proof I as [W [IS RS]].
    unfold inv. rewrite ET, ER. split; [assumption|]. split.
    - intros o ob L. pose proof (survivor _ _ L) as L0.
      destruct (IS o ob L0) as [Lt [G P]]. split; [assumption|]. split; [assumption|].
      intros p Hp. destruct (collect_no_dangling_ _ _ _ L Hp) as [pb [L1 L2]].
      exists pb. split; [assumption|].
      destruct (P p Hp) as [pb' [L3 A]]. fold st in L3. rewrite L2 in L3. inversion L3; subst. assumption.
    - intros h p Hp. destruct (RS h p Hp) as [pb [Lp A]].
      exists pb. split; [|assumption].
      destruct ES as [ES _]. rewrite ES, lookup_sweep. rewrite Lp.
      destruct (mem (o_owner pb) (desc (s_tree s) t)) eqn:Sc; [|reflexivity].
      cbn [andb]. apply mem_In in Sc. destruct (IS p pb Lp) as [Ltp _].
      apply (in_desc _ _ _ W Ltp) in Sc.
      (* then h is below t as well, so p is one of the traced roots *)
      assert (Ah : ancP (s_tree s) t h) by (eapply ancP_trans; eauto).
      assert (Lh : h < length (s_tree s)).
      { inversion A; subst; [assumption|]. eapply parent_lt; eauto. }
      assert (R : reach st work p).
      { apply reach_root. apply in_collect_roots. exists h. split; [|assumption].
        apply in_desc; assumption. }
      destruct (reach_marked M HM p R) as [ob' [L' [_ Mk]]]. fold st in Lp. rewrite Lp in L'.
      inversion L'; subst ob'. rewrite (proj2 (mem_In p M) (Mk Sc)). reflexivity.
  Qed.
End Collect.

(* ---- accounting ---- *)

Definition live_size (st : store) (h : hid) : nat :=
  list_sum (map (fun x => match x with
                          | Some ob => if Nat.eqb (o_owner ob) h then o_size ob else 0
                          | None => 0 end) st).

Definition acct_ok (s : state) : Prop :=
  forall h, h < length (s_alloc s) -> alloc_of (s_alloc s) h = live_size (s_store s) h.

Lemma live_sweep : forall st i h scope marked,
  live_size (sweep_from i st scope marked) h + freed_from i st h scope marked = live_size st h.
Proof.
  induction st as [|x rest IH]; intros i h scope marked; [reflexivity|].
  unfold live_size in *. cbn [sweep_from map freed_from]. rewrite !list_sum_cons.
  specialize (IH (S i) h scope marked).
  destruct x as [ob|]; [|lia].
  destruct (Nat.eqb (o_owner ob) h) eqn:E; cbn [andb].
  - destruct (mem (o_owner ob) scope && negb (mem i marked)); [|rewrite E]; lia.
  - destruct (mem (o_owner ob) scope && negb (mem i marked)); [|rewrite E]; lia.
Qed.

Lemma nth_map_seq : forall (f : nat -> nat) n h, h < n -> nth h (map f (seq 0 n)) 0 = f h.
Proof.
  intros f n h H. rewrite (nth_indep _ 0 (f 0)) by (rewrite map_length, seq_length; lia).
  rewrite map_nth. rewrite seq_nth by lia. reflexivity.
Qed.

Theorem collect_accounting_ : forall s t s',
  acct_ok s -> collect s t = Some s' -> acct_ok s'.
Proof.
  intros s t s' A C h Hh. destruct (collect_inv _ _ _ C) as [M [_ [_ [_ [ES EA]]]]].
  rewrite EA in Hh. rewrite map_length, seq_length in Hh.
  rewrite EA, ES. unfold alloc_of at 1. rewrite nth_map_seq by assumption.
  rewrite (A h Hh). unfold sweep.
  pose proof (live_sweep (s_store s) 0 h (desc (s_tree s) t) M). lia.
Qed.
