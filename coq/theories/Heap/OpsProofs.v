(* inv_old_to_young: the invariant "an object of heap h points only into h or ancestors of h; the
   roots of the thread owning h point only into h or its ancestors" is preserved by every operation
   of the model: allocation, collection (MarkSweepProofs), the transfers (host re-rooting, cell
   store, cell load, module promotion), spawning a child and dropping roots. *)
From Coq Require Import List ZArith Bool Arith Lia.
From GVgen Require Import GenerationGen ClonerGen.
From GV Require Import Heap.Heap Heap.HeapProofs Heap.MarkSweep Heap.MarkSweepProofs
     Heap.Clone Heap.CloneProofs.
Import ListNotations.

Lemma roots_of_upd_same : forall rs h x, h < length rs -> roots_of (upd rs h x) h = x.
Proof.
  intros. unfold roots_of. apply nth_error_nth. apply nth_error_upd_same. assumption.
Qed.

Lemma roots_of_upd_other : forall rs h h' x, h <> h' -> roots_of (upd rs h x) h' = roots_of rs h'.
Proof.
  intros. unfold roots_of.
  destruct (nth_error rs h') as [y|] eqn:E.
  - erewrite nth_error_nth; [|rewrite nth_error_upd_other; eauto].
    symmetry. apply nth_error_nth. assumption.
  - rewrite !nth_overflow; auto.
    + apply nth_error_None. assumption.
    + rewrite upd_length. apply nth_error_None. assumption.
Qed.

Lemma in_roots_upd : forall rs h x h' p,
  In p (ptrs (roots_of (upd rs h x) h')) ->
  (h' = h /\ In p (ptrs x)) \/ In p (ptrs (roots_of rs h')).
Proof.
  intros rs h x h' p H. destruct (Nat.eq_dec h h') as [<-|N].
  - destruct (Nat.lt_ge_cases h (length rs)).
    + rewrite roots_of_upd_same in H by assumption. auto.
    + right. unfold roots_of in *. rewrite nth_overflow in H by (rewrite upd_length; lia).
      destruct H.
  - rewrite roots_of_upd_other in H by assumption. auto.
Qed.

(* a field that thread [h] may hold *)
Definition holds (tr : tree) (st : store) (h : hid) (f : field) : Prop :=
  forall p, f = Ptr p -> exists pb, lookup st p = Some pb /\ ancP tr (o_owner pb) h.

Lemma holds_held_by : forall tr st h f, holds tr st h f <-> held_by tr st h f.
Proof. intros; unfold holds, held_by; tauto. Qed.

(* ---- roots ---- *)

Lemma push_root_preserves_inv : forall s h v,
  inv s -> holds (s_tree s) (s_store s) h v ->
  inv (mkState (s_tree s) (s_store s) (push_root (s_roots s) h v) (s_alloc s)).
Proof.
  intros s h v [W [IS RS]] Hv. split; [assumption|]. split; [assumption|]. cbn [s_tree s_store s_roots].
  intros h' p Hp. unfold push_root in Hp. apply in_roots_upd in Hp.
  destruct Hp as [[-> Hp]|Hp]; [|apply RS; assumption].
  apply in_ptrs in Hp. destruct Hp as [E|Hp].
  - apply Hv. assumption.
  - apply RS. apply in_ptrs. assumption.
Qed.

Theorem drop_roots_preserves_inv : forall s h, inv s -> inv (op_drop_roots s h).
Proof.
  intros s h [W [IS RS]]. split; [assumption|]. split; [assumption|].
  intros h' p Hp. cbn in Hp. apply in_roots_upd in Hp. destruct Hp as [[_ []]|Hp]. apply RS. assumption.
Qed.

(* ---- allocation ---- *)

Theorem alloc_preserves_inv : forall s t k tag size fs,
  inv s -> t < length (s_tree s) ->
  (forall f, In f fs -> holds (s_tree s) (s_store s) t f) ->
  inv (fst (op_alloc s t k tag size fs)).
Proof.
  intros s t k tag size fs [W [IS RS]] Lt Hf. unfold op_alloc. cbn [fst].
  split; [assumption|]. cbn [s_tree s_store s_roots]. split.
  - intros o ob L. destruct (Nat.lt_ge_cases o (length (s_store s))) as [Lo|Ge].
    + rewrite lookup_app_old in L by assumption. destruct (IS o ob L) as [A [B P]].
      split; [assumption|]. split; [assumption|].
      intros p Hp. destruct (P p Hp) as [pb [Lp Ap]]. exists pb. split; [|assumption].
      rewrite lookup_app_old; [assumption|]. eapply lookup_lt; eauto.
    + pose proof (lookup_lt _ _ _ L) as Lo. rewrite app_length in Lo. cbn in Lo.
      assert (o = length (s_store s)) by lia. subst o. rewrite lookup_app_new in L.
      inversion L; subst ob. cbn. split; [assumption|]. split; [reflexivity|].
      intros p Hp. apply in_ptrs in Hp. destruct (Hf _ Hp p eq_refl) as [pb [Lp Ap]].
      exists pb. split; [|assumption]. rewrite lookup_app_old; [assumption|]. eapply lookup_lt; eauto.
  - intros h p Hp. destruct (RS h p Hp) as [pb [Lp Ap]]. exists pb. split; [|assumption].
    rewrite lookup_app_old; [assumption|]. eapply lookup_lt; eauto.
Qed.

(* ---- transfers ---- *)

Lemma roots_ok_frame : forall tr st st' rs,
  roots_ok tr st rs -> (forall o, o < length st -> nth_error st' o = nth_error st o) ->
  roots_ok tr st' rs.
Proof.
  intros tr st st' rs RS F h p Hp. destruct (RS h p Hp) as [pb [Lp Ap]].
  exists pb. split; [|assumption]. unfold lookup in *. rewrite F; [assumption|].
  apply nth_error_Some. destruct (nth_error st p); congruence.
Qed.

(* the result of a clone is something the receiver may hold *)
Lemma clone_result_holds : forall tr st0 recv cth full fuel v r c',
  wf_tree tr -> inv_old_to_young tr st0 -> recv < length tr -> not_dangling st0 v ->
  sharing_sound tr st0 recv full v -> verbatim_ok tr st0 recv v ->
  deep_clone fuel tr st0 recv cth full v = Some (c', r) ->
  holds tr (fst c') recv r.
Proof.
  intros tr st0 recv cth full fuel v r c' W IS L ND S1 S2 H p E. subst r.
  apply (clone_owned_by_receiver_ tr st0 recv cth full fuel v (Ptr p) c' IS L ND S1 S2 H p).
  apply reach_root. cbn. auto.
Qed.

Lemma held_not_dangling : forall tr st s v, held_by tr st s v -> not_dangling st v.
Proof. intros tr st s v H p E. destruct (H p E) as [ob [L _]]. eauto. Qed.

Theorem reroot_preserves_inv : forall fuel s src dst v s',
  inv s -> dst < length (s_tree s) -> held_by (s_tree s) (s_store s) src v ->
  verbatim_ok (s_tree s) (s_store s) dst v ->
  op_reroot fuel s src dst v = Some s' -> inv s'.
Proof.
  intros fuel s src dst v s' I Ld HB V H. pose proof I as [W [IS RS]].
  unfold op_reroot, transfer in H.
  destruct (deep_clone _ _ _ _ _ _ _) as [[[st' vis] r]|] eqn:D; [|discriminate].
  inversion H; subst s'. clear H.
  pose proof (reroot_sharing_sound _ _ _ dst _ W IS HB) as S1.
  pose proof (held_not_dangling _ _ _ _ HB) as ND.
  apply (push_root_preserves_inv (mkState (s_tree s) st' (s_roots s) (s_alloc s))).
  - split; [assumption|]. cbn [s_tree s_store s_roots]. split.
    + eapply (clone_preserves_inv_ _ _ _ _ _ _ _ _ (st', vis)); eauto.
    + eapply roots_ok_frame; eauto.
      intros o Lo. eapply (clone_frame_ _ _ _ _ _ _ _ _ (st', vis)); eauto.
  - cbn [s_tree s_store]. eapply (clone_result_holds _ _ _ _ _ _ _ _ (st', vis)); eauto.
Qed.

Lemma root_of_b_anc : forall f tr h, ancP tr (root_of_b f tr h) h.
Proof.
  induction f; intros tr h; cbn [root_of_b]; [constructor|].
  destruct (parent_of tr h) as [p|] eqn:P; [|constructor].
  eapply ancP_step; eauto.
Qed.

Lemma root_of_anc : forall tr h, ancP tr (root_of tr h) h.
Proof. intros. apply root_of_b_anc. Qed.

Lemma ancP_lt : forall tr a h, wf_tree tr -> ancP tr a h -> h < length tr -> a < length tr.
Proof. intros tr a h W A L. pose proof (ancP_le _ _ _ W A). lia. Qed.

Theorem promote_preserves_inv : forall fuel s t v s',
  inv s -> t < length (s_tree s) -> held_by (s_tree s) (s_store s) t v ->
  verbatim_ok (s_tree s) (s_store s) (root_of (s_tree s) t) v ->
  op_promote fuel s t v = Some s' -> inv s'.
Proof.
  intros fuel s t v s' I Lt HB V H. pose proof I as [W [IS RS]].
  unfold op_promote, transfer in H.
  destruct (deep_clone _ _ _ _ _ _ _) as [[[st' vis] r]|] eqn:D; [|discriminate].
  inversion H; subst s'. clear H.
  assert (Lr : root_of (s_tree s) t < length (s_tree s)).
  { eapply ancP_lt; eauto. apply root_of_anc. }
  assert (S1 : sharing_sound (s_tree s) (s_store s) (root_of (s_tree s) t) false v).
  { eapply same_branch_sharing_sound; eauto. right. apply root_of_anc. }
  pose proof (held_not_dangling _ _ _ _ HB) as ND.
  apply (push_root_preserves_inv (mkState (s_tree s) st' (s_roots s) (s_alloc s))).
  - split; [assumption|]. cbn [s_tree s_store s_roots]. split.
    + eapply (clone_preserves_inv_ _ _ _ _ _ _ _ _ (st', vis)); eauto.
    + eapply roots_ok_frame; eauto.
      intros o Lo. eapply (clone_frame_ _ _ _ _ _ _ _ _ (st', vis)); eauto.
  - cbn [s_tree s_store]. eapply (clone_result_holds _ _ _ _ _ _ _ _ (st', vis)); eauto.
Qed.

(* replacing the fields of an object by fields its owner may hold *)
Lemma set_fields_preserves : forall tr st rs c cb fs,
  wf_tree tr -> inv_old_to_young tr st -> roots_ok tr st rs ->
  lookup st c = Some cb ->
  (forall f, In f fs -> holds tr st (o_owner cb) f) ->
  inv_old_to_young tr (set_fields st c fs) /\ roots_ok tr (set_fields st c fs) rs.
Proof.
  intros tr st rs c cb fs W IS RS Lc Hf.
  assert (LK : forall o, lookup (set_fields st c fs) o =
                         if Nat.eqb o c then Some (mkObj (o_owner cb) (o_gen cb) (o_kind cb) (o_tag cb)
                                                        (o_cell cb) (o_size cb) fs)
                         else lookup st o).
  { intros o. unfold set_fields. rewrite Lc. destruct (Nat.eqb o c) eqn:E.
    - apply Nat.eqb_eq in E. subst. unfold lookup. rewrite nth_error_upd_same; auto.
      eapply lookup_lt; eauto.
    - apply Nat.eqb_neq in E. unfold lookup. rewrite nth_error_upd_other; auto. }
  assert (EX : forall p pb, lookup st p = Some pb ->
                 exists pb', lookup (set_fields st c fs) p = Some pb' /\ o_owner pb' = o_owner pb).
  { intros p pb Lp. rewrite LK. destruct (Nat.eqb p c) eqn:E.
    - apply Nat.eqb_eq in E. subst. rewrite Lc in Lp. inversion Lp; subst. eexists. split; [reflexivity|reflexivity].
    - eauto. }
  split.
  - intros o ob L. rewrite LK in L. destruct (Nat.eqb o c) eqn:E.
    + inversion L; subst ob. cbn. destruct (IS c cb Lc) as [A [B _]].
      split; [assumption|]. split; [assumption|].
      intros p Hp. apply in_ptrs in Hp. destruct (Hf _ Hp p eq_refl) as [pb [Lp Ap]].
      destruct (EX p pb Lp) as [pb' [Lp' Eo]]. exists pb'. split; [assumption|]. rewrite Eo. assumption.
    + destruct (IS o ob L) as [A [B P]]. split; [assumption|]. split; [assumption|].
      intros p Hp. destruct (P p Hp) as [pb [Lp Ap]].
      destruct (EX p pb Lp) as [pb' [Lp' Eo]]. exists pb'. split; [assumption|]. rewrite Eo. assumption.
  - intros h p Hp. destruct (RS h p Hp) as [pb [Lp Ap]].
    destruct (EX p pb Lp) as [pb' [Lp' Eo]]. exists pb'. split; [assumption|]. rewrite Eo. assumption.
Qed.

(* a cell whose `thread` is the thread it lives with (or an ancestor): true of every cell made by
   `ref` / `lazy` / `channel` and of every copy made by deep_clone_value; NOT of a cell copied into
   the global heap by module promotion (Refuted.v) *)
Definition cell_wf (tr : tree) (cb : obj) : Prop := ancP tr (o_cell cb) (o_owner cb).

Theorem cell_set_preserves_inv : forall fuel s thr c cb v s',
  inv s -> lookup (s_store s) c = Some cb -> cell_wf (s_tree s) cb ->
  ancP (s_tree s) (o_owner cb) thr ->                      (* thread thr can reach the cell *)
  held_by (s_tree s) (s_store s) thr v ->                  (* ... and holds the value *)
  verbatim_ok (s_tree s) (s_store s) (o_cell cb) v ->
  op_cell_set fuel s c v = Some s' -> inv s'.
Proof.
  intros fuel s thr c cb v s' I Lc CW Ac HB V H. pose proof I as [W [IS RS]].
  unfold op_cell_set in H. rewrite Lc in H.
  destruct (o_kind cb); try discriminate.
  unfold transfer in H.
  destruct (deep_clone _ _ _ _ _ _ _) as [[[st' vis] r]|] eqn:D; [|discriminate].
  inversion H; subst s'. clear H.
  destruct (IS c cb Lc) as [Lo _].
  assert (Ax : ancP (s_tree s) (o_cell cb) thr) by (eapply ancP_trans; eauto).
  assert (Lx : o_cell cb < length (s_tree s)) by (eapply (ancP_lt _ _ (o_owner cb)); eauto).
  assert (S1 : sharing_sound (s_tree s) (s_store s) (o_cell cb) false v).
  { eapply cell_sharing_sound; eauto. }
  pose proof (held_not_dangling _ _ _ _ HB) as ND.
  assert (IS' : inv_old_to_young (s_tree s) st').
  { eapply (clone_preserves_inv_ _ _ _ _ _ _ _ _ (st', vis)); eauto. }
  assert (FR : forall o, o < length (s_store s) -> nth_error st' o = nth_error (s_store s) o).
  { intros o Lo'. eapply (clone_frame_ _ _ _ _ _ _ _ _ (st', vis)); eauto. }
  assert (RS' : roots_ok (s_tree s) st' (s_roots s)) by (eapply roots_ok_frame; eauto).
  assert (Lc' : lookup st' c = Some cb).
  { unfold lookup in *. rewrite FR; [assumption|]. apply nth_error_Some. destruct (nth_error (s_store s) c); congruence. }
  destruct (set_fields_preserves (s_tree s) st' (s_roots s) c cb [r] W IS' RS' Lc') as [A B].
  - intros f [<-|[]] p E. subst r.
    destruct (clone_result_holds _ _ _ _ _ _ _ _ (st', vis) W IS Lx ND S1 V D p eq_refl) as [pb [Lp Ap]].
    exists pb. split; [assumption|]. eapply ancP_trans; eauto.
  - split; [assumption|]. split; assumption.
Qed.

Theorem cell_get_preserves_inv : forall s c cb t s',
  inv s -> lookup (s_store s) c = Some cb -> ancP (s_tree s) (o_owner cb) t ->
  op_cell_get s c t = Some s' -> inv s'.
Proof.
  intros s c cb t s' I Lc A H. pose proof I as [W [IS RS]].
  unfold op_cell_get in H. rewrite Lc in H.
  destruct (o_fields cb) as [|f fs] eqn:F; [discriminate|]. inversion H; subst s'.
  apply push_root_preserves_inv; [assumption|].
  intros p E. subst f. destruct (IS c cb Lc) as [_ [_ P]].
  destruct (P p) as [pb [Lp Ap]]; [apply in_ptrs; rewrite F; left; reflexivity|].
  exists pb. split; [assumption|]. eapply ancP_trans; eauto.
Qed.

(* ---- spawning a child thread ---- *)

Lemma nth_error_upd_app : forall (rs : list (list field)) h x,
  roots_of (upd (rs ++ repeat [] (S h - length rs)) h x) h = x.
Proof.
  intros. apply roots_of_upd_same. rewrite app_length, repeat_length. lia.
Qed.

Lemma roots_of_pad : forall (rs : list (list field)) n h, roots_of (rs ++ repeat [] n) h = roots_of rs h.
Proof.
  intros. unfold roots_of. destruct (Nat.lt_ge_cases h (length rs)).
  - rewrite app_nth1; auto.
  - rewrite app_nth2 by assumption. rewrite (nth_overflow rs) by assumption.
    destruct (Nat.lt_ge_cases (h - length rs) n).
    + rewrite nth_repeat. reflexivity.
    + rewrite nth_overflow; [reflexivity|]. rewrite repeat_length. assumption.
Qed.

Theorem spawn_preserves_inv : forall s p action,
  inv s -> p < length (s_tree s) ->
  (forall h, length (s_tree s) <= h -> roots_of (s_roots s) h = []) ->
  (forall f, In f action -> holds (s_tree s) (s_store s) p f) ->
  inv (fst (op_spawn s p action)).
Proof.
  intros s p action [W [IS RS]] Lp Fresh Ha. unfold op_spawn. cbn [add_child fst].
  set (x := mkHeap (Some p) (child_generation (gen_of (s_tree s) p))).
  set (h := length (s_tree s)).
  assert (W' : wf_tree (s_tree s ++ [x])) by (apply (wf_add_child _ _ W Lp)).
  assert (UP : forall a b, ancP (s_tree s) a b -> b < h -> ancP (s_tree s ++ [x]) a b).
  { intros. apply ancP_app_wf; auto. }
  split; [assumption|]. cbn [s_tree s_store s_roots]. split.
  - intros o ob L. destruct (IS o ob L) as [A [B P]].
    split; [rewrite app_length; cbn; lia|]. split; [rewrite gen_of_app; assumption|].
    intros q Hq. destruct (P q Hq) as [qb [Lq Aq]]. exists qb. split; [assumption|]. apply UP; assumption.
  - intros h' q Hq. apply in_roots_upd in Hq. destruct Hq as [[-> Hq]|Hq].
    + apply in_ptrs in Hq. destruct (Ha _ Hq q eq_refl) as [qb [Lq Aq]].
      exists qb. split; [assumption|].
      eapply ancP_step; [|apply UP; eauto].
      unfold parent_of. fold h. rewrite nth_error_app2 by (unfold h; lia).
      unfold h. rewrite Nat.sub_diag. reflexivity.
    + rewrite roots_of_pad in Hq.
      destruct (Nat.lt_ge_cases h' h) as [Lh|Ge].
      * destruct (RS h' q Hq) as [qb [Lq Aq]]. exists qb. split; [assumption|]. apply UP; assumption.
      * rewrite Fresh in Hq by assumption. destruct Hq.
Qed.
