(* Deep clone between heaps (vm/src/value.rs:1518 Cloner, :1556 deep_clone_inner) and the transfer
   sites that call it.  Definitions only.

   deep_clone_inner(value):
     if receiver_generation.can_contain_values_from(value.generation()) -> the pointer is shared
                                         ([clone_shares], GENERATED from value.rs)
     else by kind:
       String / Data / Array / Closure / PartialApplication -> deep_clone_ptr: `visited` lookup,
           else allocate the copy in the receiver heap, enter it in `visited`, then overwrite
           its fields one by one with their clones
       Function (extern)  -> fresh copy, not in `visited`
       Userdata           -> Userdata::deep_clone (Reference, Lazy: contents through
                             Cloner::deep_clone, fresh cell owned by `cloner.thread()`;
                             everything else: error)
       Thread             -> error
   How each field of a copied object is treated is [fmode_of] (see Heap.v, kinds).
   `force_full_clone` replaces receiver_generation by [full_clone_generation] (GENERATED).

   Deviation, not observable in the result graph: the implementation allocates the copy with the
   source's field values and then overwrites them; the model allocates it with placeholder
   immediates.  No collection can run in between (`Gc::alloc` never collects). *)
From Coq Require Import List ZArith Bool Arith.
From GVgen Require Import GenerationGen.
From GV Require Import Heap.Heap.
From GVgen Require Import ClonerGen.
Import ListNotations.

(* GENERATED tables (gen/ClonerGen.v): which kinds go through the `visited` map, how each field
   of a copy is produced. *)
Definition memo (k : kind) : bool := gen_memo k.
Definition fmode_of (k : kind) (i : nat) : fmode := gen_fmode_of k i.

(* Thread, Sender, Receiver, other userdata: "cannot be cloned"; a BytecodeFunction is never a
   `Value`.  An array whose element representation is refused (array of threads) is KOpaque for the
   harness. *)
Definition clonable (k : kind) : bool :=
  match k with KOpaque | KBytecode => false | _ => true end.

Fixpoint assoc (o : oid) (l : list (oid * oid)) : option oid :=
  match l with
  | [] => None
  | (a, b) :: t => if Nat.eqb a o then Some b else assoc o t
  end.

Definition cst := (store * list (oid * oid))%type.

Section Cloner.
  Variable rg : Z.       (* Cloner.receiver_generation (possibly the "disjoint" generation) *)
  Variable recv : hid.   (* the heap `Cloner.gc` allocates in *)
  Variable rgen : Z.     (* that heap's generation, stamped on every copy *)
  Variable cth : hid.    (* heap of `Cloner.thread`: owner of cloned cells *)

  Fixpoint clone_fields (cv : cst -> fmode -> field -> option (cst * field))
           (k : kind) (o' : oid) (i : nat) (fs : list field) (c : cst) : option cst :=
    match fs with
    | [] => Some c
    | f :: fs' =>
      match cv c (fmode_of k i) f with
      | None => None
      | Some (c1, f') => clone_fields cv k o' (S i) fs' (set_field (fst c1) o' i f', snd c1)
      end
    end.

  (* [None]: the implementation reports an error (unclonable object, dangling pointer) or the
     fuel (recursion depth) ran out.  The association list holds every (source, copy) pair; it is
     only consulted for kinds that the implementation enters in `visited` ([memo]). *)
  Fixpoint clone_val (fuel : nat) (c : cst) (m : fmode) (f : field) : option (cst * field) :=
    match f with
    | Imm z => Some (c, Imm z)
    | Ptr o =>
      match m with
      | FShare => Some (c, Ptr o)
      | _ =>
        match lookup (fst c) o with
        | None => None
        | Some ob =>
          if (match m with FInner => clone_shares rg (o_gen ob) | _ => false end)
          then Some (c, Ptr o)
          else
            match (if memo (o_kind ob) then assoc o (snd c) else None) with
            | Some o' => Some (c, Ptr o')
            | None =>
              if negb (clonable (o_kind ob)) then None else
              match fuel with
              | 0 => None
              | S fuel' =>
                let o' := length (fst c) in
                let nob := mkObj recv rgen (o_kind ob) (o_tag ob) cth (o_size ob)
                                 (map (fun _ => Imm 0%Z) (o_fields ob)) in
                match clone_fields (clone_val fuel') (o_kind ob) o' 0 (o_fields ob)
                                   (fst c ++ [Some nob], (o, o') :: snd c) with
                | None => None
                | Some c2 => Some (c2, Ptr o')
                end
              end
            end
        end
      end
    end.
End Cloner.

(* Cloner::new(thread, gc) [+ force_full_clone] ; deep_clone(value) *)
Definition deep_clone (fuel : nat) (tr : tree) (st : store) (recv cth : hid) (full : bool)
           (v : field) : option (cst * field) :=
  let rgen := gen_of tr recv in
  let rg := if full then full_clone_generation else rgen in
  clone_val rg recv rgen cth fuel (st, []) FInner v.

(* The transfer sites.
   RReroot s t : the host moves a handle rooted in thread s into thread t
                 (thread.rs:229 re_root, api/mod.rs:1571 Pushable for RootedValue,
                  thread.rs:1309 deep_clone_value): full clone unless can_share_values_with
   RCell x     : channel send (channel.rs:169) / Reference `<-` (reference.rs:53): clone into the
                 heap of the cell's `thread`, never a full clone (owner == self)
   RForce x s  : lazy force (lazy.rs:120): result computed in thread s, cloned into the heap of
                 the lazy's `thread`; full clone unless can_share_values_with
   RPromote t  : a module value computed by thread t is cloned into the global heap
                 (src/query.rs:757): Cloner::new(vm, global gc), no full clone
   RShare      : no clone at all: `spawn` pushes the action to the child as it is
                 (channel.rs:213), `recv` / `load` hand out the stored pointer *)
Inductive route := RReroot (s t : hid) | RCell (x : hid) | RForce (x s : hid) | RPromote (t : hid)
                 | RShare.

Definition transfer (fuel : nat) (tr : tree) (st : store) (r : route) (v : field)
  : option (cst * field) :=
  match r with
  | RReroot s t => deep_clone fuel tr st t t (negb (can_share tr t s)) v
  | RCell x => deep_clone fuel tr st x x false v
  | RForce x s => deep_clone fuel tr st x x (negb (can_share tr x s)) v
  | RPromote t => deep_clone fuel tr st (root_of tr t) t false v
  | RShare => Some ((st, []), v)
  end.

(* ---- the operations on whole states (mutators of the C05 invariant) ---- *)

Definition push_root (rs : list (list field)) (h : hid) (v : field) : list (list field) :=
  upd rs h (v :: roots_of rs h).

(* the host moves a handle from thread [s] into thread [t] (re_root / push as an argument) *)
Definition op_reroot (fuel : nat) (st8 : state) (s t : hid) (v : field) : option state :=
  match transfer fuel (s_tree st8) (s_store st8) (RReroot s t) v with
  | Some ((st', _), r) =>
    Some (mkState (s_tree st8) st' (push_root (s_roots st8) t r) (s_alloc st8))
  | None => None
  end.

(* `r <- v` / `send ch v` on the cell object [c]: clone into the heap of the cell's thread, store *)
Definition op_cell_set (fuel : nat) (st8 : state) (c : oid) (v : field) : option state :=
  match lookup (s_store st8) c with
  | Some cb =>
    match o_kind cb with
    | KCell =>
      match transfer fuel (s_tree st8) (s_store st8) (RCell (o_cell cb)) v with
      | Some ((st', _), r) =>
        Some (mkState (s_tree st8) (set_fields st' c [r]) (s_roots st8) (s_alloc st8))
      | None => None
      end
    | _ => None
    end
  | None => None
  end.

(* `load r` / `recv ch` by thread [t]: the stored pointer itself is handed out *)
Definition op_cell_get (st8 : state) (c : oid) (t : hid) : option state :=
  match lookup (s_store st8) c with
  | Some cb =>
    match o_fields cb with
    | f :: _ => Some (mkState (s_tree st8) (s_store st8) (push_root (s_roots st8) t f) (s_alloc st8))
    | [] => None
    end
  | None => None
  end.

(* the value of a module evaluated by thread [t] becomes a global *)
Definition op_promote (fuel : nat) (st8 : state) (t : hid) (v : field) : option state :=
  match transfer fuel (s_tree st8) (s_store st8) (RPromote t) v with
  | Some ((st', _), r) =>
    Some (mkState (s_tree st8) st'
                  (push_root (s_roots st8) (root_of (s_tree st8) t) r) (s_alloc st8))
  | None => None
  end.

(* `spawn action` / `new_thread`: a child heap; the action is handed to the child as it is *)
Definition op_spawn (st8 : state) (p : hid) (action : list field) : state * hid :=
  let (tr', h) := add_child (s_tree st8) p in
  (mkState tr' (s_store st8)
           (upd (s_roots st8 ++ repeat [] (S h - length (s_roots st8))) h action)
           (s_alloc st8 ++ repeat 0 (S h - length (s_alloc st8))),
   h).

(* a handle / stack slot goes away *)
Definition op_drop_roots (st8 : state) (h : hid) : state :=
  mkState (s_tree st8) (s_store st8) (upd (s_roots st8) h []) (s_alloc st8).
