(* C07 — the memory counter of a Gc against its limit (model: Heap/Account.v, arithmetic:
   GENERATED coq/gen/AllocGen.v).  Every proof below unfolds the generated definitions and closes
   by linear arithmetic, so an edit of gc.rs that changes the comparison, the amount tested or the
   amount added either keeps the statements true for the new [slack] or breaks the build. *)
From Coq Require Import NArith List Bool Lia.
From GVgen Require Import AllocGen.
From GV Require Import Heap.Account.
Import ListNotations.
Local Open Scope N_scope.

Ltac gen_unfold :=
  unfold witness_size, witness_limit, alloc_ok, slack, growth, tested, strict,
    alloc_refused, alloc_needed, alloc_update, free_update, collect_due, collect_limit_after,
    obj_size, sat_add, initial_allocated, initial_collect_limit in *.

Ltac leb_cases :=
  repeat match goal with
         | H : context [?a <=? ?b] |- _ => destruct (N.leb_spec a b)
         | |- context [?a <=? ?b] => destruct (N.leb_spec a b)
         | H : context [?a <? ?b] |- _ => destruct (N.ltb_spec a b)
         | |- context [?a <? ?b] => destruct (N.ltb_spec a b)
         end.

(* ---------- one allocation ---------- *)
(* A successful limit-checked allocation leaves the counter at most [slack hdr] above the limit. *)
Lemma alloc_ok_bound : forall hdr a size limit,
  limit <= usize_max ->
  alloc_ok hdr a size limit = true ->
  alloc_update hdr a size <= limit + slack hdr.
Proof.
  intros hdr a size limit Hl H. gen_unfold.
  apply negb_true_iff in H. leb_cases; try discriminate; lia.
Qed.

Lemma alloc_update_grows : forall hdr a size, alloc_update hdr a size = a + obj_size hdr size.
Proof. intros. gen_unfold. lia. Qed.

Lemma free_update_shrinks : forall hdr a size, free_update hdr a size = a - obj_size hdr size.
Proof. intros. gen_unfold. lia. Qed.

(* ---------- the counter is exactly the sum over the live objects ---------- *)
Definition exact (hdr : N) (h : heap) : Prop := allocated h = objs_total hdr (objs h).

Lemma objs_total_unroot : forall hdr l i, objs_total hdr (unroot l i) = objs_total hdr l.
Proof.
  induction l as [|[s r] l IH]; intros i; cbn; auto.
  destruct i; cbn; auto. rewrite IH. reflexivity.
Qed.

Lemma sweep_spec : forall hdr l a rest,
  a = objs_total hdr l + rest ->
  fst (sweep_objs hdr a l) = objs_total hdr (snd (sweep_objs hdr a l)) + rest /\
  fst (sweep_objs hdr a l) <= a.
Proof.
  induction l as [|[s r] l IH]; intros a rest Ha; cbn in *.
  - split; lia.
  - destruct r.
    + specialize (IH a (obj_size hdr s + rest)).
      destruct (sweep_objs hdr a l) as [a' l'] eqn:E. cbn in *.
      destruct IH as [IH1 IH2]; [lia|]. split; lia.
    + rewrite free_update_shrinks.
      specialize (IH (a - obj_size hdr s) rest).
      destruct IH as [IH1 IH2]; [lia|]. split; [exact IH1|lia].
Qed.

Lemma collect_exact : forall hdr h, exact hdr h -> exact hdr (do_collect hdr h).
Proof.
  unfold exact, do_collect. intros hdr h He.
  pose proof (sweep_spec hdr (objs h) (allocated h) 0) as H.
  destruct (sweep_objs hdr (allocated h) (objs h)) as [a l]. cbn in *.
  destruct H as [H _]; lia.
Qed.

Lemma collect_shrinks : forall hdr h, exact hdr h -> allocated (do_collect hdr h) <= allocated h.
Proof.
  unfold exact, do_collect. intros hdr h He.
  pose proof (sweep_spec hdr (objs h) (allocated h) 0) as H.
  destruct (sweep_objs hdr (allocated h) (objs h)) as [a l]. cbn in *.
  destruct H as [_ H]; lia.
Qed.

Lemma alloc_exact : forall hdr h size, exact hdr h -> exact hdr (do_alloc_unchecked hdr h size).
Proof.
  unfold exact, do_alloc_unchecked. intros hdr h size He. cbn.
  rewrite alloc_update_grows. lia.
Qed.

Lemma run_op_exact : forall hdr limit h o, exact hdr h -> exact hdr (fst (run_op hdr limit h o)).
Proof.
  intros hdr limit h o He. destruct o; cbn.
  - destruct (alloc_ok _ _ _ _); cbn; auto using alloc_exact.
  - auto using alloc_exact.
  - destruct (collect_due _ _); destruct (alloc_ok _ _ _ _); cbn; auto using alloc_exact, collect_exact.
  - unfold exact in *. cbn. rewrite objs_total_unroot. exact He.
  - auto using collect_exact.
Qed.

Theorem account_exact : forall hdr limit ops,
  exact hdr (run_ops hdr limit heap0 ops).
Proof.
  intros hdr limit ops.
  assert (H : forall h, exact hdr h -> exact hdr (run_ops hdr limit h ops)).
  { induction ops as [|o ops IH]; intros h He; cbn; auto. apply IH. apply run_op_exact; auto. }
  apply H. unfold exact, heap0. cbn. reflexivity.
Qed.

(* ---------- the bound ---------- *)
Definition within (hdr limit : N) (h : heap) : Prop := allocated h <= limit + slack hdr.

Lemma run_op_within : forall hdr limit h o,
  limit <= usize_max -> checked_op o = true ->
  exact hdr h -> within hdr limit h -> within hdr limit (fst (run_op hdr limit h o)).
Proof.
  unfold within. intros hdr limit h o Hl Hc He Hw. destruct o; cbn in *; try discriminate.
  - destruct (alloc_ok hdr (allocated h) size limit) eqn:E; cbn; auto.
    apply alloc_ok_bound; auto.
  - pose proof (collect_shrinks hdr h He) as Hs.
    destruct (collect_due _ _);
      match goal with |- context [alloc_ok hdr ?a size limit] => destruct (alloc_ok hdr a size limit) eqn:E end;
      cbn; auto; try (apply alloc_ok_bound; auto); lia.
  - exact Hw.
  - pose proof (collect_shrinks hdr h He). lia.
Qed.

(* After ANY sequence of limit-checked allocations, root drops and collections the counter is at
   most limit + slack. *)
Theorem account_invariant : forall hdr limit ops,
  limit <= usize_max ->
  forallb checked_op ops = true ->
  allocated (run_ops hdr limit heap0 ops) <= limit + slack hdr.
Proof.
  intros hdr limit ops Hl Hc.
  assert (H : forall h, exact hdr h -> within hdr limit h -> within hdr limit (run_ops hdr limit h ops)).
  { induction ops as [|o ops IH]; intros h He Hw; cbn in *; auto.
    apply andb_true_iff in Hc as [Ho Hc]. apply IH; auto.
    - apply run_op_exact; auto.
    - apply run_op_within; auto. }
  apply H.
  - unfold exact, heap0. cbn. reflexivity.
  - unfold within, heap0. cbn. gen_unfold. lia.
Qed.

(* The property's literal claim. *)
Definition account_le_limit_full_stmt (hdr : N) : Prop :=
  forall limit ops, limit <= usize_max -> forallb checked_op ops = true ->
    allocated (run_ops hdr limit heap0 ops) <= limit.

(* It holds exactly when the generated arithmetic has no slack ... *)
Theorem account_le_limit : forall hdr, slack hdr = 0 -> account_le_limit_full_stmt hdr.
Proof.
  intros hdr Hs limit ops Hl Hc. pose proof (account_invariant hdr limit ops Hl Hc). lia.
Qed.

(* ... and fails, with a one-allocation witness, whenever it has. *)
Theorem account_le_limit_refuted : forall hdr,
  0 < slack hdr -> witness_limit hdr <= usize_max ->
  forallb checked_op (witness_ops hdr) = true /\
  witness_limit hdr < allocated (run_ops hdr (witness_limit hdr) heap0 (witness_ops hdr)).
Proof.
  intros hdr Hs Hl. split; [reflexivity|].
  unfold witness_ops. cbn [run_ops run_op fst heap0 allocated].
  destruct (alloc_ok hdr initial_allocated (witness_size hdr) (witness_limit hdr)) eqn:E.
  - cbn [fst do_alloc_unchecked allocated heap0]. gen_unfold. leb_cases; lia.
  - exfalso. gen_unfold. apply negb_false_iff in E. leb_cases; try discriminate; lia.
Qed.

Corollary account_le_limit_false_with_slack : forall hdr,
  0 < slack hdr -> witness_limit hdr <= usize_max -> ~ account_le_limit_full_stmt hdr.
Proof.
  intros hdr Hs Hl Hfull.
  destruct (account_le_limit_refuted hdr Hs Hl) as [Hc Hw].
  specialize (Hfull _ _ Hl Hc). lia.
Qed.

(* An allocation either reports OutOfMemory and changes nothing, or stays within the bound. *)
Theorem oom_or_within : forall hdr limit h size,
  limit <= usize_max -> exact hdr h -> allocated h <= limit + slack hdr ->
  let '(h', oom) := run_op hdr limit h (OAlloc size) in
  (oom = true /\ h' = h) \/
  (oom = false /\ allocated h' <= limit + slack hdr /\ allocated h' = allocated h + obj_size hdr size).
Proof.
  intros hdr limit h size Hl He Hw. cbn.
  destruct (alloc_ok hdr (allocated h) size limit) eqn:E.
  - right. split; auto. split.
    + cbn. apply alloc_ok_bound; auto.
    + cbn. apply alloc_update_grows.
  - left. auto.
Qed.

(* alloc_and_collect collects first only when the counter reached collect_limit; right after a
   collection the next one is due only once the counter has doubled. *)
Theorem collect_hysteresis : forall hdr h a,
  collect_due a (climit (do_collect hdr h)) = true -> 2 * allocated (do_collect hdr h) <= a.
Proof.
  intros hdr h a. unfold do_collect.
  destruct (sweep_objs hdr (allocated h) (objs h)) as [a' l]. cbn.
  gen_unfold. intros H. leb_cases; try discriminate; lia.
Qed.
