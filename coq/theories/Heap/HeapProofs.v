(* The tree of heaps: ancestors, generations, and why the generation test of `Cloner` is sound on
   one branch of the tree and unsound across branches. *)
From Coq Require Import List ZArith Bool Arith Lia.
From GVgen Require Import GenerationGen.
From GV Require Import Heap.Heap.
Import ListNotations.

(* A heap's parent was created before it; its generation is the one `new_child_gc` computes. *)
Definition wf_tree (tr : tree) : Prop :=
  forall h i, nth_error tr h = Some i ->
    match h_parent i with
    | Some p => p < h /\ h_gen i = child_generation (gen_of tr p)
    | None => h_gen i = gen_default
    end.

(* [ancP tr a h]: a is h or an ancestor of h *)
Inductive ancP (tr : tree) : hid -> hid -> Prop :=
| ancP_refl : forall h, ancP tr h h
| ancP_step : forall a h p, parent_of tr h = Some p -> ancP tr a p -> ancP tr a h.

Lemma parent_lt : forall tr h p, wf_tree tr -> parent_of tr h = Some p -> p < h /\ h < length tr.
Proof.
  intros tr h p W P. unfold parent_of in P.
  destruct (nth_error tr h) as [i|] eqn:E; [|discriminate].
  split.
  - specialize (W h i E). rewrite P in W. tauto.
  - apply nth_error_Some. congruence.
Qed.

Lemma parent_gen : forall tr h p, wf_tree tr -> parent_of tr h = Some p ->
  gen_of tr h = child_generation (gen_of tr p).
Proof.
  intros tr h p W P. unfold parent_of in P. unfold gen_of at 1.
  destruct (nth_error tr h) as [i|] eqn:E; [|discriminate].
  specialize (W h i E). rewrite P in W. tauto.
Qed.

Lemma anc_b_sound : forall f tr a h, anc_b f tr a h = true -> ancP tr a h.
Proof.
  induction f; intros tr a h H; cbn [anc_b] in H.
  - destruct (Nat.eqb a h) eqn:E; [|discriminate]. apply Nat.eqb_eq in E. subst. constructor.
  - destruct (Nat.eqb a h) eqn:E.
    + apply Nat.eqb_eq in E. subst. constructor.
    + destruct (parent_of tr h) as [p|] eqn:P; [|discriminate].
      eapply ancP_step; eauto.
Qed.

Lemma anc_b_complete : forall tr a h, wf_tree tr -> ancP tr a h ->
  forall f, h <= f -> anc_b f tr a h = true.
Proof.
  intros tr a h W A. induction A; intros f Hf.
  - destruct f; cbn [anc_b]; rewrite Nat.eqb_refl; reflexivity.
  - destruct (parent_lt _ _ _ W H) as [Hp Hh].
    destruct f; [lia|]. cbn [anc_b]. destruct (Nat.eqb a h); [reflexivity|].
    rewrite H. apply IHA. lia.
Qed.

Lemma anc_iff : forall tr a h, wf_tree tr -> h < length tr -> (anc tr a h = true <-> ancP tr a h).
Proof.
  intros. unfold anc. split.
  - apply anc_b_sound.
  - intros A. apply anc_b_complete; auto. lia.
Qed.

Lemma anc_true_ancP : forall tr a h, anc tr a h = true -> ancP tr a h.
Proof. intros. eapply anc_b_sound; eauto. Qed.

Lemma ancP_trans : forall tr a b c, ancP tr a b -> ancP tr b c -> ancP tr a c.
Proof.
  intros tr a b c A B. induction B; auto. eapply ancP_step; eauto.
Qed.

Lemma ancP_le : forall tr a h, wf_tree tr -> ancP tr a h -> a <= h.
Proof.
  intros tr a h W A. induction A; [lia|]. destruct (parent_lt _ _ _ W H). lia.
Qed.

(* generations grow strictly along parent links: this is where `Generation::next` is used *)
Lemma gen_step : forall tr h p, wf_tree tr -> parent_of tr h = Some p ->
  (gen_of tr p < gen_of tr h)%Z.
Proof.
  intros. rewrite (parent_gen _ _ _ H H0). unfold child_generation, gen_next. lia.
Qed.

Lemma gen_mono_le : forall tr a h, wf_tree tr -> ancP tr a h -> (gen_of tr a <= gen_of tr h)%Z.
Proof.
  intros tr a h W A. induction A; [lia|]. pose proof (gen_step _ _ _ W H). lia.
Qed.

Lemma gen_mono_lt : forall tr a h, wf_tree tr -> ancP tr a h -> a <> h ->
  (gen_of tr a < gen_of tr h)%Z.
Proof.
  intros tr a h W A N. destruct A; [congruence|].
  pose proof (gen_step _ _ _ W H). pose proof (gen_mono_le _ _ _ W A). lia.
Qed.

(* the ancestors of one heap form a chain *)
Lemma ancP_chain : forall tr a b h, ancP tr a h -> ancP tr b h -> ancP tr a b \/ ancP tr b a.
Proof.
  intros tr a b h A. revert b. induction A; intros b B.
  - right. exact B.
  - inversion B; subst.
    + left. eapply ancP_step; eauto.
    + rewrite H in H0. inversion H0; subst. apply IHA. assumption.
Qed.

Lemma ancP_antisym : forall tr a b, wf_tree tr -> ancP tr a b -> ancP tr b a -> a = b.
Proof.
  intros. pose proof (ancP_le _ _ _ H H0). pose proof (ancP_le _ _ _ H H1). lia.
Qed.

(* Two heaps are on one branch when one is an ancestor of the other. *)
Definition same_branch (tr : tree) (a b : hid) : Prop := ancP tr a b \/ ancP tr b a.

(* shortcut_sound: a value reachable from thread [a] lives in some heap [x] that is [a] or an
   ancestor (the invariant of C05).  If the receiver [r] is on a's branch and the Cloner's test
   `receiver_generation.can_contain_values_from(value.generation())` ([clone_shares], GENERATED)
   succeeds, then [x] is the receiver's heap or one of its ancestors: sharing is safe. *)
Theorem shortcut_sound : forall tr x a r,
  wf_tree tr -> ancP tr x a -> same_branch tr a r ->
  clone_shares (gen_of tr r) (gen_of tr x) = true ->
  ancP tr x r.
Proof.
  intros tr x a r W XA [AR|RA] S.
  - eapply ancP_trans; eauto.
  - destruct (ancP_chain _ _ _ _ XA RA) as [XR|RX]; [assumption|].
    destruct (Nat.eq_dec r x) as [->|N]; [constructor|].
    pose proof (gen_mono_lt _ _ _ W RX N).
    unfold clone_shares, gen_can_contain_values_from in S. apply Z.leb_le in S. lia.
Qed.

(* ... and the same test says "share" between two children of one thread although neither heap
   is an ancestor of the other: this is why siblings need `force_full_clone`. *)
Definition sibling_tree : tree :=
  let (t0, g) := add_root [] in
  let (t1, r) := add_child t0 g in
  let (t2, a) := add_child t1 r in
  fst (add_child t2 r).

Lemma sibling_tree_wf : wf_tree sibling_tree.
Proof.
  intros h i E. unfold sibling_tree in *. cbn in E.
  destruct h as [|[|[|[|h]]]]; cbn in E; inversion E; subst; cbn.
  - reflexivity.
  - split; [lia|reflexivity].
  - split; [lia|reflexivity].
  - split; [lia|reflexivity].
  - destruct h; discriminate.
Qed.

Theorem shortcut_unsound_across_branches :
  exists tr x r,
    wf_tree tr /\ root_of tr x = root_of tr r /\
    clone_shares (gen_of tr r) (gen_of tr x) = true /\
    ~ ancP tr x r /\ ~ same_branch tr x r.
Proof.
  exists sibling_tree, 2, 3.
  assert (N1 : ~ ancP sibling_tree 2 3).
  { intro A. pose proof (anc_b_complete _ _ _ sibling_tree_wf A 4 ltac:(lia)) as C.
    vm_compute in C. discriminate. }
  assert (N2 : ~ ancP sibling_tree 3 2).
  { intro A. pose proof (anc_b_complete _ _ _ sibling_tree_wf A 4 ltac:(lia)) as C.
    vm_compute in C. discriminate. }
  split; [exact sibling_tree_wf|].
  split; [reflexivity|]. split; [reflexivity|]. split; [exact N1|].
  intros [A|A]; tauto.
Qed.

(* `can_share_values_with` (the model of thread.rs:1326) answers "same branch". *)
Lemma can_share_same_branch : forall tr a b, can_share tr a b = true -> same_branch tr a b.
Proof.
  intros tr a b H. unfold can_share in H.
  destruct (Nat.eqb a b) eqn:E.
  - apply Nat.eqb_eq in E. subst. left. constructor.
  - destruct (negb (Nat.eqb (root_of tr a) (root_of tr b))); [discriminate|].
    destruct (share_self_is_parent (gen_of tr a) (gen_of tr b)).
    + left. apply anc_true_ancP. assumption.
    + right. apply anc_true_ancP. assumption.
Qed.

(* ---- growing the tree ---- *)

Lemma nth_error_app_l : forall {A} (l l' : list A) n x, nth_error l n = Some x -> nth_error (l ++ l') n = Some x.
Proof.
  intros. rewrite nth_error_app1; auto. apply nth_error_Some. congruence.
Qed.

Lemma parent_of_app : forall tr x h, h < length tr -> parent_of (tr ++ [x]) h = parent_of tr h.
Proof.
  intros. unfold parent_of. rewrite nth_error_app1; auto.
Qed.

Lemma gen_of_app : forall tr x h, h < length tr -> gen_of (tr ++ [x]) h = gen_of tr h.
Proof.
  intros. unfold gen_of. rewrite nth_error_app1; auto.
Qed.

Lemma wf_add_root : forall tr, wf_tree tr -> wf_tree (fst (add_root tr)).
Proof.
  intros tr W h i E. cbn in E.
  destruct (Nat.lt_ge_cases h (length tr)) as [L|G].
  - rewrite nth_error_app1 in E by assumption. specialize (W h i E).
    destruct (h_parent i) as [p|]; auto. destruct W as [Hp Hg]. split; auto.
    cbn. rewrite gen_of_app by lia. assumption.
  - rewrite nth_error_app2 in E by assumption.
    destruct (h - length tr) eqn:D; cbn in E; [|destruct n; discriminate].
    inversion E; subst. reflexivity.
Qed.

Lemma wf_add_child : forall tr p, wf_tree tr -> p < length tr -> wf_tree (fst (add_child tr p)).
Proof.
  intros tr p W Hp h i E. cbn in E.
  destruct (Nat.lt_ge_cases h (length tr)) as [L|G].
  - rewrite nth_error_app1 in E by assumption. specialize (W h i E).
    destruct (h_parent i) as [q|]; auto. destruct W as [Hq Hg]. split; auto.
    cbn. rewrite gen_of_app by lia. assumption.
  - rewrite nth_error_app2 in E by assumption.
    destruct (h - length tr) eqn:D; cbn in E; [|destruct n; discriminate].
    inversion E; subst. cbn. split; [lia|]. rewrite gen_of_app by assumption. reflexivity.
Qed.

Lemma ancP_app_wf : forall tr x a h, wf_tree tr -> ancP tr a h -> h < length tr -> ancP (tr ++ [x]) a h.
Proof.
  intros tr x a h W A. induction A; intros L; [constructor|].
  destruct (parent_lt _ _ _ W H) as [Hp _].
  eapply ancP_step.
  - rewrite parent_of_app; eauto.
  - apply IHA. lia.
Qed.

(* ---- the invariant of C05/C13: an object of heap h points only into h or ancestors of h ---- *)

Definition obj_ok (tr : tree) (st : store) (ob : obj) : Prop :=
  o_owner ob < length tr /\
  o_gen ob = gen_of tr (o_owner ob) /\
  forall p, In p (ptrs (o_fields ob)) ->
    exists pob, lookup st p = Some pob /\ ancP tr (o_owner pob) (o_owner ob).

Definition inv_old_to_young (tr : tree) (st : store) : Prop :=
  forall o ob, lookup st o = Some ob -> obj_ok tr st ob.

(* the roots of the thread owning heap h (and the globals of a global heap h) point into h or
   ancestors of h *)
Definition roots_ok (tr : tree) (st : store) (rs : list (list field)) : Prop :=
  forall h p, In p (ptrs (roots_of rs h)) ->
    exists pob, lookup st p = Some pob /\ ancP tr (o_owner pob) h.

Definition inv (s : state) : Prop :=
  wf_tree (s_tree s) /\ inv_old_to_young (s_tree s) (s_store s) /\
  roots_ok (s_tree s) (s_store s) (s_roots s).

Inductive reach (st : store) (roots : list oid) : oid -> Prop :=
| reach_root : forall o, In o roots -> reach st roots o
| reach_step : forall o ob p, reach st roots o -> lookup st o = Some ob ->
                              In p (ptrs (o_fields ob)) -> reach st roots p.

Lemma in_ptrs : forall fs p, In p (ptrs fs) <-> In (Ptr p) fs.
Proof.
  induction fs as [|f fs IH]; intros p; cbn; [tauto|].
  unfold ptrs in *. cbn. rewrite in_app_iff. rewrite IH.
  destruct f; cbn; split; intros H.
  - destruct H as [[]|H]; auto.
  - destruct H as [H|H]; [discriminate|auto].
  - destruct H as [[H|[]]|H]; [left; congruence|auto].
  - destruct H as [H|H]; [left; left; congruence|auto].
Qed.

Lemma mem_In : forall x l, mem x l = true <-> In x l.
Proof.
  intros. unfold mem. rewrite existsb_exists. split.
  - intros [y [H E]]. apply Nat.eqb_eq in E. subst. assumption.
  - intros H. exists x. split; auto. apply Nat.eqb_refl.
Qed.

Lemma mem_false : forall x l, mem x l = false <-> ~ In x l.
Proof.
  intros. rewrite <- mem_In. destruct (mem x l); split; intros; congruence.
Qed.

Lemma lookup_lt : forall st o ob, lookup st o = Some ob -> o < length st.
Proof.
  intros st o ob H. unfold lookup in H. apply nth_error_Some.
  destruct (nth_error st o); congruence.
Qed.

Lemma in_desc : forall tr t h, wf_tree tr -> h < length tr -> (In h (desc tr t) <-> ancP tr t h).
Proof.
  intros tr t h W L. unfold desc. rewrite filter_In, in_seq. rewrite (anc_iff tr t h W L).
  split; [tauto|]. intros; split; auto. lia.
Qed.
