(* Witnesses: where the side conditions of the C13 / C05 theorems fail in the faithful model.
   Each is a concrete state on which the GENERATED tables make the model do what the harness
   observes the implementation do.  Statements that depend on a table entry a repair would change
   are conditional on that entry, so that they stay provable (vacuously) once it is repaired. *)
From Coq Require Import List ZArith Bool Arith Lia.
From GVgen Require Import GenerationGen ClonerGen.
From GV Require Import Heap.Heap Heap.HeapProofs Heap.MarkSweep Heap.Clone Heap.CloneProofs.
Import ListNotations.

Ltac not_anc W :=
  let A := fresh in let C := fresh in
  intro A; pose proof (anc_b_complete _ _ _ W A 8 ltac:(lia)) as C; vm_compute in C; discriminate.

(* ---- two unrelated VMs: G1 (0) > R1 (1) ; G2 (2) > U (3) ---- *)
Definition two_vms : tree :=
  let (t0, g1) := add_root [] in
  let (t1, r1) := add_child t0 g1 in
  let (t2, g2) := add_root t1 in
  fst (add_child t2 g2).

Lemma two_vms_wf : wf_tree two_vms.
Proof.
  intros h i E. unfold two_vms in *. cbn in E.
  destruct h as [|[|[|[|h]]]]; cbn in E; inversion E; subst; cbn;
    try reflexivity; try (split; [lia|reflexivity]).
  destruct h; discriminate.
Qed.

(* a closure of thread R1 over a function compiled into G1's heap *)
Definition closure_store : store :=
  [ Some (mkObj 0 0 KBytecode 7 0 0 []);
    Some (mkObj 1 1 KClosure 8 0 0 [Ptr 0]) ].

Lemma closure_store_inv : inv_old_to_young two_vms closure_store.
Proof.
  intros o ob L. destruct o as [|[|o]]; cbn in L; inversion L; subst; cbn.
  - split; [cbv; lia|]. split; [reflexivity|]. intros p [].
  - split; [cbv; lia|]. split; [reflexivity|]. intros p [<-|[]].
    eexists. split; [reflexivity|]. cbn.
    eapply ancP_step; [reflexivity|constructor].
  - destruct o; discriminate.
Qed.

(* F2: a closure moved to an unrelated VM keeps pointing at the code object in the VM it came
   from — the copy is not owned by the receiver (and dangles once that VM is dropped). *)
Theorem clone_owned_by_receiver_refuted_closure_between_vms :
  exists tr st0 s t v c' r,
    wf_tree tr /\ inv_old_to_young tr st0 /\ held_by tr st0 s v /\
    sharing_sound tr st0 t (negb (can_share tr t s)) v /\
    transfer 10 tr st0 (RReroot s t) v = Some (c', r) /\
    exists o ob, reach (fst c') (ptrs [r]) o /\ lookup (fst c') o = Some ob /\
                 ~ ancP tr (o_owner ob) t.
Proof.
  exists two_vms, closure_store, 1, 3, (Ptr 1).
  eexists. eexists.
  split; [exact two_vms_wf|]. split; [exact closure_store_inv|]. split.
  { intros p E. inversion E; subst. eexists. split; [reflexivity|]. constructor. }
  split.
  { apply reroot_sharing_sound; [exact two_vms_wf|exact closure_store_inv|].
    intros p E. inversion E; subst. eexists. split; [reflexivity|]. constructor. }
  split; [vm_compute; reflexivity|].
  exists 0. eexists. split.
  - eapply reach_step; [apply reach_root; cbn; left; reflexivity| |].
    + cbn. reflexivity.
    + cbn. left. reflexivity.
  - split; [reflexivity|]. cbn. not_anc two_vms_wf.
Qed.

(* ---- one VM, two sibling threads: G (0) > R (1) > A (2), B (3) ---- *)

(* an array of strings built by thread A *)
Definition strarr_store : store :=
  [ Some (mkObj 2 2 KString 5 0 0 []);
    Some (mkObj 2 2 KArrString 6 0 0 [Ptr 0]) ].

Lemma strarr_store_inv : inv_old_to_young sibling_tree strarr_store.
Proof.
  intros o ob L. destruct o as [|[|o]]; cbn in L; inversion L; subst; cbn.
  - split; [cbv; lia|]. split; [reflexivity|]. intros p [].
  - split; [cbv; lia|]. split; [reflexivity|]. intros p [<-|[]].
    eexists. split; [reflexivity|]. constructor.
  - destruct o; discriminate.
Qed.

(* F1: as long as the GENERATED table says the elements of an array of strings are copied
   verbatim, an array of strings moved to a sibling keeps pointing into the sender's heap. *)
Ltac prove_string_array_witness :=
  exists sibling_tree, strarr_store, 2, 3, (Ptr 1);
  eexists; eexists;
  split; [exact sibling_tree_wf|]; split; [exact strarr_store_inv|]; split;
  [ intros p E; inversion E; subst; eexists; split; [reflexivity|]; constructor |];
  split; [vm_compute; reflexivity|];
  exists 0; eexists; split;
  [ eapply reach_step; [apply reach_root; cbn; left; reflexivity|cbn; reflexivity|cbn; left; reflexivity]
  | split; [reflexivity|]; cbn; not_anc sibling_tree_wf ].

Theorem clone_owned_by_receiver_refuted_string_array :
  gen_array_elem_mode KArrString = Some FShare ->
  exists tr st0 s t v c' r,
    wf_tree tr /\ inv_old_to_young tr st0 /\ held_by tr st0 s v /\
    transfer 10 tr st0 (RReroot s t) v = Some (c', r) /\
    exists o ob, reach (fst c') (ptrs [r]) o /\ lookup (fst c') o = Some ob /\
                 ~ ancP tr (o_owner ob) t.
Proof.
  intros T. vm_compute in T.
  match type of T with
  | Some FShare = Some FShare => prove_string_array_witness
  | _ => discriminate T
  end.
Qed.

(* F4: a Reference / Lazy is cloned afresh every time it is met (it is not entered in
   `visited`): two fields holding the SAME cell arrive as two DIFFERENT cells. *)
Definition twice_store : store :=
  [ Some (mkObj 2 2 KCell 5 2 0 [Imm 1%Z]);
    Some (mkObj 2 2 KData 6 0 0 [Ptr 0; Ptr 0]) ].

Ltac prove_cell_sharing_witness :=
  exists sibling_tree, twice_store, 2, 3, (Ptr 1);
  eexists; exists 2, 3, 4; eexists;
  split; [exact sibling_tree_wf|]; split; [reflexivity|]; split; [reflexivity|];
  split; [vm_compute; reflexivity|];
  split; [reflexivity|]; split; [reflexivity|]; lia.

Theorem clone_iso_refuted_cell_sharing :
  gen_memo KCell = false ->
  exists tr st0 s t v c' d x y ob,
    wf_tree tr /\ lookup st0 1 = Some (mkObj 2 2 KData 6 0 0 [Ptr 0; Ptr 0]) /\ v = Ptr 1 /\
    transfer 10 tr st0 (RReroot s t) v = Some (c', Ptr d) /\
    lookup (fst c') d = Some ob /\ o_fields ob = [Ptr x; Ptr y] /\ x <> y.
Proof.
  intros T. vm_compute in T.
  match type of T with
  | false = false => prove_cell_sharing_witness
  | _ => discriminate T
  end.
Qed.

(* ---- F5: a cell promoted into the global heap keeps cloning into the promoting thread's heap.
   G (0) > R (1).  A module of thread R evaluates to a Reference; promotion copies the cell into
   heap 0 but its `thread` stays R.  Storing a fresh value of R then makes the global (generation
   0) cell point into R's heap; R's next collection does not trace the globals
   ([traces_globals], GENERATED, is false for R's generation) and skips generation-0 objects, so the
   fresh value is freed while the global cell still points to it. *)
Definition module_tree : tree :=
  let (t0, g) := add_root [] in fst (add_child t0 g).

Lemma module_tree_wf : wf_tree module_tree.
Proof.
  intros h i E. unfold module_tree in *. cbn in E.
  destruct h as [|[|h]]; cbn in E; inversion E; subst; cbn;
    try reflexivity; try (split; [lia|reflexivity]).
  destruct h; discriminate.
Qed.

Definition module_state : state :=
  mkState module_tree
          [ Some (mkObj 1 1 KCell 5 1 16 [Imm 0%Z]) ]      (* the module's value: `ref 0`, made by R *)
          [ []; [Ptr 0] ] [0; 16].

Definition after_promote : option state := op_promote 10 module_state 1 (Ptr 0).
(* object 1 = the global copy of the cell; R then allocates a fresh record (object 2), stores it,
   drops its own handles and collects *)
Definition after_store : option state :=
  match after_promote with
  | Some s1 =>
    let (s2, fresh) := op_alloc (op_drop_roots s1 1) 1 KData 9 24 [Imm 7%Z] in
    op_cell_set 10 s2 1 (Ptr fresh)
  | None => None
  end.
Definition after_collect : option state :=
  match after_store with Some s3 => collect s3 1 | None => None end.

Ltac prove_promoted_cell_witness :=
  eexists; eexists; exists 1; eexists; exists 2;
  split; [vm_compute; reflexivity|];
  split; [vm_compute; reflexivity|];
  split; [cbn; left; reflexivity|];
  split; [reflexivity|]; split; [reflexivity|];
  split; [cbn; left; reflexivity|];
  split; [cbn; discriminate|]; split; [reflexivity|];
  let IS := fresh "IS" in
  intro IS; specialize (IS 1 _ eq_refl); destruct IS as [_ [_ P]];
  destruct (P 2 ltac:(cbn; left; reflexivity)) as [pb [L A]];
  cbn in L; inversion L; subst; cbn in A;
  revert A; not_anc module_tree_wf.

Theorem collect_no_dangling_refuted_promoted_cell :
  traces_globals (gen_of module_tree 1) = false ->
  exists s3 s4 cell cb p,
    after_store = Some s3 /\ collect s3 1 = Some s4 /\
    (* the cell is a global: reachable from the roots of heap 0 ... *)
    In (Ptr cell) (roots_of (s_roots s4) 0) /\
    lookup (s_store s4) cell = Some cb /\ o_owner cb = 0 /\
    (* ... it survived, it points to p, and p has been freed *)
    In (Ptr p) (o_fields cb) /\ lookup (s_store s3) p <> None /\ lookup (s_store s4) p = None /\
    (* and the state before the collection already violated the invariant *)
    ~ inv_old_to_young (s_tree s3) (s_store s3).
Proof.
  intros T. vm_compute in T.
  match type of T with
  | false = false => prove_promoted_cell_witness
  | _ => discriminate T
  end.
Qed.
