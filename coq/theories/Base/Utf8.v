(* UTF-8 over byte lists (bytes are Z in 0..255).  Definitions only.
   `is_char_boundary` is core::str::is_char_boundary; `utf8_valid` is the validation table of
   core::str::from_utf8 (Unicode Table 3-7: no overlong forms, no surrogates, <= U+10FFFF). *)
From Coq Require Import List ZArith Bool.
Import ListNotations.
Open Scope Z_scope.

Definition bytes := list Z.

Definition zlen {A} (l : list A) : Z := Z.of_nat (length l).

(* 0b10xxxxxx *)
Definition is_cont (b : Z) : bool := (128 <=? b) && (b <? 192).

(* str::is_char_boundary(index): 0 and len are boundaries, an index past the end is not, otherwise
   the byte at index must not be a continuation byte. *)
Definition is_char_boundary (s : bytes) (i : Z) : bool :=
  if i =? 0 then true
  else if i <? 0 then false
  else if zlen s <=? i then i =? zlen s
  else match nth_error s (Z.to_nat i) with
       | Some b => negb (is_cont b)
       | None => false
       end.

Definition in_range (lo hi b : Z) : bool := (lo <=? b) && (b <=? hi).

(* width of the well-formed sequence starting the list, 0 if none *)
Definition seq_width (s : bytes) : nat :=
  match s with
  | b0 :: r =>
      if b0 <? 128 then 1%nat
      else match r with
      | b1 :: r1 =>
          if in_range 194 223 b0 && is_cont b1 then 2%nat
          else match r1 with
          | b2 :: r2 =>
              if ((b0 =? 224) && in_range 160 191 b1 && is_cont b2)
                 || (in_range 225 236 b0 && is_cont b1 && is_cont b2)
                 || ((b0 =? 237) && in_range 128 159 b1 && is_cont b2)
                 || (in_range 238 239 b0 && is_cont b1 && is_cont b2) then 3%nat
              else match r2 with
              | b3 :: _ =>
                  if ((b0 =? 240) && in_range 144 191 b1 && is_cont b2 && is_cont b3)
                     || (in_range 241 243 b0 && is_cont b1 && is_cont b2 && is_cont b3)
                     || ((b0 =? 244) && in_range 128 143 b1 && is_cont b2 && is_cont b3) then 4%nat
                  else 0%nat
              | [] => 0%nat
              end
          | [] => 0%nat
          end
      | [] => 0%nat
      end
  | [] => 0%nat
  end.

Fixpoint utf8_valid_fuel (fuel : nat) (s : bytes) : bool :=
  match s with
  | [] => true
  | _ =>
      match fuel with
      | O => false
      | S f =>
          match seq_width s with
          | O => false
          | w => utf8_valid_fuel f (skipn w s)
          end
      end
  end.

Definition utf8_valid (s : bytes) : bool := utf8_valid_fuel (length s) s.

(* code point of the sequence starting the list (meaningful when seq_width > 0) *)
Definition decode_first (s : bytes) : Z :=
  match seq_width s, s with
  | 1%nat, b0 :: _ => b0
  | 2%nat, b0 :: b1 :: _ => (b0 - 192) * 64 + (b1 - 128)
  | 3%nat, b0 :: b1 :: b2 :: _ => (b0 - 224) * 4096 + (b1 - 128) * 64 + (b2 - 128)
  | 4%nat, b0 :: b1 :: b2 :: b3 :: _ => (b0 - 240) * 262144 + (b1 - 128) * 4096 + (b2 - 128) * 64 + (b3 - 128)
  | _, _ => 0
  end.

(* all code points of a valid string *)
Fixpoint decode_all_fuel (fuel : nat) (s : bytes) : list Z :=
  match s with
  | [] => []
  | _ =>
      match fuel with
      | O => []
      | S f =>
          match seq_width s with
          | O => []
          | w => decode_first s :: decode_all_fuel f (skipn w s)
          end
      end
  end.
Definition decode_all (s : bytes) : list Z := decode_all_fuel (length s) s.

Definition is_scalar (c : Z) : bool := ((0 <=? c) && (c <? 55296)) || ((57344 <=? c) && (c <=? 1114111)).

Definition encode_char (c : Z) : bytes :=
  if c <? 128 then [c]
  else if c <? 2048 then [192 + c / 64; 128 + c mod 64]
  else if c <? 65536 then [224 + c / 4096; 128 + (c / 64) mod 64; 128 + c mod 64]
  else [240 + c / 262144; 128 + (c / 4096) mod 64; 128 + (c / 64) mod 64; 128 + c mod 64].

Definition len_utf8 (c : Z) : Z := zlen (encode_char c).
