(* Bytes, UTF-8 well-formedness and character boundaries (executable definitions only).

   Bytes are [N] (values < 256 in every use; nothing depends on that bound).
   [utf8_valid] follows the table of core::str::from_utf8 (Unicode 3.9 table 3-7: no overlong
   forms, no surrogates, nothing above U+10FFFF).  [is_char_boundary] is str::is_char_boundary
   (and parser/src/str_suffix.rs:57 which copies it). *)
From Coq Require Import List NArith Bool Arith.
Import ListNotations.
Local Open Scope N_scope.

Definition byte := N.

(* parser/src/str_suffix.rs:52  `(b as i8) >= -0x40`, i.e. b < 128 || b >= 192 *)
Definition is_boundary_byte (b : byte) : bool := (b <? 128) || (192 <=? b).

Definition is_cont (b : byte) : bool := (128 <=? b) && (b <=? 191).

Definition in_range (lo hi b : byte) : bool := (lo <=? b) && (b <=? hi).

(* str::is_char_boundary: index 0 and len are boundaries, an index past the end is not. *)
Definition is_char_boundary (l : list byte) (i : nat) : bool :=
  if Nat.eqb i 0 then true
  else match nth_error l i with
       | Some b => is_boundary_byte b
       | None => Nat.eqb i (length l)
       end.

Fixpoint utf8_valid (l : list byte) : bool :=
  match l with
  | [] => true
  | b0 :: t =>
    if b0 <? 128 then utf8_valid t
    else if in_range 194 223 b0 then
      match t with
      | b1 :: t1 => is_cont b1 && utf8_valid t1
      | _ => false
      end
    else if in_range 224 239 b0 then
      match t with
      | b1 :: b2 :: t2 =>
        (if b0 =? 224 then in_range 160 191 b1
         else if b0 =? 237 then in_range 128 159 b1
         else is_cont b1) && is_cont b2 && utf8_valid t2
      | _ => false
      end
    else if in_range 240 244 b0 then
      match t with
      | b1 :: b2 :: b3 :: t3 =>
        (if b0 =? 240 then in_range 144 191 b1
         else if b0 =? 244 then in_range 128 143 b1
         else is_cont b1) && is_cont b2 && is_cont b3 && utf8_valid t3
      | _ => false
      end
    else false
  end.

(* Code point of the first character of a (valid) UTF-8 sequence. *)
Definition decode_first (l : list byte) : N :=
  match l with
  | [] => 0
  | b0 :: t =>
    if b0 <? 128 then b0
    else if b0 <? 224 then
      match t with b1 :: _ => (b0 - 192) * 64 + (b1 - 128) | _ => 0 end
    else if b0 <? 240 then
      match t with b1 :: b2 :: _ => (b0 - 224) * 4096 + (b1 - 128) * 64 + (b2 - 128) | _ => 0 end
    else
      match t with
      | b1 :: b2 :: b3 :: _ => (b0 - 240) * 262144 + (b1 - 128) * 4096 + (b2 - 128) * 64 + (b3 - 128)
      | _ => 0
      end
  end.

(* char::len_utf8 *)
Definition len_utf8 (c : N) : nat :=
  if c <? 128 then 1%nat else if c <? 2048 then 2%nat else if c <? 65536 then 3%nat else 4%nat.

Definition all_ascii (l : list byte) : bool := forallb (fun b => b <? 128) l.

Fixpoint list_eqb (a b : list byte) : bool :=
  match a, b with
  | [], [] => true
  | x :: a', y :: b' => (x =? y) && list_eqb a' b'
  | _, _ => false
  end.

Fixpoint starts_with (p l : list byte) : bool :=
  match p, l with
  | [], _ => true
  | x :: p', y :: l' => (x =? y) && starts_with p' l'
  | _ :: _, [] => false
  end.

(* Unicode White_Space (char::is_whitespace), as UTF-8 byte sequences.  [ws_len l] is the byte
   length of the white-space character at the front of [l], 0 if there is none. *)
Definition ws_len (l : list byte) : nat :=
  match l with
  | b0 :: t =>
    if in_range 9 13 b0 || (b0 =? 32) then 1%nat
    else if b0 =? 194 then
      match t with b1 :: _ => if (b1 =? 133) || (b1 =? 160) then 2%nat else 0%nat | _ => 0%nat end
    else if b0 =? 225 then
      match t with b1 :: b2 :: _ => if (b1 =? 154) && (b2 =? 128) then 3%nat else 0%nat | _ => 0%nat end
    else if b0 =? 226 then
      match t with
      | b1 :: b2 :: _ =>
        if (b1 =? 128) && (in_range 128 138 b2 || (b2 =? 168) || (b2 =? 169) || (b2 =? 175)) then 3%nat
        else if (b1 =? 129) && (b2 =? 159) then 3%nat else 0%nat
      | _ => 0%nat
      end
    else if b0 =? 227 then
      match t with b1 :: b2 :: _ => if (b1 =? 128) && (b2 =? 128) then 3%nat else 0%nat | _ => 0%nat end
    else 0%nat
  | [] => 0%nat
  end.

(* The same test on the reversed text (last byte first); sound for valid UTF-8 because the lead
   bytes 194, 225, 226, 227 always start a character. *)
Definition ws_len_rev (l : list byte) : nat :=
  match l with
  | b0 :: t =>
    if in_range 9 13 b0 || (b0 =? 32) then 1%nat
    else
      match t with
      | b1 :: t1 =>
        if (b1 =? 194) && ((b0 =? 133) || (b0 =? 160)) then 2%nat
        else
          match t1 with
          | b2 :: _ => match ws_len [b2; b1; b0] with 3%nat => 3%nat | _ => 0%nat end
          | [] => 0%nat
          end
      | [] => 0%nat
      end
  | [] => 0%nat
  end.

Fixpoint trim_with (f : list byte -> nat) (fuel : nat) (l : list byte) : list byte :=
  match fuel with
  | O => l
  | S fuel' => match f l with O => l | k => trim_with f fuel' (skipn k l) end
  end.

Definition trim_start (l : list byte) : list byte := trim_with ws_len (length l) l.
Definition trim_end (l : list byte) : list byte := rev (trim_with ws_len_rev (length l) (rev l)).
Definition trim (l : list byte) : list byte := trim_end (trim_start l).
