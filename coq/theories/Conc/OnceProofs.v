(* C14 — the memoised-query protocol: evaluated at most once, one value for everybody, progress. *)
From Coq Require Import List Arith Bool Lia.
From GV Require Import Conc.Once.
Import ListNotations.

Lemma upd_same : forall (A : Type) (f : nat -> A) i x, upd f i x i = x.
Proof. intros. unfold upd. rewrite Nat.eqb_refl. reflexivity. Qed.

Lemma upd_other : forall (A : Type) (f : nat -> A) i x j, j <> i -> upd f i x j = f j.
Proof. intros A f i x j H. unfold upd. destruct (Nat.eqb_spec j i); [contradiction|reflexivity]. Qed.

Section Proofs.
  Variable body : nat -> nat -> nat.
  Variable cost : nat -> nat.
  Variable todos : nat -> list nat.

  Notation step := (step body cost).
  Notation run := (run body cost).

  Definition evs (s : st) (m : nat) : list (nat * nat) :=
    filter (fun e => Nat.eqb (fst e) m) (evals s).

  Definition pending (q : req) : list nat :=
    match ph q with Asking => [] | Computing m _ => [m] end.

  Record Inv (s : st) : Prop := {
    invA : forall m,
      match memos s m with
      | NotStarted => evs s m = []
      | InProgress o => evs s m = [(m, o)] /\ exists k, ph (reqs s o) = Computing m k
      | Done v => exists o, evs s m = [(m, o)] /\ v = body m o
      end;
    invB : forall r m k, ph (reqs s r) = Computing m k -> memos s m = InProgress r;
    invC : forall r m v, In (m, v) (got (reqs s r)) -> memos s m = Done v;
    invD : forall r, map fst (rev (got (reqs s r))) ++ pending (reqs s r) ++ todo (reqs s r) = todos r
  }.

  Lemma Inv_init : Inv (init todos).
  Proof.
    constructor; cbn; intros.
    - reflexivity.
    - discriminate.
    - contradiction.
    - reflexivity.
  Qed.

  (* ---------- the four kinds of step ---------- *)

  Lemma Inv_tick : forall s r m k,
    Inv s -> ph (reqs s r) = Computing m (S k) ->
    Inv (mkS (memos s) (upd (reqs s) r (mkR (todo (reqs s r)) (Computing m k) (got (reqs s r)))) (evals s)).
  Proof.
    intros s r m k I E. destruct I as [A B C D].
    constructor; cbn [memos reqs evals].
    - intros m'. specialize (A m'). unfold evs in *. cbn [evals].
      destruct (memos s m') as [|o|v]; auto.
      destruct A as [A1 [k' A2]]. split; [exact A1|].
      destruct (Nat.eq_dec o r) as [->|Hne].
      + rewrite upd_same. cbn. rewrite E in A2. inversion A2; subst. eauto.
      + rewrite upd_other by exact Hne. eauto.
    - intros r' m' k' H.
      destruct (Nat.eq_dec r' r) as [->|Hne].
      + rewrite upd_same in H. cbn in H. inversion H; subst. eapply B. exact E.
      + rewrite upd_other in H by exact Hne. eapply B. exact H.
    - intros r' m' v H.
      destruct (Nat.eq_dec r' r) as [->|Hne].
      + rewrite upd_same in H. cbn in H. eapply C. exact H.
      + rewrite upd_other in H by exact Hne. eapply C. exact H.
    - intros r'.
      destruct (Nat.eq_dec r' r) as [->|Hne].
      + rewrite upd_same. specialize (D r). unfold pending in *. rewrite E in D. cbn. exact D.
      + rewrite upd_other by exact Hne. apply D.
  Qed.

  Lemma Inv_finish : forall s r m,
    Inv s -> ph (reqs s r) = Computing m 0 ->
    Inv (mkS (upd (memos s) m (Done (body m r)))
             (upd (reqs s) r (mkR (todo (reqs s r)) Asking ((m, body m r) :: got (reqs s r))))
             (evals s)).
  Proof.
    intros s r m I E. pose proof I as [A B C D].
    pose proof (B r m 0 E) as Hm.
    constructor; cbn [memos reqs evals].
    - intros m'. unfold evs. cbn [evals].
      destruct (Nat.eq_dec m' m) as [->|Hne].
      + rewrite upd_same. specialize (A m). rewrite Hm in A. destruct A as [A1 _].
        exists r. split; [exact A1|reflexivity].
      + rewrite upd_other by exact Hne. specialize (A m'). unfold evs in A.
        destruct (memos s m') as [|o|v] eqn:Em; auto.
        destruct A as [A1 [k' A2]]. split; [exact A1|].
        assert (o <> r).
        { intros ->. rewrite E in A2. inversion A2. congruence. }
        rewrite upd_other by assumption. eauto.
    - intros r' m' k' H.
      destruct (Nat.eq_dec r' r) as [->|Hne].
      + rewrite upd_same in H. cbn in H. discriminate.
      + rewrite upd_other in H by exact Hne.
        pose proof (B r' m' k' H) as Hm'.
        assert (m' <> m).
        { intros ->. rewrite Hm in Hm'. inversion Hm'. congruence. }
        rewrite upd_other by assumption. exact Hm'.
    - intros r' m' v H.
      assert (Hold : forall r0, In (m', v) (got (reqs s r0)) -> upd (memos s) m (Done (body m r)) m' = Done v).
      { intros r0 H0. pose proof (C r0 m' v H0) as Hd.
        assert (m' <> m) by (intros ->; rewrite Hm in Hd; discriminate).
        rewrite upd_other by assumption. exact Hd. }
      destruct (Nat.eq_dec r' r) as [->|Hne].
      + rewrite upd_same in H. cbn in H. destruct H as [H|H].
        * inversion H; subst. apply upd_same.
        * eapply Hold. exact H.
      + rewrite upd_other in H by exact Hne. eapply Hold. exact H.
    - intros r'.
      destruct (Nat.eq_dec r' r) as [->|Hne].
      + rewrite upd_same. specialize (D r). unfold pending in *. rewrite E in D. cbn.
        rewrite map_app. cbn. rewrite <- app_assoc. cbn. exact D.
      + rewrite upd_other by exact Hne. apply D.
  Qed.

  Lemma Inv_claim : forall s r m rest,
    Inv s -> ph (reqs s r) = Asking -> todo (reqs s r) = m :: rest -> memos s m = NotStarted ->
    Inv (mkS (upd (memos s) m (InProgress r))
             (upd (reqs s) r (mkR rest (Computing m (cost m)) (got (reqs s r))))
             ((m, r) :: evals s)).
  Proof.
    intros s r m rest I E Et Hm. pose proof I as [A B C D].
    constructor; cbn [memos reqs evals].
    - intros m'. unfold evs. cbn [evals filter fst].
      destruct (Nat.eq_dec m' m) as [->|Hne].
      + rewrite upd_same. rewrite Nat.eqb_refl.
        specialize (A m). rewrite Hm in A. unfold evs in A. rewrite A.
        split; [reflexivity|]. rewrite upd_same. cbn. eauto.
      + rewrite upd_other by exact Hne.
        destruct (Nat.eqb_spec m m') as [->|_]; [congruence|].
        specialize (A m'). unfold evs in A.
        destruct (memos s m') as [|o|v] eqn:Em; auto.
        destruct A as [A1 [k' A2]]. split; [exact A1|].
        assert (o <> r) by (intros ->; rewrite E in A2; discriminate).
        rewrite upd_other by assumption. eauto.
    - intros r' m' k' H.
      destruct (Nat.eq_dec r' r) as [->|Hne].
      + rewrite upd_same in H. cbn in H. inversion H; subst. apply upd_same.
      + rewrite upd_other in H by exact Hne.
        pose proof (B r' m' k' H) as Hm'.
        assert (m' <> m) by (intros ->; rewrite Hm in Hm'; discriminate).
        rewrite upd_other by assumption. exact Hm'.
    - intros r' m' v H.
      assert (Hin : In (m', v) (got (reqs s r'))).
      { destruct (Nat.eq_dec r' r) as [->|Hne].
        - rewrite upd_same in H. exact H.
        - rewrite upd_other in H by exact Hne. exact H. }
      pose proof (C r' m' v Hin) as Hd.
      assert (m' <> m) by (intros ->; rewrite Hm in Hd; discriminate).
      rewrite upd_other by assumption. exact Hd.
    - intros r'.
      destruct (Nat.eq_dec r' r) as [->|Hne].
      + rewrite upd_same. specialize (D r). unfold pending in *. rewrite E, Et in D. cbn. exact D.
      + rewrite upd_other by exact Hne. apply D.
  Qed.

  Lemma Inv_read : forall s r m rest v,
    Inv s -> ph (reqs s r) = Asking -> todo (reqs s r) = m :: rest -> memos s m = Done v ->
    Inv (mkS (memos s) (upd (reqs s) r (mkR rest Asking ((m, v) :: got (reqs s r)))) (evals s)).
  Proof.
    intros s r m rest v I E Et Hm. pose proof I as [A B C D].
    constructor; cbn [memos reqs evals].
    - intros m'. specialize (A m'). unfold evs in *. cbn [evals].
      destruct (memos s m') as [|o|v'] eqn:Em; auto.
      destruct A as [A1 [k' A2]]. split; [exact A1|].
      assert (o <> r) by (intros ->; rewrite E in A2; discriminate).
      rewrite upd_other by assumption. eauto.
    - intros r' m' k' H.
      destruct (Nat.eq_dec r' r) as [->|Hne].
      + rewrite upd_same in H. cbn in H. discriminate.
      + rewrite upd_other in H by exact Hne. eapply B. exact H.
    - intros r' m' v' H.
      destruct (Nat.eq_dec r' r) as [->|Hne].
      + rewrite upd_same in H. cbn in H. destruct H as [H|H].
        * inversion H; subst. exact Hm.
        * eapply C. exact H.
      + rewrite upd_other in H by exact Hne. eapply C. exact H.
    - intros r'.
      destruct (Nat.eq_dec r' r) as [->|Hne].
      + rewrite upd_same. specialize (D r). unfold pending in *. rewrite E, Et in D. cbn.
        rewrite map_app. cbn. rewrite <- app_assoc. cbn. exact D.
      + rewrite upd_other by exact Hne. apply D.
  Qed.

  Lemma Inv_step : forall s r, Inv s -> Inv (step s r).
  Proof.
    intros s r I. unfold Once.step.
    destruct (ph (reqs s r)) as [|m k] eqn:E.
    - destruct (todo (reqs s r)) as [|m rest] eqn:Et; [exact I|].
      destruct (memos s m) as [|o|v] eqn:Em.
      + apply Inv_claim; assumption.
      + exact I.
      + apply Inv_read; assumption.
    - destruct k as [|k].
      + apply Inv_finish; assumption.
      + apply Inv_tick; assumption.
  Qed.

  Lemma Inv_run : forall sched s, Inv s -> Inv (run s sched).
  Proof.
    induction sched as [|r l IH]; intros s I; cbn; [exact I|].
    apply IH. apply Inv_step. exact I.
  Qed.

  Lemma Inv_reachable : forall sched, Inv (run (init todos) sched).
  Proof. intros. apply Inv_run. apply Inv_init. Qed.

  (* ---------- consequences ---------- *)

  Lemma Inv_eval_once : forall s m, Inv s -> eval_count s m <= 1.
  Proof.
    intros s m I. unfold eval_count. pose proof (invA s I m) as A. unfold evs in A.
    destruct (memos s m) as [|o|v].
    - rewrite A. cbn. lia.
    - destruct A as [A _]. rewrite A. cbn. lia.
    - destruct A as [o [A _]]. rewrite A. cbn. lia.
  Qed.

  Lemma Inv_got_value : forall s r m v,
    Inv s -> In (m, v) (got (reqs s r)) ->
    exists o, evs s m = [(m, o)] /\ v = body m o.
  Proof.
    intros s r m v I H. pose proof (invC s I r m v H) as Hd.
    pose proof (invA s I m) as A. rewrite Hd in A. exact A.
  Qed.

  Lemma Inv_agree : forall s r1 r2 m v1 v2,
    Inv s -> In (m, v1) (got (reqs s r1)) -> In (m, v2) (got (reqs s r2)) -> v1 = v2.
  Proof.
    intros s r1 r2 m v1 v2 I H1 H2.
    pose proof (invC s I r1 m v1 H1) as E1.
    pose proof (invC s I r2 m v2 H2) as E2.
    rewrite E1 in E2. inversion E2. reflexivity.
  Qed.

  Theorem once_under_any_schedule_sec : forall sched,
    let s := run (init todos) sched in
    (forall m, eval_count s m <= 1) /\
    (forall r1 r2 m v1 v2,
        In (m, v1) (got (reqs s r1)) -> In (m, v2) (got (reqs s r2)) -> v1 = v2) /\
    (forall r m v, In (m, v) (got (reqs s r)) ->
        exists o, filter (fun e => Nat.eqb (fst e) m) (evals s) = [(m, o)] /\ v = body m o).
  Proof.
    intros sched s. pose proof (Inv_reachable sched) as I. fold s in I.
    split; [|split].
    - intros m. apply Inv_eval_once. exact I.
    - intros. eapply Inv_agree; eauto.
    - intros. eapply Inv_got_value; eauto.
  Qed.

  (* ---------- equal to running alone (pure bodies) ---------- *)

  Lemma pairs_determined : forall (f : nat -> nat) (l : list (nat * nat)),
    (forall m v, In (m, v) l -> v = f m) -> l = map (fun m => (m, f m)) (map fst l).
  Proof.
    intros f l. induction l as [|[m v] l IH]; intros H; [reflexivity|].
    cbn. rewrite (H m v) by (left; reflexivity). f_equal.
    apply IH. intros m' v' Hin. apply H. right. exact Hin.
  Qed.

  Theorem result_schedule_independent_sec : forall sched r,
    (forall m r1 r2, body m r1 = body m r2) ->
    let s := run (init todos) sched in
    complete (reqs s r) = true ->
    got (reqs s r) = rev (map (fun m => (m, body m 0)) (todos r)).
  Proof.
    intros sched r Hpure s Hc. pose proof (Inv_reachable sched) as I. fold s in I.
    pose proof (invD s I r) as D. unfold pending in D. unfold complete in Hc.
    destruct (ph (reqs s r)); [|discriminate].
    destruct (todo (reqs s r)); [|discriminate].
    cbn in D. rewrite app_nil_r in D.
    rewrite <- D. rewrite <- (rev_involutive (got (reqs s r))) at 1. f_equal.
    apply pairs_determined. intros m v Hin.
    apply in_rev in Hin.
    destruct (Inv_got_value s r m v I Hin) as [o [_ Hv]].
    rewrite Hv. apply Hpure.
  Qed.

  (* ---------- progress under fair scheduling ---------- *)

  Notation work := (work cost).
  Notation total_work := (total_work cost).

  Lemma step_others : forall s r r', r' <> r -> reqs (step s r) r' = reqs s r'.
  Proof.
    intros s r r' Hne. unfold Once.step.
    destruct (ph (reqs s r)) as [|m k].
    - destruct (todo (reqs s r)) as [|m rest]; [reflexivity|].
      destruct (memos s m); cbn; try reflexivity; apply upd_other; exact Hne.
    - destruct k; cbn; apply upd_other; exact Hne.
  Qed.

  Definition waiting (s : st) (r : nat) : Prop :=
    exists m rest o, ph (reqs s r) = Asking /\ todo (reqs s r) = m :: rest /\ memos s m = InProgress o.

  Lemma work_mk : forall t p g,
    work (mkR t p g) =
    list_sum (map (fun m => cost m + 2) t) + match p with Asking => 0 | Computing _ k => k + 1 end.
  Proof. reflexivity. Qed.

  Lemma work_asking_cons : forall q m rest,
    ph q = Asking -> todo q = m :: rest ->
    work q = cost m + 2 + list_sum (map (fun m => cost m + 2) rest).
  Proof. intros q m rest E Et. unfold Once.work. rewrite E, Et. cbn [map]. unfold list_sum. cbn [fold_right]. lia. Qed.

  Lemma work_computing : forall q m k,
    ph q = Computing m k -> work q = list_sum (map (fun m => cost m + 2) (todo q)) + (k + 1).
  Proof. intros q m k E. unfold Once.work. rewrite E. reflexivity. Qed.

  Lemma step_cases : forall s r,
    (complete (reqs s r) = true /\ step s r = s) \/
    (waiting s r /\ step s r = s) \/
    work (reqs (step s r) r) < work (reqs s r).
  Proof.
    intros s r. unfold Once.step, complete, waiting.
    destruct (ph (reqs s r)) as [|m k] eqn:E.
    - destruct (todo (reqs s r)) as [|m rest] eqn:Et.
      + left. auto.
      + destruct (memos s m) as [|o|v] eqn:Em.
        * right. right. cbn [reqs]. rewrite upd_same. rewrite work_mk.
          rewrite (work_asking_cons _ m rest E Et). lia.
        * right. left. split; [|reflexivity]. exists m, rest, o. auto.
        * right. right. cbn [reqs]. rewrite upd_same. rewrite work_mk.
          rewrite (work_asking_cons _ m rest E Et). lia.
    - right. right. rewrite (work_computing _ m k E).
      destruct k as [|k]; cbn [reqs]; rewrite upd_same; rewrite work_mk; lia.
  Qed.

  Lemma total_work_le : forall s s' r n,
    (forall r', r' <> r -> reqs s' r' = reqs s r') ->
    work (reqs s' r) <= work (reqs s r) ->
    total_work s' n <= total_work s n.
  Proof.
    intros s s' r n Ho Hr. induction n as [|n IH]; cbn; [lia|].
    destruct (Nat.eq_dec n r) as [->|Hne].
    - lia.
    - rewrite (Ho n Hne). lia.
  Qed.

  Lemma total_work_lt : forall s s' r n,
    (forall r', r' <> r -> reqs s' r' = reqs s r') ->
    work (reqs s' r) < work (reqs s r) -> r < n ->
    total_work s' n < total_work s n.
  Proof.
    intros s s' r n Ho Hr. induction n as [|n IH]; intros Hlt; [lia|]. cbn.
    destruct (Nat.eq_dec n r) as [->|Hne].
    - assert (total_work s' r <= total_work s r) by (eapply total_work_le; [exact Ho|lia]). lia.
    - rewrite (Ho n Hne). assert (r < n) by lia. specialize (IH H). lia.
  Qed.

  Lemma step_total_le : forall s r n, total_work (step s r) n <= total_work s n.
  Proof.
    intros s r n. apply (total_work_le s (step s r) r n).
    - intros r' Hne. apply step_others. exact Hne.
    - destruct (step_cases s r) as [[_ H]|[[_ H]|H]]; try (rewrite H; lia). lia.
  Qed.

  Lemma run_total_le : forall l s n, total_work (run s l) n <= total_work s n.
  Proof.
    induction l as [|r l IH]; intros s n; cbn; [lia|].
    pose proof (IH (step s r) n). pose proof (step_total_le s r n). lia.
  Qed.

  (* a whole pass in which the total does not go down consists of stutter steps only *)
  Lemma no_gain_all_stutter : forall l s n,
    (forall r, In r l -> r < n) ->
    total_work (run s l) n = total_work s n ->
    forall r, In r l -> step s r = s.
  Proof.
    induction l as [|r0 l IH]; intros s n Hlt Heq r Hin; [contradiction|].
    cbn in Heq.
    assert (H0 : step s r0 = s).
    { destruct (step_cases s r0) as [[_ H]|[[_ H]|H]]; try exact H.
      exfalso.
      assert (total_work (step s r0) n < total_work s n).
      { apply (total_work_lt s (step s r0) r0 n).
        - intros r' Hne. apply step_others. exact Hne.
        - exact H.
        - apply Hlt. left. reflexivity. }
      pose proof (run_total_le l (step s r0) n). lia. }
    destruct Hin as [->|Hin]; [exact H0|].
    rewrite H0 in Heq.
    apply (IH s n); auto. intros r' Hr'. apply Hlt. right. exact Hr'.
  Qed.

  (* requesters >= n never have anything to do *)
  Definition idle_above (s : st) (n : nat) : Prop :=
    forall r, n <= r -> complete (reqs s r) = true.

  Lemma idle_step : forall s n r, idle_above s n -> idle_above (step s r) n.
  Proof.
    intros s n r H r' Hr'.
    destruct (Nat.eq_dec r' r) as [->|Hne].
    - destruct (step_cases s r) as [[_ E]|[[_ E]|E]]; try (rewrite E; apply H; exact Hr').
      exfalso. specialize (H r Hr'). unfold complete in H.
      unfold Once.work in E.
      destruct (ph (reqs s r)); [|discriminate].
      destruct (todo (reqs s r)); [|discriminate]. cbn in E. lia.
    - rewrite step_others by exact Hne. apply H. exact Hr'.
  Qed.

  Lemma idle_run : forall l s n, idle_above s n -> idle_above (run s l) n.
  Proof.
    induction l as [|r l IH]; intros s n H; cbn; [exact H|].
    apply IH. apply idle_step. exact H.
  Qed.

  Lemma work_zero_complete : forall q, work q = 0 -> complete q = true.
  Proof.
    intros q H. unfold Once.work in H. unfold complete.
    destruct (ph q); [|lia].
    destruct (todo q) as [|m rest]; [reflexivity|]. cbn in H. lia.
  Qed.

  Lemma total_zero_all_complete : forall s n, total_work s n = 0 -> all_complete s n = true.
  Proof.
    intros s n H. unfold all_complete. apply forallb_forall. intros r Hr.
    apply in_seq in Hr. apply work_zero_complete.
    induction n as [|n IH]; [lia|]. cbn in H.
    destruct (Nat.eq_dec r n) as [->|Hne]; [lia|]. apply IH; lia.
  Qed.

  Lemma total_pos_incomplete : forall s n,
    0 < total_work s n -> exists r, r < n /\ complete (reqs s r) = false.
  Proof.
    intros s n. induction n as [|n IH]; cbn; intros H; [lia|].
    destruct (work (reqs s n)) eqn:W.
    - destruct IH as [r [Hr Hc]]; [lia|]. exists r. split; [lia|exact Hc].
    - exists n. split; [lia|].
      unfold complete. unfold Once.work in W.
      destruct (ph (reqs s n)); [|reflexivity].
      destruct (todo (reqs s n)); [cbn in W; lia|reflexivity].
  Qed.

  (* one fair round makes progress: the owner of whatever anybody waits for is scheduled too *)
  Lemma round_progress : forall s n,
    Inv s -> idle_above s n -> 0 < total_work s n ->
    total_work (run s (seq 0 n)) n < total_work s n.
  Proof.
    intros s n I Hidle Hpos.
    pose proof (run_total_le (seq 0 n) s n) as Hle.
    destruct (Nat.eq_dec (total_work (run s (seq 0 n)) n) (total_work s n)) as [Heq|Hne]; [|lia].
    exfalso.
    assert (Hst : forall r, r < n -> step s r = s).
    { intros r Hr. apply (no_gain_all_stutter (seq 0 n) s n); auto.
      - intros r' Hr'. apply in_seq in Hr'. lia.
      - apply in_seq. lia. }
    destruct (total_pos_incomplete s n Hpos) as [r [Hr Hc]].
    destruct (step_cases s r) as [[Hc' _]|[[Hw _]|Hd]].
    - congruence.
    - destruct Hw as [m [rest [o [Hp [Ht Hm]]]]].
      pose proof (invA s I m) as A. rewrite Hm in A. destruct A as [_ [k Hk]].
      assert (Ho : o < n).
      { destruct (Nat.lt_ge_cases o n) as [Hlt|Hge]; [exact Hlt|].
        specialize (Hidle o Hge). unfold complete in Hidle. rewrite Hk in Hidle. discriminate. }
      destruct (step_cases s o) as [[Hco _]|[[Hwo _]|Hdo]].
      + unfold complete in Hco. rewrite Hk in Hco. discriminate.
      + destruct Hwo as [m' [rest' [o' [Hp' _]]]]. rewrite Hk in Hp'. discriminate.
      + rewrite (Hst o Ho) in Hdo. lia.
    - rewrite (Hst r Hr) in Hd. lia.
  Qed.

  Lemma run_app : forall l1 l2 s, run s (l1 ++ l2) = run (run s l1) l2.
  Proof. induction l1 as [|r l1 IH]; intros l2 s; cbn; [reflexivity|apply IH]. Qed.

  Lemma progress_fuel : forall k s n,
    Inv s -> idle_above s n -> total_work s n <= k ->
    all_complete (run s (rounds n k)) n = true.
  Proof.
    induction k as [|k IH]; intros s n I Hidle Hk.
    - cbn. apply total_zero_all_complete. lia.
    - cbn [rounds]. rewrite run_app.
      set (s' := run s (seq 0 n)).
      assert (I' : Inv s') by (apply Inv_run; exact I).
      assert (Hidle' : idle_above s' n) by (apply idle_run; exact Hidle).
      apply IH; auto.
      destruct (Nat.eq_dec (total_work s n) 0) as [Hz|Hnz].
      + pose proof (run_total_le (seq 0 n) s n). fold s' in H. lia.
      + pose proof (round_progress s n I Hidle ltac:(lia)). fold s' in H. lia.
  Qed.

  Lemma idle_init : forall n, (forall r, n <= r -> todos r = []) -> idle_above (init todos) n.
  Proof. intros n H r Hr. unfold complete. cbn. rewrite (H r Hr). reflexivity. Qed.

  Theorem once_progress_sec : forall n sched,
    (forall r, n <= r -> todos r = []) ->
    let s := run (init todos) sched in
    all_complete (run s (rounds n (total_work s n))) n = true.
  Proof.
    intros n sched H s. apply progress_fuel.
    - apply Inv_reachable.
    - apply idle_run. apply idle_init. exact H.
    - lia.
  Qed.
End Proofs.

(* ---------- the statements with everything quantified ---------- *)

Theorem once_under_any_schedule :
  forall (body : nat -> nat -> nat) (cost : nat -> nat) (todos : nat -> list nat) (sched : list nat),
    let s := run body cost (init todos) sched in
    (forall m, eval_count s m <= 1) /\
    (forall r1 r2 m v1 v2,
        In (m, v1) (got (reqs s r1)) -> In (m, v2) (got (reqs s r2)) -> v1 = v2) /\
    (forall r m v, In (m, v) (got (reqs s r)) ->
        exists o, filter (fun e => Nat.eqb (fst e) m) (evals s) = [(m, o)] /\ v = body m o).
Proof. intros. apply once_under_any_schedule_sec. Qed.

Theorem result_schedule_independent :
  forall (body : nat -> nat -> nat) (cost : nat -> nat) (todos : nat -> list nat) (sched : list nat) (r : nat),
    (forall m r1 r2, body m r1 = body m r2) ->
    let s := run body cost (init todos) sched in
    complete (reqs s r) = true ->
    got (reqs s r) = rev (map (fun m => (m, body m 0)) (todos r)).
Proof. intros body cost todos sched r H. apply result_schedule_independent_sec. exact H. Qed.

Theorem once_progress :
  forall (body : nat -> nat -> nat) (cost : nat -> nat) (todos : nat -> list nat) (n : nat) (sched : list nat),
    (forall r, n <= r -> todos r = []) ->
    let s := run body cost (init todos) sched in
    all_complete (run body cost s (rounds n (total_work cost s n))) n = true.
Proof. intros body cost todos n sched H. apply once_progress_sec. exact H. Qed.

(* ---------- non-vacuity: three requesters, overlapping imports, a concrete schedule ---------- *)

Definition ex_body (m r : nat) : nat := 100 * m + r.   (* evaluator dependent on purpose *)
Definition ex_cost (m : nat) : nat := m.
Definition ex_todos (r : nat) : list nat :=
  match r with
  | 0 => [1; 2]
  | 1 => [2; 1]
  | 2 => [1; 2; 3]
  | _ => []
  end.
Definition ex_sched : list nat := [0; 1; 2; 2; 0; 1; 1; 0; 0; 2; 1; 1; 0; 2; 2; 2; 2; 1; 2; 2; 2; 2; 0; 1].

Example ex_final :
  let s := run ex_body ex_cost (init ex_todos) ex_sched in
  map (fun r => got (reqs s r)) [0; 1; 2] =
    [ [(2, 201); (1, 100)]; [(1, 100); (2, 201)]; [(3, 302); (2, 201); (1, 100)] ] /\
  map (eval_count s) [1; 2; 3] = [1; 1; 1] /\
  all_complete s 3 = true.
Proof. vm_compute. repeat split; reflexivity. Qed.

(* mid-way: requester 2 is waiting for module 1, which requester 0 is computing *)
Example ex_midway :
  let s := run ex_body ex_cost (init ex_todos) [0; 1; 2; 2] in
  memos s 1 = InProgress 0 /\ memos s 2 = InProgress 1 /\ ph (reqs s 2) = Asking /\ todo (reqs s 2) = [1; 2; 3].
Proof. vm_compute. repeat split; reflexivity. Qed.
