(* C17 — executable model of channels, references, lazy values and green threads as they are
   observable from a Gluon program (vm/src/channel.rs, vm/src/reference.rs, vm/src/lazy.rs,
   vm/src/thread.rs `resume`).  Definitions only (this file is extracted); proofs are in
   CellsProofs.v.

   What is modelled, with the code it is read off:

   * channel  (channel.rs:39-100)  a `VecDeque` shared by Sender and Receiver: `send` is
     `push_back` (:69), `recv` is `pop_front().ok_or(())` (:98, :165) — an empty queue reports
     `Err ()`, it never blocks.
   * reference (reference.rs:57-80) a `Mutex<Value>`: `ref` stores the initial value, `load`
     reads it, `<-` overwrites it.  `std.st.reference.prim` (reference.rs:97-150) is the same cell
     with pure-typed primitives; thunk bodies use it to bump a counter, which makes "the body
     ran" observable.
   * lazy (lazy.rs:65 `Lazy_ {Blackhole(owner, waiters), Thunk, Value}`, `force` :98-190):
       Thunk      -> the cell becomes `Blackhole(current thread)` (:113), the body runs on the
                     forcing thread; success stores `Value` (:136); failure returns
                     `RuntimeResult::Panic` (:141) and LEAVES THE CELL `Blackhole(owner)`;
       Blackhole(o), o = forcing thread -> `Panic "<<loop>>"` (:146-152);
       Blackhole(o), o <> forcing thread -> the forcing thread waits on a oneshot that only a
                     successful evaluation fires (:153-178): after a failed evaluation that
                     wait never ends.  The model reports this outcome as [FHang];
       Value v    -> v (:179-182).
     [mode] selects what a failed evaluation leaves behind: [Faithful] is lazy.rs as it is
     (the cell stays `Blackhole owner`), [Fixed] is lazy.rs with the failure stored in the cell
     ([LFailed], woken waiters and later forces report the error) — the behaviour property C17
     demands and /verif/fixes/C17-lazy-store-failure.patch implements.
   * green threads (channel.rs:180 `resume`, :195 `yield_`, :209 `spawn`; thread.rs:1284
     `resume`): `spawn` creates a suspended coroutine; `resume` runs it until it yields
     (`Poll::Pending` -> `Ok ()`), finishes (`Ok ()`), or — when only the top frame is left —
     reports `Err "Attempted to resume a dead thread"` (thread.rs:1301-1304).  A coroutine that
     waits for a lazy value that will never arrive stays pending for ever: every `resume`
     returns `Ok ()` and it makes no progress ([TBlocked]).  `yield ()` on the main thread wakes
     itself and continues (channel.rs:195-207): a no-op.

   * coroutines operating on coroutines: a thread handle captured by another coroutine can be
     resumed from there (`resume` only looks at the target: channel.rs:180-193 — no relation
     between the resuming and the resumed thread is required), and a coroutine can `spawn`
     coroutines of its own (`spawn` creates a child of the calling thread, channel.rs:212).  A
     coroutine resumed from a coroutine that yields (or blocks) returns control to its resumer,
     which continues.  Threads carry a static label (the position of their `spawn` in the
     program text, assigned by the harness): a thread that is running is marked [TRunning];
     resuming a running thread cannot be written in a lexically scoped straight-line Gluon
     program (a body only sees handles bound before its own `spawn`, or its own children) and
     is reported as [EBad].

   Thread ids: the main thread is 0, the coroutine with label k is [S k].
   Values are small naturals (the harness uses the position of the operation as value). *)
From Coq Require Import List Arith Bool.
Import ListNotations.

Inductive mode := Faithful | Fixed.

(* ---- lazy thunk bodies: small scripts ---- *)
Inductive lres :=
| RVal (v : nat)          (* \_ -> v *)
| RFail                   (* \_ -> error "boom" *)
| RForce (j : nat).       (* \_ -> force l_j + 1 ; j = own index is the self-dependent thunk *)

(* [lb_bump = Some r]: the body first increments reference r (a side effect that shows how
   often the body ran), then computes [lb_res]. *)
Record lbody := mkBody { lb_bump : option nat; lb_res : lres }.

Inductive lstate :=
| LThunk (b : lbody)
| LBlackhole (owner : nat)
| LValue (v : nat)
| LFailed.                (* only reachable in mode Fixed *)

(* ---- operations ---- *)
(* basic operations: may be executed by the main thread or inside a coroutine body *)
Inductive bop :=
| BSend (c v : nat)
| BRecv (c : nat)
| BLoad (r : nat)
| BStore (r v : nat)
| BForce (l : nat)
| BYield
| BResume (t : nat)                       (* resume the coroutine with label t *)
| BSpawn (lab : nat) (body : list bop).   (* spawn (do body) : the new coroutine gets label lab *)

Inductive op :=
| OB (b : bop)                 (* a basic operation on the main thread *)
| ORef (v : nat)               (* ref v          : allocates the next reference *)
| OLazy (b : lbody).           (* lazy (\_ -> b) : allocates the next lazy value *)

Inductive tstate :=
| TFresh (body : list bop)     (* spawned, never resumed *)
| TSusp (rest : list bop)      (* yielded, [rest] still to run *)
| TBlocked                     (* waits for ever inside `force` (pending future never woken) *)
| TRunning                     (* being run by a resume further up the call chain *)
| TDone.                       (* body finished: "dead" *)

(* ---- observations ---- *)
Inductive fres := FOk (v : nat) | FErr | FHang | FFuel.
Inductive rres := ROk | RDead.

(* [vis = true]: the event is reported by the Gluon program of the harness (one log entry);
   [vis = false]: it happens inside a thunk body and is only visible through its effects. *)
Inductive event :=
| ESend (tid c v : nat)
| ERecv (tid c : nat) (r : option nat)
| ERef (r v : nat)
| ELoad (vis : bool) (tid r v : nat)
| EStore (vis : bool) (tid r v : nat)
| ELazy (l : nat) (b : lbody)
| ERun (tid l : nat)                            (* the body of lazy l starts running on tid *)
| EForce (vis : bool) (tid l : nat) (res : fres)
| EYield (tid : nat)
| ESpawn (tid t : nat)                          (* thread tid spawned the coroutine labelled t *)
| EResume (tid t : nat) (res : rres)            (* thread tid resumed t *)
| EFuel                                          (* the model's recursion bound was hit *)
| EBad.                                          (* ill-scoped operation: not a Gluon program *)

Record state := mkState {
  chans : list (list nat);
  refs : list nat;
  lazies : list lstate;
  threads : list (nat * tstate);                 (* label -> state, in spawn order *)
  hung : bool                                    (* the main thread waits for ever *)
}.

Definition init : state := mkState [[]; []] [] [] [] false.

Fixpoint upd {A : Type} (n : nat) (x : A) (l : list A) : list A :=
  match l, n with
  | [], _ => []
  | _ :: t, 0 => x :: t
  | h :: t, S n' => h :: upd n' x t
  end.

(* ---- force (lazy.rs:98) on the pair (references, lazies) ---- *)
Definition do_bump (tid : nat) (b : option nat) (rs : list nat) : list nat * list event :=
  match b with
  | None => (rs, [])
  | Some r =>
      match nth_error rs r with
      | None => (rs, [EBad])
      | Some v => (upd r (S v) rs, [ELoad false tid r v; EStore false tid r (S v)])
      end
  end.

(* what a finished evaluation leaves in the cell (lazy.rs:121-141) *)
Definition settle (m : mode) (l : nat) (r : fres) (ls : list lstate) : list lstate :=
  match r with
  | FOk v => upd l (LValue v) ls
  | FErr => match m with Fixed => upd l LFailed ls | Faithful => ls end
  | _ => ls
  end.

Definition lift_res (r : fres) : fres := match r with FOk v => FOk (S v) | x => x end.

Fixpoint force (m : mode) (fuel tid : nat) (vis : bool) (l : nat) (rs : list nat) (ls : list lstate)
  : list nat * list lstate * list event * fres :=
  match fuel with
  | 0 => (rs, ls, [EForce vis tid l FFuel], FFuel)
  | S fuel' =>
      match nth_error ls l with
      | None => (rs, ls, [EBad], FErr)
      | Some (LValue v) => (rs, ls, [EForce vis tid l (FOk v)], FOk v)
      | Some LFailed => (rs, ls, [EForce vis tid l FErr], FErr)
      | Some (LBlackhole o) =>
          if Nat.eqb o tid then (rs, ls, [EForce vis tid l FErr], FErr)
          else (rs, ls, [EForce vis tid l FHang], FHang)
      | Some (LThunk b) =>
          let ls1 := upd l (LBlackhole tid) ls in
          let '(rs2, evb) := do_bump tid (lb_bump b) rs in
          let '(rs3, ls3, evr, r) :=
            match lb_res b with
            | RVal v => (rs2, ls1, [], FOk v)
            | RFail => (rs2, ls1, [], FErr)
            | RForce j =>
                let '(rs', ls', ev', r') := force m fuel' tid false j rs2 ls1 in
                (rs', ls', ev', lift_res r')
            end in
          (rs3, settle m l r ls3, ERun tid l :: evb ++ evr ++ [EForce vis tid l r], r)
      end
  end.

(* ---- basic operations executed by thread [tid] ---- *)
Inductive status := SCont | SYield | SHang.

Definition set_chans (st : state) (x : list (list nat)) : state :=
  mkState x (refs st) (lazies st) (threads st) (hung st).
Definition set_refs (st : state) (x : list nat) : state :=
  mkState (chans st) x (lazies st) (threads st) (hung st).
Definition set_rl (st : state) (x : list nat) (y : list lstate) : state :=
  mkState (chans st) x y (threads st) (hung st).
Definition set_lazies (st : state) (y : list lstate) : state :=
  mkState (chans st) (refs st) y (threads st) (hung st).
Definition set_threads (st : state) (x : list (nat * tstate)) : state :=
  mkState (chans st) (refs st) (lazies st) x (hung st).
Definition set_hung (st : state) : state :=
  mkState (chans st) (refs st) (lazies st) (threads st) true.

Definition bstep (m : mode) (tid : nat) (b : bop) (st : state) : state * list event * status :=
  match b with
  | BSend c v =>
      match nth_error (chans st) c with
      | None => (st, [EBad], SCont)
      | Some q => (set_chans st (upd c (q ++ [v]) (chans st)), [ESend tid c v], SCont)
      end
  | BRecv c =>
      match nth_error (chans st) c with
      | None => (st, [EBad], SCont)
      | Some [] => (st, [ERecv tid c None], SCont)
      | Some (v :: q) => (set_chans st (upd c q (chans st)), [ERecv tid c (Some v)], SCont)
      end
  | BLoad r =>
      match nth_error (refs st) r with
      | None => (st, [EBad], SCont)
      | Some v => (st, [ELoad true tid r v], SCont)
      end
  | BStore r v =>
      match nth_error (refs st) r with
      | None => (st, [EBad], SCont)
      | Some _ => (set_refs st (upd r v (refs st)), [EStore true tid r v], SCont)
      end
  | BForce l =>
      let '(rs, ls, ev, r) := force m (S (length (lazies st))) tid true l (refs st) (lazies st) in
      (set_rl st rs ls, ev, match r with FHang => SHang | _ => SCont end)
  | BYield => (st, [EYield tid], SYield)
  | BResume _ | BSpawn _ _ => (st, [EBad], SCont)      (* handled by [exec] *)
  end.

(* ---- thread table ---- *)
Fixpoint lookup (t : nat) (ths : list (nat * tstate)) : option tstate :=
  match ths with
  | [] => None
  | (k, x) :: r => if Nat.eqb k t then Some x else lookup t r
  end.

Fixpoint setth (t : nat) (x : tstate) (ths : list (nat * tstate)) : list (nat * tstate) :=
  match ths with
  | [] => []
  | (k, y) :: r => if Nat.eqb k t then (k, x) :: r else (k, y) :: setth t x r
  end.

(* a coroutine body runs until it yields, blocks or ends; [ex] executes one operation *)
Definition run_with (ex : nat -> bop -> state -> state * list event * status) (tid : nat)
  : list bop -> state -> state * list event * tstate :=
  fix run (body : list bop) (st : state) : state * list event * tstate :=
    match body with
    | [] => (st, [], TDone)
    | b :: rest =>
        let '(st1, ev, s) := ex tid b st in
        match s with
        | SCont => let '(st2, ev2, ts) := run rest st1 in (st2, ev ++ ev2, ts)
        | SYield => (st1, ev, TSusp rest)
        | SHang => (st1, ev, TBlocked)
        end
    end.

(* One operation of thread [tid], including resume/spawn (channel.rs:180 resume, :209 spawn).
   [fuel] bounds the depth of the chain "a resumes b resumes c ..." (every level marks one more
   thread [TRunning], so the depth is bounded by the number of threads). *)
Fixpoint exec (m : mode) (fuel : nat) (tid : nat) (b : bop) (st : state) {struct fuel}
  : state * list event * status :=
  match fuel with
  | 0 => (st, [EFuel], SCont)
  | S f =>
      match b with
      | BResume y =>
          match lookup y (threads st) with
          | None | Some TRunning => (st, [EBad], SCont)
          | Some TDone => (st, [EResume tid y RDead], SCont)      (* thread.rs:1301 Error::Dead *)
          | Some TBlocked => (st, [EResume tid y ROk], SCont)     (* still pending: Ok(()) *)
          | Some (TFresh body) | Some (TSusp body) =>
              let st0 := set_threads st (setth y TRunning (threads st)) in
              let '(st1, ev, ts) := run_with (exec m f) (S y) body st0 in
              (set_threads st1 (setth y ts (threads st1)), ev ++ [EResume tid y ROk], SCont)
          end
      | BSpawn lab body =>
          match lookup lab (threads st) with
          | None => (set_threads st (threads st ++ [(lab, TFresh body)]), [ESpawn tid lab], SCont)
          | Some _ => (st, [EBad], SCont)
          end
      | _ => bstep m tid b st
      end
  end.

(* a recursion bound that is always enough: number of threads that exist or can still be
   spawned, plus one *)
Fixpoint bsize (b : bop) : nat :=
  match b with
  | BSpawn _ body =>
      S ((fix go (l : list bop) : nat := match l with [] => 0 | x :: r => bsize x + go r end) body)
  | _ => 1
  end.
Definition body_size (body : list bop) : nat := fold_right (fun b n => bsize b + n) 0 body.
Definition tsize (ts : tstate) : nat :=
  match ts with TFresh body | TSusp body => body_size body | _ => 0 end.
Definition fuel_for (st : state) (b : bop) : nat :=
  S (S (length (threads st)) + fold_right (fun p n => tsize (snd p) + n) 0 (threads st) + bsize b).

(* ---- scoping: what a Gluon closure can mention when it is created ---- *)
Definition wf_lbody (st : state) (b : lbody) : bool :=
  match lb_bump b with None => true | Some r => Nat.ltb r (length (refs st)) end &&
  match lb_res b with RForce j => Nat.leb j (length (lazies st)) | _ => true end.

(* ---- one operation of the main thread ---- *)
Definition step (m : mode) (st : state) (o : op) : state * list event :=
  if hung st then (st, []) else
  match o with
  | OB b =>
      let '(st1, ev, s) := exec m (fuel_for st b) 0 b st in
      (match s with SHang => set_hung st1 | _ => st1 end, ev)
  | ORef v => (set_refs st (refs st ++ [v]), [ERef (length (refs st)) v])
  | OLazy b =>
      if wf_lbody st b then (set_lazies st (lazies st ++ [LThunk b]), [ELazy (length (lazies st)) b])
      else (st, [EBad])
  end.

Fixpoint run_from (m : mode) (st : state) (tr : list event) (ops : list op) : state * list event :=
  match ops with
  | [] => (st, tr)
  | o :: ops' => let '(st1, ev) := step m st o in run_from m st1 (tr ++ ev) ops'
  end.

Definition run (m : mode) (ops : list op) : state * list event := run_from m init [] ops.

(* what the extracted driver prints: the trace and whether the main thread hangs *)
Definition observe (m : mode) (ops : list op) : list event * bool :=
  let '(st, tr) := run m ops in (tr, hung st).
