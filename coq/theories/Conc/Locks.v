(* C14 — lock-ordering protocol: executable definitions (no proofs here).

   What is modelled.  The mutexes a Gluon thread takes while it runs, collects and imports:
     * `Thread.context : Mutex<Context>`            /repo/vm/src/thread.rs:456 (held while the
        interpreter runs, released around every extern call, thread.rs:1900 `drop(self)`);
     * a collecting thread locks the context of every DESCENDANT, parents before children,
        `Roots::mark_child_roots`, thread.rs:395-433, after `child_threads.read()`;
     * `GlobalVmState.gc : Mutex<Gc>`               /repo/vm/src/vm.rs:201;
     * the compiler-database mutex of `Import`      /repo/src/import.rs:117.
   A lock *class* below is a natural number: the rank of one lock instance in ONE fixed strict
   total order (for the contexts: position in the generation tree, parent < child).  A thread is a
   straight-line program over `Acquire c | Release c | Step`; the scheduler is arbitrary (a
   schedule is any list of thread ids; ids out of range and blocked threads stutter).

   What is NOT modelled: RwLock read sharing (a read lock is treated as exclusive, which only
   adds blocking), try_lock, condition variables, the futures executor, memory. *)
From Coq Require Import List Arith Bool.
Import ListNotations.

Inductive instr : Type :=
| Acquire (c : nat)
| Release (c : nat)
| Step.

Record thread : Type := mkT { held : list nat; prog : list instr }.

(* thread id = position in the list *)
Definition state := list thread.

Definition holds (t : thread) (c : nat) : bool := existsb (Nat.eqb c) (held t).

(* "who holds what": lock c is taken when some thread holds it *)
Definition taken (s : state) (c : nat) : bool := existsb (fun t => holds t c) s.

Fixpoint remove1 (c : nat) (l : list nat) : list nat :=
  match l with
  | [] => []
  | x :: r => if Nat.eqb c x then r else x :: remove1 c r
  end.

(* One step of thread [t] in global state [s].  Mutexes are not re-entrant (std::sync::Mutex):
   acquiring a taken lock blocks, whoever holds it. *)
Definition step_thread (s : state) (t : thread) : thread :=
  match prog t with
  | [] => t
  | Step :: p => mkT (held t) p
  | Acquire c :: p => if taken s c then t else mkT (c :: held t) p
  | Release c :: p => mkT (remove1 c (held t)) p
  end.

Fixpoint update {A : Type} (l : list A) (i : nat) (f : A -> A) : list A :=
  match l, i with
  | [], _ => []
  | x :: r, O => f x :: r
  | x :: r, S j => x :: update r j f
  end.

Definition step (s : state) (i : nat) : state := update s i (step_thread s).

Fixpoint run (s : state) (sched : list nat) : state :=
  match sched with
  | [] => s
  | i :: r => run (step s i) r
  end.

Definition init (progs : list (list instr)) : state := map (mkT []) progs.

Definition finishedb (t : thread) : bool :=
  match prog t with [] => true | _ => false end.

(* "who waits for what": the next instruction is an Acquire of a taken lock *)
Definition blocked (s : state) (t : thread) : bool :=
  match prog t with
  | Acquire c :: _ => taken s c
  | _ => false
  end.

(* deadlock: somebody is not finished and every non-finished thread is blocked *)
Definition deadlocked (s : state) : bool :=
  existsb (fun t => negb (finishedb t)) s && forallb (fun t => finishedb t || blocked s t) s.

Definition all_finished (s : state) : bool := forallb finishedb s.

(* The discipline: a thread only acquires a class greater than every class it holds, and it
   ends holding nothing.  [h] is the set held on entry. *)
Fixpoint well_ordered (h : list nat) (p : list instr) : bool :=
  match p with
  | [] => match h with [] => true | _ => false end
  | Step :: r => well_ordered h r
  | Acquire c :: r => forallb (fun x => Nat.ltb x c) h && well_ordered (c :: h) r
  | Release c :: r => well_ordered (remove1 c h) r
  end.

(* total number of instructions left: the fuel of [ordered_can_finish] *)
Definition remaining (s : state) : nat := list_sum (map (fun t => length (prog t)) s).

(* ---- validator used by the tie on real lock logs (extracted): the premise of the theorem,
   per OS thread.  [well_ordered_prefix] does not require the log to end with nothing held
   (a log is a prefix of a history). *)
Fixpoint well_ordered_prefix (h : list nat) (p : list instr) : bool :=
  match p with
  | [] => true
  | Step :: r => well_ordered_prefix h r
  | Acquire c :: r => forallb (fun x => Nat.ltb x c) h && well_ordered_prefix (c :: h) r
  | Release c :: r => well_ordered_prefix (remove1 c h) r
  end.
