(* C17 — proofs about the model in Cells.v.  All theorems quantify over ALL operation
   sequences ([run m ops] is a fold of [step] over an arbitrary list of operations). *)
From Coq Require Import List Arith Bool Lia.
From GV Require Import Conc.Cells.
Import ListNotations.

Definition trace (m : mode) (ops : list op) : list event := snd (run m ops).
Definition final (m : mode) (ops : list op) : state := fst (run m ops).

(* ------------------------------------------------------------------------------------ *)
(* lists                                                                                *)
(* ------------------------------------------------------------------------------------ *)
Lemma upd_length {A} n (x : A) l : length (upd n x l) = length l.
Proof. revert n; induction l as [|h t IH]; intros [|n]; simpl; auto. Qed.

Lemma nth_upd_eq {A} n (x : A) l : n < length l -> nth_error (upd n x l) n = Some x.
Proof.
  revert n; induction l as [|h t IH]; intros [|n] H; simpl in *; try lia; auto.
  apply IH; lia.
Qed.

Lemma nth_upd_neq {A} n k (x : A) l : k <> n -> nth_error (upd n x l) k = nth_error l k.
Proof.
  revert n k; induction l as [|h t IH]; intros [|n] [|k] H; simpl; auto; try congruence.
Qed.

Lemma nth_upd {A} n k (x : A) l :
  nth_error (upd n x l) k = if Nat.eqb k n then (if Nat.ltb n (length l) then Some x else None) else nth_error l k.
Proof.
  destruct (Nat.eqb_spec k n) as [->|Hne].
  - destruct (Nat.ltb_spec n (length l)).
    + apply nth_upd_eq; auto.
    + apply nth_error_None. rewrite upd_length. lia.
  - apply nth_upd_neq; auto.
Qed.

Lemma nth_some_lt {A} (l : list A) n x : nth_error l n = Some x -> n < length l.
Proof. intros H. apply nth_error_Some. congruence. Qed.

Lemma nth_snoc {A} (l : list A) x k :
  nth_error (l ++ [x]) k = if Nat.eqb k (length l) then Some x else nth_error l k.
Proof.
  destruct (Nat.eqb_spec k (length l)) as [->|Hne].
  - rewrite nth_error_app2 by lia. rewrite Nat.sub_diag. reflexivity.
  - destruct (Nat.lt_ge_cases k (length l)).
    + apply nth_error_app1; auto.
    + rewrite nth_error_app2 by lia.
      assert (nth_error l k = None) as -> by (apply nth_error_None; lia).
      destruct (k - length l) as [|d] eqn:E; [lia|]. simpl. destruct d; reflexivity.
Qed.

(* ------------------------------------------------------------------------------------ *)
(* [run] as an invariant principle                                                      *)
(* ------------------------------------------------------------------------------------ *)
Lemma run_from_inv m (P : state -> list event -> Prop) :
  (forall st tr o st' ev, P st tr -> step m st o = (st', ev) -> P st' (tr ++ ev)) ->
  forall ops st tr, P st tr -> P (fst (run_from m st tr ops)) (snd (run_from m st tr ops)).
Proof.
  intros Hstep. induction ops as [|o ops IH]; intros st tr HP; simpl; auto.
  destruct (step m st o) as [st1 ev] eqn:E. apply IH. eapply Hstep; eauto.
Qed.

Lemma run_inv m (P : state -> list event -> Prop) :
  P init [] ->
  (forall st tr o st' ev, P st tr -> step m st o = (st', ev) -> P st' (tr ++ ev)) ->
  forall ops, P (final m ops) (trace m ops).
Proof. intros H0 Hs ops. unfold final, trace, run. apply run_from_inv; auto. Qed.

(* running [ops ++ ops'] continues the run of [ops] *)
Lemma run_from_app m ops ops' st tr :
  run_from m st tr (ops ++ ops') =
  run_from m (fst (run_from m st tr ops)) (snd (run_from m st tr ops)) ops'.
Proof.
  revert st tr; induction ops as [|o ops IH]; intros; simpl; auto.
  destruct (step m st o) as [st1 ev]. apply IH.
Qed.

(* ------------------------------------------------------------------------------------ *)
(* shape of [force]                                                                     *)
(* ------------------------------------------------------------------------------------ *)
(* One unfolding lemma; every later induction over [force] goes through it. *)
Inductive force_shape (m : mode) (tid : nat)
  : bool -> nat -> list nat -> list lstate -> list nat -> list lstate -> list event -> fres -> Prop :=
| FS_fuel vis l rs ls : force_shape m tid vis l rs ls rs ls [EForce vis tid l FFuel] FFuel
| FS_bad vis l rs ls : nth_error ls l = None -> force_shape m tid vis l rs ls rs ls [EBad] FErr
| FS_value vis l rs ls v : nth_error ls l = Some (LValue v) ->
    force_shape m tid vis l rs ls rs ls [EForce vis tid l (FOk v)] (FOk v)
| FS_failed vis l rs ls : nth_error ls l = Some LFailed ->
    force_shape m tid vis l rs ls rs ls [EForce vis tid l FErr] FErr
| FS_loop vis l rs ls : nth_error ls l = Some (LBlackhole tid) ->
    force_shape m tid vis l rs ls rs ls [EForce vis tid l FErr] FErr
| FS_hang vis l rs ls o : nth_error ls l = Some (LBlackhole o) -> o <> tid ->
    force_shape m tid vis l rs ls rs ls [EForce vis tid l FHang] FHang
| FS_thunk vis l rs ls b rs2 evb rs3 ls3 evr r :
    nth_error ls l = Some (LThunk b) ->
    do_bump tid (lb_bump b) rs = (rs2, evb) ->
    thunk_shape m tid (lb_res b) rs2 (upd l (LBlackhole tid) ls) rs3 ls3 evr r ->
    force_shape m tid vis l rs ls rs3 (settle m l r ls3)
      (ERun tid l :: evb ++ evr ++ [EForce vis tid l r]) r
with thunk_shape (m : mode) (tid : nat) : lres -> list nat -> list lstate
  -> list nat -> list lstate -> list event -> fres -> Prop :=
| TS_val v rs ls : thunk_shape m tid (RVal v) rs ls rs ls [] (FOk v)
| TS_fail rs ls : thunk_shape m tid RFail rs ls rs ls [] FErr
| TS_force j rs ls rs' ls' ev r :
    force_shape m tid false j rs ls rs' ls' ev r ->
    thunk_shape m tid (RForce j) rs ls rs' ls' ev (lift_res r).

Scheme force_shape_ind2 := Minimality for force_shape Sort Prop
  with thunk_shape_ind2 := Minimality for thunk_shape Sort Prop.

Lemma force_has_shape m fuel : forall tid vis l rs ls rs' ls' ev r,
  force m fuel tid vis l rs ls = (rs', ls', ev, r) -> force_shape m tid vis l rs ls rs' ls' ev r.
Proof.
  induction fuel as [|fuel IH]; intros tid vis l rs ls rs' ls' ev r H; cbn [force] in H.
  - injection H as <- <- <- <-. constructor.
  - destruct (nth_error ls l) as [[b|o|v|]|] eqn:En; cbv beta iota in H.
    + destruct (do_bump tid (lb_bump b) rs) as [rs2 evb] eqn:Eb; cbv beta iota in H.
      destruct (lb_res b) as [v| |j] eqn:Er; cbv beta iota in H.
      * injection H as <- <- <- <-.
        change (force_shape m tid vis l rs ls rs2 (settle m l (FOk v) (upd l (LBlackhole tid) ls))
                  (ERun tid l :: evb ++ [] ++ [EForce vis tid l (FOk v)]) (FOk v)).
        eapply FS_thunk; eauto. rewrite Er. constructor.
      * injection H as <- <- <- <-.
        change (force_shape m tid vis l rs ls rs2 (settle m l FErr (upd l (LBlackhole tid) ls))
                  (ERun tid l :: evb ++ [] ++ [EForce vis tid l FErr]) FErr).
        eapply FS_thunk; eauto. rewrite Er. constructor.
      * destruct (force m fuel tid false j rs2 (upd l (LBlackhole tid) ls)) as [[[rs3 ls3] ev3] r3] eqn:Ef.
        cbv beta iota in H.
        injection H as <- <- <- <-. eapply FS_thunk; eauto. rewrite Er. constructor. apply IH; auto.
    + destruct (Nat.eqb_spec o tid) as [->|Hne]; injection H as <- <- <- <-.
      * apply FS_loop; auto.
      * eapply FS_hang; eauto.
    + injection H as <- <- <- <-. apply FS_value; auto.
    + injection H as <- <- <- <-. apply FS_failed; auto.
    + injection H as <- <- <- <-. apply FS_bad; auto.
Qed.

Lemma do_bump_cases tid b rs rs2 evb :
  do_bump tid b rs = (rs2, evb) ->
  (rs2 = rs /\ (evb = [] \/ evb = [EBad])) \/
  (exists r v, b = Some r /\ nth_error rs r = Some v /\ rs2 = upd r (S v) rs /\
               evb = [ELoad false tid r v; EStore false tid r (S v)]).
Proof.
  unfold do_bump. destruct b as [r|].
  - destruct (nth_error rs r) as [v|] eqn:E; intros H; inversion H; subst.
    + right. exists r, v. auto.
    + left. auto.
  - intros H; inversion H; subst. left; auto.
Qed.

(* ------------------------------------------------------------------------------------ *)
(* thread table; shape of [exec] (one operation of a thread, including resume and spawn) *)
(* ------------------------------------------------------------------------------------ *)
Lemma lookup_setth t x : forall ths k,
  lookup k (setth t x ths) =
  if Nat.eqb k t then match lookup t ths with Some _ => Some x | None => None end else lookup k ths.
Proof.
  induction ths as [|[k0 y] r IH]; intros k; simpl.
  - destruct (Nat.eqb k t); reflexivity.
  - destruct (Nat.eqb_spec k0 t) as [->|Hne]; simpl.
    + destruct (Nat.eqb_spec t k) as [<-|Hk].
      * rewrite Nat.eqb_refl. reflexivity.
      * destruct (Nat.eqb_spec k t); [congruence|reflexivity].
    + rewrite IH. destruct (Nat.eqb_spec k0 k) as [<-|Hk].
      * destruct (Nat.eqb_spec k0 t); [congruence|reflexivity].
      * reflexivity.
Qed.

Lemma lookup_setth_other t x ths k : k <> t -> lookup k (setth t x ths) = lookup k ths.
Proof. intros H. rewrite lookup_setth. destruct (Nat.eqb_spec k t); [congruence|reflexivity]. Qed.

Lemma lookup_setth_same t x ths y : lookup t ths = Some y -> lookup t (setth t x ths) = Some x.
Proof. intros H. rewrite lookup_setth, Nat.eqb_refl, H. reflexivity. Qed.

Lemma lookup_snoc ths lab x k :
  lookup k (ths ++ [(lab, x)]) =
  match lookup k ths with Some y => Some y | None => if Nat.eqb lab k then Some x else None end.
Proof.
  induction ths as [|[k0 y] r IH]; simpl; auto.
  destruct (Nat.eqb k0 k); auto.
Qed.

Inductive exec_shape (m : mode)
  : nat -> bop -> state -> state -> list event -> status -> Prop :=
| XS_fuel tid b st : exec_shape m tid b st st [EFuel] SCont
| XS_basic tid b st st' ev s :
    bstep m tid b st = (st', ev, s) -> exec_shape m tid b st st' ev s
| XS_spawn tid lab body st :
    lookup lab (threads st) = None ->
    exec_shape m tid (BSpawn lab body) st
      (set_threads st (threads st ++ [(lab, TFresh body)])) [ESpawn tid lab] SCont
| XS_bad tid b st : exec_shape m tid b st st [EBad] SCont
| XS_dead tid y st :
    lookup y (threads st) = Some TDone ->
    exec_shape m tid (BResume y) st st [EResume tid y RDead] SCont
| XS_blocked tid y st :
    lookup y (threads st) = Some TBlocked ->
    exec_shape m tid (BResume y) st st [EResume tid y ROk] SCont
| XS_run tid y st ts0 body st1 ev ts :
    lookup y (threads st) = Some ts0 -> ts0 = TFresh body \/ ts0 = TSusp body ->
    body_shape m (S y) body (set_threads st (setth y TRunning (threads st))) st1 ev ts ->
    exec_shape m tid (BResume y) st
      (set_threads st1 (setth y ts (threads st1))) (ev ++ [EResume tid y ROk]) SCont
with body_shape (m : mode)
  : nat -> list bop -> state -> state -> list event -> tstate -> Prop :=
| BS_nil tid st : body_shape m tid [] st st [] TDone
| BS_cont tid b rest st st1 ev st2 ev2 ts :
    exec_shape m tid b st st1 ev SCont -> body_shape m tid rest st1 st2 ev2 ts ->
    body_shape m tid (b :: rest) st st2 (ev ++ ev2) ts
| BS_yield tid b rest st st1 ev :
    exec_shape m tid b st st1 ev SYield -> body_shape m tid (b :: rest) st st1 ev (TSusp rest)
| BS_hang tid b rest st st1 ev :
    exec_shape m tid b st st1 ev SHang -> body_shape m tid (b :: rest) st st1 ev TBlocked.

Scheme exec_shape_ind2 := Minimality for exec_shape Sort Prop
  with body_shape_ind2 := Minimality for body_shape Sort Prop.

Lemma run_with_shape m (ex : nat -> bop -> state -> state * list event * status) :
  (forall tid b st st' ev s, ex tid b st = (st', ev, s) -> exec_shape m tid b st st' ev s) ->
  forall tid body st st' ev ts,
    run_with ex tid body st = (st', ev, ts) -> body_shape m tid body st st' ev ts.
Proof.
  intros Hex tid. induction body as [|b rest IH]; intros st st' ev ts H; simpl in H.
  - injection H as <- <- <-. constructor.
  - destruct (ex tid b st) as [[st1 ev1] s] eqn:Eb. apply Hex in Eb.
    destruct s.
    + destruct (run_with ex tid rest st1) as [[st2 ev2] ts2] eqn:Er.
      injection H as <- <- <-. eapply BS_cont; eauto.
    + injection H as <- <- <-. apply BS_yield; auto.
    + injection H as <- <- <-. apply BS_hang; auto.
Qed.

Lemma exec_has_shape m fuel : forall tid b st st' ev s,
  exec m fuel tid b st = (st', ev, s) -> exec_shape m tid b st st' ev s.
Proof.
  induction fuel as [|fuel IH]; intros tid b st st' ev s H; cbn [exec] in H.
  - injection H as <- <- <-. constructor.
  - destruct b; try (apply XS_basic; exact H).
    + (* resume *)
      destruct (lookup t (threads st)) as [[body|body| | |]|] eqn:El.
      * destruct (run_with (exec m fuel) (S t) body (set_threads st (setth t TRunning (threads st))))
          as [[st1 ev1] ts] eqn:Er.
        injection H as <- <- <-. eapply XS_run; eauto. eapply run_with_shape; eauto.
      * destruct (run_with (exec m fuel) (S t) body (set_threads st (setth t TRunning (threads st))))
          as [[st1 ev1] ts] eqn:Er.
        injection H as <- <- <-. eapply XS_run; eauto. eapply run_with_shape; eauto.
      * injection H as <- <- <-. apply XS_blocked; auto.
      * injection H as <- <- <-. apply XS_bad.
      * injection H as <- <- <-. apply XS_dead; auto.
      * injection H as <- <- <-. apply XS_bad.
    + (* spawn *)
      destruct (lookup lab (threads st)) eqn:El; injection H as <- <- <-.
      * apply XS_bad.
      * apply XS_spawn; auto.
Qed.

(* ------------------------------------------------------------------------------------ *)
(* what [force] does not touch                                                          *)
(* ------------------------------------------------------------------------------------ *)
Definition chan_event (e : event) : bool :=
  match e with ESend _ _ _ | ERecv _ _ _ => true | _ => false end.
Definition alloc_event (e : event) : bool :=
  match e with ERef _ _ | ELazy _ _ | ESpawn _ _ => true | _ => false end.

Lemma force_events_plain m tid vis l rs ls rs' ls' ev r :
  force_shape m tid vis l rs ls rs' ls' ev r ->
  forallb (fun e => negb (chan_event e) && negb (alloc_event e)) ev = true.
Proof.
  intros H.
  induction H using force_shape_ind2 with
    (P0 := fun lr rs ls rs' ls' ev r => forallb (fun e => negb (chan_event e) && negb (alloc_event e)) ev = true);
    simpl; auto.
  rewrite !forallb_app. simpl. rewrite IHforce_shape.
  apply do_bump_cases in H0. destruct H0 as [[_ [->| ->]]|(r0 & v & _ & _ & _ & ->)]; reflexivity.
Qed.

(* ------------------------------------------------------------------------------------ *)
(* channels refine FIFO queues                                                          *)
(* ------------------------------------------------------------------------------------ *)
(* The sequential specification: a trace checker that replays the channel events against
   FIFO queues.  [accept_q qs tr = Some qs'] : the trace is a legal queue history from
   contents [qs], ending with contents [qs']. *)
Fixpoint accept_q (qs : list (list nat)) (tr : list event) : option (list (list nat)) :=
  match tr with
  | [] => Some qs
  | ESend _ c v :: tr' =>
      match nth_error qs c with
      | Some q => accept_q (upd c (q ++ [v]) qs) tr'
      | None => None
      end
  | ERecv _ c None :: tr' =>
      match nth_error qs c with
      | Some [] => accept_q qs tr'
      | _ => None
      end
  | ERecv _ c (Some v) :: tr' =>
      match nth_error qs c with
      | Some (v' :: q) => if Nat.eqb v v' then accept_q (upd c q qs) tr' else None
      | _ => None
      end
  | _ :: tr' => accept_q qs tr'
  end.

Fixpoint sent (c : nat) (tr : list event) : list nat :=
  match tr with
  | [] => []
  | ESend _ c' v :: tr' => if Nat.eqb c' c then v :: sent c tr' else sent c tr'
  | _ :: tr' => sent c tr'
  end.
Fixpoint recvd (c : nat) (tr : list event) : list nat :=
  match tr with
  | [] => []
  | ERecv _ c' (Some v) :: tr' => if Nat.eqb c' c then v :: recvd c tr' else recvd c tr'
  | _ :: tr' => recvd c tr'
  end.

Lemma accept_q_app qs a b :
  accept_q qs (a ++ b) = match accept_q qs a with Some qs' => accept_q qs' b | None => None end.
Proof.
  revert qs; induction a as [|e a IH]; intros qs; simpl; auto.
  destruct e; auto.
  - destruct (nth_error qs c); auto.
  - destruct r as [v|].
    + destruct (nth_error qs c) as [[|v' q]|]; auto. destruct (Nat.eqb v v'); auto.
    + destruct (nth_error qs c) as [[|v' q]|]; auto.
Qed.

Lemma accept_q_plain qs ev :
  forallb (fun e => negb (chan_event e) && negb (alloc_event e)) ev = true -> accept_q qs ev = Some qs.
Proof.
  induction ev as [|e ev IH]; simpl; auto. intros H. apply andb_true_iff in H as [He H].
  destruct e; simpl in He; try discriminate; auto.
Qed.

Lemma sent_app c a b : sent c (a ++ b) = sent c a ++ sent c b.
Proof.
  induction a as [|e a IH]; simpl; auto. destruct e; auto.
  destruct (Nat.eqb c0 c); simpl; congruence.
Qed.
Lemma recvd_app c a b : recvd c (a ++ b) = recvd c a ++ recvd c b.
Proof.
  induction a as [|e a IH]; simpl; auto. destruct e; auto. destruct r; auto.
  destruct (Nat.eqb c0 c); simpl; congruence.
Qed.

(* every legal queue history conserves values, in order *)
Lemma accept_q_conserves : forall tr qs qs', accept_q qs tr = Some qs' ->
  length qs' = length qs /\
  forall c q q', nth_error qs c = Some q -> nth_error qs' c = Some q' ->
    q ++ sent c tr = recvd c tr ++ q'.
Proof.
  induction tr as [|e tr IH]; intros qs qs' H; simpl in H.
  - inversion H; subst. split; auto. intros c q q' H1 H2. simpl. rewrite app_nil_r. congruence.
  - destruct e; try (apply IH in H; exact H).
    + (* send *)
      destruct (nth_error qs c) as [q0|] eqn:E0; [|discriminate].
      assert (c < length qs) as Hlt by (eapply nth_some_lt; eauto).
      apply IH in H as [Hl Hc]. rewrite upd_length in Hl. split; auto.
      intros c1 q q' H1 H2. simpl.
      destruct (Nat.eq_dec c c1) as [Heq|Hne].
      * subst c1. rewrite Nat.eqb_refl.
        rewrite H1 in E0; inversion E0; subst q0.
        specialize (Hc c (q ++ [v]) q' (nth_upd_eq _ _ _ Hlt) H2).
        rewrite <- app_assoc in Hc. exact Hc.
      * destruct (Nat.eqb_spec c c1); [congruence|]. apply Hc; auto.
        rewrite nth_upd_neq; auto.
    + (* recv *)
      destruct r as [v|].
      * destruct (nth_error qs c) as [[|v' q0]|] eqn:E0; try discriminate.
        destruct (Nat.eqb_spec v v') as [->|]; [|discriminate].
        assert (c < length qs) as Hlt by (eapply nth_some_lt; eauto).
        apply IH in H as [Hl Hc]. rewrite upd_length in Hl. split; auto.
        intros c1 q q' H1 H2. simpl.
        destruct (Nat.eq_dec c c1) as [Heq|Hne].
        -- subst c1. rewrite Nat.eqb_refl.
           rewrite H1 in E0; inversion E0; subst q.
           specialize (Hc c q0 q' (nth_upd_eq _ _ _ Hlt) H2). simpl. f_equal. exact Hc.
        -- destruct (Nat.eqb_spec c c1); [congruence|]. apply Hc; auto.
           rewrite nth_upd_neq; auto.
      * destruct (nth_error qs c) as [[|v' q0]|] eqn:E0; try discriminate.
        apply IH in H. exact H.
Qed.

Lemma bstep_accept_q m tid b st st' ev s :
  bstep m tid b st = (st', ev, s) -> accept_q (chans st) ev = Some (chans st').
Proof.
  destruct b; cbn [bstep]; intros H.
  - destruct (nth_error (chans st) c) as [q|] eqn:E; inversion H; subst; simpl; auto. rewrite E. reflexivity.
  - destruct (nth_error (chans st) c) as [[|v q]|] eqn:E; inversion H; subst; simpl; auto.
    + rewrite E. reflexivity.
    + rewrite E, Nat.eqb_refl. reflexivity.
  - destruct (nth_error (refs st) r); inversion H; subst; reflexivity.
  - destruct (nth_error (refs st) r); inversion H; subst; reflexivity.
  - destruct (force m (S (length (lazies st))) tid true l (refs st) (lazies st)) as [[[rs ls] ev'] r] eqn:Ef.
    injection H as <- <- <-. cbn [chans set_rl]. apply accept_q_plain.
    eapply force_events_plain. eapply force_has_shape; eauto.
  - inversion H; subst. reflexivity.
  - inversion H; subst. reflexivity.
  - inversion H; subst. reflexivity.
Qed.

Lemma exec_accept_q m tid b st st' ev s :
  exec_shape m tid b st st' ev s -> accept_q (chans st) ev = Some (chans st').
Proof.
  intros H.
  induction H using exec_shape_ind2 with
    (P0 := fun tid body st st' ev ts => accept_q (chans st) ev = Some (chans st')); simpl; auto.
  - eapply bstep_accept_q; eauto.
  - rewrite accept_q_app. simpl in IHexec_shape. rewrite IHexec_shape. reflexivity.
  - rewrite accept_q_app, IHexec_shape. exact IHexec_shape0.
Qed.

Lemma step_accept_q m st o st' ev :
  step m st o = (st', ev) -> accept_q (chans st) ev = Some (chans st').
Proof.
  unfold step. destruct (hung st).
  { intros H; inversion H; subst; reflexivity. }
  destruct o as [b|v|b]; intros H.
  - destruct (exec m (fuel_for st b) 0 b st) as [[st1 ev1] s] eqn:Eb. inversion H; subst.
    apply exec_has_shape, exec_accept_q in Eb. rewrite Eb. destruct s; reflexivity.
  - inversion H; subst. reflexivity.
  - destruct (wf_lbody st b); inversion H; subst; reflexivity.
Qed.

(* the whole history of any run is a legal FIFO-queue history *)
Theorem channel_refines_queue : forall m ops,
  accept_q (chans init) (trace m ops) = Some (chans (final m ops)).
Proof.
  intros m ops.
  apply (run_inv m (fun st tr => accept_q (chans init) tr = Some (chans st))).
  - reflexivity.
  - intros st tr o st' ev HP Hs. rewrite accept_q_app, HP. eapply step_accept_q; eauto.
Qed.

(* values received on a channel are a prefix of the values sent on it, in order, each once;
   what was not received is still queued *)
Theorem channel_fifo_exactly_once : forall m ops c q,
  nth_error (chans (final m ops)) c = Some q ->
  sent c (trace m ops) = recvd c (trace m ops) ++ q.
Proof.
  intros m ops c q H.
  pose proof (channel_refines_queue m ops) as Ha.
  apply accept_q_conserves in Ha as [Hl Hc].
  assert (c < 2) as Hc2. { apply nth_some_lt in H. rewrite Hl in H. exact H. }
  assert (nth_error (chans init) c = Some []) as Hi.
  { destruct c as [|[|c]]; simpl; auto. lia. }
  specialize (Hc c [] q Hi H). exact Hc.
Qed.

(* [recv] reports emptiness exactly when everything sent so far has been received, and
   otherwise delivers the oldest value not yet received *)
Theorem channel_recv_empty_iff_drained : forall m ops tr1 tid c r tr2,
  trace m ops = tr1 ++ ERecv tid c r :: tr2 -> c < 2 ->
  match r with
  | None => recvd c tr1 = sent c tr1
  | Some v => nth_error (sent c tr1) (length (recvd c tr1)) = Some v
  end.
Proof.
  intros m ops tr1 tid c r tr2 Htr Hc.
  pose proof (channel_refines_queue m ops) as Ha. rewrite Htr in Ha.
  rewrite accept_q_app in Ha.
  destruct (accept_q (chans init) tr1) as [qs1|] eqn:E1; [|discriminate].
  apply accept_q_conserves in E1 as [Hl Hcons].
  assert (nth_error (chans init) c = Some []) as Hi.
  { destruct c as [|[|c]]; simpl; auto. lia. }
  simpl in Ha. destruct r as [v|].
  - destruct (nth_error qs1 c) as [[|v' q]|] eqn:Eq; try discriminate.
    destruct (Nat.eqb_spec v v') as [->|]; [|discriminate].
    specialize (Hcons c [] _ Hi Eq). simpl in Hcons. rewrite Hcons.
    rewrite nth_error_app2 by lia. rewrite Nat.sub_diag. reflexivity.
  - destruct (nth_error qs1 c) as [[|v' q]|] eqn:Eq; try discriminate.
    specialize (Hcons c [] _ Hi Eq). simpl in Hcons. rewrite app_nil_r in Hcons. auto.
Qed.

(* ------------------------------------------------------------------------------------ *)
(* references refine single cells                                                       *)
(* ------------------------------------------------------------------------------------ *)
(* Sequential specification of mutable cells as a trace checker: [ERef] allocates the next
   cell, [ELoad] must return the current content, [EStore] overwrites it.  The hidden
   load/store pair of a thunk body (the counter bump) is checked like any other. *)
Fixpoint accept_r (rs : list nat) (tr : list event) : option (list nat) :=
  match tr with
  | [] => Some rs
  | ERef r v :: tr' => if Nat.eqb r (length rs) then accept_r (rs ++ [v]) tr' else None
  | ELoad _ _ r v :: tr' =>
      match nth_error rs r with
      | Some v' => if Nat.eqb v v' then accept_r rs tr' else None
      | None => None
      end
  | EStore _ _ r v :: tr' => if Nat.ltb r (length rs) then accept_r (upd r v rs) tr' else None
  | _ :: tr' => accept_r rs tr'
  end.

(* the value most recently written to cell r in a trace ([acc] if none) *)
Fixpoint last_write (r : nat) (tr : list event) (acc : option nat) : option nat :=
  match tr with
  | [] => acc
  | ERef r' v :: tr' => last_write r tr' (if Nat.eqb r' r then Some v else acc)
  | EStore _ _ r' v :: tr' => last_write r tr' (if Nat.eqb r' r then Some v else acc)
  | _ :: tr' => last_write r tr' acc
  end.

Lemma accept_r_app rs a b :
  accept_r rs (a ++ b) = match accept_r rs a with Some rs' => accept_r rs' b | None => None end.
Proof.
  revert rs; induction a as [|e a IH]; intros rs; simpl; auto.
  destruct e; auto.
  - destruct (Nat.eqb r (length rs)); auto.
  - destruct (nth_error rs r) as [v'|]; auto. destruct (Nat.eqb v v'); auto.
  - destruct (Nat.ltb r (length rs)); auto.
Qed.

Lemma accept_r_last_write : forall tr rs rs' r,
  accept_r rs tr = Some rs' -> nth_error rs' r = last_write r tr (nth_error rs r).
Proof.
  induction tr as [|e tr IH]; intros rs rs' r H; simpl in H.
  - inversion H; subst. reflexivity.
  - destruct e; simpl; try (apply IH; exact H).
    + destruct (Nat.eqb_spec r0 (length rs)) as [->|]; [|discriminate].
      rewrite (IH _ _ r H). rewrite nth_snoc.
      rewrite (Nat.eqb_sym r (length rs)). destruct (Nat.eqb_spec (length rs) r); auto.
    + destruct (nth_error rs r0) as [v'|]; [|discriminate].
      destruct (Nat.eqb v v'); [|discriminate]. apply IH; auto.
    + destruct (Nat.ltb_spec r0 (length rs)) as [Hlt|]; [|discriminate].
      rewrite (IH _ _ r H). rewrite nth_upd.
      rewrite (Nat.eqb_sym r r0). destruct (Nat.eqb_spec r0 r) as [->|]; auto.
      destruct (Nat.ltb_spec r (length rs)); [auto|lia].
Qed.

Lemma force_accept_r m tid vis l rs ls rs' ls' ev r :
  force_shape m tid vis l rs ls rs' ls' ev r -> accept_r rs ev = Some rs'.
Proof.
  intros H.
  induction H using force_shape_ind2 with
    (P0 := fun lr rs ls rs' ls' ev r => accept_r rs ev = Some rs'); simpl; auto.
  assert (accept_r rs evb = Some rs2) as Hb.
  { apply do_bump_cases in H0. destruct H0 as [[-> [->| ->]]|(r0 & v & _ & Hn & -> & ->)]; simpl; auto.
    rewrite Hn, Nat.eqb_refl.
    assert (r0 < length rs) by (eapply nth_some_lt; eauto).
    destruct (Nat.ltb_spec r0 (length rs)); [reflexivity|lia]. }
  rewrite accept_r_app, Hb, accept_r_app, IHforce_shape. reflexivity.
Qed.

Lemma bstep_accept_r m tid b st st' ev s :
  bstep m tid b st = (st', ev, s) -> accept_r (refs st) ev = Some (refs st').
Proof.
  destruct b; cbn [bstep]; intros H.
  - destruct (nth_error (chans st) c); inversion H; subst; reflexivity.
  - destruct (nth_error (chans st) c) as [[|v q]|]; inversion H; subst; reflexivity.
  - destruct (nth_error (refs st) r) eqn:E; inversion H; subst; simpl; auto.
    rewrite E, Nat.eqb_refl. reflexivity.
  - destruct (nth_error (refs st) r) eqn:E; inversion H; subst; simpl; auto.
    assert (r < length (refs st)) by (eapply nth_some_lt; eauto).
    destruct (Nat.ltb_spec r (length (refs st))); [reflexivity|lia].
  - destruct (force m (S (length (lazies st))) tid true l (refs st) (lazies st)) as [[[rs ls] ev'] r] eqn:Ef.
    injection H as <- <- <-. cbn [refs set_rl].
    eapply force_accept_r. eapply force_has_shape; eauto.
  - inversion H; subst. reflexivity.
  - inversion H; subst. reflexivity.
  - inversion H; subst. reflexivity.
Qed.

Lemma exec_accept_r m tid b st st' ev s :
  exec_shape m tid b st st' ev s -> accept_r (refs st) ev = Some (refs st').
Proof.
  intros H.
  induction H using exec_shape_ind2 with
    (P0 := fun tid body st st' ev ts => accept_r (refs st) ev = Some (refs st')); simpl; auto.
  - eapply bstep_accept_r; eauto.
  - rewrite accept_r_app. simpl in IHexec_shape. rewrite IHexec_shape. reflexivity.
  - rewrite accept_r_app, IHexec_shape. exact IHexec_shape0.
Qed.

Lemma step_accept_r m st o st' ev :
  step m st o = (st', ev) -> accept_r (refs st) ev = Some (refs st').
Proof.
  unfold step. destruct (hung st).
  { intros H; inversion H; subst; reflexivity. }
  destruct o as [b|v|b]; intros H.
  - destruct (exec m (fuel_for st b) 0 b st) as [[st1 ev1] s] eqn:Eb. inversion H; subst.
    apply exec_has_shape, exec_accept_r in Eb. rewrite Eb. destruct s; reflexivity.
  - inversion H; subst. simpl. rewrite Nat.eqb_refl. reflexivity.
  - destruct (wf_lbody st b); inversion H; subst; reflexivity.
Qed.

Theorem ref_refines_cell : forall m ops,
  accept_r [] (trace m ops) = Some (refs (final m ops)).
Proof.
  intros m ops.
  apply (run_inv m (fun st tr => accept_r [] tr = Some (refs st))).
  - reflexivity.
  - intros st tr o st' ev HP Hs. rewrite accept_r_app, HP. eapply step_accept_r; eauto.
Qed.

(* a load — by any thread, at any point of any run — yields the most recently stored value
   (the initial value if nothing was stored since the allocation) *)
Theorem ref_last_store : forall m ops tr1 vis tid r v tr2,
  trace m ops = tr1 ++ ELoad vis tid r v :: tr2 -> last_write r tr1 None = Some v.
Proof.
  intros m ops tr1 vis tid r v tr2 Htr.
  pose proof (ref_refines_cell m ops) as Ha. rewrite Htr, accept_r_app in Ha.
  destruct (accept_r [] tr1) as [rs1|] eqn:E1; [|discriminate].
  simpl in Ha. destruct (nth_error rs1 r) as [v'|] eqn:En; [|discriminate].
  destruct (Nat.eqb_spec v v') as [->|]; [|discriminate].
  rewrite <- En. rewrite (accept_r_last_write _ _ _ r E1). destruct r; reflexivity.
Qed.

(* ------------------------------------------------------------------------------------ *)
(* lazy values: what one call of [force] does to the lazy cells                         *)
(* ------------------------------------------------------------------------------------ *)
Fixpoint runs (k : nat) (tr : list event) : nat :=
  match tr with
  | [] => 0
  | ERun _ l :: tr' => (if Nat.eqb l k then 1 else 0) + runs k tr'
  | _ :: tr' => runs k tr'
  end.

Lemma runs_app k a b : runs k (a ++ b) = runs k a + runs k b.
Proof. induction a as [|e a IH]; simpl; auto. destruct e; auto. rewrite IH. lia. Qed.

Definition is_thunk (x : option lstate) : bool :=
  match x with Some (LThunk _) => true | _ => false end.

Definition same_kind (a b : fres) : Prop :=
  match a, b with
  | FOk _, FOk _ | FErr, FErr | FHang, FHang | FFuel, FFuel => True
  | _, _ => False
  end.

(* the cell after its body ran on thread tid *)
Definition ran_ok (m : mode) (tid k : nat) (b : lbody) (after : option lstate) : Prop :=
  match after with
  | Some (LBlackhole o) => o = tid
  | Some (LValue v) =>
      lb_res b <> RFail /\ lb_res b <> RForce k /\ (forall v0, lb_res b = RVal v0 -> v = v0)
  | Some LFailed => m = Fixed
  | _ => False
  end.

(* a force event of thread tid on a cell that was [before] when the call started and is
   [after] when it returns *)
Definition force_ok (m : mode) (tid : nat) (before after : option lstate) (res : fres) : Prop :=
  match res with
  | FOk v => after = Some (LValue v)
  | FErr => after = Some LFailed \/ after = Some (LBlackhole tid)
  | FHang => (exists o, o <> tid /\ before = Some (LBlackhole o)) \/
             (is_thunk before = true /\ after = Some (LBlackhole tid))
  | FFuel => True
  end.

Definition lazy_spec (m : mode) (tid : nat) (ls ls' : list lstate) (ev : list event) (r : fres) : Prop :=
  length ls' = length ls /\
  (forall k, is_thunk (nth_error ls k) = false -> nth_error ls' k = nth_error ls k /\ runs k ev = 0) /\
  (forall k b, nth_error ls k = Some (LThunk b) ->
     (nth_error ls' k = Some (LThunk b) /\ runs k ev = 0) \/
     (runs k ev = 1 /\ ran_ok m tid k b (nth_error ls' k))) /\
  (forall vis t k res, In (EForce vis t k res) ev ->
     t = tid /\ same_kind res r /\ force_ok m tid (nth_error ls k) (nth_error ls' k) res).

Lemma force_on_own_blackhole m tid vis l rs ls rs' ls' ev r :
  force_shape m tid vis l rs ls rs' ls' ev r ->
  nth_error ls l = Some (LBlackhole tid) -> r = FErr \/ r = FFuel.
Proof. intros H Hn. inversion H; subst; auto; congruence. Qed.

Lemma same_kind_lift a b : same_kind a b -> same_kind a (lift_res b).
Proof. destruct a, b; simpl; auto. Qed.

Lemma same_kind_refl a : same_kind a a.
Proof. destruct a; simpl; auto. Qed.

Lemma runs_bump tid b rs rs2 evb k : do_bump tid b rs = (rs2, evb) -> runs k evb = 0.
Proof.
  intros H. apply do_bump_cases in H.
  destruct H as [[_ [->| ->]]|(r0 & v & _ & _ & _ & ->)]; reflexivity.
Qed.

Lemma in_bump_not_force tid b rs rs2 evb vis t k res :
  do_bump tid b rs = (rs2, evb) -> ~ In (EForce vis t k res) evb.
Proof.
  intros H. apply do_bump_cases in H.
  destruct H as [[_ [->| ->]]|(r0 & v & _ & _ & _ & ->)]; simpl; intuition discriminate.
Qed.

Lemma settle_length m l r ls : length (settle m l r ls) = length ls.
Proof. destruct r, m; simpl; auto using upd_length. Qed.

Lemma settle_other m l r ls k : k <> l -> nth_error (settle m l r ls) k = nth_error ls k.
Proof. intros H. destruct r, m; simpl; auto using nth_upd_neq. Qed.

Lemma lazy_spec_single m tid ls vis l res :
  force_ok m tid (nth_error ls l) (nth_error ls l) res ->
  lazy_spec m tid ls ls [EForce vis tid l res] res.
Proof.
  intros Hok. unfold lazy_spec.
  split. { reflexivity. }
  split. { intros k Hk. split; reflexivity. }
  split. { intros k b Hk. left. split; auto. }
  intros vis' t k res' [Hin|[]]. inversion Hin; subst.
  split; auto. split; auto. destruct res'; simpl; auto.
Qed.

Lemma lazy_spec_quiet m tid ls ev r :
  (forall vis t k res, ~ In (EForce vis t k res) ev) -> (forall k, runs k ev = 0) ->
  lazy_spec m tid ls ls ev r.
Proof.
  intros Hno Hr. unfold lazy_spec.
  split. { reflexivity. }
  split. { intros k Hk. split; auto. }
  split. { intros k b Hk. left. split; auto. }
  intros vis' t k res' Hin. exfalso. eapply Hno; eauto.
Qed.

Lemma force_lazy_spec m tid vis l rs ls rs' ls' ev r :
  force_shape m tid vis l rs ls rs' ls' ev r -> lazy_spec m tid ls ls' ev r.
Proof.
  intros H.
  induction H using force_shape_ind2 with
    (P0 := fun lr rs ls rs' ls' ev r => lazy_spec m tid ls ls' ev r).
  - (* fuel *) apply lazy_spec_single. simpl. auto.
  - (* bad *) apply lazy_spec_quiet; auto. intros vis' t k res [Hin|[]]. discriminate.
  - (* value *) apply lazy_spec_single. simpl. auto.
  - (* failed *) apply lazy_spec_single. simpl. auto.
  - (* loop *) apply lazy_spec_single. simpl. auto.
  - (* hang *) apply lazy_spec_single. simpl. left. exists o. auto.
  - (* thunk *)
    rename H into Hn, H0 into Hb, H1 into Hts.
    destruct IHforce_shape as (Hlen & Hnt & Hth & Hev).
    assert (l < length ls) as Hlt by (eapply nth_some_lt; eauto).
    set (ls1 := upd l (LBlackhole tid) ls) in *.
    assert (nth_error ls1 l = Some (LBlackhole tid)) as Hl1 by (apply nth_upd_eq; auto).
    assert (nth_error ls3 l = Some (LBlackhole tid) /\ runs l evr = 0) as [Hl3 Hr3].
    { rewrite <- Hl1. apply Hnt. rewrite Hl1. reflexivity. }
    assert (length ls3 = length ls) as Hlen3 by (rewrite Hlen; apply upd_length).
    assert (l < length ls3) as Hlt3 by lia.
    (* the result of a failing or self-dependent body *)
    assert (lb_res b = RFail -> r = FErr) as Hfail.
    { intros E. rewrite E in Hts. inversion Hts; subst; auto. }
    assert (lb_res b = RForce l -> r = FErr \/ r = FFuel) as Hself.
    { intros E. rewrite E in Hts.
      inversion Hts as [| | j0 rsa lsa rsb lsb eva r0 Hfs]; subst.
      eapply force_on_own_blackhole in Hfs; eauto. destruct Hfs as [-> | ->]; auto. }
    assert (forall v0, lb_res b = RVal v0 -> r = FOk v0) as Hval.
    { intros v0 E. rewrite E in Hts. inversion Hts; subst; auto. }
    assert (ran_ok m tid l b (nth_error (settle m l r ls3) l)) as Hran.
    { destruct r as [v| | |]; simpl.
      - rewrite nth_upd_eq by auto. simpl. repeat split.
        + intros E. apply Hfail in E. discriminate.
        + intros E. apply Hself in E. destruct E; discriminate.
        + intros v0 E. apply Hval in E. congruence.
      - destruct m.
        + rewrite Hl3. reflexivity.
        + rewrite nth_upd_eq by auto. reflexivity.
      - rewrite Hl3. reflexivity.
      - rewrite Hl3. reflexivity. }
    split; [|split; [|split]].
    + rewrite settle_length. lia.
    + intros k Hk.
      assert (k <> l) as Hkl by (intros ->; rewrite Hn in Hk; discriminate).
      rewrite settle_other by auto.
      assert (nth_error ls1 k = nth_error ls k) as E1 by (apply nth_upd_neq; auto).
      destruct (Hnt k) as [Ha Hb']; [rewrite E1; auto|].
      split; [congruence|].
      simpl. destruct (Nat.eqb_spec l k); [congruence|].
      rewrite !runs_app, (runs_bump _ _ _ _ _ k Hb), Hb'. reflexivity.
    + intros k b0 Hk.
      destruct (Nat.eq_dec k l) as [->|Hkl].
      * right. rewrite Hn in Hk. inversion Hk; subst b0. split; auto.
        simpl. rewrite Nat.eqb_refl, !runs_app, (runs_bump _ _ _ _ _ l Hb), Hr3. reflexivity.
      * assert (nth_error ls1 k = nth_error ls k) as E1 by (apply nth_upd_neq; auto).
        rewrite settle_other by auto.
        assert (runs k (ERun tid l :: evb ++ evr ++ [EForce vis tid l r]) = runs k evr) as Er.
        { simpl. destruct (Nat.eqb_spec l k); [congruence|].
          rewrite !runs_app, (runs_bump _ _ _ _ _ k Hb). simpl. lia. }
        rewrite Er. apply Hth. congruence.
    + intros vis' t k res Hin.
      simpl in Hin. destruct Hin as [Hin|Hin]; [discriminate|].
      apply in_app_or in Hin. destruct Hin as [Hin|Hin].
      { exfalso. eapply in_bump_not_force; eauto. }
      apply in_app_or in Hin. destruct Hin as [Hin|Hin].
      * (* an event of the nested evaluation *)
        destruct (Hev _ _ _ _ Hin) as (Ht & Hk & Hok). split; auto.
        assert (same_kind res r) as Hkind by exact Hk.
        split; auto.
        destruct (Nat.eq_dec k l) as [->|Hkl].
        -- (* a nested force of l itself sees Blackhole tid *)
           rewrite Hl1, Hl3 in Hok. rewrite Hn.
           destruct res as [v| | |]; simpl in *; auto.
           ++ discriminate.
           ++ destruct r; simpl in Hkind; try contradiction.
              destruct m; simpl; [rewrite Hl3; auto|].
              rewrite nth_upd_eq by auto. auto.
           ++ destruct Hok as [(o & Ho & E)|[E _]]; [|discriminate].
              inversion E; subst. congruence.
        -- rewrite settle_other by auto.
           assert (nth_error ls1 k = nth_error ls k) as E1 by (apply nth_upd_neq; auto).
           rewrite E1 in Hok. exact Hok.
      * (* the event of this call *)
        simpl in Hin. destruct Hin as [Hin|[]]. inversion Hin; subst vis' t k res.
        split; auto. split; [apply same_kind_refl|].
        rewrite Hn.
        destruct r as [v| | |]; simpl; auto.
        -- apply nth_upd_eq; auto.
        -- destruct m; [right; exact Hl3|]. left. apply nth_upd_eq; auto.
  - (* body: value *) apply lazy_spec_quiet; auto.
  - (* body: fail *) apply lazy_spec_quiet; auto.
  - (* body: force j *)
    destruct IHforce_shape as (Hlen & Hnt & Hth & Hev).
    unfold lazy_spec. split; [|split; [|split]]; auto.
    intros vis' t k res Hin. apply Hev in Hin. destruct Hin as (Ht & Hk & Hok).
    split; auto. split; auto. apply same_kind_lift. auto.
Qed.

Lemma thunk_lazy_spec m tid lr rs ls rs' ls' ev r :
  thunk_shape m tid lr rs ls rs' ls' ev r -> lazy_spec m tid ls ls' ev r.
Proof.
  intros H. inversion H; subst.
  - apply lazy_spec_quiet; auto.
  - apply lazy_spec_quiet; auto.
  - apply force_lazy_spec in H0. destruct H0 as (Hlen & Hnt & Hth & Hev).
    unfold lazy_spec. split; [|split; [|split]]; auto.
    intros vis' t k res Hin. apply Hev in Hin. destruct Hin as (Ht & Hk & Hok).
    split; auto. split; auto. apply same_kind_lift. auto.
Qed.

(* ---- the fuel of [bstep] is enough: the model never reports FFuel ---- *)
Fixpoint thunks (ls : list lstate) : nat :=
  match ls with
  | [] => 0
  | LThunk _ :: t => S (thunks t)
  | _ :: t => thunks t
  end.

Lemma thunks_le_length ls : thunks ls <= length ls.
Proof. induction ls as [|[b|o|v|] t IH]; simpl; lia. Qed.

Lemma thunks_upd_bh : forall ls l tid b, nth_error ls l = Some (LThunk b) ->
  S (thunks (upd l (LBlackhole tid) ls)) = thunks ls.
Proof.
  induction ls as [|x t IH]; intros [|l] tid b H; simpl in *; try discriminate.
  - inversion H; subst. reflexivity.
  - destruct x; simpl; erewrite <- (IH l tid b); eauto.
Qed.

Lemma force_fuel_ok m fuel : forall tid vis l rs ls rs' ls' ev r,
  thunks ls < fuel -> force m fuel tid vis l rs ls = (rs', ls', ev, r) ->
  r <> FFuel /\ (forall vis' t k, ~ In (EForce vis' t k FFuel) ev).
Proof.
  induction fuel as [|fuel IH]; intros tid vis l rs ls rs' ls' ev r Hlt H; [lia|].
  cbn [force] in H.
  destruct (nth_error ls l) as [[b|o|v|]|] eqn:En; cbv beta iota in H.
  - destruct (do_bump tid (lb_bump b) rs) as [rs2 evb] eqn:Eb; cbv beta iota in H.
    assert (forall vis' t k, ~ In (EForce vis' t k FFuel) evb) as Hbump.
    { intros. eapply in_bump_not_force; eauto. }
    destruct (lb_res b) as [v| |j] eqn:Er; cbv beta iota in H.
    + injection H as <- <- <- <-. split; [discriminate|].
      intros vis' t k [Hin|Hin]; [discriminate|].
      apply in_app_or in Hin as [Hin|Hin]; [eapply Hbump; eauto|].
      simpl in Hin. destruct Hin as [Hin|[]]. discriminate.
    + injection H as <- <- <- <-. split; [discriminate|].
      intros vis' t k [Hin|Hin]; [discriminate|].
      apply in_app_or in Hin as [Hin|Hin]; [eapply Hbump; eauto|].
      simpl in Hin. destruct Hin as [Hin|[]]. discriminate.
    + destruct (force m fuel tid false j rs2 (upd l (LBlackhole tid) ls)) as [[[rs3 ls3] ev3] r3] eqn:Ef.
      cbv beta iota in H. injection H as <- <- <- <-.
      apply IH in Ef; [|pose proof (thunks_upd_bh ls l tid b En); lia].
      destruct Ef as [Hr Hev].
      assert (lift_res r3 <> FFuel) as Hr' by (destruct r3; simpl; congruence).
      split; auto.
      intros vis' t k [Hin|Hin]; [discriminate|].
      apply in_app_or in Hin as [Hin|Hin]; [eapply Hbump; eauto|].
      apply in_app_or in Hin as [Hin|Hin]; [eapply Hev; eauto|].
      simpl in Hin. destruct Hin as [Hin|[]]. inversion Hin. congruence.
  - destruct (Nat.eqb o tid); injection H as <- <- <- <-; (split; [discriminate|]);
      intros vis' t k [Hin|[]]; discriminate.
  - injection H as <- <- <- <-. split; [discriminate|]. intros vis' t k [Hin|[]]; discriminate.
  - injection H as <- <- <- <-. split; [discriminate|]. intros vis' t k [Hin|[]]; discriminate.
  - injection H as <- <- <- <-. split; [discriminate|]. intros vis' t k [Hin|[]]; discriminate.
Qed.

(* ---- no foreign blackhole, no hang ---- *)
Definition owned_by (tid : nat) (ls : list lstate) : Prop :=
  forall k o, nth_error ls k = Some (LBlackhole o) -> o = tid.

Lemma lazy_spec_owned m tid ls ls' ev r :
  lazy_spec m tid ls ls' ev r -> owned_by tid ls -> owned_by tid ls'.
Proof.
  intros (Hlen & Hnt & Hth & Hev) Ho k o Hk.
  destruct (nth_error ls k) as [[b| | |]|] eqn:E.
  - destruct (Hth k b E) as [[E' _]|[_ Hran]]; [congruence|].
    rewrite Hk in Hran. exact Hran.
  - destruct (Hnt k) as [E' _]; [rewrite E; reflexivity|]. rewrite E', E in Hk. eapply Ho; eauto.
    rewrite E. exact Hk.
  - destruct (Hnt k) as [E' _]; [rewrite E; reflexivity|]. rewrite E', E in Hk. discriminate.
  - destruct (Hnt k) as [E' _]; [rewrite E; reflexivity|]. rewrite E', E in Hk. discriminate.
  - destruct (Hnt k) as [E' _]; [rewrite E; reflexivity|]. rewrite E', E in Hk. discriminate.
Qed.

Lemma owned_upd tid l ls : owned_by tid ls -> owned_by tid (upd l (LBlackhole tid) ls).
Proof.
  intros Ho k o Hk. rewrite nth_upd in Hk.
  destruct (Nat.eqb k l).
  - destruct (Nat.ltb l (length ls)); inversion Hk; auto.
  - eapply Ho; eauto.
Qed.

Lemma force_no_hang m tid vis l rs ls rs' ls' ev r :
  force_shape m tid vis l rs ls rs' ls' ev r -> owned_by tid ls ->
  r <> FHang /\ (forall vis' t k, ~ In (EForce vis' t k FHang) ev).
Proof.
  intros H.
  induction H using force_shape_ind2 with
    (P0 := fun lr rs ls rs' ls' ev r => owned_by tid ls ->
             r <> FHang /\ (forall vis' t k, ~ In (EForce vis' t k FHang) ev));
    intros Ho; try (split; [discriminate|]; intros vis' t k [Hin|[]]; discriminate).
  - exfalso. apply H0. eapply Ho; eauto.
  - destruct IHforce_shape as [Hr Hev]; [apply owned_upd; auto|].
    split; auto.
    intros vis' t k [Hin|Hin]; [discriminate|].
    apply in_app_or in Hin as [Hin|Hin]; [eapply in_bump_not_force; eauto|].
    apply in_app_or in Hin as [Hin|Hin]; [eapply Hev; eauto|].
    simpl in Hin. destruct Hin as [Hin|[]]. inversion Hin. congruence.
  - split; [discriminate|]. intros vis' t k [].
  - split; [discriminate|]. intros vis' t k [].
  - destruct (IHforce_shape Ho) as [Hr Hev]. split; auto.
    destruct r; simpl; congruence.
Qed.

(* mode Fixed: a call of [force] that neither hangs nor runs out of fuel leaves no new
   blackhole behind *)
Lemma force_fixed_clears tid vis l rs ls rs' ls' ev r :
  force_shape Fixed tid vis l rs ls rs' ls' ev r ->
  (forall vis' t k, ~ In (EForce vis' t k FFuel) ev) ->
  (forall vis' t k, ~ In (EForce vis' t k FHang) ev) ->
  forall k o, nth_error ls' k = Some (LBlackhole o) -> nth_error ls k = Some (LBlackhole o).
Proof.
  intros H.
  induction H using force_shape_ind2 with
    (P0 := fun lr rs ls rs' ls' ev r =>
      (forall vis' t k, ~ In (EForce vis' t k FFuel) ev) ->
      (forall vis' t k, ~ In (EForce vis' t k FHang) ev) ->
      forall k o, nth_error ls' k = Some (LBlackhole o) -> nth_error ls k = Some (LBlackhole o));
    intros Hnf Hnh k0 o0 Hk; auto.
  assert (forall vis' t k res, In (EForce vis' t k res) evr ->
            In (EForce vis' t k res) (ERun tid l :: evb ++ evr ++ [EForce vis tid l r])) as Hsub.
  { intros. right. apply in_or_app. right. apply in_or_app. left. auto. }
  assert (In (EForce vis tid l r) (ERun tid l :: evb ++ evr ++ [EForce vis tid l r])) as Hown.
  { right. apply in_or_app. right. apply in_or_app. right. left. reflexivity. }
  assert (forall k o, nth_error ls3 k = Some (LBlackhole o) ->
            nth_error (upd l (LBlackhole tid) ls) k = Some (LBlackhole o)) as IH.
  { apply IHforce_shape.
    - intros vis' t k Hin. eapply Hnf; eauto.
    - intros vis' t k Hin. eapply Hnh; eauto. }
  destruct (Nat.eq_dec k0 l) as [->|Hne].
  - exfalso. destruct r as [v| | |]; simpl in Hk.
    + rewrite nth_upd, Nat.eqb_refl in Hk. destruct (Nat.ltb l (length ls3)); discriminate.
    + rewrite nth_upd, Nat.eqb_refl in Hk. destruct (Nat.ltb l (length ls3)); discriminate.
    + eapply Hnh; eauto.
    + eapply Hnf; eauto.
  - rewrite settle_other in Hk by auto. apply IH in Hk. rewrite nth_upd_neq in Hk; auto.
Qed.

(* ------------------------------------------------------------------------------------ *)
(* the invariant of every run, between any two basic operations                         *)
(* ------------------------------------------------------------------------------------ *)
Definition no_bh (ls : list lstate) : Prop := forall k o, nth_error ls k <> Some (LBlackhole o).

(* what the cell of [lazy b] (allocated as number k) can look like *)
Definition created_ok (k : nat) (b : lbody) (x : option lstate) : Prop :=
  match x with
  | Some (LThunk b') => b' = b
  | Some (LValue v) =>
      lb_res b <> RFail /\ lb_res b <> RForce k /\ (forall v0, lb_res b = RVal v0 -> v = v0)
  | Some _ => True
  | None => False
  end.

Record LInv (m : mode) (ls : list lstate) (tr : list event) : Prop := {
  li_ok : forall vis t k v, In (EForce vis t k (FOk v)) tr -> nth_error ls k = Some (LValue v);
  li_runs : forall k, runs k tr <= 1 /\
                      (is_thunk (nth_error ls k) = true -> runs k tr = 0) /\
                      (nth_error ls k = None -> runs k tr = 0);
  li_err : forall vis t k, In (EForce vis t k FErr) tr ->
             nth_error ls k = Some LFailed \/ nth_error ls k = Some (LBlackhole t);
  li_nofuel : forall vis t k, ~ In (EForce vis t k FFuel) tr;
  li_lazy : forall k b, In (ELazy k b) tr -> created_ok k b (nth_error ls k);
  li_mode : match m with
            | Fixed => no_bh ls /\ (forall vis t k, ~ In (EForce vis t k FHang) tr)
            | Faithful => forall k, nth_error ls k <> Some LFailed
            end
}.

Definition lazy_event (e : event) : bool :=
  match e with EForce _ _ _ _ | ERun _ _ | ELazy _ _ => true | _ => false end.

Lemma quiet_no_force ev : forallb (fun e => negb (lazy_event e)) ev = true ->
  (forall vis t k res, ~ In (EForce vis t k res) ev) /\ (forall k b, ~ In (ELazy k b) ev) /\
  (forall k, runs k ev = 0).
Proof.
  induction ev as [|e ev IH]; simpl; intros H.
  - repeat split; auto.
  - apply andb_true_iff in H as [He H]. destruct (IH H) as (A & B & C).
    repeat split.
    + intros vis t k res [E|E]; [subst e; discriminate|]. eapply A; eauto.
    + intros k b [E|E]; [subst e; discriminate|]. eapply B; eauto.
    + intros k. destruct e; simpl in He; try discriminate; auto.
Qed.

Lemma LInv_quiet m ls tr ev :
  forallb (fun e => negb (lazy_event e)) ev = true -> LInv m ls tr -> LInv m ls (tr ++ ev).
Proof.
  intros Hq [Hok Hruns Herr Hnf Hlz Hmode]. apply quiet_no_force in Hq as (A & B & C).
  split.
  - intros vis t k v Hin. apply in_app_or in Hin as [Hin|Hin]; [eauto|exfalso; eapply A; eauto].
  - intros k. rewrite runs_app, C, Nat.add_0_r. auto.
  - intros vis t k Hin. apply in_app_or in Hin as [Hin|Hin]; [eauto|exfalso; eapply A; eauto].
  - intros vis t k Hin. apply in_app_or in Hin as [Hin|Hin]; [eapply Hnf; eauto|eapply A; eauto].
  - intros k b Hin. apply in_app_or in Hin as [Hin|Hin]; [eauto|exfalso; eapply B; eauto].
  - destruct m; auto. destruct Hmode as [H1 H2]. split; auto.
    intros vis t k Hin. apply in_app_or in Hin as [Hin|Hin]; [eapply H2; eauto|eapply A; eauto].
Qed.

Lemma force_no_lazy_alloc m tid vis l rs ls rs' ls' ev r :
  force_shape m tid vis l rs ls rs' ls' ev r -> forall k b, ~ In (ELazy k b) ev.
Proof.
  intros H k b Hin. apply force_events_plain in H.
  rewrite forallb_forall in H. apply H in Hin. simpl in Hin. discriminate.
Qed.

Lemma created_ok_step m tid k b before after :
  created_ok k b before ->
  (is_thunk before = false -> after = before) ->
  (forall b', before = Some (LThunk b') -> after = Some (LThunk b') \/ ran_ok m tid k b' after) ->
  created_ok k b after.
Proof.
  intros Hc Hnt Hth. destruct before as [[b'| | |]|]; simpl in Hc.
  - subst b'. destruct (Hth b eq_refl) as [->|Hran]; simpl; auto.
    destruct after as [[b2|o|v|]|]; simpl in *; auto; contradiction.
  - rewrite Hnt by reflexivity. simpl. auto.
  - rewrite Hnt by reflexivity. simpl. auto.
  - rewrite Hnt by reflexivity. simpl. auto.
  - contradiction.
Qed.

(* one top-level call of force (what BForce does) preserves the invariant; in mode Fixed it
   does not hang *)
Lemma force_LInv m tid vis l rs ls rs' ls' ev r tr :
  LInv m ls tr ->
  force m (S (length ls)) tid vis l rs ls = (rs', ls', ev, r) ->
  LInv m ls' (tr ++ ev) /\ (m = Fixed -> r <> FHang).
Proof.
  intros [Hok Hruns Herr Hnf Hlz Hmode] Hf.
  assert (thunks ls < S (length ls)) as Hfuel by (pose proof (thunks_le_length ls); lia).
  pose proof (force_fuel_ok m _ _ _ _ _ _ _ _ _ _ Hfuel Hf) as [Hrf Hevf].
  apply force_has_shape in Hf.
  pose proof (force_lazy_spec _ _ _ _ _ _ _ _ _ _ Hf) as Hspec.
  pose proof Hspec as (Hlen & Hnt & Hth & Hev).
  assert (forall k, is_thunk (nth_error ls k) = false -> nth_error ls' k = nth_error ls k) as Hsame.
  { intros k Hk. apply Hnt; auto. }
  split.
  - split.
    + (* successful forces return the cached value *)
      intros vis' t k v Hin. apply in_app_or in Hin as [Hin|Hin].
      * pose proof (Hok _ _ _ _ Hin) as E. rewrite Hsame; rewrite E; auto.
      * apply Hev in Hin. destruct Hin as (_ & _ & Hfo). exact Hfo.
    + (* bodies run at most once *)
      intros k. rewrite runs_app. destruct (Hruns k) as (H1 & H2 & H3).
      destruct (nth_error ls k) as [[b| | |]|] eqn:E.
      * specialize (H2 eq_refl).
        destruct (Hth k b E) as [[E' Hr]|[Hr Hran]].
        -- rewrite E', Hr. simpl. repeat split; auto; try lia; try discriminate.
        -- rewrite Hr. repeat split; try lia.
           ++ intros Ht. destruct (nth_error ls' k) as [[b2| | |]|]; simpl in *; try discriminate; contradiction.
           ++ intros En. rewrite En in Hran. contradiction.
      * destruct (Hnt k) as [E' Hr]; [rewrite E; reflexivity|]. rewrite E', Hr, E. simpl.
        repeat split; try lia; try discriminate.
      * destruct (Hnt k) as [E' Hr]; [rewrite E; reflexivity|]. rewrite E', Hr, E. simpl.
        repeat split; try lia; try discriminate.
      * destruct (Hnt k) as [E' Hr]; [rewrite E; reflexivity|]. rewrite E', Hr, E. simpl.
        repeat split; try lia; try discriminate.
      * destruct (Hnt k) as [E' Hr]; [rewrite E; reflexivity|]. rewrite E', Hr, E. simpl.
        specialize (H3 eq_refl). repeat split; try lia; try discriminate.
    + (* failed forces *)
      intros vis' t k Hin. apply in_app_or in Hin as [Hin|Hin].
      * destruct (Herr _ _ _ Hin) as [E|E]; rewrite Hsame; rewrite E; auto.
      * apply Hev in Hin. destruct Hin as (-> & _ & Hfo). exact Hfo.
    + intros vis' t k Hin. apply in_app_or in Hin as [Hin|Hin]; [eapply Hnf; eauto|eapply Hevf; eauto].
    + intros k b Hin. apply in_app_or in Hin as [Hin|Hin].
      * apply (created_ok_step m tid k b (nth_error ls k)); auto.
        intros b' E. destruct (Hth k b' E) as [[E' _]|[_ Hran]]; auto.
      * exfalso. eapply force_no_lazy_alloc; eauto.
    + destruct m.
      * intros k E. destruct (nth_error ls k) as [[b| | |]|] eqn:E0.
        -- destruct (Hth k b E0) as [[E' _]|[_ Hran]]; [congruence|].
           rewrite E in Hran. simpl in Hran. discriminate.
        -- rewrite Hsame in E by (rewrite E0; reflexivity). congruence.
        -- rewrite Hsame in E by (rewrite E0; reflexivity). congruence.
        -- eapply Hmode; eauto.
        -- rewrite Hsame in E by (rewrite E0; reflexivity). congruence.
      * destruct Hmode as [Hbh Hnh].
        assert (owned_by tid ls) as Ho by (intros k o E; exfalso; eapply Hbh; eauto).
        destruct (force_no_hang _ _ _ _ _ _ _ _ _ _ Hf Ho) as [Hr Hevh].
        split.
        -- intros k o E. eapply Hbh. eapply force_fixed_clears; eauto.
        -- intros vis' t k Hin. apply in_app_or in Hin as [Hin|Hin]; [eapply Hnh; eauto|eapply Hevh; eauto].
  - intros ->. destruct Hmode as [Hbh Hnh].
    assert (owned_by tid ls) as Ho by (intros k o E; exfalso; eapply Hbh; eauto).
    destruct (force_no_hang _ _ _ _ _ _ _ _ _ _ Hf Ho) as [Hr _]. exact Hr.
Qed.

Lemma LInv_alloc m ls tr b :
  LInv m ls tr -> LInv m (ls ++ [LThunk b]) (tr ++ [ELazy (length ls) b]).
Proof.
  intros [Hok Hruns Herr Hnf Hlz Hmode].
  assert (forall k x, nth_error ls k = Some x -> nth_error (ls ++ [LThunk b]) k = Some x) as Hold.
  { intros k x E. rewrite nth_error_app1; auto. eapply nth_some_lt; eauto. }
  split.
  - intros vis t k v Hin. apply in_app_or in Hin as [Hin|[Hin|[]]]; [|discriminate]. eauto.
  - intros k. rewrite runs_app. simpl. rewrite Nat.add_0_r.
    destruct (Hruns k) as (H1 & H2 & H3). split; auto. split.
    + intros Ht. rewrite nth_snoc in Ht. destruct (Nat.eqb_spec k (length ls)) as [->|Hne].
      * apply H3. apply nth_error_None. lia.
      * auto.
    + intros En. apply H3. rewrite nth_snoc in En.
      destruct (Nat.eqb k (length ls)); [discriminate|auto].
  - intros vis t k Hin. apply in_app_or in Hin as [Hin|[Hin|[]]]; [|discriminate].
    destruct (Herr _ _ _ Hin) as [E|E]; [left|right]; eauto.
  - intros vis t k Hin. apply in_app_or in Hin as [Hin|[Hin|[]]]; [|discriminate]. eapply Hnf; eauto.
  - intros k b0 Hin. apply in_app_or in Hin as [Hin|[Hin|[]]].
    + specialize (Hlz _ _ Hin). destruct (nth_error ls k) as [x|] eqn:E; [|contradiction].
      rewrite (Hold _ _ E). exact Hlz.
    + inversion Hin; subst. rewrite nth_snoc, Nat.eqb_refl. reflexivity.
  - destruct m.
    + intros k E. rewrite nth_snoc in E. destruct (Nat.eqb k (length ls)); [discriminate|].
      eapply Hmode; eauto.
    + destruct Hmode as [Hbh Hnh]. split.
      * intros k o E. rewrite nth_snoc in E. destruct (Nat.eqb k (length ls)); [discriminate|].
        eapply Hbh; eauto.
      * intros vis t k Hin. apply in_app_or in Hin as [Hin|[Hin|[]]]; [|discriminate]. eapply Hnh; eauto.
Qed.

Lemma bstep_LInv m tid b st st' ev s tr :
  LInv m (lazies st) tr -> bstep m tid b st = (st', ev, s) ->
  LInv m (lazies st') (tr ++ ev) /\ threads st' = threads st /\ hung st' = hung st /\
  (m = Fixed -> s <> SHang).
Proof.
  intros HI. destruct b; cbn [bstep]; intros H.
  - destruct (nth_error (chans st) c); injection H as <- <- <-;
      (split; [apply LInv_quiet; auto|split; [|split]; auto; intros ? ?; discriminate]).
  - destruct (nth_error (chans st) c) as [[|v q]|]; injection H as <- <- <-;
      (split; [apply LInv_quiet; auto|split; [|split]; auto; intros ? ?; discriminate]).
  - destruct (nth_error (refs st) r); injection H as <- <- <-;
      (split; [apply LInv_quiet; auto|split; [|split]; auto; intros ? ?; discriminate]).
  - destruct (nth_error (refs st) r); injection H as <- <- <-;
      (split; [apply LInv_quiet; auto|split; [|split]; auto; intros ? ?; discriminate]).
  - destruct (force m (S (length (lazies st))) tid true l (refs st) (lazies st)) as [[[rs ls] ev'] r] eqn:Ef.
    injection H as <- <- <-. cbn [lazies threads hung set_rl].
    destruct (force_LInv _ _ _ _ _ _ _ _ _ _ _ HI Ef) as [HI' Hh].
    split; auto. split; [|split]; auto.
    intros Hm. specialize (Hh Hm). destruct r; congruence.
  - injection H as <- <- <-. split; [apply LInv_quiet; auto|split; [|split]; auto; intros ? ?; discriminate].
  - injection H as <- <- <-. split; [apply LInv_quiet; auto|split; [|split]; auto; intros ? ?; discriminate].
  - injection H as <- <- <-. split; [apply LInv_quiet; auto|split; [|split]; auto; intros ? ?; discriminate].
Qed.

Definition noblk (ths : list (nat * tstate)) : Prop := forall t, lookup t ths <> Some TBlocked.

Lemma noblk_setth y x ths : noblk ths -> x <> TBlocked -> noblk (setth y x ths).
Proof.
  intros Hn Hx t E. rewrite lookup_setth in E. destruct (Nat.eqb t y).
  - destruct (lookup y ths); [|discriminate]. inversion E; congruence.
  - eapply Hn; eauto.
Qed.

Lemma exec_LInv m tid b st st' ev s :
  exec_shape m tid b st st' ev s ->
  hung st' = hung st /\
  forall tr, LInv m (lazies st) tr ->
    LInv m (lazies st') (tr ++ ev) /\
    (m = Fixed -> s <> SHang /\ (noblk (threads st) -> noblk (threads st'))).
Proof.
  intros H.
  induction H using exec_shape_ind2 with
    (P0 := fun tid body st st' ev ts =>
       hung st' = hung st /\
       forall tr, LInv m (lazies st) tr ->
         LInv m (lazies st') (tr ++ ev) /\
         (m = Fixed -> ts <> TBlocked /\ (noblk (threads st) -> noblk (threads st')))).
  - split; auto. intros tr HI. split; [apply LInv_quiet; auto|]. intros _. split; [discriminate|auto].
  - (* basic *)
    assert (hung st' = hung st) as Hh.
    { destruct b; cbn [bstep] in H;
        repeat match goal with
               | H : context [match ?x with _ => _ end] |- _ => destruct x
               end; injection H as <- <- <-; reflexivity. }
    split; auto. intros tr HI.
    destruct (bstep_LInv _ _ _ _ _ _ _ _ HI H) as (HI1 & Ht1 & Hh1 & Hs1).
    split; auto. intros Hm. split; auto. rewrite Ht1. auto.
  - (* spawn *)
    split; auto. intros tr HI. split; [apply LInv_quiet; auto|]. intros _. split; [discriminate|].
    intros Hn t E. cbn [threads set_threads] in E. rewrite lookup_snoc in E.
    destruct (lookup t (threads st)) eqn:El.
    + inversion E; subst. eapply Hn; eauto.
    + destruct (Nat.eqb lab t); discriminate.
  - split; auto. intros tr HI. split; [apply LInv_quiet; auto|]. intros _. split; [discriminate|auto].
  - split; auto. intros tr HI. split; [apply LInv_quiet; auto|]. intros _. split; [discriminate|auto].
  - split; auto. intros tr HI. split; [apply LInv_quiet; auto|]. intros _. split; [discriminate|auto].
  - (* run *)
    destruct IHexec_shape as [Hh IH]. split; [exact Hh|].
    intros tr HI. destruct (IH tr HI) as [HI1 Hf].
    split.
    + rewrite app_assoc. apply LInv_quiet; auto.
    + intros Hm. destruct (Hf Hm) as [Hts Hn]. split; [discriminate|].
      intros Hn0. cbn [threads set_threads]. apply noblk_setth; auto.
      apply Hn. cbn [threads set_threads]. apply noblk_setth; auto. discriminate.
  - (* nil *)
    split; auto. intros tr HI. rewrite app_nil_r. split; auto. intros _. split; [discriminate|auto].
  - (* cont *)
    destruct IHexec_shape as [Hh1 IH1]. destruct IHexec_shape0 as [Hh2 IH2].
    split; [congruence|]. intros tr HI.
    destruct (IH1 tr HI) as [HI1 Hf1]. destruct (IH2 _ HI1) as [HI2 Hf2].
    split; [rewrite app_assoc; exact HI2|].
    intros Hm. destruct (Hf1 Hm) as [_ Hn1]. destruct (Hf2 Hm) as [Hts Hn2]. split; auto.
  - (* yield *)
    destruct IHexec_shape as [Hh1 IH1]. split; auto. intros tr HI.
    destruct (IH1 tr HI) as [HI1 Hf1]. split; auto.
    intros Hm. destruct (Hf1 Hm) as [_ Hn1]. split; [discriminate|auto].
  - (* hang *)
    destruct IHexec_shape as [Hh1 IH1]. split; auto. intros tr HI.
    destruct (IH1 tr HI) as [HI1 Hf1]. split; auto.
    intros Hm. destruct (Hf1 Hm) as [Hs _]. exfalso. apply Hs. reflexivity.
Qed.

Definition TInv (m : mode) (st : state) : Prop :=
  match m with
  | Fixed => hung st = false /\ noblk (threads st)
  | Faithful => True
  end.

Definition Inv (m : mode) (st : state) (tr : list event) : Prop :=
  LInv m (lazies st) tr /\ TInv m st.

Lemma step_Inv m st tr o st' ev :
  Inv m st tr -> step m st o = (st', ev) -> Inv m st' (tr ++ ev).
Proof.
  intros [HI HT]. unfold step. destruct (hung st) eqn:Eh.
  { intros H; injection H as <- <-. rewrite app_nil_r. split; auto. }
  destruct o as [b|v|b]; intros H.
  - destruct (exec m (fuel_for st b) 0 b st) as [[st1 ev1] s] eqn:Eb. injection H as <- <-.
    apply exec_has_shape, exec_LInv in Eb. destruct Eb as [Hh Hx].
    destruct (Hx tr HI) as [HI1 Hf].
    split.
    + destruct s; auto.
    + destruct m; simpl; auto. destruct HT as [HT1 HT2].
      destruct (Hf eq_refl) as [Hs Hn].
      destruct s; simpl; split; try congruence; auto.
  - injection H as <- <-. split; [apply LInv_quiet; auto|].
    destruct m; simpl in *; auto.
  - destruct (wf_lbody st b); injection H as <- <-.
    + split; [apply LInv_alloc; auto|]. destruct m; simpl in *; auto.
    + split; [apply LInv_quiet; auto|]. auto.
Qed.

Lemma Inv_init m : Inv m init [].
Proof.
  split.
  - split; simpl; try (intros; contradiction).
    + intros k. repeat split; auto.
    + intros vis t k [].
    + destruct m.
      * intros k. destruct k; simpl; discriminate.
      * split; [intros k o; destruct k; simpl; discriminate|intros vis t k []].
  - destruct m; simpl; auto. split; auto. intros t; simpl; discriminate.
Qed.

Theorem run_Inv : forall m ops, Inv m (final m ops) (trace m ops).
Proof.
  intros m ops. apply (run_inv m (Inv m)).
  - apply Inv_init.
  - intros. eapply step_Inv; eauto.
Qed.

(* ------------------------------------------------------------------------------------ *)
(* lazy values: the theorems                                                            *)
(* ------------------------------------------------------------------------------------ *)
(* the body of a lazy value starts at most once, whoever forces it, however often *)
Theorem lazy_once : forall m ops k, runs k (trace m ops) <= 1.
Proof. intros m ops k. destruct (run_Inv m ops) as [[_ Hr _ _ _ _] _]. apply Hr. Qed.

(* all successful forces of one lazy value — top level or nested, from any thread — agree *)
Theorem lazy_stable : forall m ops vis1 t1 vis2 t2 k a b,
  In (EForce vis1 t1 k (FOk a)) (trace m ops) ->
  In (EForce vis2 t2 k (FOk b)) (trace m ops) -> a = b.
Proof.
  intros m ops vis1 t1 vis2 t2 k a b H1 H2.
  destruct (run_Inv m ops) as [[Hok _ _ _ _ _] _].
  apply Hok in H1. apply Hok in H2. congruence.
Qed.

(* ... and the value is the one the body computes *)
Theorem lazy_value_is_body_result : forall m ops k bump v vis t a,
  In (ELazy k (mkBody bump (RVal v))) (trace m ops) ->
  In (EForce vis t k (FOk a)) (trace m ops) -> a = v.
Proof.
  intros m ops k bump v vis t a HL HF.
  destruct (run_Inv m ops) as [[Hok _ _ _ Hlz _] _].
  apply Hok in HF. apply Hlz in HL. rewrite HF in HL. simpl in HL.
  destruct HL as (_ & _ & HL). apply HL. reflexivity.
Qed.

Theorem force_never_out_of_fuel : forall m ops vis t k, ~ In (EForce vis t k FFuel) (trace m ops).
Proof. intros m ops. destruct (run_Inv m ops) as [[_ _ _ Hnf _ _] _]. exact Hnf. Qed.

(* a failing or self-dependent body never yields a value, in either mode *)
Theorem lazy_failing_body_never_value : forall m ops k b vis t v,
  In (ELazy k b) (trace m ops) -> lb_res b = RFail \/ lb_res b = RForce k ->
  ~ In (EForce vis t k (FOk v)) (trace m ops).
Proof.
  intros m ops k b vis t v HL Hb HF.
  destruct (run_Inv m ops) as [[Hok _ _ _ Hlz _] _].
  apply Hok in HF. apply Hlz in HL. rewrite HF in HL. simpl in HL.
  destruct HL as (H1 & H2 & _). destruct Hb; contradiction.
Qed.

Theorem lazy_failure_never_a_value : forall m ops k vis1 t1 vis2 t2 v,
  In (EForce vis1 t1 k FErr) (trace m ops) -> ~ In (EForce vis2 t2 k (FOk v)) (trace m ops).
Proof.
  intros m ops k vis1 t1 vis2 t2 v HE HF.
  destruct (run_Inv m ops) as [[Hok _ Herr _ _ _] _].
  apply Hok in HF. apply Herr in HE. destruct HE; congruence.
Qed.

(* ---- mode Fixed: the model with the failure stored in the cell ---- *)
Theorem fixed_never_hangs : forall ops,
  hung (final Fixed ops) = false /\
  (forall t, lookup t (threads (final Fixed ops)) <> Some TBlocked) /\
  (forall vis t k, ~ In (EForce vis t k FHang) (trace Fixed ops)).
Proof.
  intros ops. destruct (run_Inv Fixed ops) as [[_ _ _ _ _ [_ Hnh]] [Hh Hb]]. auto.
Qed.

Lemma fixed_force_result : forall ops vis t k r,
  In (EForce vis t k r) (trace Fixed ops) -> (exists v, r = FOk v) \/ r = FErr.
Proof.
  intros ops vis t k r H. destruct r as [v| | |]; eauto.
  - exfalso. eapply (proj2 (proj2 (fixed_never_hangs ops))); eauto.
  - exfalso. eapply force_never_out_of_fuel; eauto.
Qed.

(* once a force of k has reported an error, every force of k — before or after, nested or
   not, from any thread — reports an error: none returns a value, none hangs *)
Theorem lazy_failure_errors_everywhere : forall ops k vis1 t1 vis2 t2 r,
  In (EForce vis1 t1 k FErr) (trace Fixed ops) ->
  In (EForce vis2 t2 k r) (trace Fixed ops) -> r = FErr.
Proof.
  intros ops k vis1 t1 vis2 t2 r HE HF.
  destruct (fixed_force_result _ _ _ _ _ HF) as [[v ->]|]; auto.
  exfalso. eapply lazy_failure_never_a_value; eauto.
Qed.

(* a lazy value whose body fails, or forces the lazy value itself, makes every force an error *)
Theorem lazy_failing_body_errors_everywhere : forall ops k b vis t r,
  In (ELazy k b) (trace Fixed ops) -> lb_res b = RFail \/ lb_res b = RForce k ->
  In (EForce vis t k r) (trace Fixed ops) -> r = FErr.
Proof.
  intros ops k b vis t r HL Hb HF.
  destruct (fixed_force_result _ _ _ _ _ HF) as [[v ->]|]; auto.
  exfalso. eapply lazy_failing_body_never_value; eauto.
Qed.

Theorem lazy_self_loop_errors : forall ops k bump vis t r,
  In (ELazy k (mkBody bump (RForce k))) (trace Fixed ops) ->
  In (EForce vis t k r) (trace Fixed ops) -> r = FErr.
Proof. intros. eapply lazy_failing_body_errors_everywhere; eauto. Qed.

(* ---- mode Faithful: vm/src/lazy.rs as it is ---- *)
(* a failed evaluation leaves `Blackhole(evaluating thread)` in the cell for ever *)
Theorem faithful_failure_leaves_blackhole : forall ops vis t k,
  In (EForce vis t k FErr) (trace Faithful ops) ->
  nth_error (lazies (final Faithful ops)) k = Some (LBlackhole t).
Proof.
  intros ops vis t k H. destruct (run_Inv Faithful ops) as [[_ _ Herr _ _ Hm] _].
  destruct (Herr _ _ _ H) as [E|E]; auto. exfalso. eapply Hm; eauto.
Qed.

(* ... so only one thread ever sees the error *)
Theorem faithful_error_only_on_evaluating_thread : forall ops vis1 t1 vis2 t2 k,
  In (EForce vis1 t1 k FErr) (trace Faithful ops) ->
  In (EForce vis2 t2 k FErr) (trace Faithful ops) -> t1 = t2.
Proof.
  intros ops vis1 t1 vis2 t2 k H1 H2.
  apply faithful_failure_leaves_blackhole in H1, H2. congruence.
Qed.

(* ... the next force from that thread is an error (`<<loop>>`), from any other thread it never
   returns — after ANY history *)
Theorem lazy_failure_same_thread_errors : forall ops vis t k fuel tid vis',
  In (EForce vis t k FErr) (trace Faithful ops) ->
  let st := final Faithful ops in
  force Faithful (S fuel) tid vis' k (refs st) (lazies st) =
    (refs st, lazies st, [EForce vis' tid k (if Nat.eqb t tid then FErr else FHang)],
     if Nat.eqb t tid then FErr else FHang).
Proof.
  intros ops vis t k fuel tid vis' H st.
  apply faithful_failure_leaves_blackhole in H. subst st.
  cbn [force]. rewrite H. destruct (Nat.eqb t tid); reflexivity.
Qed.

Definition failing : lbody := mkBody None RFail.

(* the full statement "after a failed evaluation every force from any thread is an error" is
   false of the faithful model: a coroutine forcing a lazy value whose thunk failed on the main
   thread waits for ever ... *)
Theorem lazy_failure_other_thread_refuted :
  exists ops k t,
    In (ELazy k failing) (trace Faithful ops) /\
    In (EForce true 0 k FErr) (trace Faithful ops) /\
    In (EForce true t k FHang) (trace Faithful ops) /\
    lookup 0 (threads (final Faithful ops)) = Some TBlocked.
Proof.
  exists [OLazy failing; OB (BForce 0); OB (BSpawn 0 [BForce 0; BSend 0 1]); OB (BResume 0); OB (BResume 0)], 0, 1.
  vm_compute. repeat split; auto 10.
Qed.

(* ... and when the coroutine evaluated the failing thunk, the main thread — the whole
   program — hangs *)
Theorem lazy_failure_main_thread_hang_refuted :
  exists ops, hung (final Faithful ops) = true /\
              In (EForce true 0 0 FHang) (trace Faithful ops) /\
              hung (final Fixed ops) = false.
Proof.
  exists [OLazy failing; OB (BSpawn 0 [BForce 0]); OB (BResume 0); OB (BForce 0)].
  vm_compute. repeat split; auto 10.
Qed.

(* the same holds for a self-dependent thunk *)
Theorem lazy_self_loop_other_thread_refuted :
  exists ops, hung (final Faithful ops) = true /\
              In (ELazy 0 (mkBody None (RForce 0))) (trace Faithful ops).
Proof.
  exists [OLazy (mkBody None (RForce 0)); OB (BSpawn 0 [BForce 0]); OB (BResume 0); OB (BForce 0)].
  vm_compute. repeat split; auto 10.
Qed.

(* ------------------------------------------------------------------------------------ *)
(* coroutines: a finished thread is reported dead by every later resume                 *)
(* ------------------------------------------------------------------------------------ *)
Lemma force_no_resume m tid vis l rs ls rs' ls' ev r :
  force_shape m tid vis l rs ls rs' ls' ev r -> forall r0 t x, ~ In (EResume r0 t x) ev.
Proof.
  intros H.
  induction H using force_shape_ind2 with
    (P0 := fun lr rs ls rs' ls' ev r => forall r0 t x, ~ In (EResume r0 t x) ev);
    intros r0 t x Hin; try (destruct Hin as [Hin|[]]; discriminate); try (destruct Hin).
  - discriminate.
  - apply in_app_or in H2 as [Hin|Hin].
    + apply do_bump_cases in H0.
      destruct H0 as [[_ [->| ->]]|(r1 & v & _ & _ & _ & ->)]; simpl in Hin; intuition discriminate.
    + apply in_app_or in Hin as [Hin|[Hin|[]]]; [eapply IHforce_shape; eauto|discriminate].
  - eapply IHforce_shape; eauto.
Qed.

Lemma bstep_threads m tid b st st' ev s :
  bstep m tid b st = (st', ev, s) ->
  threads st' = threads st /\ forall r0 t x, ~ In (EResume r0 t x) ev.
Proof.
  destruct b; cbn [bstep]; intros H.
  - destruct (nth_error (chans st) c); injection H as <- <- <-;
      (split; auto; intros r0 t x [Hin|[]]; discriminate).
  - destruct (nth_error (chans st) c) as [[|v q]|]; injection H as <- <- <-;
      (split; auto; intros r0 t x [Hin|[]]; discriminate).
  - destruct (nth_error (refs st) r); injection H as <- <- <-;
      (split; auto; intros r0 t x [Hin|[]]; discriminate).
  - destruct (nth_error (refs st) r); injection H as <- <- <-;
      (split; auto; intros r0 t x [Hin|[]]; discriminate).
  - destruct (force m (S (length (lazies st))) tid true l (refs st) (lazies st)) as [[[rs ls] ev'] r] eqn:Ef.
    injection H as <- <- <-. split; auto.
    eapply force_no_resume. eapply force_has_shape; eauto.
  - injection H as <- <- <-. split; auto; intros r0 t x [Hin|[]]; discriminate.
  - injection H as <- <- <-. split; auto; intros r0 t0 x [Hin|[]]; discriminate.
  - injection H as <- <- <-. split; auto; intros r0 t x [Hin|[]]; discriminate.
Qed.

(* What one operation (with everything it resumes, transitively) does to a thread t:
   finished stays finished and is reported dead; running stays running; dead is reported only
   for a finished thread. *)
Definition done_spec (st st' : state) (ev : list event) : Prop :=
  forall t,
    (lookup t (threads st) = Some TDone ->
       lookup t (threads st') = Some TDone /\ forall r0 x, In (EResume r0 t x) ev -> x = RDead) /\
    (lookup t (threads st) = Some TRunning -> lookup t (threads st') = Some TRunning) /\
    (forall r0, In (EResume r0 t RDead) ev -> lookup t (threads st') = Some TDone).

Lemma done_spec_quiet st ev :
  (forall r0 t x, ~ In (EResume r0 t x) ev) -> done_spec st st ev.
Proof.
  intros Hq t. split; [|split]; auto.
  - intros Hd. split; auto. intros r0 x Hin. exfalso. eapply Hq; eauto.
  - intros r0 Hin. exfalso. eapply Hq; eauto.
Qed.

Lemma done_spec_trans st st1 st2 ev ev2 :
  done_spec st st1 ev -> done_spec st1 st2 ev2 -> done_spec st st2 (ev ++ ev2).
Proof.
  intros H1 H2 t. destruct (H1 t) as (A1 & B1 & C1). destruct (H2 t) as (A2 & B2 & C2).
  split; [|split].
  - intros Hd. destruct (A1 Hd) as [Hd1 E1]. destruct (A2 Hd1) as [Hd2 E2]. split; auto.
    intros r0 x Hin. apply in_app_or in Hin as [Hin|Hin]; eauto.
  - auto.
  - intros r0 Hin. apply in_app_or in Hin as [Hin|Hin]; eauto.
    apply C1 in Hin. apply A2 in Hin. tauto.
Qed.

Lemma exec_done m tid b st st' ev s :
  exec_shape m tid b st st' ev s -> done_spec st st' ev.
Proof.
  intros H.
  induction H using exec_shape_ind2 with
    (P0 := fun tid body st st' ev ts => done_spec st st' ev).
  - apply done_spec_quiet. intros r0 t x [Hin|[]]; discriminate.
  - (* basic *)
    destruct (bstep_threads _ _ _ _ _ _ _ H) as [Ht Hq].
    intros t. rewrite Ht. split; [|split]; auto.
    + intros Hd. split; auto. intros r0 x Hin. exfalso. eapply Hq; eauto.
    + intros r0 Hin. exfalso. eapply Hq; eauto.
  - (* spawn *)
    intros t. cbn [threads set_threads]. rewrite lookup_snoc. split; [|split].
    + intros Hd. rewrite Hd. split; auto. intros r0 x [Hin|[]]; discriminate.
    + intros Hd. rewrite Hd. reflexivity.
    + intros r0 [Hin|[]]; discriminate.
  - apply done_spec_quiet. intros r0 t x [Hin|[]]; discriminate.
  - (* dead *)
    intros t. split; [|split]; auto.
    + intros Hd. split; auto. intros r0 x [Hin|[]]. inversion Hin; subst; auto.
    + intros r0 [Hin|[]]. inversion Hin; subst; auto.
  - (* blocked *)
    intros t. split; [|split]; auto.
    + intros Hd. split; auto. intros r0 x [Hin|[]]. inversion Hin; subst. congruence.
    + intros r0 [Hin|[]]. discriminate.
  - (* run *)
    rename IHexec_shape into IH.
    assert (forall t, t <> y ->
              lookup t (threads (set_threads st (setth y TRunning (threads st)))) = lookup t (threads st)) as Hst0.
    { intros t Hne. cbn [threads set_threads]. apply lookup_setth_other; auto. }
    assert (lookup y (threads st1) = Some TRunning) as Hrun.
    { apply (IH y). cbn [threads set_threads]. eapply lookup_setth_same; eauto. }
    intros t. destruct (IH t) as (A & B & C). cbn [threads set_threads].
    split; [|split].
    + intros Hd.
      assert (t <> y) as Hne by (intros ->; destruct H0; congruence).
      rewrite <- Hst0 in Hd by auto. destruct (A Hd) as [Hd1 E1].
      rewrite lookup_setth_other by auto. split; auto.
      intros r0 x Hin. apply in_app_or in Hin as [Hin|[Hin|[]]]; eauto.
      inversion Hin; congruence.
    + intros Hd.
      assert (t <> y) as Hne by (intros ->; destruct H0; congruence).
      rewrite <- Hst0 in Hd by auto. rewrite lookup_setth_other by auto. auto.
    + intros r0 Hin. apply in_app_or in Hin as [Hin|[Hin|[]]]; [|discriminate].
      apply C in Hin. destruct (Nat.eq_dec t y) as [->|Hne]; [congruence|].
      rewrite lookup_setth_other by auto. exact Hin.
  - apply done_spec_quiet. intros r0 t x [].
  - eapply done_spec_trans; eauto.
  - exact IHexec_shape.
  - exact IHexec_shape.
Qed.

Lemma step_done_spec m st o st' ev : step m st o = (st', ev) -> done_spec st st' ev.
Proof.
  unfold step. destruct (hung st).
  { intros H; injection H as <- <-. apply done_spec_quiet. intros r0 t x []. }
  destruct o as [b|v|b]; intros H.
  - destruct (exec m (fuel_for st b) 0 b st) as [[st1 ev1] s] eqn:Eb. injection H as <- <-.
    apply exec_has_shape, exec_done in Eb. destruct s; exact Eb.
  - injection H as <- <-. apply (done_spec_quiet st). intros r0 t x [Hin|[]]; discriminate.
  - destruct (wf_lbody st b); injection H as <- <-;
      apply (done_spec_quiet st); intros r0 t x [Hin|[]]; discriminate.
Qed.

Lemma run_from_ext m ops : forall st tr,
  run_from m st tr ops = (fst (run_from m st [] ops), tr ++ snd (run_from m st [] ops)).
Proof.
  induction ops as [|o ops IH]; intros st tr; simpl.
  - rewrite app_nil_r. reflexivity.
  - destruct (step m st o) as [st1 ev]. rewrite (IH st1 (tr ++ ev)), (IH st1 ev).
    simpl. rewrite app_assoc. reflexivity.
Qed.

(* resume of a finished thread reports `Err "dead"` and changes nothing *)
Theorem resume_dead_reports : forall m ops t,
  lookup t (threads (final m ops)) = Some TDone -> hung (final m ops) = false ->
  step m (final m ops) (OB (BResume t)) = (final m ops, [EResume 0 t RDead]).
Proof.
  intros m ops t Hd Hh. unfold step, fuel_for. rewrite Hh. cbn [exec]. rewrite Hd. reflexivity.
Qed.

(* ... and it stays finished: whatever happens afterwards, every later resume of it — by the
   main thread or by any coroutine — reports dead *)
Theorem resume_dead_forever : forall m ops ops' t,
  lookup t (threads (final m ops)) = Some TDone ->
  lookup t (threads (final m (ops ++ ops'))) = Some TDone /\
  exists ext, trace m (ops ++ ops') = trace m ops ++ ext /\
              forall r0 x, In (EResume r0 t x) ext -> x = RDead.
Proof.
  intros m ops ops' t Hd. unfold final, trace, run in *.
  rewrite run_from_app, run_from_ext.
  set (st := fst (run_from m init [] ops)) in *.
  set (tr := snd (run_from m init [] ops)) in *.
  simpl fst; simpl snd.
  pose proof (run_from_inv m
    (fun s e => lookup t (threads s) = Some TDone /\ forall r0 x, In (EResume r0 t x) e -> x = RDead)) as HI.
  destruct (HI) with (ops := ops') (st := st) (tr := @nil event) as [H1 H2].
  - intros s e o s' ev [Ha Hb] Hs. apply step_done_spec in Hs.
    destruct (Hs t) as (A & _ & _). destruct (A Ha) as [Hc Hd'].
    split; auto. intros r0 x Hin. apply in_app_or in Hin as [Hin|Hin]; eauto.
  - split; auto. intros r0 x [].
  - split; auto. exists (snd (run_from m st [] ops')). split; auto.
Qed.

(* dead is only ever reported for a thread whose body ran to its end *)
Theorem resume_dead_only_when_done : forall m ops r0 t,
  In (EResume r0 t RDead) (trace m ops) -> lookup t (threads (final m ops)) = Some TDone.
Proof.
  intros m ops r0 t.
  apply (run_inv m (fun st tr => In (EResume r0 t RDead) tr -> lookup t (threads st) = Some TDone)).
  - intros [].
  - intros st tr o st' ev HP Hs Hin. apply step_done_spec in Hs. destruct (Hs t) as (A & _ & C).
    apply in_app_or in Hin as [Hin|Hin].
    + apply A; auto.
    + eapply C; eauto.
Qed.

(* `resume` only looks at the target (channel.rs:180-193): which thread issues the resume does
   not matter for what the resumed coroutine does — same final state, same events up to the
   `resumed` entry of the log that names the resumer. *)
Theorem resume_independent_of_resumer : forall m fuel tid tid' y st,
  fst (fst (exec m fuel tid (BResume y) st)) = fst (fst (exec m fuel tid' (BResume y) st)) /\
  snd (exec m fuel tid (BResume y) st) = snd (exec m fuel tid' (BResume y) st) /\
  removelast (snd (fst (exec m fuel tid (BResume y) st))) =
  removelast (snd (fst (exec m fuel tid' (BResume y) st))).
Proof.
  intros m [|f] tid tid' y st; cbn [exec]; auto.
  destruct (lookup y (threads st)) as [[body|body| | |]|]; auto.
  - destruct (run_with (exec m f) (S y) body (set_threads st (setth y TRunning (threads st))))
      as [[st1 ev1] ts]. cbn [fst snd]. rewrite !removelast_last. auto.
  - destruct (run_with (exec m f) (S y) body (set_threads st (setth y TRunning (threads st))))
      as [[st1 ev1] ts]. cbn [fst snd]. rewrite !removelast_last. auto.
Qed.
