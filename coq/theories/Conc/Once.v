(* C14 — "first requester computes, the others wait for the memo": executable definitions.

   What is modelled.  `global(name)` / `global_inner(name)` are memoised salsa queries
   (/repo/src/query.rs:379 `#[salsa::query_group] trait Compilation`, :716 `global_inner` evaluates the
   module body with `call_thunk_top` and promotes the value into the global heap).  Every importer
   works on a fork of the database (`CompilerDatabase::fork`, query.rs:155; taken in the `import!`
   macro, /repo/src/import.rs:530) and asks for the same key; salsa's runtime lets the first
   asker compute (`InProgress owner`) and makes the others wait for the memo (`Done v`).

   The model: a memo table [nat -> memo] (key = module), requesters [nat -> req] (any number: every
   natural is a requester id, those with an empty to-do list are idle), a log of body evaluations.
   A requester works through its list of imports; evaluating a body takes [cost m] further steps;
   the value MAY depend on who evaluates ([body m r]) — the theorems show that even then every
   requester sees one and the same value.  The scheduler is arbitrary (schedule = list of ids).

   NOT modelled: salsa revisions / invalidation (that is C15), dependencies between module bodies
   (a body importing modules is a nested requester; cycle detection is C15), panics in a body. *)
From Coq Require Import List Arith Bool.
Import ListNotations.

Inductive memo : Type :=
| NotStarted
| InProgress (owner : nat)
| Done (v : nat).

Inductive phase : Type :=
| Asking
| Computing (m : nat) (left : nat).

Record req : Type := mkR { todo : list nat; ph : phase; got : list (nat * nat) }.

Record st : Type := mkS {
  memos : nat -> memo;
  reqs : nat -> req;
  evals : list (nat * nat)   (* (module, evaluator), one entry per body evaluation started *)
}.

Definition upd {A : Type} (f : nat -> A) (i : nat) (x : A) : nat -> A :=
  fun j => if Nat.eqb j i then x else f j.

Section Protocol.
  Variable body : nat -> nat -> nat.   (* module -> evaluator -> value *)
  Variable cost : nat -> nat.          (* module -> number of extra steps the body takes *)

  Definition step (s : st) (r : nat) : st :=
    let q := reqs s r in
    match ph q with
    | Computing m (S k) =>
        mkS (memos s) (upd (reqs s) r (mkR (todo q) (Computing m k) (got q))) (evals s)
    | Computing m O =>
        let v := body m r in
        mkS (upd (memos s) m (Done v)) (upd (reqs s) r (mkR (todo q) Asking ((m, v) :: got q))) (evals s)
    | Asking =>
        match todo q with
        | [] => s
        | m :: rest =>
            match memos s m with
            | NotStarted =>
                mkS (upd (memos s) m (InProgress r))
                    (upd (reqs s) r (mkR rest (Computing m (cost m)) (got q)))
                    ((m, r) :: evals s)
            | InProgress _ => s                     (* wait for the owner *)
            | Done v =>
                mkS (memos s) (upd (reqs s) r (mkR rest Asking ((m, v) :: got q))) (evals s)
            end
        end
    end.

  Fixpoint run (s : st) (sched : list nat) : st :=
    match sched with
    | [] => s
    | r :: rest => run (step s r) rest
    end.

  Definition init (todos : nat -> list nat) : st :=
    mkS (fun _ => NotStarted) (fun r => mkR (todos r) Asking []) [].

  Definition complete (q : req) : bool :=
    match ph q, todo q with
    | Asking, [] => true
    | _, _ => false
    end.

  (* how often the body of [m] was evaluated *)
  Definition eval_count (s : st) (m : nat) : nat :=
    length (filter (fun e => Nat.eqb (fst e) m) (evals s)).

  (* work left for one requester / for requesters 0..n-1: the fuel of [once_progress] *)
  Definition work (q : req) : nat :=
    list_sum (map (fun m => cost m + 2) (todo q)) +
    match ph q with Asking => 0 | Computing _ k => k + 1 end.

  Fixpoint total_work (s : st) (n : nat) : nat :=
    match n with
    | O => 0
    | S k => total_work s k + work (reqs s k)
    end.

  (* k fair rounds over requesters 0..n-1 *)
  Fixpoint rounds (n k : nat) : list nat :=
    match k with
    | O => []
    | S j => seq 0 n ++ rounds n j
    end.

  Definition all_complete (s : st) (n : nat) : bool :=
    forallb (fun r => complete (reqs s r)) (seq 0 n).
End Protocol.
