(* C15 — modules: evaluated once, cycles rejected, reloads never stale.

   Executable model (definitions only; proofs are in ModulesProofs.v).

   What is modelled (gluon, /repo):
   * src/query.rs:80     State.inline_modules          -> [sources] (module name |-> text); a text is
                                                         abstracted to (imports, result kind, number)
   * src/query.rs:195    CompilationBase::add_module   -> [edit]: an Occupied entry with a different text
                                                         calls ModuleTextQuery.invalidate (new revision);
                                                         equal text returns early; a Vacant entry is
                                                         inserted WITHOUT a new revision ([NewNever] is the
                                                         code as it stands; [NewIfRequested], [NewAlways]
                                                         are repaired designs)
   * src/query.rs:548,603 typechecked_source_module / core_expr call report_untracked_read(), and
                         compiled_module is a `dependencies` (never memoised) query, so in every new
                         revision the first demand of global_inner(m) re-executes it: a memo entry is
                         reused iff it was verified in the current revision ([fresh_entry]).  Recorded
                         dependencies therefore never allow reuse across revisions and are not
                         represented.  The tie checks this through the exact set of module bodies run
                         by each evaluation (an unaffected sibling IS re-run after any edit).
   * src/import.rs:95    DefaultImporter::import       -> global(m) then module_type(m): a failed import
                                                         still yields the salvaged type of the module
                                                         ([Failed _ (Some k)])
   * vm/src/macros.rs:478 MacroExpander::expand        -> every import! of a module is expanded, also
                                                         after an earlier one failed; errors are collected
                                                         in source order ([combine] concatenates causes)
   * src/query.rs:447-510 recover_cycle*               -> a module demanded while it is in progress yields
                                                         CyclicDependency ([CCyclic])
   * src/query.rs:707    global_inner                  -> the body is run only if all imports succeeded and
                                                         the module type checks ([is_value] -> evaluated) *)
From Coq Require Import List ZArith Bool Arith.
Import ListNotations.

Definition name := nat.

Inductive kind := KInt | KStr.

(* A module text: `let d_i = import! m_i` for each import, then a body that is either
   `tick m + d_1 + ... + d_k + n` (KInt: every import must be an Int) or `tick_s m n` (KStr). *)
Record source := mkSource { imports : list name; skind : kind; snum : Z }.

(* Finite maps from module names: a list indexed by the name. *)
Definition get {A : Type} (l : list (option A)) (n : nat) : option A := nth n l None.

Fixpoint set_nth {A : Type} (l : list (option A)) (n : nat) (a : A) : list (option A) :=
  match n, l with
  | O, [] => [Some a]
  | O, _ :: r => Some a :: r
  | S n', [] => None :: set_nth [] n' a
  | S n', x :: r => x :: set_nth r n' a
  end.

Definition sources := list (option source).
Definition lookup (G : sources) (m : name) : option source := get G m.

Definition kind_eqb (a b : kind) : bool :=
  match a, b with KInt, KInt => true | KStr, KStr => true | _, _ => false end.

Fixpoint names_eqb (a b : list name) : bool :=
  match a, b with
  | [], [] => true
  | x :: a', y :: b' => Nat.eqb x y && names_eqb a' b'
  | _, _ => false
  end.

Definition source_eqb (a b : source) : bool :=
  names_eqb (imports a) (imports b) && kind_eqb (skind a) (skind b) && Z.eqb (snum a) (snum b).

(* ------------------------------------------------------------------ results *)

Inductive value := VInt (z : Z) | VStr (z : Z).

Inductive cause :=
| CCyclic (c : list name)   (* c = the import chain: each member imports the next, the last imports the first *)
| CMissing (m : name)       (* no source for m *)
| CType (m : name).         (* the body of m is ill-typed (adds a String import) *)

(* [Failed cs ty]: the root causes in discovery order, and the salvaged type of the module if known *)
Inductive result := Value (v : value) | Failed (cs : list cause) (ty : option kind) | OutOfFuel.

Definition is_oof (r : result) : bool := match r with OutOfFuel => true | _ => false end.
Definition is_value (r : result) : bool := match r with Value _ => true | _ => false end.
Definition causes_of (r : result) : list cause := match r with Failed cs _ => cs | _ => [] end.
Definition type_of (r : result) : option kind :=
  match r with
  | Value (VInt _) => Some KInt
  | Value (VStr _) => Some KStr
  | Failed _ ty => ty
  | OutOfFuel => None
  end.
Definition is_str (r : result) : bool := match type_of r with Some KStr => true | _ => false end.
Definition int_of (r : result) : Z := match r with Value (VInt z) => z | _ => 0%Z end.

(* The result of a module given the results of its imports (in source order). *)
Definition combine (m : name) (s : source) (rs : list result) : result :=
  if existsb is_oof rs then OutOfFuel
  else
    let cs := flat_map causes_of rs in
    let ty := match skind s with
              | KInt => if existsb is_str rs then [CType m] else []
              | KStr => []
              end in
    match cs ++ ty with
    | [] => Value (match skind s with
                   | KInt => VInt (fold_right Z.add (snum s) (map int_of rs))
                   | KStr => VStr (snum s)
                   end)
    | l => Failed l (Some (skind s))
    end.

(* --------------------------------------------------- fresh evaluation (DFS) *)

Fixpoint memb (m : name) (l : list name) : bool :=
  match l with [] => false | x :: r => Nat.eqb x m || memb m r end.

(* the part of the stack above (more recent than) m; the stack has its most recent member first *)
Fixpoint prefix_to (st : list name) (m : name) : list name :=
  match st with
  | [] => []
  | x :: r => if Nat.eqb x m then [] else x :: prefix_to r m
  end.

Definition cycle_of (st : list name) (m : name) : list name := m :: rev (prefix_to st m).

Fixpoint eval (G : sources) (fuel : nat) (st : list name) (m : name) : result :=
  match fuel with
  | O => OutOfFuel
  | S f =>
    if memb m st then Failed [CCyclic (cycle_of st m)] None
    else match lookup G m with
         | None => Failed [CMissing m] None
         | Some s => combine m s (map (eval G f (m :: st)) (imports s))
         end
  end.

Definition fuel_for (G : sources) : nat := S (length G).

(* What a fresh VM given the sources G answers for `import! m`. *)
Definition fresh_eval (G : sources) (m : name) : result := eval G (fuel_for G) [] m.

(* ------------------------------------------------------ incremental engine *)

Record entry := mkEntry { e_rev : nat; e_res : result }.
Definition memo := list (option entry).

(* a memo entry is reused iff it was verified in the current revision *)
Definition fresh_entry (rev : nat) (o : option entry) : option result :=
  match o with
  | Some en => if Nat.eqb (e_rev en) rev then Some (e_res en) else None
  | None => None
  end.

Fixpoint inc_list (step : memo -> name -> memo * result * list name) (mm : memo) (ms : list name)
  : memo * list result * list name :=
  match ms with
  | [] => (mm, [], [])
  | x :: xs =>
    let '(mm1, r, ev1) := step mm x in
    let '(mm2, rs, ev2) := inc_list step mm1 xs in
    (mm2, r :: rs, ev1 ++ ev2)
  end.

(* [inc G rev fuel mm st m] = (memo afterwards, result, bodies run now in completion order) *)
Fixpoint inc (G : sources) (rev : nat) (fuel : nat) (mm : memo) (st : list name) (m : name)
  : memo * result * list name :=
  match fuel with
  | O => (mm, OutOfFuel, [])
  | S f =>
    if memb m st then (mm, Failed [CCyclic (cycle_of st m)] None, [])
    else
      match fresh_entry rev (get mm m) with
      | Some r => (mm, r, [])
      | None =>
        match lookup G m with
        | None =>
          let r := Failed [CMissing m] None in
          (set_nth mm m (mkEntry rev r), r, [])
        | Some s =>
          let '(mm1, rs, ev) := inc_list (fun mm' x => inc G rev f mm' (m :: st) x) mm (imports s) in
          let r := combine m s rs in
          (set_nth mm1 m (mkEntry rev r), r, ev ++ (if is_value r then [m] else []))
        end
      end
  end.

Record engine := mkEngine { srcs : sources; revn : nat; memt : memo }.

Definition empty_engine : engine := mkEngine [] 0 [].

(* What add_module does when the module had no source yet (hash_map::Entry::Vacant, src/query.rs:213):
   NewNever        the code as it stands: the text is inserted, no new revision;
   NewIfRequested  a repaired design: a new revision iff the module was requested before (its
                   module_text slot exists, i.e. the memo table has an entry for it);
   NewAlways       another repaired design: a new revision for every first definition.
   (Neither repair is a one-line change of add_module: calling invalidate there while other tasks
   hold database snapshots deadlocks, see the C15 report.) *)
Inductive policy := NewNever | NewIfRequested | NewAlways.

Definition bump_new (p : policy) (mm : memo) (m : name) : bool :=
  match p with
  | NewNever => false
  | NewAlways => true
  | NewIfRequested => match get mm m with Some _ => true | None => false end
  end.

(* add_module: an Occupied entry with a different text calls ModuleTextQuery.invalidate (new
   revision), an equal text returns early. *)
Definition edit (p : policy) (e : engine) (m : name) (s : source) : engine :=
  match lookup (srcs e) m with
  | Some old =>
    if source_eqb old s then e
    else mkEngine (set_nth (srcs e) m s) (S (revn e)) (memt e)
  | None =>
    mkEngine (set_nth (srcs e) m s) (if bump_new p (memt e) m then S (revn e) else revn e) (memt e)
  end.

Definition inc_eval (e : engine) (m : name) : engine * result * list name :=
  let '(mm, r, ev) := inc (srcs e) (revn e) (fuel_for (srcs e)) (memt e) [] m in
  (mkEngine (srcs e) (revn e) mm, r, ev).

Inductive op := Edit (m : name) (s : source) | Eval (m : name).

(* Runs a history; returns the final engine and, for every Eval, (result, bodies run). *)
Fixpoint run (p : policy) (e : engine) (h : list op) : engine * list (result * list name) :=
  match h with
  | [] => (e, [])
  | Edit m s :: h' => run p (edit p e m s) h'
  | Eval m :: h' =>
    let '(e1, r, ev) := inc_eval e m in
    let '(e2, out) := run p e1 h' in
    (e2, (r, ev) :: out)
  end.

(* Any number of queries without an edit in between; returns all bodies run. *)
Fixpoint queries (e : engine) (ms : list name) : engine * list name :=
  match ms with
  | [] => (e, [])
  | m :: ms' =>
    let '(e1, _, ev) := inc_eval e m in
    let '(e2, evs) := queries e1 ms' in
    (e2, ev ++ evs)
  end.

(* ------------------------------------------------------ observable result *)

Definition is_cyclic (c : cause) : bool := match c with CCyclic _ => true | _ => false end.
Definition has_cyclic (cs : list cause) : bool := existsb is_cyclic cs.

(* Which cycle is named depends on where the traversal entered it, and salsa replaces the results
   of the members of a cycle by the recovery value; the observable result of a failing module that
   reaches a cycle is therefore just "cyclic". *)
Inductive cresult := CValue (v : value) | CCyc | CFail (cs : list cause) (ty : option kind) | COOF.

Definition canon (r : result) : cresult :=
  match r with
  | Value v => CValue v
  | Failed cs ty => if has_cyclic cs then CCyc else CFail cs ty
  | OutOfFuel => COOF
  end.

(* the cycles named by a result *)
Fixpoint cycles_of (cs : list cause) : list (list name) :=
  match cs with
  | [] => []
  | CCyclic c :: r => c :: cycles_of r
  | _ :: r => cycles_of r
  end.

(* ------------------------------------------- how a cycle is named (src/query.rs, the recover_cycle functions)

   recover_cycle / recover_cycle_salvage receive the participants of the cycle as query keys
   (`import("m")`, `global_inner("m")`, `typechecked_source_module(("m", None))`) and print
   `cycle -> module`.  Originally they kept the keys that start with `import(` and dropped the last
   one (the query that closes the cycle is listed first and last): [report_asis].  Since
   fixes/C15-cycle-chain-revalidated-import.patch (applied to /repo) `cycle_modules` keeps `import(`
   and `global_inner(` keys, removes adjacent duplicates and drops the closing entry: [report_fixed].

   Shape of the participant list (an ASSUMPTION about gluon-salsa, observed by instrumenting a
   scratch copy, not re-established on every run): for the cycle m1 -> ... -> mk -> m1 entered at
   m1, every member contributes global_inner and typechecked_source_module, and its `import` key only
   when that query is executed in this revision ([exec m]) rather than re-validated from an older
   memo.  The harness checks the implementation-side consequence on every run: the printed chain
   must be an import chain of the sources. *)

Inductive qkey := KImport (m : name) | KGlobal (m : name) | KTypecheck (m : name).

Definition key_name (k : qkey) : name :=
  match k with KImport m => m | KGlobal m => m | KTypecheck m => m end.
Definition is_import (k : qkey) : bool := match k with KImport _ => true | _ => false end.
Definition is_import_or_global (k : qkey) : bool :=
  match k with KImport _ => true | KGlobal _ => true | KTypecheck _ => false end.

Definition frame (exec : name -> bool) (m : name) : list qkey :=
  (if exec m then [KImport m] else []) ++ [KGlobal m; KTypecheck m].

Definition cycle_keys (exec : name -> bool) (c : list name) : list qkey :=
  match c with
  | [] => []
  | m1 :: rest =>
    KImport m1 :: KGlobal m1 :: KTypecheck m1 :: flat_map (frame exec) rest ++ [KImport m1]
  end.

(* the original extraction (before the patch) *)
Definition report_asis (ks : list qkey) : list name :=
  removelast (map key_name (filter is_import ks)).

(* Vec::dedup *)
Fixpoint dedup_adj (l : list name) : list name :=
  match l with
  | [] => []
  | a :: r =>
    match r with
    | [] => [a]
    | b :: _ => if Nat.eqb a b then dedup_adj r else a :: dedup_adj r
    end
  end.

(* src/query.rs `cycle_modules` (fixes/C15-cycle-chain-revalidated-import.patch): import and
   global_inner keys, dedup, drop the closing entry *)
Definition report_fixed (ks : list qkey) : list name :=
  let ms := dedup_adj (map key_name (filter is_import_or_global ks)) in
  match ms with
  | a :: _ :: _ => if Nat.eqb a (last ms a) then removelast ms else ms
  | _ => ms
  end.
