(* C14 — lock ordering excludes deadlock, under every schedule and for any number of threads. *)
From Coq Require Import List Arith Bool Lia.
From GV Require Import Conc.Locks.
Import ListNotations.

Definition wo (t : thread) : Prop := well_ordered (held t) (prog t) = true.

(* ---------- small list facts ---------- *)

Lemma list_max_In : forall l, l <> [] -> In (list_max l) l.
Proof.
  induction l as [|x r IH]; intros Hne; [congruence|].
  destruct r as [|y r'].
  - cbn. left. lia.
  - assert (Hr : y :: r' <> []) by congruence.
    specialize (IH Hr).
    change (list_max (x :: y :: r')) with (Nat.max x (list_max (y :: r'))).
    destruct (Nat.max_spec x (list_max (y :: r'))) as [[_ E]|[_ E]]; rewrite E.
    + right. exact IH.
    + left. reflexivity.
Qed.

Lemma list_max_ge : forall l x, In x l -> x <= list_max l.
Proof.
  intros l x Hin.
  assert (H : Forall (fun k => k <= list_max l) l) by (apply list_max_le; lia).
  rewrite Forall_forall in H. apply H. exact Hin.
Qed.

Lemma Forall_update : forall (A : Type) (P : A -> Prop) (f : A -> A) (l : list A) i,
  Forall P l -> (forall x, P x -> P (f x)) -> Forall P (update l i f).
Proof.
  intros A P f l. induction l as [|x r IH]; intros i HF Hf; cbn.
  - destruct i; constructor.
  - inversion HF as [|? ? Hx Hr]; subst.
    destruct i; constructor; auto.
Qed.

Lemma forallb_false_ex : forall (A : Type) (p : A -> bool) (l : list A),
  forallb p l = false -> exists x, In x l /\ p x = false.
Proof.
  intros A p l. induction l as [|x r IH]; cbn; intros H; [discriminate|].
  destruct (p x) eqn:E.
  - cbn in H. destruct (IH H) as [y [Hy Hp]]. exists y. auto.
  - exists x. auto.
Qed.

(* ---------- who holds what ---------- *)

Lemma holds_In : forall t c, holds t c = true <-> In c (held t).
Proof.
  intros t c. unfold holds. rewrite existsb_exists. split.
  - intros [x [Hin E]]. apply Nat.eqb_eq in E. subst. exact Hin.
  - intros Hin. exists c. split; [exact Hin|apply Nat.eqb_refl].
Qed.

Lemma taken_In : forall s c, taken s c = true <-> exists t, In t s /\ In c (held t).
Proof.
  intros s c. unfold taken. rewrite existsb_exists. split.
  - intros [t [Hin H]]. exists t. split; [exact Hin|apply holds_In; exact H].
  - intros [t [Hin H]]. exists t. split; [exact Hin|apply holds_In; exact H].
Qed.

Lemma In_all_held : forall s t c, In t s -> In c (held t) -> In c (flat_map held s).
Proof. intros s t c Ht Hc. apply in_flat_map. exists t. auto. Qed.

(* ---------- the discipline is an invariant ---------- *)

Lemma wo_step_thread : forall s t, wo t -> wo (step_thread s t).
Proof.
  intros s t H. unfold wo, step_thread in *.
  destruct (prog t) as [|i p] eqn:E; [rewrite E; exact H|].
  destruct i as [c|c|]; cbn [well_ordered] in H.
  - destruct (taken s c).
    + rewrite E. cbn [well_ordered]. exact H.
    + cbn [held prog]. apply andb_true_iff in H. tauto.
  - cbn [held prog]. exact H.
  - cbn [held prog]. exact H.
Qed.

Lemma wo_step : forall s i, Forall wo s -> Forall wo (step s i).
Proof.
  intros s i H. unfold step. apply Forall_update; [exact H|].
  intros x Hx. apply wo_step_thread. exact Hx.
Qed.

Lemma wo_run : forall sched s, Forall wo s -> Forall wo (run s sched).
Proof.
  induction sched as [|i r IH]; intros s H; cbn; [exact H|].
  apply IH. apply wo_step. exact H.
Qed.

Lemma wo_init : forall progs,
  Forall (fun p => well_ordered [] p = true) progs -> Forall wo (init progs).
Proof.
  intros progs H. unfold init. apply Forall_forall. intros t Ht.
  apply in_map_iff in Ht. destruct Ht as [p [E Hp]]. subst t.
  rewrite Forall_forall in H. unfold wo. cbn. apply H. exact Hp.
Qed.

(* a thread that holds something has something left to do *)
Lemma wo_held_unfinished : forall t c, wo t -> In c (held t) -> finishedb t = false.
Proof.
  intros t c H Hc. unfold wo in H. unfold finishedb.
  destruct (prog t) as [|i p]; [|reflexivity].
  cbn in H. destruct (held t); [contradiction|discriminate].
Qed.

(* the next acquisition of a disciplined thread is above everything it holds *)
Lemma wo_next_above : forall t c p x,
  wo t -> prog t = Acquire c :: p -> In x (held t) -> x < c.
Proof.
  intros t c p x H E Hx. unfold wo in H. rewrite E in H. cbn [well_ordered] in H.
  apply andb_true_iff in H. destruct H as [H _].
  rewrite forallb_forall in H. apply Nat.ltb_lt. apply H. exact Hx.
Qed.

(* ---------- the key step: the holder of the greatest held class is never blocked ---------- *)

Lemma top_holder_not_blocked : forall s t,
  Forall wo s -> In t s -> In (list_max (flat_map held s)) (held t) -> blocked s t = false.
Proof.
  intros s t Hwo Ht Hm.
  destruct (blocked s t) eqn:B; [|reflexivity]. exfalso.
  unfold blocked in B.
  destruct (prog t) as [|i p] eqn:E; [discriminate|].
  destruct i as [c|c|]; try discriminate.
  apply taken_In in B. destruct B as [t' [Ht' Hc]].
  assert (Hle : c <= list_max (flat_map held s))
    by (apply list_max_ge; eapply In_all_held; eauto).
  rewrite Forall_forall in Hwo.
  assert (Hlt : list_max (flat_map held s) < c)
    by (exact (wo_next_above t c p _ (Hwo t Ht) E Hm)).
  lia.
Qed.

Theorem no_deadlock_inv : forall s, Forall wo s -> deadlocked s = false.
Proof.
  intros s Hwo. destruct (deadlocked s) eqn:D; [|reflexivity]. exfalso.
  unfold deadlocked in D. apply andb_true_iff in D. destruct D as [Dex Dall].
  apply existsb_exists in Dex. destruct Dex as [t0 [Ht0 Hnf0]].
  apply negb_true_iff in Hnf0.
  rewrite forallb_forall in Dall.
  (* t0 is blocked, so some class is held: the set of held classes is not empty *)
  pose proof (Dall t0 Ht0) as B0. rewrite Hnf0 in B0. cbn in B0.
  assert (Hne : flat_map held s <> []).
  { unfold blocked in B0. destruct (prog t0) as [|i p]; [discriminate|].
    destruct i as [c|c|]; try discriminate.
    apply taken_In in B0. destruct B0 as [t' [Ht' Hc]].
    intros Hnil. pose proof (In_all_held s t' c Ht' Hc) as Hin. rewrite Hnil in Hin. exact Hin. }
  pose proof (list_max_In _ Hne) as Hmax.
  apply in_flat_map in Hmax. destruct Hmax as [t [Ht Hm]].
  pose proof (top_holder_not_blocked s t Hwo Ht Hm) as Hnb.
  rewrite Forall_forall in Hwo.
  pose proof (wo_held_unfinished t _ (Hwo t Ht) Hm) as Hnf.
  pose proof (Dall t Ht) as Bt. rewrite Hnf, Hnb in Bt. discriminate.
Qed.

(* Main theorem: any number of threads (length of [progs]), any schedule. *)
Theorem ordered_no_deadlock : forall (progs : list (list instr)) (sched : list nat),
  Forall (fun p => well_ordered [] p = true) progs ->
  deadlocked (run (init progs) sched) = false.
Proof.
  intros progs sched H. apply no_deadlock_inv. apply wo_run. apply wo_init. exact H.
Qed.

(* ---------- and therefore the system can always run to completion ---------- *)

Lemma remaining_cons : forall x r, remaining (x :: r) = length (prog x) + remaining r.
Proof. reflexivity. Qed.

Lemma remaining_update : forall (f : thread -> thread) s i t,
  nth_error s i = Some t ->
  remaining (update s i f) + length (prog t) = remaining s + length (prog (f t)).
Proof.
  intros f s. induction s as [|x r IH]; intros i t H.
  - destruct i; discriminate.
  - destruct i as [|j]; cbn in H.
    + inversion H; subst. cbn [update]. rewrite !remaining_cons. lia.
    + specialize (IH j t H). cbn [update]. rewrite !remaining_cons. lia.
Qed.

Lemma enabled_step_shrinks : forall s t,
  finishedb t = false -> blocked s t = false ->
  S (length (prog (step_thread s t))) = length (prog t).
Proof.
  intros s t Hf Hb. unfold finishedb in Hf. unfold blocked in Hb. unfold step_thread.
  destruct (prog t) as [|i p]; [discriminate|].
  destruct i as [c|c|]; cbn.
  - rewrite Hb. reflexivity.
  - reflexivity.
  - reflexivity.
Qed.

Lemma all_finished_or_enabled : forall s,
  Forall wo s ->
  all_finished s = true \/
  exists i t, nth_error s i = Some t /\ finishedb t = false /\ blocked s t = false.
Proof.
  intros s Hwo. destruct (all_finished s) eqn:A; [left; reflexivity|right].
  pose proof (no_deadlock_inv s Hwo) as D. unfold deadlocked in D.
  unfold all_finished in A.
  destruct (forallb_false_ex _ _ _ A) as [t0 [Ht0 Hf0]].
  assert (Eex : existsb (fun t => negb (finishedb t)) s = true).
  { apply existsb_exists. exists t0. rewrite Hf0. auto. }
  rewrite Eex in D. cbn in D.
  destruct (forallb_false_ex _ _ _ D) as [t [Ht Hp]].
  apply orb_false_iff in Hp. destruct Hp as [Hf Hb].
  destruct (In_nth_error _ _ Ht) as [i Hi].
  exists i, t. auto.
Qed.

Theorem can_finish_inv : forall n s,
  remaining s <= n -> Forall wo s -> exists sched, all_finished (run s sched) = true.
Proof.
  induction n as [|n IH]; intros s Hn Hwo.
  - destruct (all_finished_or_enabled s Hwo) as [A|[i [t [Hi [Hf Hb]]]]].
    + exists []. exact A.
    + exfalso.
      pose proof (remaining_update (step_thread s) s i t Hi) as R.
      pose proof (enabled_step_shrinks s t Hf Hb) as L. lia.
  - destruct (all_finished_or_enabled s Hwo) as [A|[i [t [Hi [Hf Hb]]]]].
    + exists []. exact A.
    + pose proof (remaining_update (step_thread s) s i t Hi) as R.
      pose proof (enabled_step_shrinks s t Hf Hb) as L.
      assert (Hn' : remaining (step s i) <= n) by (unfold step; lia).
      destruct (IH (step s i) Hn' (wo_step s i Hwo)) as [sched Hs].
      exists (i :: sched). exact Hs.
Qed.

(* From every reachable state some continuation of the schedule finishes every thread. *)
Theorem ordered_can_finish : forall (progs : list (list instr)) (sched : list nat),
  Forall (fun p => well_ordered [] p = true) progs ->
  exists sched', all_finished (run (run (init progs) sched) sched') = true.
Proof.
  intros progs sched H.
  apply (can_finish_inv (remaining (run (init progs) sched))); [lia|].
  apply wo_run. apply wo_init. exact H.
Qed.

(* the validator run on real logs implies the premise on every prefix-closed history *)
Lemma well_ordered_prefix_of_wo : forall p h, well_ordered h p = true -> well_ordered_prefix h p = true.
Proof.
  induction p as [|i p IH]; intros h H; [reflexivity|].
  destruct i as [c|c|]; cbn in *.
  - apply andb_true_iff in H. destruct H as [H1 H2]. rewrite H1. cbn. apply IH. exact H2.
  - apply IH. exact H.
  - apply IH. exact H.
Qed.

(* ---------- non-vacuity ---------- *)

(* Three threads in the shape of the real protocol: classes 1 = root context, 2 = child context,
   3 = GlobalVmState.gc.  T0 (a collecting root) takes 1 then 2; T1 (a child promoting a module
   value) takes 2 then 3; T2 takes 1 then 3. *)
Definition ex_progs : list (list instr) :=
  [ [Acquire 1; Step; Acquire 2; Step; Release 2; Release 1];
    [Acquire 2; Acquire 3; Step; Release 3; Release 2];
    [Step; Acquire 1; Acquire 3; Release 3; Release 1] ].

Example ex_progs_ordered : Forall (fun p => well_ordered [] p = true) ex_progs.
Proof. repeat constructor. Qed.

(* a concrete adversarial schedule: T0 takes 1, T1 takes 2, T0 and T2 then block, ... *)
Definition ex_sched : list nat := [0; 1; 0; 0; 2; 2; 0; 1; 1; 1; 0; 1; 0; 0; 0; 0; 2; 2; 2; 2].

Example ex_blocked_midway :
  let s := run (init ex_progs) [0; 1; 0; 0; 2; 2] in
  map (blocked s) s = [true; false; true] /\ deadlocked s = false.
Proof. vm_compute. split; reflexivity. Qed.

Example ex_runs_to_completion : all_finished (run (init ex_progs) ex_sched) = true.
Proof. vm_compute. reflexivity. Qed.

(* and the premise matters: two threads taking two classes in opposite orders do deadlock
   (this is the shape of two sibling threads locking each other's context, thread.rs:1337) *)
Definition abba_progs : list (list instr) :=
  [ [Acquire 1; Acquire 2; Release 2; Release 1];
    [Acquire 2; Acquire 1; Release 1; Release 2] ].

Example abba_not_ordered : map (well_ordered []) abba_progs = [true; false].
Proof. vm_compute. reflexivity. Qed.

Theorem unordered_can_deadlock :
  exists progs sched, deadlocked (run (init progs) sched) = true.
Proof. exists abba_progs, [0; 1]. vm_compute. reflexivity. Qed.

(* ---------- the protocol gluon actually follows on `Thread.context` (finding C14/F2) ----------
   class 1 = the root thread's context, class 2 = a child thread's context.
   * a collecting root: `Thread::collect` runs with its own context locked and
     `Roots::mark_child_roots` (thread.rs:395-433) then locks every descendant's context: 1, then 2;
   * a child that is handed a value rooted in the root thread (`RootedValue::vm_push`,
     api/mod.rs:1577, or `deep_clone_value`) runs with its own context locked and
     `can_share_values_with` (thread.rs:1337) locks the OTHER thread's context to read its
     generation: 2, then 1.
   The second program is not well ordered, and the pair deadlocks under the schedule [0; 1]
   (observed on the real implementation by the C14 harness: gdb shows exactly these two frames). *)
Definition gluon_collector : list instr := [Acquire 1; Acquire 2; Release 2; Release 1].
Definition gluon_value_push : list instr := [Acquire 2; Acquire 1; Release 1; Release 2].

Theorem context_lock_order_refuted :
  well_ordered [] gluon_collector = true /\
  well_ordered [] gluon_value_push = false /\
  exists sched, deadlocked (run (init [gluon_collector; gluon_value_push]) sched) = true.
Proof. split; [reflexivity|split; [reflexivity|]]. exists [0; 1]. vm_compute. reflexivity. Qed.
