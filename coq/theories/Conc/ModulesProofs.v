(* C15 — proofs about the module engine model (Conc/Modules.v). *)
From Coq Require Import List ZArith Bool Arith Lia.
From GV Require Import Conc.Modules.
Import ListNotations.

(* ------------------------------------------------------------------ finite maps *)

Lemma get_nil : forall (A : Type) n, @get A [] n = None.
Proof. intros A n. unfold get. destruct n; reflexivity. Qed.

Lemma get_set_same : forall (A : Type) (l : list (option A)) n a, get (set_nth l n a) n = Some a.
Proof.
  intros A l n. revert l. induction n as [|n IH]; intros l a; destruct l as [|x r]; simpl; try reflexivity.
  - apply (IH [] a).
  - apply (IH r a).
Qed.

Lemma get_set_other : forall (A : Type) (l : list (option A)) n k a, n <> k -> get (set_nth l n a) k = get l k.
Proof.
  intros A l n. revert l. induction n as [|n IH]; intros l k a Hne; destruct l as [|x r]; destruct k as [|k]; simpl;
    try reflexivity; try congruence.
  - unfold get. simpl. destruct k; reflexivity.
  - change (get (set_nth [] n a) k = @get A [] (S k)). rewrite IH by congruence. rewrite !get_nil. reflexivity.
  - change (get (set_nth r n a) k = get r k). apply IH. congruence.
Qed.

Lemma get_some_lt : forall (A : Type) (l : list (option A)) n a, get l n = Some a -> n < length l.
Proof.
  intros A l n a H. unfold get in H. destruct (Nat.lt_ge_cases n (length l)) as [Hlt|Hge]; [exact Hlt|].
  rewrite nth_overflow in H by exact Hge. discriminate.
Qed.

Lemma set_nth_same : forall (A : Type) (l : list (option A)) n a, get l n = Some a -> set_nth l n a = l.
Proof.
  intros A l n. revert l. induction n as [|n IH]; intros l a H; destruct l as [|x r]; simpl in *.
  - discriminate.
  - unfold get in H. simpl in H. subst x. reflexivity.
  - unfold get in H. simpl in H. discriminate.
  - f_equal. apply IH. exact H.
Qed.

Lemma memb_In : forall m l, memb m l = true <-> In m l.
Proof.
  intros m l. induction l as [|x r IH]; simpl.
  - split; [discriminate|tauto].
  - rewrite orb_true_iff, Nat.eqb_eq, IH. tauto.
Qed.

Lemma memb_not_In : forall m l, memb m l = false <-> ~ In m l.
Proof.
  intros m l. rewrite <- memb_In. destruct (memb m l); split; intros; try congruence.
Qed.

Lemma names_eqb_eq : forall a b, names_eqb a b = true -> a = b.
Proof.
  induction a as [|x a IH]; intros [|y b] H; simpl in H; try discriminate; try reflexivity.
  apply andb_true_iff in H. destruct H as [H1 H2]. apply Nat.eqb_eq in H1. f_equal; auto.
Qed.

Lemma source_eqb_eq : forall a b, source_eqb a b = true -> a = b.
Proof.
  intros [ia ka na] [ib kb nb] H. unfold source_eqb in H. simpl in H.
  apply andb_true_iff in H. destruct H as [H H3]. apply andb_true_iff in H. destruct H as [H1 H2].
  apply names_eqb_eq in H1. apply Z.eqb_eq in H3.
  destruct ka, kb; simpl in H2; try discriminate; subst; reflexivity.
Qed.

(* ------------------------------------------------------------------ the import graph *)

Definition edge (G : sources) (a b : name) : Prop :=
  exists s, lookup G a = Some s /\ In b (imports s).

(* an import chain of n edges starts at a *)
Inductive walk (G : sources) : name -> nat -> Prop :=
| walk0 : forall a, walk G a 0
| walkS : forall a b n, edge G a b -> walk G b n -> walk G a (S n).

(* an import chain of exactly k edges from a to b *)
Inductive steps (G : sources) : name -> name -> nat -> Prop :=
| steps0 : forall a, steps G a a 0
| stepsS : forall a b c k, edge G a b -> steps G b c k -> steps G a c (S k).

(* the evaluation stack (most recent first): every member imports the one above it, the top imports m *)
Fixpoint chain (G : sources) (st : list name) (m : name) : Prop :=
  match st with
  | [] => True
  | x :: r => edge G x m /\ chain G r x
  end.

Fixpoint linked (G : sources) (l : list name) : Prop :=
  match l with
  | a :: r => match r with
              | b :: _ => edge G a b /\ linked G r
              | [] => True
              end
  | [] => True
  end.

(* c is a genuine import cycle: each member imports the next, the last imports the first *)
Definition genuine (G : sources) (c : list name) : Prop :=
  exists h t, c = h :: t /\ linked G (c ++ [h]).

Lemma walk_le : forall G a n, walk G a n -> forall n', n' <= n -> walk G a n'.
Proof.
  intros G a n H. induction H as [a|a b n He Hw IH]; intros n' Hle.
  - assert (n' = 0) by lia. subst. constructor.
  - destruct n' as [|n']; [constructor|]. econstructor; [exact He|]. apply IH. lia.
Qed.

Lemma steps_walk : forall G a b k, steps G a b k -> forall n, walk G b n -> walk G a (k + n).
Proof.
  intros G a b k H. induction H as [a|a b c k He Hs IH]; intros n Hw; simpl.
  - exact Hw.
  - econstructor; [exact He|]. apply IH. exact Hw.
Qed.

Lemma steps_snoc : forall G a b k, steps G a b k -> forall c, edge G b c -> steps G a c (S k).
Proof.
  intros G a b k H. induction H as [a|a b c k He Hs IH]; intros d Hd.
  - econstructor; [exact Hd|constructor].
  - econstructor; [exact He|]. apply IH. exact Hd.
Qed.

Lemma steps_trans : forall G a b k, steps G a b k -> forall c j, steps G b c j -> steps G a c (k + j).
Proof.
  intros G a b k H. induction H as [a|a b c k He Hs IH]; intros d j Hd; simpl.
  - exact Hd.
  - econstructor; [exact He|]. apply IH. exact Hd.
Qed.

Lemma loop_walk : forall G m k, steps G m m (S k) -> forall n, walk G m n.
Proof.
  intros G m k Hl n. induction n as [|n IH].
  - constructor.
  - apply walk_le with (n := S k + n); [|lia]. apply steps_walk with (b := m); assumption.
Qed.

Lemma chain_steps : forall G st y x, chain G st y -> In x st -> exists k, steps G x y (S k).
Proof.
  intros G st. induction st as [|z r IH]; intros y x Hc Hin; simpl in *.
  - contradiction.
  - destruct Hc as [He Hc]. destruct Hin as [Heq|Hin].
    + subst z. exists 0. econstructor; [exact He|constructor].
    + destruct (IH z x Hc Hin) as [k Hk]. exists (S k). apply steps_snoc with (b := z); assumption.
Qed.

(* ------------------------------------------------------------------ result classes *)

Definition cf (r : result) : Prop :=
  match r with Value _ => True | Failed cs _ => has_cyclic cs = false | OutOfFuel => False end.

Definition cyc (r : result) : Prop :=
  match r with Failed cs _ => has_cyclic cs = true | _ => False end.

Lemma result_cases : forall r, r = OutOfFuel \/ cf r \/ cyc r.
Proof.
  intros [v|cs ty|]; simpl; auto. destruct (has_cyclic cs); auto.
Qed.

Lemma cf_not_cyc : forall r, cf r -> cyc r -> False.
Proof. intros [v|cs ty|]; simpl; intros; try contradiction; congruence. Qed.

Lemma canon_cyc : forall r, cyc r -> canon r = CCyc.
Proof. intros [v|cs ty|]; simpl; intros H; try contradiction. rewrite H. reflexivity. Qed.

Lemma canon_cyc_inv : forall r, canon r = CCyc -> cyc r.
Proof.
  intros [v|cs ty|]; simpl; intros H; try discriminate. destruct (has_cyclic cs); [reflexivity|discriminate].
Qed.

Lemma canon_cf_inj : forall a b, cf a -> b <> OutOfFuel -> canon a = canon b -> a = b.
Proof.
  intros a b Ha Hb H. destruct a as [va|ca ta|], b as [vb|cb tb|]; simpl in *; try contradiction; try congruence;
    try (rewrite Ha in H); try (destruct (has_cyclic cb)); try discriminate; try congruence.
Qed.

Lemma has_cyclic_app : forall a b, has_cyclic (a ++ b) = has_cyclic a || has_cyclic b.
Proof. intros. unfold has_cyclic. apply existsb_app. Qed.

Lemma has_cyclic_flat : forall rs,
  has_cyclic (flat_map causes_of rs) = existsb (fun r => has_cyclic (causes_of r)) rs.
Proof.
  induction rs as [|r rs IH]; simpl; [reflexivity|]. rewrite has_cyclic_app, IH. reflexivity.
Qed.

Definition ty_causes (m : name) (s : source) (rs : list result) : list cause :=
  match skind s with
  | KInt => if existsb is_str rs then [CType m] else []
  | KStr => []
  end.

Lemma ty_causes_not_cyclic : forall m s rs, has_cyclic (ty_causes m s rs) = false.
Proof. intros. unfold ty_causes. destruct (skind s); [destruct (existsb is_str rs)|]; reflexivity. Qed.

Lemma combine_unfold : forall m s rs,
  combine m s rs =
  if existsb is_oof rs then OutOfFuel
  else match flat_map causes_of rs ++ ty_causes m s rs with
       | [] => Value (match skind s with
                      | KInt => VInt (fold_right Z.add (snum s) (map int_of rs))
                      | KStr => VStr (snum s)
                      end)
       | l => Failed l (Some (skind s))
       end.
Proof. reflexivity. Qed.

Lemma combine_not_oof : forall m s rs, existsb is_oof rs = false -> combine m s rs <> OutOfFuel.
Proof.
  intros m s rs H. rewrite combine_unfold, H. destruct (flat_map causes_of rs ++ ty_causes m s rs); discriminate.
Qed.

Lemma combine_oof_inv : forall m s rs, combine m s rs <> OutOfFuel -> existsb is_oof rs = false.
Proof.
  intros m s rs H. rewrite combine_unfold in H. destruct (existsb is_oof rs); [congruence|reflexivity].
Qed.

Lemma no_oof_forall : forall rs, existsb is_oof rs = false <-> Forall (fun r => r <> OutOfFuel) rs.
Proof.
  induction rs as [|r rs IH]; simpl.
  - split; auto.
  - rewrite orb_false_iff, IH. split.
    + intros [H1 H2]. constructor; [|exact H2]. destruct r; simpl in H1; congruence.
    + intros H. inversion H; subst. split; [|assumption]. destruct r; simpl; congruence.
Qed.

(* the class of a combined result *)
Lemma combine_class : forall m s rs, existsb is_oof rs = false ->
  (has_cyclic (flat_map causes_of rs) = true -> cyc (combine m s rs)) /\
  (has_cyclic (flat_map causes_of rs) = false -> cf (combine m s rs)).
Proof.
  intros m s rs H. rewrite combine_unfold, H.
  pose proof (has_cyclic_app (flat_map causes_of rs) (ty_causes m s rs)) as Happ.
  rewrite ty_causes_not_cyclic, orb_false_r in Happ.
  destruct (flat_map causes_of rs ++ ty_causes m s rs) as [|c l] eqn:E.
  - simpl in Happ. split; intros Hc; simpl; [congruence|exact I].
  - split; intros Hc; cbn [cyc cf]; rewrite Happ; exact Hc.
Qed.

Lemma cyc_exists : forall rs, has_cyclic (flat_map causes_of rs) = true <-> Exists cyc rs.
Proof.
  intros rs. rewrite has_cyclic_flat. induction rs as [|r rs IH]; simpl.
  - split; [discriminate|intros H; inversion H].
  - rewrite orb_true_iff, IH. split.
    + intros [H|H]; [left|right; exact H]. destruct r; simpl in *; try discriminate. exact H.
    + intros H. inversion H; subst; [left|right; assumption]. destruct r; simpl in *; try contradiction. assumption.
Qed.

Lemma cf_forall : forall rs, existsb is_oof rs = false ->
  (has_cyclic (flat_map causes_of rs) = false <-> Forall cf rs).
Proof.
  intros rs. rewrite has_cyclic_flat. induction rs as [|r rs IH]; simpl; intros Ho.
  - split; auto.
  - apply orb_false_iff in Ho. destruct Ho as [Ho1 Ho2]. rewrite orb_false_iff, (IH Ho2). split.
    + intros [H1 H2]. constructor; [|exact H2]. destruct r; simpl in *; auto. discriminate.
    + intros H. inversion H; subst. split; [|assumption]. destruct r; simpl in *; auto.
Qed.

Lemma combine_cf_inv : forall m s rs, cf (combine m s rs) -> Forall cf rs.
Proof.
  intros m s rs H.
  assert (Ho : existsb is_oof rs = false).
  { apply (combine_oof_inv m s). intro E. rewrite E in H. exact H. }
  apply (cf_forall rs Ho). destruct (has_cyclic (flat_map causes_of rs)) eqn:E; [|reflexivity].
  exfalso. apply (cf_not_cyc (combine m s rs)); [exact H|]. apply (combine_class m s rs Ho); exact E.
Qed.

Lemma combine_cyc_inv : forall m s rs, cyc (combine m s rs) -> Exists cyc rs.
Proof.
  intros m s rs H.
  assert (Ho : existsb is_oof rs = false).
  { apply (combine_oof_inv m s). intro E. rewrite E in H. exact H. }
  apply cyc_exists. destruct (has_cyclic (flat_map causes_of rs)) eqn:E; [reflexivity|].
  exfalso. apply (cf_not_cyc (combine m s rs)); [|exact H]. apply (combine_class m s rs Ho); exact E.
Qed.

(* combine respects the observable equivalence *)
Definition same_obs (a b : result) : Prop := a <> OutOfFuel /\ b <> OutOfFuel /\ canon a = canon b.

Lemma same_obs_cyc : forall a b, same_obs a b -> (cyc a <-> cyc b).
Proof.
  intros a b (Ha & Hb & H). split; intros Hc.
  - apply canon_cyc_inv. rewrite <- H. apply canon_cyc. exact Hc.
  - apply canon_cyc_inv. rewrite H. apply canon_cyc. exact Hc.
Qed.

Lemma same_obs_no_oof : forall rs rs', Forall2 same_obs rs rs' ->
  existsb is_oof rs = false /\ existsb is_oof rs' = false.
Proof.
  intros rs rs' H. rewrite !no_oof_forall. induction H as [|a b l l' Hab Hl [IH1 IH2]].
  - split; constructor.
  - destruct Hab as (Ha & Hb & _). split; constructor; assumption.
Qed.

Lemma combine_same_obs : forall m s rs rs', Forall2 same_obs rs rs' -> same_obs (combine m s rs) (combine m s rs').
Proof.
  intros m s rs rs' H.
  destruct (same_obs_no_oof rs rs' H) as [Ho Ho'].
  split; [apply combine_not_oof; exact Ho|]. split; [apply combine_not_oof; exact Ho'|].
  destruct (has_cyclic (flat_map causes_of rs)) eqn:E.
  - (* some import is cyclic on both sides *)
    assert (E' : has_cyclic (flat_map causes_of rs') = true).
    { apply cyc_exists. apply cyc_exists in E. clear Ho Ho'. induction H.
      - inversion E.
      - inversion E; subst.
        + left. apply (same_obs_cyc _ _ H). assumption.
        + right. apply IHForall2. assumption. }
    rewrite (canon_cyc _ (proj1 (combine_class m s rs Ho) E)).
    rewrite (canon_cyc _ (proj1 (combine_class m s rs' Ho') E')). reflexivity.
  - (* no import is cyclic: the import results are equal *)
    assert (Heq : rs = rs').
    { apply (cf_forall rs Ho) in E. clear Ho Ho'. induction H; [reflexivity|].
      inversion E; subst. f_equal; [|apply IHForall2; assumption].
      destruct H as (_ & Hb & Hc). apply canon_cf_inj; assumption. }
    subst rs'. reflexivity.
Qed.

(* ------------------------------------------------------------------ fresh evaluation *)

Lemma eval_S : forall G f st m,
  eval G (S f) st m =
  if memb m st then Failed [CCyclic (cycle_of st m)] None
  else match lookup G m with
       | None => Failed [CMissing m] None
       | Some s => combine m s (map (eval G f (m :: st)) (imports s))
       end.
Proof. reflexivity. Qed.

(* A: a result that names no cycle does not depend on the stack, nor on extra fuel *)
Lemma eval_cf_stable : forall G f st m, cf (eval G f st m) ->
  forall f' st', f <= f' -> incl st' st -> eval G f' st' m = eval G f st m.
Proof.
  intros G f. induction f as [|f IH]; intros st m Hcf f' st' Hle Hincl.
  - simpl in Hcf. contradiction.
  - destruct f' as [|f']; [lia|]. rewrite (eval_S G f st m) in Hcf. rewrite (eval_S G f' st' m), (eval_S G f st m).
    destruct (memb m st) eqn:Em.
    + simpl in Hcf. discriminate.
    + assert (Em' : memb m st' = false).
      { apply memb_not_In. intro Hin. apply memb_not_In in Em. apply Em. apply Hincl. exact Hin. }
      rewrite Em'. destruct (lookup G m) as [s|]; [|reflexivity].
      apply combine_cf_inv in Hcf. f_equal.
      apply map_ext_in. intros x Hx.
      apply IH.
      * rewrite Forall_forall in Hcf. apply Hcf. apply in_map. exact Hx.
      * lia.
      * intros y [Hy|Hy]; [left; exact Hy|right; apply Hincl; exact Hy].
Qed.

(* B: a result that names no cycle bounds the length of the import chains below m *)
Lemma eval_cf_walk : forall G f st m, cf (eval G f st m) -> forall n, walk G m n -> n < f.
Proof.
  intros G f. induction f as [|f IH]; intros st m Hcf n Hw.
  - simpl in Hcf. contradiction.
  - rewrite eval_S in Hcf. destruct (memb m st) eqn:Em; [simpl in Hcf; discriminate|].
    inversion Hw as [a|a b n' He Hw']; subst; [lia|].
    destruct He as (s & Hs & Hb). unfold name in *. rewrite Hs in Hcf.
    apply combine_cf_inv in Hcf. rewrite Forall_forall in Hcf.
    assert (n' < f); [|lia].
    apply (IH (m :: st) b); [|exact Hw']. apply Hcf. apply in_map. exact Hb.
Qed.

(* C: a cycle is only named when arbitrarily long import chains start at m *)
Lemma eval_cyc_walk : forall G f st m, chain G st m -> cyc (eval G f st m) -> forall n, walk G m n.
Proof.
  intros G f. induction f as [|f IH]; intros st m Hch Hc n.
  - simpl in Hc. contradiction.
  - rewrite eval_S in Hc. destruct (memb m st) eqn:Em.
    + apply memb_In in Em. destruct (chain_steps G st m m Hch Em) as [k Hk].
      apply (loop_walk G m k Hk).
    + destruct (lookup G m) as [s|] eqn:Es; [|simpl in Hc; discriminate].
      apply combine_cyc_inv in Hc. apply Exists_exists in Hc. destruct Hc as (r & Hin & Hr).
      apply in_map_iff in Hin. destruct Hin as (x & Hx & Hxin). subst r.
      assert (He : edge G m x) by (exists s; split; assumption).
      apply walk_le with (n := S n); [|lia]. econstructor; [exact He|].
      apply (IH (m :: st) x); [simpl; split; assumption|exact Hr].
Qed.

(* D: the fuel is enough *)
Lemma NoDup_bounded_length : forall (l : list nat) n, NoDup l -> (forall x, In x l -> x < n) -> length l <= n.
Proof.
  intros l n Hnd Hb. rewrite <- (seq_length n 0). apply NoDup_incl_length; [exact Hnd|].
  intros x Hx. apply in_seq. specialize (Hb x Hx). lia.
Qed.

Lemma eval_fuel : forall G f st m, NoDup st -> (forall x, In x st -> x < length G) ->
  length G + 1 <= f + length st -> eval G f st m <> OutOfFuel.
Proof.
  intros G f. induction f as [|f IH]; intros st m Hnd Hb Hf.
  - pose proof (NoDup_bounded_length st (length G) Hnd Hb). unfold name in *. lia.
  - rewrite eval_S. destruct (memb m st) eqn:Em; [discriminate|].
    destruct (lookup G m) as [s|] eqn:Es; [|discriminate].
    apply combine_not_oof. apply no_oof_forall. apply Forall_forall. intros r Hr.
    apply in_map_iff in Hr. destruct Hr as (x & Hx & _). subst r.
    apply IH.
    + constructor; [apply memb_not_In; exact Em|exact Hnd].
    + intros y [Hy|Hy]; [subst y; apply (get_some_lt _ G m s Es)|apply Hb; exact Hy].
    + simpl. lia.
Qed.

Theorem fuel_enough : forall G m, fresh_eval G m <> OutOfFuel.
Proof.
  intros G m. unfold fresh_eval, fuel_for. apply eval_fuel.
  - constructor.
  - intros x [].
  - simpl. lia.
Qed.

(* evaluation under a stack and fresh evaluation are observably the same *)
Lemma eval_stack_same_obs : forall G f st m f', chain G st m ->
  eval G f st m <> OutOfFuel -> eval G f' [] m <> OutOfFuel ->
  canon (eval G f st m) = canon (eval G f' [] m).
Proof.
  intros G f st m f' Hch H1 H2.
  destruct (result_cases (eval G f st m)) as [E|[Hcf|Hc]]; [contradiction| |].
  - destruct (result_cases (eval G f' [] m)) as [E|[Hcf'|Hc']]; [contradiction| |].
    + f_equal.
      rewrite <- (eval_cf_stable G f st m Hcf (Nat.max f f') []) by (try lia; intros x []).
      rewrite <- (eval_cf_stable G f' [] m Hcf' (Nat.max f f') []) by (try lia; intros x []).
      reflexivity.
    + exfalso. pose proof (eval_cyc_walk G f' [] m I Hc' f) as Hw.
      pose proof (eval_cf_walk G f st m Hcf f Hw). lia.
  - destruct (result_cases (eval G f' [] m)) as [E|[Hcf'|Hc']]; [contradiction| |].
    + exfalso. pose proof (eval_cyc_walk G f st m Hch Hc f') as Hw.
      pose proof (eval_cf_walk G f' [] m Hcf' f' Hw). lia.
    + rewrite (canon_cyc _ Hc), (canon_cyc _ Hc'). reflexivity.
Qed.

(* fresh evaluation of a defined module, one step unfolded *)
Lemma fresh_eval_some : forall G m s, lookup G m = Some s ->
  fresh_eval G m = combine m s (map (eval G (length G) [m]) (imports s)).
Proof. intros G m s H. unfold fresh_eval, fuel_for. rewrite eval_S. simpl. unfold name in *. rewrite H. reflexivity. Qed.

Lemma fresh_eval_none : forall G m, lookup G m = None -> fresh_eval G m = Failed [CMissing m] None.
Proof. intros G m H. unfold fresh_eval, fuel_for. rewrite eval_S. simpl. unfold name in *. rewrite H. reflexivity. Qed.

(* ------------------------------------------------------------------ cycles are genuine *)

Lemma linked_snoc : forall G l a b, linked G (l ++ [a]) -> edge G a b -> linked G ((l ++ [a]) ++ [b]).
Proof.
  intros G l. induction l as [|x l IH]; intros a b H He; simpl in *.
  - split; [exact He|exact I].
  - destruct (l ++ [a]) as [|y r] eqn:E.
    + destruct l; discriminate.
    + simpl. destruct H as [H1 H2]. split; [exact H1|]. specialize (IH a b). rewrite E in IH. apply IH; assumption.
Qed.

Lemma chain_linked : forall G st y m, chain G st y -> In m st -> linked G ((m :: rev (prefix_to st m)) ++ [y]).
Proof.
  intros G st. induction st as [|z r IH]; intros y m Hc Hin; simpl in *.
  - contradiction.
  - destruct Hc as [He Hc]. destruct (Nat.eqb z m) eqn:Ez.
    + apply Nat.eqb_eq in Ez. subst z. simpl. split; [exact He|exact I].
    + destruct Hin as [Heq|Hin]; [subst z; rewrite Nat.eqb_refl in Ez; discriminate|].
      specialize (IH z m Hc Hin). simpl.
      change (linked G ((m :: rev (prefix_to r m) ++ [z]) ++ [y])).
      rewrite app_comm_cons. apply linked_snoc; [|exact He].
      rewrite <- app_comm_cons. exact IH.
Qed.

Lemma cycle_of_genuine : forall G st m, chain G st m -> In m st -> genuine G (cycle_of st m).
Proof.
  intros G st m Hc Hin. exists m, (rev (prefix_to st m)). split; [reflexivity|].
  apply chain_linked; assumption.
Qed.

Lemma eval_cycles_genuine : forall G f st m cs ty c, chain G st m ->
  eval G f st m = Failed cs ty -> In (CCyclic c) cs -> genuine G c.
Proof.
  intros G f. induction f as [|f IH]; intros st m cs ty c Hch He Hin.
  - simpl in He. discriminate.
  - rewrite eval_S in He. destruct (memb m st) eqn:Em.
    + inversion He; subst. destruct Hin as [Hin|[]]. inversion Hin; subst.
      apply cycle_of_genuine; [exact Hch|apply memb_In; exact Em].
    + destruct (lookup G m) as [s|] eqn:Es.
      * rewrite combine_unfold in He.
        destruct (existsb is_oof (map (eval G f (m :: st)) (imports s))); [discriminate|].
        destruct (flat_map causes_of (map (eval G f (m :: st)) (imports s)) ++ ty_causes m s (map (eval G f (m :: st)) (imports s))) as [|c0 l] eqn:E;
          [discriminate|].
        inversion He; subst cs ty. rewrite <- E in Hin. apply in_app_or in Hin. destruct Hin as [Hin|Hin].
        -- apply in_flat_map in Hin. destruct Hin as (r & Hr & Hc). apply in_map_iff in Hr.
           destruct Hr as (x & Hx & Hxin). subst r.
           destruct (eval G f (m :: st) x) as [v|cs' ty'|] eqn:Ex; simpl in Hc; try contradiction.
           apply (IH (m :: st) x cs' ty' c); [|exact Ex|exact Hc].
           simpl. split; [exists s; split; assumption|exact Hch].
        -- unfold ty_causes in Hin. destruct (skind s); [|contradiction].
           destruct (existsb is_str _); [|contradiction]. destruct Hin as [Hin|[]]. discriminate.
      * inversion He; subst. destruct Hin as [Hin|[]]. discriminate.
Qed.

(* every cycle named by a fresh evaluation is a genuine import cycle of the sources *)
Theorem cycle_reported : forall G m cs ty c,
  fresh_eval G m = Failed cs ty -> In (CCyclic c) cs -> genuine G c.
Proof.
  intros G m cs ty c H Hin. apply (eval_cycles_genuine G (fuel_for G) [] m cs ty c I H Hin).
Qed.

(* a module from which a cyclic import chain can be reached is reported as cyclic (never out of fuel,
   never a value) *)
Theorem cycle_detected : forall G m x k j,
  steps G m x k -> steps G x x (S j) -> canon (fresh_eval G m) = CCyc.
Proof.
  intros G m x k j Hmx Hxx.
  destruct (result_cases (fresh_eval G m)) as [E|[Hcf|Hc]].
  - exfalso. apply (fuel_enough G m). exact E.
  - exfalso. unfold fresh_eval in Hcf.
    assert (Hw : walk G m (k + fuel_for G)).
    { apply steps_walk with (b := x); [exact Hmx|]. apply (loop_walk G x j Hxx). }
    pose proof (eval_cf_walk G (fuel_for G) [] m Hcf _ Hw). lia.
  - apply canon_cyc. exact Hc.
Qed.

Lemma has_cyclic_in : forall cs, has_cyclic cs = true -> exists c, In (CCyclic c) cs.
Proof.
  induction cs as [|c cs IH]; simpl; [discriminate|]. intros H. apply orb_true_iff in H. destruct H as [H|H].
  - destruct c; simpl in H; try discriminate. eexists. left. reflexivity.
  - destruct (IH H) as [c' Hc']. exists c'. right. exact Hc'.
Qed.

(* and conversely "cyclic" is only reported when the sources contain a genuine cycle *)
Theorem cyclic_only_if_cycle : forall G m, canon (fresh_eval G m) = CCyc -> exists c, genuine G c.
Proof.
  intros G m H. apply canon_cyc_inv in H. destruct (fresh_eval G m) as [v|cs ty|] eqn:E; simpl in H; try contradiction.
  destruct (has_cyclic_in cs H) as [c Hc]. exists c. apply (cycle_reported G m cs ty c E Hc).
Qed.

(* ------------------------------------------------------------------ the incremental engine *)

Lemma Forall2_map_flip : forall (A B C : Type) (P : A -> B -> Prop) (Q : B -> C -> Prop) (g : A -> C) l rs,
  Forall2 P l rs -> (forall x r, P x r -> Q r (g x)) -> Forall2 Q rs (map g l).
Proof.
  intros A B C P Q g l rs H HPQ. induction H; simpl; constructor; auto.
Qed.

Section Inc.
  Variable G : sources.
  Variable rv : nat.

  Definition at_rev (mm : memo) (x : name) : Prop := exists en, get mm x = Some en /\ e_rev en = rv.

  (* every entry verified in the current revision is what a fresh evaluation yields *)
  Definition good (mm : memo) : Prop :=
    forall m en, get mm m = Some en -> e_rev en = rv -> same_obs (e_res en) (fresh_eval G m).

  Definition le_rev (mm : memo) : Prop := forall m en, get mm m = Some en -> e_rev en <= rv.

  Lemma fresh_entry_some : forall mm m r, fresh_entry rv (get mm m) = Some r ->
    exists en, get mm m = Some en /\ e_rev en = rv /\ e_res en = r.
  Proof.
    intros mm m r H. unfold fresh_entry in H. destruct (get mm m) as [en|]; [|discriminate].
    destruct (Nat.eqb (e_rev en) rv) eqn:E; [|discriminate]. apply Nat.eqb_eq in E. inversion H. eauto.
  Qed.

  Lemma fresh_entry_none : forall mm m, fresh_entry rv (get mm m) = None -> ~ at_rev mm m.
  Proof.
    intros mm m H [en [Hg Hr]]. unfold fresh_entry in H. rewrite Hg in H.
    rewrite Hr, Nat.eqb_refl in H. discriminate.
  Qed.

  Lemma good_set : forall mm m r, good mm -> same_obs r (fresh_eval G m) -> good (set_nth mm m (mkEntry rv r)).
  Proof.
    intros mm m r Hg Hr k en Hk Hrev. destruct (Nat.eq_dec m k) as [->|Hne].
    - rewrite get_set_same in Hk. inversion Hk; subst en. exact Hr.
    - rewrite get_set_other in Hk by exact Hne. apply (Hg k en Hk Hrev).
  Qed.

  Lemma le_rev_set : forall mm m r, le_rev mm -> le_rev (set_nth mm m (mkEntry rv r)).
  Proof.
    intros mm m r Hl k en Hk. destruct (Nat.eq_dec m k) as [->|Hne].
    - rewrite get_set_same in Hk. inversion Hk; subst en. simpl. lia.
    - rewrite get_set_other in Hk by exact Hne. apply (Hl k en Hk).
  Qed.

  Lemma inc_S : forall f mm st m,
    inc G rv (S f) mm st m =
    if memb m st then (mm, Failed [CCyclic (cycle_of st m)] None, [])
    else
      match fresh_entry rv (get mm m) with
      | Some r => (mm, r, [])
      | None =>
        match lookup G m with
        | None =>
          let r := Failed [CMissing m] None in
          (set_nth mm m (mkEntry rv r), r, [])
        | Some s =>
          let '(mm1, rs, ev) := inc_list (fun mm' x => inc G rv f mm' (m :: st) x) mm (imports s) in
          let r := combine m s rs in
          (set_nth mm1 m (mkEntry rv r), r, ev ++ (if is_value r then [m] else []))
        end
      end.
  Proof. reflexivity. Qed.

  (* soundness of one demand *)
  Lemma inc_sound : forall f mm st m mm' r ev,
    good mm -> chain G st m -> NoDup st -> (forall x, In x st -> x < length G) ->
    length G + 1 <= f + length st ->
    inc G rv f mm st m = (mm', r, ev) ->
    good mm' /\ same_obs r (fresh_eval G m).
  Proof.
    induction f as [|f IH]; intros mm st m mm' r ev Hg Hch Hnd Hb Hf He.
    - exfalso. pose proof (NoDup_bounded_length st (length G) Hnd Hb). unfold name in *. lia.
    - rewrite inc_S in He. destruct (memb m st) eqn:Em.
      + inversion He; subst mm' r ev. split; [exact Hg|].
        assert (E1 : eval G 1 st m = Failed [CCyclic (cycle_of st m)] None).
        { rewrite eval_S, Em. reflexivity. }
        split; [discriminate|]. split; [apply fuel_enough|].
        rewrite <- E1. unfold fresh_eval. apply eval_stack_same_obs; [exact Hch| |apply (fuel_enough G m)].
        rewrite E1. discriminate.
      + destruct (fresh_entry rv (get mm m)) as [r0|] eqn:Ef.
        * inversion He; subst mm' r0 ev. split; [exact Hg|].
          destruct (fresh_entry_some mm m r Ef) as (en & Hget & Hrev & Hres). subst r.
          apply (Hg m en Hget Hrev).
        * destruct (lookup G m) as [s|] eqn:Es.
          -- destruct (inc_list (fun mm'0 x => inc G rv f mm'0 (m :: st) x) mm (imports s)) as [[mm1 rs] ev1] eqn:El.
             inversion He; subst mm' r ev. clear He.
             assert (Hm : ~ In m st) by (apply memb_not_In; exact Em).
             assert (Hlist : forall ms mm0 mm2 rs0 ev0,
                        incl ms (imports s) -> good mm0 ->
                        inc_list (fun mm'0 x => inc G rv f mm'0 (m :: st) x) mm0 ms = (mm2, rs0, ev0) ->
                        good mm2 /\ Forall2 (fun x r0 => In x (imports s) /\ same_obs r0 (fresh_eval G x)) ms rs0).
             { induction ms as [|x xs IHxs]; intros mm0 mm2 rs0 ev0 Hincl Hg0 Hl; simpl in Hl.
               - inversion Hl; subst. split; [exact Hg0|constructor].
               - destruct (inc G rv f mm0 (m :: st) x) as [[mma ra] eva] eqn:Ea.
                 destruct (inc_list (fun mm'0 x0 => inc G rv f mm'0 (m :: st) x0) mma xs) as [[mmb rsb] evb] eqn:Eb.
                 inversion Hl; subst mm2 rs0 ev0.
                 assert (Hx : In x (imports s)) by (apply Hincl; left; reflexivity).
                 destruct (IH mm0 (m :: st) x mma ra eva Hg0) as [Hga Hra]; try exact Ea.
                 + simpl. split; [exists s; split; assumption|exact Hch].
                 + constructor; assumption.
                 + intros y [Hy|Hy]; [subst y; apply (get_some_lt _ G m s Es)|apply Hb; exact Hy].
                 + simpl. lia.
                 + destruct (IHxs mma mmb rsb evb) as [Hgb Hrsb]; try exact Eb; try exact Hga.
                   * intros y Hy. apply Hincl. right. exact Hy.
                   * split; [exact Hgb|constructor; [split; assumption|assumption]]. }
             destruct (Hlist (imports s) mm mm1 rs ev1 (incl_refl _) Hg El) as [Hg1 Hrs].
             assert (Hobs : same_obs (combine m s rs) (fresh_eval G m)).
             { rewrite (fresh_eval_some G m s Es). apply combine_same_obs.
               eapply Forall2_map_flip; [exact Hrs|]. intros x r0 [Hxin (H1 & H2 & H3)].
               assert (Hev : eval G (length G) [m] x <> OutOfFuel).
               { apply eval_fuel.
                 - constructor; [intros []|constructor].
                 - intros y [Hy|[]]. subst y. apply (get_some_lt _ G m s Es).
                 - simpl. lia. }
               split; [exact H1|]. split; [exact Hev|]. rewrite H3. unfold fresh_eval. symmetry.
               apply eval_stack_same_obs; [|exact Hev|apply (fuel_enough G x)].
               simpl. split; [|exact I]. exists s. split; [exact Es|exact Hxin]. }
             split; [apply good_set; assumption|exact Hobs].
          -- inversion He; subst. rewrite (fresh_eval_none G m Es).
             assert (Hobs : same_obs (Failed [CMissing m] None) (Failed [CMissing m] None)).
             { split; [discriminate|]. split; [discriminate|reflexivity]. }
             split; [|exact Hobs]. apply good_set; [exact Hg|]. rewrite (fresh_eval_none G m Es). exact Hobs.
  Qed.
End Inc.

(* ------------------------------------------------------------------ bookkeeping of one demand *)

Lemma NoDup_app_intro : forall (A : Type) (l1 l2 : list A),
  NoDup l1 -> NoDup l2 -> (forall x, In x l1 -> In x l2 -> False) -> NoDup (l1 ++ l2).
Proof.
  intros A l1 l2 H1 H2 Hd. induction H1 as [|a l Hn Hl IH]; simpl; [exact H2|].
  constructor.
  - intro Hin. apply in_app_or in Hin. destruct Hin as [Hin|Hin]; [contradiction|].
    apply (Hd a); [left; reflexivity|exact Hin].
  - apply IH. intros x Hx Hx2. apply (Hd x); [right; exact Hx|exact Hx2].
Qed.

Section IncBook.
  Variable G : sources.
  Variable rv : nat.

  (* what one demand does to the memo table: entries of the current revision persist, stack members
     are not touched, and the bodies run are exactly newly verified entries, each once *)
  Definition book (mm : memo) (st : list name) (mm' : memo) (ev : list name) : Prop :=
    (forall x, at_rev rv mm x -> at_rev rv mm' x) /\
    (forall x, In x st -> get mm' x = get mm x) /\
    NoDup ev /\
    (forall x, In x ev -> ~ at_rev rv mm x /\ at_rev rv mm' x) /\
    (le_rev rv mm -> le_rev rv mm').

  Lemma at_rev_set_same : forall mm m r, at_rev rv (set_nth mm m (mkEntry rv r)) m.
  Proof. intros. exists (mkEntry rv r). rewrite get_set_same. split; reflexivity. Qed.

  Lemma at_rev_set_other : forall mm m r x, at_rev rv mm x -> at_rev rv (set_nth mm m (mkEntry rv r)) x.
  Proof.
    intros mm m r x [en [Hg Hr]]. destruct (Nat.eq_dec m x) as [->|Hne].
    - apply at_rev_set_same.
    - exists en. rewrite get_set_other by exact Hne. split; assumption.
  Qed.

  Lemma book_refl : forall mm st, book mm st mm [].
  Proof.
    intros mm st. unfold book. split; [auto|]. split; [auto|]. split; [constructor|]. split; [intros x []|auto].
  Qed.

  Lemma inc_book : forall f mm st m mm' r ev,
    inc G rv f mm st m = (mm', r, ev) -> book mm st mm' ev.
  Proof.
    induction f as [|f IH]; intros mm st m mm' r ev He.
    - simpl in He. inversion He; subst. apply book_refl.
    - rewrite inc_S in He. destruct (memb m st) eqn:Em.
      + inversion He; subst. apply book_refl.
      + assert (Hm : ~ In m st) by (apply memb_not_In; exact Em).
        destruct (fresh_entry rv (get mm m)) as [r0|] eqn:Ef.
        * inversion He; subst. apply book_refl.
        * pose proof (fresh_entry_none rv mm m Ef) as Hnot.
          destruct (lookup G m) as [s|] eqn:Es.
          -- destruct (inc_list (fun mm'0 x => inc G rv f mm'0 (m :: st) x) mm (imports s)) as [[mm1 rs] ev1] eqn:El.
             inversion He; subst mm' r ev. clear He.
             assert (Hlist : forall ms mm0 mm2 rs0 ev0,
                        inc_list (fun mm'0 x => inc G rv f mm'0 (m :: st) x) mm0 ms = (mm2, rs0, ev0) ->
                        book mm0 (m :: st) mm2 ev0).
             { induction ms as [|x xs IHxs]; intros mm0 mm2 rs0 ev0 Hl; simpl in Hl.
               - inversion Hl; subst. apply book_refl.
               - destruct (inc G rv f mm0 (m :: st) x) as [[mma ra] eva] eqn:Ea.
                 destruct (inc_list (fun mm'0 x0 => inc G rv f mm'0 (m :: st) x0) mma xs) as [[mmb rsb] evb] eqn:Eb.
                 inversion Hl; subst mm2 rs0 ev0.
                 destruct (IH _ _ _ _ _ _ Ea) as (A1 & A2 & A3 & A4 & A5).
                 destruct (IHxs _ _ _ _ Eb) as (B1 & B2 & B3 & B4 & B5).
                 repeat split.
                 + intros y Hy. apply B1. apply A1. exact Hy.
                 + intros y Hy. rewrite (B2 y Hy). apply (A2 y Hy).
                 + apply NoDup_app_intro; [exact A3|exact B3|].
                   intros y Hya Hyb. destruct (A4 y Hya) as [_ Ha]. destruct (B4 y Hyb) as [Hb _]. contradiction.
                 + apply in_app_or in H. destruct H as [H|H].
                   * destruct (A4 x0 H) as [Hn _]. exact Hn.
                   * destruct (B4 x0 H) as [Hn _]. intro Hc. apply Hn. apply A1. exact Hc.
                 + apply in_app_or in H. destruct H as [H|H].
                   * destruct (A4 x0 H) as [_ Hy]. apply B1. exact Hy.
                   * destruct (B4 x0 H) as [_ Hy]. exact Hy.
                 + intros Hle. apply B5. apply A5. exact Hle. }
             destruct (Hlist _ _ _ _ _ El) as (A1 & A2 & A3 & A4 & A5).
             assert (Hm1 : ~ at_rev rv mm1 m).
             { intros [en [Hg Hr]]. apply Hnot. exists en. rewrite <- (A2 m (or_introl eq_refl)). split; assumption. }
             repeat split.
             ++ intros y Hy. apply at_rev_set_other. apply A1. exact Hy.
             ++ intros y Hy. rewrite get_set_other by (intro E; subst y; contradiction).
                apply A2. right. exact Hy.
             ++ apply NoDup_app_intro; [exact A3| |].
                ** destruct (is_value (combine m s rs)); constructor; [intros []|constructor].
                ** intros y Hya Hyb. destruct (is_value (combine m s rs)); [|destruct Hyb].
                   destruct Hyb as [Hyb|[]]. subst y. destruct (A4 m Hya) as [_ Hc]. contradiction.
             ++ apply in_app_or in H. destruct H as [H|H].
                ** destruct (A4 x H) as [Hn _]. exact Hn.
                ** destruct (is_value (combine m s rs)); [|destruct H]. destruct H as [H|[]]. subst x. exact Hnot.
             ++ apply in_app_or in H. destruct H as [H|H].
                ** destruct (A4 x H) as [_ Hy]. apply at_rev_set_other. exact Hy.
                ** destruct (is_value (combine m s rs)); [|destruct H]. destruct H as [H|[]]. subst x. apply at_rev_set_same.
             ++ intros Hle. apply le_rev_set. apply A5. exact Hle.
          -- inversion He; subst mm' r ev. repeat split.
             ++ intros y Hy. apply at_rev_set_other. exact Hy.
             ++ intros y Hy. rewrite get_set_other by (intro E; subst y; contradiction). reflexivity.
             ++ constructor.
             ++ destruct H.
             ++ destruct H.
             ++ intros Hle. apply le_rev_set. exact Hle.
  Qed.
End IncBook.

(* ------------------------------------------------------------------ the demanded set is closed *)

(* evaluation only looks at the modules reachable from the one demanded *)
Lemma eval_indep : forall G G' (A : name -> Prop),
  (forall x, A x -> lookup G' x = lookup G x) ->
  (forall x s y, A x -> lookup G x = Some s -> In y (imports s) -> A y) ->
  forall f st x, A x -> eval G' f st x = eval G f st x.
Proof.
  intros G G' A Hsame Hclosed f. induction f as [|f IH]; intros st x Hx; [reflexivity|].
  rewrite !eval_S. destruct (memb x st); [reflexivity|]. rewrite (Hsame x Hx).
  destruct (lookup G x) as [s|] eqn:Es; [|reflexivity].
  f_equal. apply map_ext_in. intros y Hy. apply IH. apply (Hclosed x s y Hx Es Hy).
Qed.

Section IncClosed.
  Variable G : sources.
  Variable rv : nat.

  (* every import of an entry of the current revision is itself verified in the current revision,
     or still in progress (on the stack) *)
  Definition closed_except (st : list name) (mm : memo) : Prop :=
    forall x en s y, get mm x = Some en -> e_rev en = rv -> lookup G x = Some s -> In y (imports s) ->
                     at_rev rv mm y \/ In y st.

  Lemma closed_except_weaken : forall st m mm, closed_except st mm -> closed_except (m :: st) mm.
  Proof.
    intros st m mm H x en s y Hg Hr Hs Hy. destruct (H x en s y Hg Hr Hs Hy) as [Ha|Hi]; [left; exact Ha|right; right; exact Hi].
  Qed.

  Lemma inc_closed : forall f mm st m mm' r ev,
    NoDup st -> (forall x, In x st -> x < length G) -> length G + 1 <= f + length st ->
    closed_except st mm ->
    inc G rv f mm st m = (mm', r, ev) ->
    closed_except st mm' /\ (at_rev rv mm' m \/ In m st).
  Proof.
    induction f as [|f IH]; intros mm st m mm' r ev Hnd Hb Hf Hc He.
    - exfalso. pose proof (NoDup_bounded_length st (length G) Hnd Hb). unfold name in *. lia.
    - rewrite inc_S in He. destruct (memb m st) eqn:Em.
      + inversion He; subst mm' r ev. split; [exact Hc|right; apply memb_In; exact Em].
      + assert (Hm : ~ In m st) by (apply memb_not_In; exact Em).
        destruct (fresh_entry rv (get mm m)) as [r0|] eqn:Ef.
        * inversion He; subst mm' r0 ev. split; [exact Hc|left].
          destruct (fresh_entry_some rv mm m r Ef) as (en & Hget & Hrev & _). exists en. split; assumption.
        * destruct (lookup G m) as [s|] eqn:Es.
          -- destruct (inc_list (fun mm'0 x => inc G rv f mm'0 (m :: st) x) mm (imports s)) as [[mm1 rs] ev1] eqn:El.
             inversion He; subst mm' r ev. clear He.
             assert (Hlist : forall ms mm0 mm2 rs0 ev0,
                        closed_except (m :: st) mm0 ->
                        inc_list (fun mm'0 x => inc G rv f mm'0 (m :: st) x) mm0 ms = (mm2, rs0, ev0) ->
                        closed_except (m :: st) mm2 /\
                        (forall y, at_rev rv mm0 y -> at_rev rv mm2 y) /\
                        (forall y, In y ms -> at_rev rv mm2 y \/ In y (m :: st))).
             { induction ms as [|x xs IHxs]; intros mm0 mm2 rs0 ev0 Hc0 Hl; simpl in Hl.
               - inversion Hl; subst. split; [exact Hc0|]. split; [auto|intros y []].
               - destruct (inc G rv f mm0 (m :: st) x) as [[mma ra] eva] eqn:Ea.
                 destruct (inc_list (fun mm'0 x0 => inc G rv f mm'0 (m :: st) x0) mma xs) as [[mmb rsb] evb] eqn:Eb.
                 inversion Hl; subst mm2 rs0 ev0.
                 destruct (IH mm0 (m :: st) x mma ra eva) as [Hca Hxa]; try exact Ea; try exact Hc0.
                 + constructor; assumption.
                 + intros y [Hy|Hy]; [subst y; apply (get_some_lt _ G m s Es)|apply Hb; exact Hy].
                 + simpl. lia.
                 + destruct (inc_book G rv _ _ _ _ _ _ _ Ea) as (Amono & _).
                   destruct (IHxs mma mmb rsb evb Hca Eb) as (Hcb & Bmono & Hys).
                   split; [exact Hcb|]. split.
                   * intros y Hy. apply Bmono. apply Amono. exact Hy.
                   * intros y [Hy|Hy].
                     -- subst y. destruct Hxa as [Hxa|Hxa]; [left; apply Bmono; exact Hxa|right; exact Hxa].
                     -- apply Hys. exact Hy. }
             destruct (Hlist (imports s) mm mm1 rs ev1 (closed_except_weaken st m mm Hc) El) as (Hc1 & _ & Hys).
             split; [|left; apply at_rev_set_same].
             intros x en s0 y Hg Hr Hs0 Hy.
             assert (Hcase : at_rev rv mm1 y \/ In y (m :: st)).
             { destruct (Nat.eq_dec m x) as [E|Hne].
               - subst x. unfold name in *. rewrite Es in Hs0. inversion Hs0; subst s0. apply Hys. exact Hy.
               - rewrite get_set_other in Hg by exact Hne. apply (Hc1 x en s0 y Hg Hr Hs0 Hy). }
             destruct Hcase as [Ha|[Hi|Hi]].
             ++ left. apply at_rev_set_other. exact Ha.
             ++ subst y. left. apply at_rev_set_same.
             ++ right. exact Hi.
          -- inversion He; subst mm' r ev. split; [|left; apply at_rev_set_same].
             intros x en s0 y Hg Hr Hs0 Hy.
             destruct (Nat.eq_dec m x) as [E|Hne].
             ++ subst x. unfold name in *. rewrite Es in Hs0. discriminate.
             ++ rewrite get_set_other in Hg by exact Hne.
                destruct (Hc x en s0 y Hg Hr Hs0 Hy) as [Ha|Hi]; [left; apply at_rev_set_other; exact Ha|right; exact Hi].
  Qed.
End IncClosed.

(* ------------------------------------------------------------------ engines and histories *)

(* [dirty = false]: nothing has been verified in the current revision yet *)
Definition inv (dirty : bool) (e : engine) : Prop :=
  good (srcs e) (revn e) (memt e) /\
  le_rev (revn e) (memt e) /\
  closed_except (srcs e) (revn e) [] (memt e) /\
  (dirty = false -> forall m, ~ at_rev (revn e) (memt e) m).

Lemma inv_empty : inv false empty_engine.
Proof.
  unfold inv, empty_engine; simpl. split; [|split; [|split]].
  - intros m en H. rewrite get_nil in H. discriminate.
  - intros m en H. rewrite get_nil in H. discriminate.
  - intros x en s y H. rewrite get_nil in H. discriminate.
  - intros _ m [en [H _]]. rewrite get_nil in H. discriminate.
Qed.

Lemma inc_eval_sound : forall dirty e m e' r ev, inv dirty e -> inc_eval e m = (e', r, ev) ->
  inv true e' /\ srcs e' = srcs e /\ revn e' = revn e /\ canon r = canon (fresh_eval (srcs e) m).
Proof.
  intros dirty e m e' r ev (Hg & Hl & Hcl & _) He. unfold inc_eval in He.
  destruct (inc (srcs e) (revn e) (fuel_for (srcs e)) (memt e) [] m) as [[mm r0] ev0] eqn:Ei.
  inversion He; subst e' r ev. clear He. simpl.
  assert (Hs : good (srcs e) (revn e) mm /\ same_obs r0 (fresh_eval (srcs e) m)).
  { apply (inc_sound (srcs e) (revn e) (fuel_for (srcs e)) (memt e) [] m mm r0 ev0); try assumption.
    - exact I.
    - constructor.
    - intros x [].
    - unfold fuel_for. simpl. lia. }
  destruct Hs as [Hg' (_ & _ & Hc)].
  assert (Hcl' : closed_except (srcs e) (revn e) [] mm).
  { apply (inc_closed (srcs e) (revn e) (fuel_for (srcs e)) (memt e) [] m mm r0 ev0); try assumption.
    - constructor.
    - intros x [].
    - unfold fuel_for. simpl. lia. }
  destruct (inc_book (srcs e) (revn e) _ _ _ _ _ _ _ Ei) as (_ & _ & _ & _ & Hl').
  split; [|auto]. unfold inv; simpl. split; [exact Hg'|]. split; [apply Hl'; exact Hl|]. split; [exact Hcl'|discriminate].
Qed.

Lemma srcs_edit : forall p e m s, srcs (edit p e m s) = set_nth (srcs e) m s.
Proof.
  intros p e m s. unfold edit. destruct (lookup (srcs e) m) as [old|] eqn:El; [|reflexivity].
  destruct (source_eqb old s) eqn:Eq; [|reflexivity].
  apply source_eqb_eq in Eq. subst old. symmetry. apply set_nth_same. exact El.
Qed.

(* a new revision: nothing is verified yet, so the invariant holds for any sources *)
Lemma inv_new_revision : forall G mm rv, le_rev rv mm -> inv false (mkEngine G (S rv) mm).
Proof.
  intros G mm rv Hl. unfold inv; simpl. split; [|split; [|split]].
  - intros m en Hg Hr. specialize (Hl m en Hg). lia.
  - intros m en Hg. specialize (Hl m en Hg). lia.
  - intros x en s y Hg Hr. specialize (Hl x en Hg). lia.
  - intros _ m [en [Hg Hr]]. specialize (Hl m en Hg). lia.
Qed.

(* sources may change without a new revision while nothing is verified in the revision *)
Lemma inv_clean_sources : forall G G' mm rv, inv false (mkEngine G rv mm) -> inv false (mkEngine G' rv mm).
Proof.
  intros G G' mm rv (Hg & Hl & Hcl & Hc). unfold inv in *; simpl in *. split; [|split; [|split]].
  - intros m en Hget Hr. exfalso. apply (Hc eq_refl m). exists en. split; assumption.
  - exact Hl.
  - intros x en s y Hget Hr. exfalso. apply (Hc eq_refl x). exists en. split; assumption.
  - exact Hc.
Qed.

Lemma length_set_nth_ge : forall (A : Type) (l : list (option A)) n a, length l <= length (set_nth l n a).
Proof.
  intros A l n. revert l. induction n as [|n IH]; intros l a; destruct l as [|x r]; simpl; try lia.
  specialize (IH r a). lia.
Qed.

(* ... or when the module that gets its first source was never requested: nothing that is memoised
   can have looked at it *)
Lemma inv_add_unrequested : forall dirty G mm rv m s,
  inv dirty (mkEngine G rv mm) -> get mm m = None -> inv dirty (mkEngine (set_nth G m s) rv mm).
Proof.
  intros dirty G mm rv m s (Hg & Hl & Hcl & Hc) Hnone. unfold inv in *; simpl in *.
  assert (Hsame : forall x, at_rev rv mm x -> lookup (set_nth G m s) x = lookup G x).
  { intros x [en [Hx _]]. unfold lookup. apply get_set_other. intro E. subst x. rewrite Hnone in Hx. discriminate. }
  assert (Hclosed : forall x s0 y, at_rev rv mm x -> lookup G x = Some s0 -> In y (imports s0) -> at_rev rv mm y).
  { intros x s0 y [en [Hx Hr]] Hs0 Hy. destruct (Hcl x en s0 y Hx Hr Hs0 Hy) as [Ha|[]]. exact Ha. }
  split; [|split; [|split]].
  - intros x en Hx Hr. destruct (Hg x en Hx Hr) as (H1 & _ & H3).
    assert (Hax : at_rev rv mm x) by (exists en; split; assumption).
    split; [exact H1|]. split; [apply fuel_enough|]. rewrite H3. unfold fresh_eval.
    rewrite (eval_indep G (set_nth G m s) (at_rev rv mm) Hsame Hclosed _ [] x Hax).
    apply eval_stack_same_obs; [exact I|apply (fuel_enough G x)|].
    apply eval_fuel; [constructor|intros z []|].
    unfold fuel_for. simpl. pose proof (length_set_nth_ge _ G m s). lia.
  - exact Hl.
  - intros x en s0 y Hx Hr Hs0 Hy.
    assert (Hax : at_rev rv mm x) by (exists en; split; assumption).
    rewrite (Hsame x Hax) in Hs0. apply (Hcl x en s0 y Hx Hr Hs0 Hy).
  - exact Hc.
Qed.

Fixpoint adds_when_clean (dirty : bool) (G : sources) (h : list op) : Prop :=
  match h with
  | [] => True
  | Edit m s :: h' =>
    match lookup G m with
    | None => dirty = false /\ adds_when_clean false (set_nth G m s) h'
    | Some old => if source_eqb old s then adds_when_clean dirty G h'
                  else adds_when_clean false (set_nth G m s) h'
    end
  | Eval m :: h' => adds_when_clean true G h'
  end.

(* the observable answers a fresh VM gives, evaluation by evaluation, against the then-current sources *)
Fixpoint fresh_outputs (G : sources) (h : list op) : list cresult :=
  match h with
  | [] => []
  | Edit m s :: h' => fresh_outputs (set_nth G m s) h'
  | Eval m :: h' => canon (fresh_eval G m) :: fresh_outputs G h'
  end.

Fixpoint latest (G : sources) (h : list op) : sources :=
  match h with
  | [] => G
  | Edit m s :: h' => latest (set_nth G m s) h'
  | Eval _ :: h' => latest G h'
  end.

Definition outputs (o : list (result * list name)) : list cresult := map (fun x => canon (fst x)) o.

Lemma edit_inv : forall p dirty e m s h,
  inv dirty e -> (p <> NewNever \/ adds_when_clean dirty (srcs e) (Edit m s :: h)) ->
  exists d', inv d' (edit p e m s) /\ (p <> NewNever \/ adds_when_clean d' (srcs (edit p e m s)) h).
Proof.
  intros p dirty e m s h Hinv Hc. pose proof (srcs_edit p e m s) as Hs. destruct e as [G rv mm].
  unfold edit in *. simpl in *. destruct (lookup G m) as [old|] eqn:El.
  - destruct (source_eqb old s) eqn:Eq.
    + exists dirty. split; [exact Hinv|]. destruct Hc as [Hc|Hc]; [left; exact Hc|right; exact Hc].
    + exists false. split; [apply inv_new_revision; apply Hinv|].
      destruct Hc as [Hc|Hc]; [left; exact Hc|right; exact Hc].
  - destruct p; simpl.
    + destruct Hc as [Hc|[Hd Hc]]; [congruence|]. subst dirty.
      exists false. split; [apply (inv_clean_sources G); exact Hinv|right; exact Hc].
    + destruct (get mm m) as [en|] eqn:Eg.
      * exists false. split; [apply inv_new_revision; apply Hinv|left; discriminate].
      * exists dirty. split; [apply inv_add_unrequested; assumption|left; discriminate].
    + exists false. split; [apply inv_new_revision; apply Hinv|left; discriminate].
Qed.

Lemma run_sound : forall p h dirty e,
  inv dirty e -> (p <> NewNever \/ adds_when_clean dirty (srcs e) h) ->
  outputs (snd (run p e h)) = fresh_outputs (srcs e) h /\
  srcs (fst (run p e h)) = latest (srcs e) h /\
  exists d', inv d' (fst (run p e h)).
Proof.
  intros p h. induction h as [|o h IH]; intros dirty e Hinv Hc.
  - simpl. split; [reflexivity|]. split; [reflexivity|]. exists dirty. exact Hinv.
  - destruct o as [m s|m].
    + destruct (edit_inv p dirty e m s h Hinv Hc) as (d' & Hinv' & Hc').
      simpl. rewrite <- (srcs_edit p e m s). apply (IH d' (edit p e m s) Hinv' Hc').
    + simpl. destruct (inc_eval e m) as [[e1 r] ev] eqn:Ee.
      destruct (inc_eval_sound dirty e m e1 r ev Hinv Ee) as (Hinv1 & Hs1 & _ & Hr).
      assert (Hc1 : p <> NewNever \/ adds_when_clean true (srcs e1) h).
      { destruct Hc as [Hc|Hc]; [left; exact Hc|right]. rewrite Hs1. exact Hc. }
      destruct (IH true e1 Hinv1 Hc1) as (Ho & Hl & Hd).
      destruct (run p e1 h) as [e2 out] eqn:Er. simpl in *.
      split; [|split].
      * unfold outputs in *. simpl. rewrite Hr, Ho, Hs1. reflexivity.
      * rewrite Hl, Hs1. reflexivity.
      * exact Hd.
Qed.

(* THE theorem: on every history the engine answers every evaluation exactly like a fresh VM that is
   given the sources as of that evaluation — provided add_module starts a new revision whenever a
   source changes and whenever a module that was requested before gets its first source *)
Theorem inc_equals_fresh : forall h,
  outputs (snd (run NewIfRequested empty_engine h)) = fresh_outputs [] h.
Proof.
  intros h. apply (run_sound NewIfRequested h false empty_engine inv_empty). left. discriminate.
Qed.

Theorem inc_equals_fresh_always : forall h,
  outputs (snd (run NewAlways empty_engine h)) = fresh_outputs [] h.
Proof.
  intros h. apply (run_sound NewAlways h false empty_engine inv_empty). left. discriminate.
Qed.

(* the same, as a statement about one more query after an arbitrary history *)
Theorem inc_equals_fresh_query : forall h m,
  let e := fst (run NewIfRequested empty_engine h) in
  canon (snd (fst (inc_eval e m))) = canon (fresh_eval (latest [] h) m).
Proof.
  intros h m e.
  assert (Hp : NewIfRequested <> NewNever \/ adds_when_clean false (srcs empty_engine) h) by (left; discriminate).
  destruct (run_sound NewIfRequested h false empty_engine inv_empty Hp) as (_ & Hl & d' & Hinv).
  fold e in Hl, Hinv. destruct (inc_eval e m) as [[e1 r] ev] eqn:Ee. simpl.
  destruct (inc_eval_sound d' e m e1 r ev Hinv Ee) as (_ & _ & _ & Hr). rewrite Hr, Hl. reflexivity.
Qed.

(* add_module as it stands (no new revision for a module defined for the first time): correct on the
   histories in which a module is only ever added while nothing is memoised in the current revision *)
Theorem inc_equals_fresh_asis_partial : forall h,
  adds_when_clean false [] h ->
  outputs (snd (run NewNever empty_engine h)) = fresh_outputs [] h.
Proof.
  intros h H. apply (run_sound NewNever h false empty_engine inv_empty). right. exact H.
Qed.

Definition inc_equals_fresh_asis_full_stmt : Prop :=
  forall h, outputs (snd (run NewNever empty_engine h)) = fresh_outputs [] h.

(* ... and stale otherwise: import a module that does not exist yet, define it, import it again *)
Theorem inc_equals_fresh_asis_refuted :
  exists h, outputs (snd (run NewNever empty_engine h)) <> fresh_outputs [] h.
Proof.
  exists [Eval 0; Edit 0 (mkSource [] KInt 1%Z); Eval 0]. vm_compute. discriminate.
Qed.

(* ------------------------------------------------------------------ evaluated at most once *)

Lemma queries_book : forall ms e e' evs, queries e ms = (e', evs) ->
  NoDup evs /\
  (forall x, In x evs -> ~ at_rev (revn e) (memt e) x) /\
  (forall x, at_rev (revn e) (memt e) x -> at_rev (revn e) (memt e') x) /\
  revn e' = revn e /\ srcs e' = srcs e.
Proof.
  induction ms as [|m ms IH]; intros e e' evs Hq; simpl in Hq.
  - inversion Hq; subst. repeat split; auto. constructor.
  - destruct (inc_eval e m) as [[e1 r] ev] eqn:Ee.
    destruct (queries e1 ms) as [e2 evs2] eqn:Eq. inversion Hq; subst e' evs. clear Hq.
    unfold inc_eval in Ee.
    destruct (inc (srcs e) (revn e) (fuel_for (srcs e)) (memt e) [] m) as [[mm r0] ev0] eqn:Ei.
    inversion Ee; subst e1 r ev. clear Ee.
    destruct (inc_book _ _ _ _ _ _ _ _ _ Ei) as (A1 & _ & A3 & A4 & _).
    destruct (IH _ _ _ Eq) as (B1 & B2 & B3 & B4 & B5). simpl in *.
    split; [|split; [|split; [|split]]].
    + apply NoDup_app_intro; [exact A3|exact B1|].
      intros x Hx1 Hx2. destruct (A4 x Hx1) as [_ Ha]. apply (B2 x Hx2). exact Ha.
    + intros x Hx. apply in_app_or in Hx. destruct Hx as [Hx|Hx].
      * destruct (A4 x Hx) as [Hn _]. exact Hn.
      * intro Hc. apply (B2 x Hx). apply A1. exact Hc.
    + intros x Hx. apply B3. apply A1. exact Hx.
    + exact B4.
    + exact B5.
Qed.

(* between two edits, any number of queries runs the body of each module at most once *)
Theorem eval_once : forall e ms, NoDup (snd (queries e ms)).
Proof.
  intros e ms. destruct (queries e ms) as [e' evs] eqn:Eq. simpl.
  apply (queries_book ms e e' evs Eq).
Qed.

(* the bodies run by [run] between two source changes: the concatenation over a block of evaluations *)
Theorem eval_once_history : forall p h ms, NoDup (snd (queries (fst (run p empty_engine h)) ms)).
Proof. intros. apply eval_once. Qed.

(* ------------------------------------------------------------------ how a cycle is named *)

Definition runs (exec : name -> bool) (ms : list name) : list name :=
  flat_map (fun m => (if exec m then [m] else []) ++ [m]) ms.

Lemma names_import_or_global : forall exec ms,
  map key_name (filter is_import_or_global (flat_map (frame exec) ms)) = runs exec ms.
Proof.
  intros exec ms. induction ms as [|m ms IH]; simpl; [reflexivity|].
  unfold frame at 1. destruct (exec m); simpl; rewrite IH; reflexivity.
Qed.

Lemma names_import : forall exec ms,
  map key_name (filter is_import (flat_map (frame exec) ms)) = filter exec ms.
Proof.
  intros exec ms. induction ms as [|m ms IH]; simpl; [reflexivity|].
  unfold frame at 1. destruct (exec m); simpl; rewrite IH; reflexivity.
Qed.

Lemma filter_app_list : forall (A : Type) (f : A -> bool) l1 l2, filter f (l1 ++ l2) = filter f l1 ++ filter f l2.
Proof. intros A f l1 l2. induction l1 as [|a l IH]; simpl; [reflexivity|]. destruct (f a); simpl; rewrite IH; reflexivity. Qed.

Lemma runs_head : forall exec r rs z, exists Y, runs exec (r :: rs) ++ [z] = r :: Y.
Proof. intros exec r rs z. unfold runs. simpl. destruct (exec r); simpl; eexists; reflexivity. Qed.

Lemma dedup_adj_cons_ne : forall a b Y, a <> b -> dedup_adj (a :: b :: Y) = a :: dedup_adj (b :: Y).
Proof. intros a b Y H. simpl. destruct (Nat.eqb a b) eqn:E; [apply Nat.eqb_eq in E; contradiction|reflexivity]. Qed.

Lemma dedup_adj_cons_eq : forall a Y, dedup_adj (a :: a :: Y) = dedup_adj (a :: Y).
Proof. intros a Y. simpl. rewrite Nat.eqb_refl. reflexivity. Qed.

Lemma dedup_runs : forall exec rs r z, NoDup (r :: rs) -> ~ In z (r :: rs) ->
  dedup_adj (runs exec (r :: rs) ++ [z]) = (r :: rs) ++ [z].
Proof.
  intros exec rs. induction rs as [|r' rs IH]; intros r z Hnd Hz.
  - assert (Hrz : r <> z) by (intro E; apply Hz; left; exact E).
    unfold runs. simpl. destruct (exec r); simpl.
    + rewrite Nat.eqb_refl. destruct (Nat.eqb r z) eqn:E; [apply Nat.eqb_eq in E; contradiction|reflexivity].
    + destruct (Nat.eqb r z) eqn:E; [apply Nat.eqb_eq in E; contradiction|reflexivity].
  - inversion Hnd as [|? ? Hnotin Hnd']; subst.
    assert (Hne : r <> r') by (intro E; apply Hnotin; left; symmetry; exact E).
    assert (Hz' : ~ In z (r' :: rs)) by (intro H; apply Hz; right; exact H).
    destruct (runs_head exec r' rs z) as [Y HY].
    assert (Hstep : dedup_adj (r :: runs exec (r' :: rs) ++ [z]) = r :: (r' :: rs) ++ [z]).
    { rewrite HY. rewrite dedup_adj_cons_ne by exact Hne. rewrite <- HY. rewrite (IH r' z Hnd' Hz'). reflexivity. }
    change (runs exec (r :: r' :: rs)) with (((if exec r then [r] else []) ++ [r]) ++ runs exec (r' :: rs)).
    destruct (exec r); simpl app.
    + rewrite dedup_adj_cons_eq. exact Hstep.
    + exact Hstep.
Qed.

Lemma last_snoc : forall (A : Type) (l : list A) z d, last (l ++ [z]) d = z.
Proof. intros A l z d. induction l as [|a l IH]; simpl; [reflexivity|]. destruct (l ++ [z]) eqn:E; [destruct l; discriminate|exact IH]. Qed.

Lemma drop_closing : forall m1 r rs,
  match m1 :: (r :: rs) ++ [m1] with
  | a :: _ :: _ => if Nat.eqb a (last (m1 :: (r :: rs) ++ [m1]) a) then removelast (m1 :: (r :: rs) ++ [m1]) else m1 :: (r :: rs) ++ [m1]
  | _ => m1 :: (r :: rs) ++ [m1]
  end = m1 :: r :: rs.
Proof.
  intros m1 r rs. cbv beta iota. change ((r :: rs) ++ [m1]) with (r :: (rs ++ [m1])). cbv beta iota.
  change (m1 :: r :: rs ++ [m1]) with ((m1 :: r :: rs) ++ [m1]).
  rewrite last_snoc, Nat.eqb_refl. apply removelast_last.
Qed.

(* the repaired report names exactly the cycle, whichever import queries were re-validated *)
Theorem report_fixed_chain : forall exec c, NoDup c -> c <> [] -> report_fixed (cycle_keys exec c) = c.
Proof.
  intros exec c Hnd Hne. destruct c as [|m1 rest]; [congruence|]. clear Hne.
  unfold report_fixed, cycle_keys. cbn [filter is_import_or_global map key_name].
  rewrite filter_app_list, map_app, names_import_or_global. cbn [filter is_import_or_global map key_name].
  inversion Hnd as [|? ? Hnotin Hnd']; subst.
  destruct rest as [|r rs].
  - simpl. rewrite Nat.eqb_refl. reflexivity.
  - assert (Hne : m1 <> r) by (intro E; apply Hnotin; left; symmetry; exact E).
    rewrite dedup_adj_cons_eq.
    destruct (runs_head exec r rs m1) as [Y HY]. rewrite HY.
    rewrite dedup_adj_cons_ne by exact Hne. rewrite <- HY.
    rewrite (dedup_runs exec rs r m1 Hnd' Hnotin).
    apply drop_closing.
Qed.

(* what the code as it stands prints: the re-validated members are missing *)
Theorem report_asis_chain : forall exec m1 rest,
  report_asis (cycle_keys exec (m1 :: rest)) = m1 :: filter exec rest.
Proof.
  intros exec m1 rest. unfold report_asis, cycle_keys. cbn [filter is_import map key_name].
  rewrite filter_app_list, map_app, names_import. cbn [filter is_import map key_name].
  change (m1 :: filter exec rest ++ [m1]) with ((m1 :: filter exec rest) ++ [m1]).
  apply removelast_last.
Qed.

Theorem report_asis_partial : forall exec m1 rest,
  (forall m, In m rest -> exec m = true) -> report_asis (cycle_keys exec (m1 :: rest)) = m1 :: rest.
Proof.
  intros exec m1 rest H. rewrite report_asis_chain. f_equal.
  induction rest as [|r rs IH]; simpl; [reflexivity|].
  rewrite (H r (or_introl eq_refl)). f_equal. apply IH. intros m Hm. apply H. right. exact Hm.
Qed.

Definition report_asis_full_stmt : Prop :=
  forall exec c, NoDup c -> c <> [] -> report_asis (cycle_keys exec c) = c.

Theorem report_asis_refuted : exists exec c, NoDup c /\ c <> [] /\ report_asis (cycle_keys exec c) <> c.
Proof.
  exists (fun _ => false), [1; 2]. split; [|split].
  - constructor; [intros [H|[]]; discriminate|constructor; [intros []|constructor]].
  - discriminate.
  - vm_compute. discriminate.
Qed.
