(* C16 — determinism: the invariance logic.  Definitions only (extracted by coq/extract/c16);
   the theorems are in RenameProofs.v.

   1. Renaming of variables in MiniGluon programs, environments and values.  The real
      implementation identifies a variable by an interned `Symbol` (base/src/symbol.rs: a
      pointer into the interner, hashed BY ADDRESS — `impl Hash for SymbolRef`), made unique by
      check/src/rename.rs.  Which symbol (address, `x:123` suffix, interning order) stands for a
      variable depends on what was compiled before and on the process; the semantics must not.
      In the model a variable is an atom [name]; "a different choice of symbols" is an injective
      renaming of atoms.  Field names and constructor tags are NOT renamed: they are observable
      (they are compared by their text / by their index, vm/src/core/mod.rs), and the tuple
      fields are the fixed atoms 0, 1, 2 ….

   2. Grouping the equations of a match by constructor or literal, as
      vm/src/core/mod.rs:1742 compile_constructor and :1879 compile_literal do:
          let mut group_order = Vec::new();  let mut groups = HashMap::new();
          for equation in equations { groups.entry(key).or_insert_with(|| { group_order.push(key); Vec::new() }).push(equation) }
          group_order.into_iter().map(|key| … &groups[key] …)
      [group_by_key] is the specification (first-occurrence order); [impl_group] is the
      implementation over a hash table whose internal order is chosen by an arbitrary oracle
      [place] (std HashMap with RandomState: different in every process and every map).

   3. The canonicaliser of types used by the ties: type variables renamed by first occurrence. *)
From Coq Require Import List ZArith NArith Bool.
From GV Require Import Lang.Syntax Lang.Eval.
Import ListNotations.

(* ------------------------------------------------------------------ 1. renaming *)
Section Rename.
  Variable s : name -> name.

  Fixpoint rename_pat (p : pat) : pat :=
    match p with
    | PWild => PWild
    | PVar x => PVar (s x)
    | PLit l => PLit l
    | PCon t ps => PCon t (map rename_pat ps)
    | PRcd fs => PRcd (map (fun lp => (fst lp, rename_pat (snd lp))) fs)
    | PTup ps => PTup (map rename_pat ps)
    | PAs x q => PAs (s x) (rename_pat q)
    end.

  Fixpoint rename_expr (e : expr) : expr :=
    match e with
    | ELit l => ELit l
    | EVar x => EVar (s x)
    | ELam xs b => ELam (map s xs) (rename_expr b)
    | EApp f args => EApp (rename_expr f) (map rename_expr args)
    | ELet p e1 e2 => ELet (rename_pat p) (rename_expr e1) (rename_expr e2)
    | ERec bs body =>
        ERec (map (fun b => (s (fst b), (map s (fst (snd b)), rename_expr (snd (snd b))))) bs)
             (rename_expr body)
    | EIf c t f => EIf (rename_expr c) (rename_expr t) (rename_expr f)
    | EPrim op a b => EPrim op (rename_expr a) (rename_expr b)
    | EAnd a b => EAnd (rename_expr a) (rename_expr b)
    | EOr a b => EOr (rename_expr a) (rename_expr b)
    | ERcd fs => ERcd (map (fun le => (fst le, rename_expr (snd le))) fs)
    | ERcdU fs base => ERcdU (map (fun le => (fst le, rename_expr (snd le))) fs) (rename_expr base)
    | EProj e' l => EProj (rename_expr e') l
    | ETup es => ETup (map rename_expr es)
    | ECon t es => ECon t (map rename_expr es)
    | EArr es => EArr (map rename_expr es)
    | EAIdx a i => EAIdx (rename_expr a) (rename_expr i)
    | EALen a => EALen (rename_expr a)
    | EMatch sc alts =>
        EMatch (rename_expr sc) (map (fun pe => (rename_pat (fst pe), rename_expr (snd pe))) alts)
    | ESeq a b => ESeq (rename_expr a) (rename_expr b)
    | EError msg => EError msg
    | EEff e' => EEff (rename_expr e')
    | EAnn e' => EAnn (rename_expr e')
    end.

  Definition rename_fields (fs : list (name * expr)) : list (name * expr) :=
    map (fun le => (fst le, rename_expr (snd le))) fs.

  Definition rename_alts (alts : list (pat * expr)) : list (pat * expr) :=
    map (fun pe => (rename_pat (fst pe), rename_expr (snd pe))) alts.

  Definition rename_recs (g : recs) : recs :=
    map (fun b => (s (fst b), (map s (fst (snd b)), rename_expr (snd (snd b))))) g.

  (* closures are renamed inside: environment, recursive group, parameters, body *)
  Fixpoint rename_value (v : value) : value :=
    match v with
    | VInt z => VInt z
    | VByte z => VByte z
    | VFloat b => VFloat b
    | VStr b => VStr b
    | VData t vs => VData t (map rename_value vs)
    | VRcd fs => VRcd (map (fun lv => (fst lv, rename_value (snd lv))) fs)
    | VArr vs => VArr (map rename_value vs)
    | VClo r g xs b =>
        VClo (map (fun xv => (s (fst xv), rename_value (snd xv))) r) (rename_recs g) (map s xs) (rename_expr b)
    | VPap f args => VPap (rename_value f) (map rename_value args)
    end.

  Definition rename_env (r : env) : env := map (fun xv => (s (fst xv), rename_value (snd xv))) r.

  Definition rename_vfields (fs : list (name * value)) : list (name * value) :=
    map (fun lv => (fst lv, rename_value (snd lv))) fs.

  (* outcomes: only a successful value can contain names *)
  Definition map_res {A B} (f : A -> B) (r : res A * log) : res B * log :=
    (match fst r with
     | Ok a => Ok (f a)
     | Fail e => Fail e
     | Stuck => Stuck
     | OutOfFuel => OutOfFuel
     end, snd r).

  Definition rename_outcome (r : res value * log) : res value * log := map_res rename_value r.
End Rename.

(* [veq s v w]: [w] is [v] with every variable name inside closures renamed by [s] *)
Definition veq (s : name -> name) (v w : value) : Prop := w = rename_value s v.

(* Values without functions: what the ties compare exactly. *)
Fixpoint first_order (v : value) : bool :=
  match v with
  | VInt _ | VByte _ | VFloat _ | VStr _ => true
  | VData _ vs => forallb first_order vs
  | VRcd fs => forallb (fun lv => first_order (snd lv)) fs
  | VArr vs => forallb first_order vs
  | VClo _ _ _ _ | VPap _ _ => false
  end.

(* The rendering the harness compares (harness/src/mg/value.rs): a function is `(fun)`. *)
Definition opaque_fun : value := VClo [] [] [] (ELit (LInt 0)).
Fixpoint shape (v : value) : value :=
  match v with
  | VInt z => VInt z
  | VByte z => VByte z
  | VFloat b => VFloat b
  | VStr b => VStr b
  | VData t vs => VData t (map shape vs)
  | VRcd fs => VRcd (map (fun lv => (fst lv, shape (snd lv))) fs)
  | VArr vs => VArr (map shape vs)
  | VClo _ _ _ _ => opaque_fun
  | VPap _ _ => opaque_fun
  end.

Definition observe (r : res value * log) : res value * log := map_res shape r.

Definition injective (s : name -> name) : Prop := forall x y, s x = s y -> x = y.

(* ------------------------------------------------------------------ 2. grouping *)
Section Group.
  Variables K A : Type.
  Variable keqb : K -> K -> bool.

  (* specification: groups in order of first occurrence, members in input order *)
  Fixpoint add_group (k : K) (a : A) (gs : list (K * list A)) : list (K * list A) :=
    match gs with
    | [] => [(k, [a])]
    | g :: gs' =>
        if keqb k (fst g) then (fst g, snd g ++ [a]) :: gs' else g :: add_group k a gs'
    end.

  Definition group_by_key (l : list (K * A)) : list (K * list A) :=
    fold_left (fun gs ka => add_group (fst ka) (snd ka) gs) l [].

  (* implementation: insertion-order vector + hash table with arbitrary internal order *)
  Definition table := list (K * list A).

  Fixpoint tget (k : K) (t : table) : option (list A) :=
    match t with
    | [] => None
    | e :: t' => if keqb k (fst e) then Some (snd e) else tget k t'
    end.

  (* push onto an existing entry; None when the key is vacant *)
  Fixpoint tpush (k : K) (a : A) (t : table) : option table :=
    match t with
    | [] => None
    | e :: t' =>
        if keqb k (fst e) then Some ((fst e, snd e ++ [a]) :: t')
        else match tpush k a t' with Some t'' => Some (e :: t'') | None => None end
    end.

  Fixpoint insert_at {X} (n : nat) (x : X) (l : list X) : list X :=
    match n, l with
    | O, _ => x :: l
    | S _, [] => [x]
    | S n', y :: l' => y :: insert_at n' x l'
    end.

  (* where a new entry lands in the table's iteration order: any function of the key and the
     current contents (hash function, random seed, capacity, addresses …) *)
  Variable place : K -> table -> nat.

  Definition gstep (st : list K * table) (ka : K * A) : list K * table :=
    match tpush (fst ka) (snd ka) (snd st) with
    | Some t' => (fst st, t')
    | None => (fst st ++ [fst ka], insert_at (place (fst ka) (snd st)) (fst ka, [snd ka]) (snd st))
    end.

  Definition tgetd (k : K) (t : table) : list A :=
    match tget k t with Some x => x | None => [] end.

  (* `group_order.into_iter().map(|key| … &groups[key])` *)
  Definition readout (order : list K) (t : table) : list (K * list A) :=
    map (fun k => (k, tgetd k t)) order.

  Definition impl_state (l : list (K * A)) : list K * table := fold_left gstep l ([], []).

  Definition impl_group (l : list (K * A)) : list (K * list A) :=
    readout (fst (impl_state l)) (snd (impl_state l)).

  (* what a compiler would produce if it iterated the map itself *)
  Definition impl_group_by_iteration (l : list (K * A)) : list (K * list A) := snd (impl_state l).
End Group.

Arguments add_group {K A}.
Arguments group_by_key {K A}.
Arguments tget {K A}.
Arguments tgetd {K A}.
Arguments tpush {K A}.
Arguments insert_at {X}.
Arguments gstep {K A}.
Arguments readout {K A}.
Arguments impl_state {K A}.
Arguments impl_group {K A}.
Arguments impl_group_by_iteration {K A}.

(* The keys of the alternatives of the compiled `match`, vm/src/core/mod.rs:1773-1830: the groups
   in first-occurrence order, then the default alternative unless every constructor of the type
   has a group ([n_ctors] = number of constructors; literals always get the default, :1908). *)
Inductive altkey := AKey (k : N) | ADefault.

Definition ctor_alt_keys (n_ctors : nat) (eqs : list (N * nat)) : list altkey :=
  let gs := group_by_key N.eqb eqs in
  map (fun g => AKey (fst g)) gs ++ (if Nat.eqb (length gs) n_ctors then [] else [ADefault]).

Definition lit_alt_keys (eqs : list (N * nat)) : list altkey :=
  map (fun g => AKey (fst g)) (group_by_key N.eqb eqs) ++ [ADefault].

(* ------------------------------------------------------------------ 3. canonical type variables *)
(* A generic type tree: variables, constants (constructors, labels), application, binders. *)
Inductive rty :=
| RVar (x : N)
| RCon (c : N)
| RApp (a b : rty)
| RAll (x : N) (b : rty).

Fixpoint rename_tyvars (f : N -> N) (t : rty) : rty :=
  match t with
  | RVar x => RVar (f x)
  | RCon c => RCon c
  | RApp a b => RApp (rename_tyvars f a) (rename_tyvars f b)
  | RAll x b => RAll (f x) (rename_tyvars f b)
  end.

(* all occurrences, left to right (a binder counts as an occurrence) *)
Fixpoint tyvars (t : rty) : list N :=
  match t with
  | RVar x => [x]
  | RCon _ => []
  | RApp a b => tyvars a ++ tyvars b
  | RAll x b => x :: tyvars b
  end.

Fixpoint memb (x : N) (l : list N) : bool :=
  match l with
  | [] => false
  | y :: l' => N.eqb x y || memb x l'
  end.

(* first occurrences, in order; [seen] accumulates in reverse *)
Fixpoint uniq_from (seen l : list N) : list N :=
  match l with
  | [] => []
  | x :: l' => if memb x seen then uniq_from seen l' else x :: uniq_from (x :: seen) l'
  end.
Definition uniq (l : list N) : list N := uniq_from [] l.

(* position of the first occurrence; [length l] when absent *)
Fixpoint index_of (x : N) (l : list N) : nat :=
  match l with
  | [] => O
  | y :: l' => if N.eqb x y then O else S (index_of x l')
  end.

Definition canon_name (t : rty) (x : N) : N := N.of_nat (index_of x (uniq (tyvars t))).

Definition canon (t : rty) : rty := rename_tyvars (canon_name t) t.

(* ------------------------------------------------------------------ 4. positions in the VM's code map *)
(* Every source text given to a VM is appended to ONE code map (src/query.rs add_module ->
   base/src/source.rs CodeMap::add_filemap): the start position of a module is the end of the
   texts added before it.  The parser names the binding of an implicit import `{ …, ? }`
   `implicit?<p>`, p = position of the `?` (parser/src/grammar.lalrpop AtomicPattern), and
   diagnostics print that name (`implicit?1072.num`).  [earlier] = lengths of the texts added to
   the VM before the module, [gap] = the separation the code map leaves between two files,
   [rel] = offset of the `?` inside the module's own text. *)
Definition codemap_start (gap : nat) (earlier : list nat) : nat :=
  fold_right (fun len acc => len + gap + acc) 1 earlier.

(* what the implementation prints: absolute position *)
Definition implicit_name_absolute (gap : nat) (earlier : list nat) (rel : nat) : nat :=
  codemap_start gap earlier + rel.

(* what a history-independent rendering prints: position inside the module *)
Definition implicit_name_relative (gap : nat) (earlier : list nat) (rel : nat) : nat := rel.
