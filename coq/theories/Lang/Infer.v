(* C03 model: Hindley-Milner inference (algorithm W) with Gluon-style rows.
   Definitions only (executable, extracted by coq/extract/c03); proofs are in InferProofs.v.

   What is modelled (file:line refer to /repo):
   * types: check/src/typecheck.rs works on `Type::{Variable, Generic, Builtin, Function, App(Array),
     Record(row), ExtendRow{fields,rest}, EmptyRow}`.  Here a record type *is* its row
     ([RNil]/[RCons]/a variable in tail position); tuples are records with fields _0,_1,... exactly as
     in Gluon (base/src/types/mod.rs `tuple`), unit `()` is the empty record.
     [TGen k] is `Type::Generic` (a quantified variable of a let-bound scheme).
   * let: every `let` is generalised, no value restriction (typecheck.rs:1920 typecheck_let_bindings,
     :2363 generalize_and_clear_subs generalise whatever is above the binding's level; confirmed:
     `let x = (\y -> y) (\z -> z) in (x 1, x "s")` is accepted).  Levels are replaced by the
     textbook "variables not free in the environment".
   * `rec let f = \x -> e`: f is monomorphic inside e (typecheck.rs:1950ff: a fresh variable is bound
     for every recursive binding before the bodies are checked).
   * row unification (check/src/unify_type.rs:467-560 and unify_rows :858): rows with the same labels
     in the same order unify pointwise; two *closed* rows must have the same labels in the same order
     ("HACK For non polymorphic records we need to care about field order"); otherwise the rows are
     matched by label, fields missing on one side are pushed into the other side's row variable.
     The model does the by-label matching one label at a time ([extract]) and - unlike
     unify_rows, which leaves the two tails unrelated - it identifies the remaining tails.  That
     difference is deliberate: it is the defect the correspondence exposes (see checks/c03.py).
     Two rows that end in the same variable but need different fields from it do not unify
     ([row_tail_is] test; without it the rewriting would not terminate).
   * occurs check: check/src/substitution.rs:380 `union` -> occurs. *)
From Coq Require Import List Arith Bool PeanoNat.
Import ListNotations.

Inductive ty :=
| TVar (n : nat)
| TGen (k : nat)
| TCon (c : nat)                 (* 0 Int, 1 String, 2 std.types.Bool *)
| TFun (a b : ty)
| TArray (a : ty)
| RNil
| RCons (l : nat) (a r : ty).

Definition tint := TCon 0.
Definition tstring := TCon 1.
Definition tbool := TCon 2.

Inductive res (A : Type) := Ok (x : A) | Fail | OutOfFuel.
Arguments Ok {A}. Arguments Fail {A}. Arguments OutOfFuel {A}.

(* ---------- substitutions ---------- *)

(* parallel substitution given by a function (used in specifications) *)
Fixpoint tsubst (f : nat -> ty) (t : ty) : ty :=
  match t with
  | TVar n => f n
  | TGen k => TGen k
  | TCon c => TCon c
  | TFun a b => TFun (tsubst f a) (tsubst f b)
  | TArray a => TArray (tsubst f a)
  | RNil => RNil
  | RCons l a r => RCons l (tsubst f a) (tsubst f r)
  end.

(* instantiation of the quantified variables of a scheme *)
Fixpoint tinst (f : nat -> ty) (t : ty) : ty :=
  match t with
  | TVar n => TVar n
  | TGen k => f k
  | TCon c => TCon c
  | TFun a b => TFun (tinst f a) (tinst f b)
  | TArray a => TArray (tinst f a)
  | RNil => RNil
  | RCons l a r => RCons l (tinst f a) (tinst f r)
  end.

Definition single (x : nat) (u : ty) : nat -> ty := fun y => if x =? y then u else TVar y.
Definition subst1 (x : nat) (u : ty) (t : ty) : ty := tsubst (single x u) t.

(* The algorithm's substitutions: association lists, applied left to right
   (the head binding first), so composition is list concatenation. *)
Definition subst := list (nat * ty).

Fixpoint apply (s : subst) (t : ty) : ty :=
  match s with
  | [] => t
  | (x, u) :: s' => apply s' (subst1 x u t)
  end.

Fixpoint occurs (x : nat) (t : ty) : bool :=
  match t with
  | TVar y => x =? y
  | TGen _ | TCon _ | RNil => false
  | TFun a b => occurs x a || occurs x b
  | TArray a => occurs x a
  | RCons _ a r => occurs x a || occurs x r
  end.

Definition subst_eqs (x : nat) (u : ty) (eqs : list (ty * ty)) : list (ty * ty) :=
  map (fun p => (subst1 x u (fst p), subst1 x u (snd p))) eqs.

(* ---------- rows ---------- *)

Fixpoint row_closed (r : ty) : bool :=
  match r with
  | RNil => true
  | RCons _ _ r' => row_closed r'
  | _ => false
  end.

Inductive extr := ExFound (a r : ty) | ExTail (b : nat) (r : ty) | ExNone.

(* [extract l d row]: bring label l to the front of [row].  [ExFound a r]: row has the field l : a
   and r is the rest; [ExTail b r]: l is not among the fields and the row ends in the variable b;
   r is the row with its tail replaced by d; [ExNone]: the row is closed and lacks l. *)
Fixpoint extract (l : nat) (d : ty) (row : ty) : extr :=
  match row with
  | RCons l' a' r' =>
      if l =? l' then ExFound a' r'
      else match extract l d r' with
           | ExFound a r'' => ExFound a (RCons l' a' r'')
           | ExTail b r'' => ExTail b (RCons l' a' r'')
           | ExNone => ExNone
           end
  | TVar b => ExTail b d
  | _ => ExNone
  end.

(* [row_tail_is b r]: the row r ends in the variable b *)
Fixpoint row_tail_is (b : nat) (r : ty) : bool :=
  match r with
  | RCons _ _ r' => row_tail_is b r'
  | TVar y => b =? y
  | _ => false
  end.

(* ---------- unification ---------- *)

(* Worklist unification; solved variables are substituted eagerly into the remaining equations,
   the answer lists the bindings in the order they were made.  [n] is the next unused variable
   (needed when a row variable has to be extended with a field). *)
Fixpoint unify (fuel n : nat) (eqs : list (ty * ty)) {struct fuel} : res (subst * nat) :=
  match fuel with
  | O => OutOfFuel
  | S fuel' =>
    match eqs with
    | [] => Ok ([], n)
    | (t1, t2) :: rest =>
      let bind (x : nat) (t : ty) :=
        if occurs x t then Fail
        else match unify fuel' n (subst_eqs x t rest) with
             | Ok (s, n') => Ok ((x, t) :: s, n')
             | Fail => Fail
             | OutOfFuel => OutOfFuel
             end in
      match t1, t2 with
      | TVar x, TVar y => if x =? y then unify fuel' n rest else bind x t2
      | TVar x, _ => bind x t2
      | _, TVar y => bind y t1
      | TGen j, TGen k => if j =? k then unify fuel' n rest else Fail
      | TCon c, TCon c' => if c =? c' then unify fuel' n rest else Fail
      | TFun a b, TFun a' b' => unify fuel' n ((a, a') :: (b, b') :: rest)
      | TArray a, TArray a' => unify fuel' n ((a, a') :: rest)
      | RNil, RNil => unify fuel' n rest
      | RCons l a r, RCons l' a' r' =>
          if l =? l' then unify fuel' n ((a, a') :: (r, r') :: rest)
          else if row_closed r && row_closed r' then Fail      (* unify_type.rs:497 *)
          else match extract l (TVar n) t2 with
               | ExFound a'' r'' => unify fuel' n ((a, a'') :: (r, r'') :: rest)
               | ExTail b r'' =>
                   (* unify_type.rs:936: the row variable b is extended by the missing field *)
                   (* the last test is the usual side condition of row unification: two rows that
                      end in the same variable and need different fields from it have no unifier
                      (without it the rewriting would go on forever) *)
                   if (b =? n) || occurs b a || row_tail_is b r then Fail
                   else let u := RCons l a (TVar n) in
                        match unify fuel' (S n) (subst_eqs b u ((r, r'') :: rest)) with
                        | Ok (s, n') => Ok ((b, u) :: s, n')
                        | Fail => Fail
                        | OutOfFuel => OutOfFuel
                        end
               | ExNone => Fail                                  (* unify_type.rs:912 MissingFields *)
               end
      | _, _ => Fail
      end
    end
  end.

(* ---------- terms ---------- *)

Inductive expr :=
| EInt                                   (* an Int literal *)
| EStr                                   (* a String literal *)
| EVar (x : nat)
| ELam (x : nat) (e : expr)              (* \x -> e *)
| EApp (e1 e2 : expr)
| ELet (x : nat) (e1 e2 : expr)          (* let x = e1 in e2 *)
| EFix (f x : nat) (e : expr)            (* rec let f = \x -> e in f *)
| EIf (c e1 e2 : expr)
| EEq (e1 e2 : expr)                     (* e1 #Int== e2 *)
| EFNil                                  (* {} / () *)
| EFCons (l : nat) (e fs : expr)         (* { l = e, fs... } *)
| EProj (e : expr) (l : nat)             (* e.l *)
| EANil                                  (* [] *)
| EACons (e es : expr).                  (* [e, es...] *)

Fixpoint is_fields (e : expr) : bool :=
  match e with
  | EFNil => true
  | EFCons _ _ fs => is_fields fs
  | _ => false
  end.

Fixpoint has_label (l : nat) (e : expr) : bool :=
  match e with
  | EFCons l' _ fs => (l =? l') || has_label l fs
  | _ => false
  end.

Fixpoint is_elems (e : expr) : bool :=
  match e with
  | EANil => true
  | EACons _ es => is_elems es
  | _ => false
  end.

(* ---------- environments, generalisation ---------- *)

(* an entry is a scheme: a type whose [TGen]s are the quantified variables *)
Definition env := list (nat * ty).

Fixpoint lookup (x : nat) (G : env) : option ty :=
  match G with
  | [] => None
  | (y, t) :: G' => if x =? y then Some t else lookup x G'
  end.

Definition apply_env (s : subst) (G : env) : env := map (fun p => (fst p, apply s (snd p))) G.

Fixpoint ftv (t : ty) : list nat :=
  match t with
  | TVar n => [n]
  | TGen _ | TCon _ | RNil => []
  | TFun a b => ftv a ++ ftv b
  | TArray a => ftv a
  | RCons _ a r => ftv a ++ ftv r
  end.

Definition ftv_env (G : env) : list nat := flat_map (fun p => ftv (snd p)) G.

Fixpoint memb (x : nat) (l : list nat) : bool :=
  match l with [] => false | y :: l' => (x =? y) || memb x l' end.

Fixpoint index_of (x : nat) (l : list nat) : option nat :=
  match l with
  | [] => None
  | y :: l' => if x =? y then Some 0 else option_map S (index_of x l')
  end.

(* the variables of t that are not free in G, in order of occurrence (repetitions are harmless:
   index_of uses the first position) *)
Definition gen_vars (G : env) (t : ty) : list nat :=
  filter (fun x => negb (memb x (ftv_env G))) (ftv t).

Definition gen_fun (gs : list nat) : nat -> ty :=
  fun x => match index_of x gs with Some i => TGen i | None => TVar x end.

Definition gen (G : env) (t : ty) : ty := tsubst (gen_fun (gen_vars G t)) t.

(* 1 + the largest TGen index, 0 if there is none *)
Fixpoint gen_bound (t : ty) : nat :=
  match t with
  | TGen k => S k
  | TVar _ | TCon _ | RNil => 0
  | TFun a b => Nat.max (gen_bound a) (gen_bound b)
  | TArray a => gen_bound a
  | RCons _ a r => Nat.max (gen_bound a) (gen_bound r)
  end.

Definition fresh_inst (n : nat) : nat -> ty := fun k => TVar (n + k).

(* ---------- algorithm W ---------- *)

Definition bind_res {A B} (r : res A) (k : A -> res B) : res B :=
  match r with Ok x => k x | Fail => Fail | OutOfFuel => OutOfFuel end.

Notation "'do' x <- r ; k" := (bind_res r (fun x => k)) (at level 200, x pattern, r at level 100, k at level 200).

(* [infer fuel G e n]: [fuel] bounds each call of [unify]; [n] is the next unused type variable.
   Result: substitution, type, next unused variable. *)
Fixpoint infer (fuel : nat) (G : env) (e : expr) (n : nat) {struct e} : res (subst * ty * nat) :=
  match e with
  | EInt => Ok ([], tint, n)
  | EStr => Ok ([], tstring, n)
  | EVar x =>
      match lookup x G with
      | Some sc => Ok ([], tinst (fresh_inst n) sc, n + gen_bound sc)
      | None => Fail
      end
  | ELam x e1 =>
      do (s, t, n1) <- infer fuel ((x, TVar n) :: G) e1 (S n);
      Ok (s, TFun (apply s (TVar n)) t, n1)
  | EApp e1 e2 =>
      do (s1, t1, n1) <- infer fuel G e1 n;
      do (s2, t2, n2) <- infer fuel (apply_env s1 G) e2 n1;
      do (u, n3) <- unify fuel (S n2) [(apply s2 t1, TFun t2 (TVar n2))];
      Ok (s1 ++ s2 ++ u, apply u (TVar n2), n3)
  | ELet x e1 e2 =>
      do (s1, t1, n1) <- infer fuel G e1 n;
      let G1 := apply_env s1 G in
      do (s2, t2, n2) <- infer fuel ((x, gen G1 t1) :: G1) e2 n1;
      Ok (s1 ++ s2, t2, n2)
  | EFix f x e1 =>
      let a := TVar n in
      let b := TVar (S n) in
      do (s, t, n1) <- infer fuel ((x, a) :: (f, TFun a b) :: G) e1 (S (S n));
      do (u, n2) <- unify fuel n1 [(apply s b, t)];
      Ok (s ++ u, apply u (apply s (TFun a b)), n2)
  | EIf c e1 e2 =>
      do (s0, t0, n0) <- infer fuel G c n;
      do (u0, m0) <- unify fuel n0 [(t0, tbool)];
      let G0 := apply_env (s0 ++ u0) G in
      do (s1, t1, n1) <- infer fuel G0 e1 m0;
      do (s2, t2, n2) <- infer fuel (apply_env s1 G0) e2 n1;
      do (u, n3) <- unify fuel n2 [(apply s2 t1, t2)];
      Ok (s0 ++ u0 ++ s1 ++ s2 ++ u, apply u t2, n3)
  | EEq e1 e2 =>
      do (s1, t1, n1) <- infer fuel G e1 n;
      do (u1, m1) <- unify fuel n1 [(t1, tint)];
      do (s2, t2, n2) <- infer fuel (apply_env (s1 ++ u1) G) e2 m1;
      do (u2, m2) <- unify fuel n2 [(t2, tint)];
      Ok (s1 ++ u1 ++ s2 ++ u2, tbool, m2)
  | EFNil => Ok ([], RNil, n)
  | EFCons l e1 fs =>
      (* typecheck.rs:1150 error_on_duplicated_field *)
      if negb (is_fields fs) || has_label l fs then Fail
      else
      do (s1, t1, n1) <- infer fuel G e1 n;
      do (s2, t2, n2) <- infer fuel (apply_env s1 G) fs n1;
      Ok (s1 ++ s2, RCons l (apply s2 t1) t2, n2)
  | EProj e1 l =>
      do (s1, t1, n1) <- infer fuel G e1 n;
      do (u, n2) <- unify fuel (S (S n1)) [(t1, RCons l (TVar n1) (TVar (S n1)))];
      Ok (s1 ++ u, apply u (TVar n1), n2)
  | EANil => Ok ([], TArray (TVar n), S n)
  | EACons e1 es =>
      if negb (is_elems es) then Fail
      else
      do (s1, t1, n1) <- infer fuel G e1 n;
      do (s2, t2, n2) <- infer fuel (apply_env s1 G) es n1;
      do (u, n3) <- unify fuel n2 [(TArray (apply s2 t1), t2)];
      Ok (s1 ++ s2 ++ u, apply u t2, n3)
  end.

(* the type of a closed program *)
Definition infer_top (fuel : nat) (e : expr) : res ty :=
  match infer fuel [] e 0 with
  | Ok (_, t, _) => Ok t
  | Fail => Fail
  | OutOfFuel => OutOfFuel
  end.

(* ---------- comparison of types: instance check, canonical form ---------- *)

Fixpoint ty_eqb (t u : ty) : bool :=
  match t, u with
  | TVar n, TVar m => n =? m
  | TGen n, TGen m => n =? m
  | TCon n, TCon m => n =? m
  | TFun a b, TFun a' b' => ty_eqb a a' && ty_eqb b b'
  | TArray a, TArray a' => ty_eqb a a'
  | RNil, RNil => true
  | RCons l a r, RCons l' a' r' => (l =? l') && ty_eqb a a' && ty_eqb r r'
  | _, _ => false
  end.

Fixpoint mlookup (x : nat) (m : subst) : option ty :=
  match m with
  | [] => None
  | (y, t) :: m' => if x =? y then Some t else mlookup x m'
  end.

(* One-way matching: find m with (pattern under m) = target, rows matched by label
   (structural recursion on the pattern). *)
Fixpoint tmatch (p t : ty) (m : subst) {struct p} : option subst :=
  match p with
  | TVar x =>
      match mlookup x m with
      | Some u => if ty_eqb u t then Some m else None
      | None => Some ((x, t) :: m)
      end
  | TGen k => match t with TGen k' => if k =? k' then Some m else None | _ => None end
  | TCon c => match t with TCon c' => if c =? c' then Some m else None | _ => None end
  | TFun a b =>
      match t with
      | TFun a' b' => match tmatch a a' m with Some m1 => tmatch b b' m1 | None => None end
      | _ => None
      end
  | TArray a => match t with TArray a' => tmatch a a' m | _ => None end
  | RNil => match t with RNil => Some m | _ => None end
  | RCons l a r =>
      match extract l RNil t with
      | ExFound a' r' => match tmatch a a' m with Some m1 => tmatch r r' m1 | None => None end
      | _ => None
      end
  end.

Definition msubst (m : subst) : nat -> ty :=
  fun x => match mlookup x m with Some u => u | None => TVar x end.

(* [instance_of g t]: t is a substitution instance of g (up to the order of record fields) *)
Definition instance_of (g t : ty) : bool :=
  match tmatch g t [] with Some _ => true | None => false end.

Definition alpha_eq (t u : ty) : bool := instance_of t u && instance_of u t.

(* Canonical form for printing: fields of every row sorted by label (insertion sort, stable),
   then variables renamed in order of first occurrence. *)
Fixpoint row_insert (l : nat) (a : ty) (r : ty) : ty :=
  match r with
  | RCons l' a' r' => if l' <? l then RCons l' a' (row_insert l a r') else RCons l a r
  | _ => RCons l a r
  end.

Fixpoint sort_rows (t : ty) : ty :=
  match t with
  | TFun a b => TFun (sort_rows a) (sort_rows b)
  | TArray a => TArray (sort_rows a)
  | RCons l a r => row_insert l (sort_rows a) (sort_rows r)
  | _ => t
  end.

Fixpoint dedup (seen l : list nat) : list nat :=
  match l with
  | [] => []
  | x :: l' => if memb x seen then dedup seen l' else x :: dedup (x :: seen) l'
  end.

Definition rename_fun (vs : list nat) : nat -> ty :=
  fun x => match index_of x vs with Some i => TVar i | None => TVar x end.

Definition canon (t : ty) : ty :=
  let t' := sort_rows t in tsubst (rename_fun (dedup [] (ftv t'))) t'.

(* ---------- declarative typing ---------- *)

(* Equality of types up to the order of record fields. *)
Inductive teq : ty -> ty -> Prop :=
| teq_refl t : teq t t
| teq_sym t u : teq t u -> teq u t
| teq_trans t u v : teq t u -> teq u v -> teq t v
| teq_fun a a' b b' : teq a a' -> teq b b' -> teq (TFun a b) (TFun a' b')
| teq_array a a' : teq a a' -> teq (TArray a) (TArray a')
| teq_cons l a a' r r' : teq a a' -> teq r r' -> teq (RCons l a r) (RCons l a' r')
| teq_swap l l' a a' r : l <> l' -> teq (RCons l a (RCons l' a' r)) (RCons l' a' (RCons l a r)).

(* Declarative environments bind a variable either to a type (lambda-bound) or to the
   expression of its `let` (let-bound).  A let-bound variable has every type its definition has in
   the environment of the definition, which is the rest of the list: this is the Hindley-Milner
   let rule in its "re-type the definition at every use" form, equivalent to generalisation and
   free of type schemes. *)
Inductive dbind := DMono (t : ty) | DPoly (e : expr).
Definition denv := list (nat * dbind).

(* [cv = true]: record types are equal up to field order (rule T_Conv);
   [cv = false]: types are compared syntactically, a projection reads the first field of the row. *)
Inductive has_type_gen (cv : bool) : denv -> expr -> ty -> Prop :=
| T_Int D : has_type_gen cv D EInt tint
| T_Str D : has_type_gen cv D EStr tstring
| T_VarMono D x t : has_type_gen cv ((x, DMono t) :: D) (EVar x) t
| T_VarPoly D x e t : has_type_gen cv D e t -> has_type_gen cv ((x, DPoly e) :: D) (EVar x) t
| T_VarSkip D x y b t : x <> y -> has_type_gen cv D (EVar x) t -> has_type_gen cv ((y, b) :: D) (EVar x) t
| T_Lam D x e a b : has_type_gen cv ((x, DMono a) :: D) e b -> has_type_gen cv D (ELam x e) (TFun a b)
| T_App D e1 e2 a b : has_type_gen cv D e1 (TFun a b) -> has_type_gen cv D e2 a -> has_type_gen cv D (EApp e1 e2) b
| T_Let D x e1 e2 t1 t2 :
    has_type_gen cv D e1 t1 -> has_type_gen cv ((x, DPoly e1) :: D) e2 t2 -> has_type_gen cv D (ELet x e1 e2) t2
| T_Fix D f x e a b :
    has_type_gen cv ((x, DMono a) :: (f, DMono (TFun a b)) :: D) e b -> has_type_gen cv D (EFix f x e) (TFun a b)
| T_If D c e1 e2 t :
    has_type_gen cv D c tbool -> has_type_gen cv D e1 t -> has_type_gen cv D e2 t -> has_type_gen cv D (EIf c e1 e2) t
| T_Eq D e1 e2 : has_type_gen cv D e1 tint -> has_type_gen cv D e2 tint -> has_type_gen cv D (EEq e1 e2) tbool
| T_FNil D : has_type_gen cv D EFNil RNil
| T_FCons D l e fs t r :
    is_fields fs = true -> has_label l fs = false ->
    has_type_gen cv D e t -> has_type_gen cv D fs r -> has_type_gen cv D (EFCons l e fs) (RCons l t r)
| T_Proj D e l t r : has_type_gen cv D e (RCons l t r) -> has_type_gen cv D (EProj e l) t
| T_ANil D t : has_type_gen cv D EANil (TArray t)
| T_ACons D e es t :
    is_elems es = true ->
    has_type_gen cv D e t -> has_type_gen cv D es (TArray t) -> has_type_gen cv D (EACons e es) (TArray t)
| T_Conv D e t t' : cv = true -> teq t t' -> has_type_gen cv D e t -> has_type_gen cv D e t'.

Definition has_type := has_type_gen true.
Definition has_type_syn := has_type_gen false.
